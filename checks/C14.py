"""C14 - text-format string escaping is injective and exactly undone by the parsers.
Spec: Escaping.tla.  A-layer: the documented OPL pass-through interval table and %hex% form, the XML entity table,
the structural character sets, UTF-8 as a function, cut-off/invalid as a segmentation by lead byte.  I-layer: the
code's loops (strlen, utf8_sequence_length, length check, next_utf8_codepoint masks, nibble-wise hex output,
opl_parse_string / opl_parse_escaped, append_codepoint_as_utf8, the XML byte loop) and expat as an environment.
TLC checks I => A, round trip, no structural character, injectivity (image set as large as the domain), no over-read,
exception <=> cut-off, and that the exported table is uniform over all 1.1 million code points.
Binding: replay.  TLC exports (i) the interval table, (ii) every behaviour over the structural alphabets / interval
bounds (+ simulated long strings), (iii) the ok/exception verdict per sequence-length class string.
harness/escape_replay.cpp pushes every scalar value through the real functions against (i), replays (ii) call by call
and end to end through the OPL/XML writers, and sweeps byte strings of length 1-4 under ASan against (iii)."""
import json
import os
import threading
from concurrent.futures import ThreadPoolExecutor

import vlib

LEVEL = "model_checking"

STEPS = ["opl-escape", "opl-structural", "opl-parse", "e2e-opl", "xml-escape", "xml-structural", "xml-parse", "e2e-xml"]
FNS = ["append_utf8_encoded_string", "append_debug_encoded_string", "append_xml_encoded_string"]
STR_ACTIONS = ["AppendCp", "EscBegin", "EscPass", "EscHex", "EscEnd", "ParseStop", "ParseLiteral", "ParseEscOpen",
               "ParseEscDigit", "ParseEscClose", "XmlStep", "XmlEnd", "XRef", "XLiteral", "XReject", "XEnd"]
BYTE_ACTIONS = ["AppendByte", "EscBegin", "EscInvalid", "EscIncomplete", "EscPass", "EscHex", "EscEnd", "XmlStep", "XmlEnd"]
# both ends of every sequence-length class, '%' and a letter: every string over these is always swept completely
BOUNDARY_BYTES = [1, 0x25, 0x41, 0x7f, 0x80, 0xbf, 0xc0, 0xdf, 0xe0, 0xef, 0xf0, 0xf7, 0xf8, 0xff]


def cpn(c):
    return "U+%04X" % c


# --------------------------------------------------------------------------- TLC

def tlc_jobs(ctx):
    """(label, kwargs for vlib.tlc, required actions or None).  Every Gen* run is design check and export at once:
    it carries all invariants of the spec plus the Export invariant."""
    quick = ctx.tier == "quick"
    w = 2 if quick else 4
    n = 3 if quick else 4
    jobs = [
        ("static theorems: injective / inverse / well-formed / code = table over the OPL and XML structural alphabets to "
         "length %d and over the interval bounds +-1 to length 2; sequence-length classes for all 255 bytes; rows uniform "
         "over U+0001..U+10FFFF; export of the table" % n,
         dict(module="Escaping", cfg="GenEscapingTable%d.cfg" % n, workers=1), None),
        ("all strings to length %d over the OPL structural alphabet" % n,
         dict(module="Escaping", cfg="GenEscapingOpl%d.cfg" % n, workers=3 if quick else 8), None),
        ("all strings to length %d over the XML structural alphabet" % n,
         dict(module="Escaping", cfg="GenEscapingXml%d.cfg" % n, workers=3 if quick else 8), None),
        ("interval bounds +-1, all suffixes, length 1 (with action coverage)",
         dict(module="Escaping", cfg="GenEscapingBounds1.cfg", workers=w, coverage=True), STR_ACTIONS),
        ("byte strings to length 4 over one representative per lead-byte class: verdict export (with action coverage)",
         dict(module="Escaping", cfg="GenEscapingBytes.cfg", workers=w, coverage=True), BYTE_ACTIONS),
        ("simulated long strings (<= 24 code points) over the wide alphabet",
         dict(module="Escaping", cfg="GenEscapingSim.cfg", workers=2, simulate=150 if quick else 5000, depth=900,
              seed=ctx.seed, deadlock=False), None),
    ]
    if not quick:
        jobs.append(("interval bounds +-1, length 2",
                     dict(module="Escaping", cfg="GenEscapingBounds2.cfg", workers=4), None))
        jobs.append(("byte strings to length 4 over both ends of every lead-byte class",
                     dict(module="Escaping", cfg="MCEscapingBytes4.cfg", workers=4, coverage=True), BYTE_ACTIONS))
    return jobs


def run_tlc(ctx):
    jobs = tlc_jobs(ctx)
    results = {}

    def one(j):
        label, kw, req = j
        r = vlib.tlc(timeout=1500, tag="C14_" + kw["cfg"].replace(".cfg", ""), **kw)
        return label, kw, req, r

    # the TLC runs are independent; VERIF_TLC_JOBS limits how many JVMs are alive at once (shared machine)
    par = int(os.environ.get("VERIF_TLC_JOBS", "0") or "0") or (6 if ctx.tier == "quick" else 4)
    with ThreadPoolExecutor(max_workers=par) as ex:
        for label, kw, req, r in ex.map(one, jobs):
            vlib.tlc_ok(r, label)
            if req:
                vlib.require_actions(r, req, label)
            ctx.add_tlc(r, label, constants={"cfg": kw["cfg"]})
            results[kw["cfg"]] = r
            vlib.log("[tlc] %-28s %8d states %6d cases %5.1fs" % (kw["cfg"], r.distinct or r.generated, len(r.cases), r.wall))
    return results


# --------------------------------------------------------------------------- case compilation

def compile_cases(ctx, results):
    quick = ctx.tier == "quick"
    cases = []
    # ---- (i) the table
    tabs = [c for c in results["GenEscapingTable%d.cfg" % (3 if quick else 4)].cases if c.get("kind") == "table"]
    if len(tabs) != 1:
        raise vlib.ModelFailure("expected exactly one exported table, got %d" % len(tabs))
    tab = tabs[0]
    rows = sorted(tab["rows"], key=lambda r: r["lo"])
    if rows[0]["lo"] != 1 or rows[-1]["hi"] != 0x10FFFF or any(a["hi"] + 1 != b["lo"] for a, b in zip(rows, rows[1:])):
        raise vlib.ModelFailure("exported rows do not partition U+0001..U+10FFFF")
    small = {k: tab[k] for k in ("oplsep", "percent", "xmlstruct", "entities")}
    chunk = 16384
    nsc = 0
    for r in rows:
        if not r["attr"]["scalar"]:
            continue
        lo = r["lo"]
        while lo <= r["hi"]:
            hi = min(r["hi"], lo + chunk - 1)
            cases.append({"id": "sweep-%06X-%06X" % (lo, hi), "kind": "sweep", "lo": lo, "hi": hi, "attr": r["attr"], "table": small})
            nsc += hi - lo + 1
            lo = hi + 1
    ctx.extra["table_rows"] = len(rows)
    ctx.extra["scalars_swept"] = nsc

    # ---- (ii) exported behaviours
    def add_str(cfg, tag, check_count):
        cs = [c for c in results[cfg].cases if c.get("kind") == "str"]
        if check_count:
            alph = set(x for c in cs for x in c["cps"])
            sfx = set(c["suffix"] for c in cs)
            maxlen = max(len(c["cps"]) for c in cs)
            want = sum(len(alph) ** k for k in range(maxlen + 1)) * len(sfx)
            if len(cs) != want:
                raise vlib.ModelFailure("%s: %d terminal states exported, %d strings x suffixes expected - some behaviour of the "
                                        "spec does not reach 'done'" % (cfg, len(cs), want))
        seen = set()
        for c in cs:
            key = json.dumps([c["cps"], c["suffix"]])
            if key in seen:
                continue
            seen.add(key)
            cases.append(dict(c, id="%s-%d" % (tag, len(seen)), e2e=True))
        return len(seen)

    n = {}
    n["bounds1"] = add_str("GenEscapingBounds1.cfg", "b1", True)
    n["opl"] = add_str("GenEscapingOpl%d.cfg" % (3 if quick else 4), "opl", True)
    n["xml"] = add_str("GenEscapingXml%d.cfg" % (3 if quick else 4), "xml", True)
    n["sim"] = add_str("GenEscapingSim.cfg", "sim", False)
    if not quick:
        n["bounds2"] = add_str("GenEscapingBounds2.cfg", "b2", True)
    ctx.extra["string_cases"] = n

    # ---- (iii) verdict per sequence-length class string
    verdicts = {}
    for c in results["GenEscapingBytes.cfg"].cases:
        if c.get("kind") != "bytes":
            continue
        k = "".join(str(x) for x in c["lens"])
        v = "ok" if c["status"] == "ok" else "throws"
        if verdicts.setdefault(k, v) != v:
            raise vlib.ModelFailure("spec verdict is not a function of the sequence-length classes: %s" % k)
    want = sum(5 ** k for k in range(0, 5))
    if len(verdicts) != want:
        raise vlib.ModelFailure("verdict table has %d class strings, expected %d" % (len(verdicts), want))
    ctx.extra["verdict_class_strings"] = len(verdicts)
    bt = {"seqlen": tab["seqlen"], "verdicts": verdicts}
    plan = []   # (len, stride, slices)
    if quick:
        plan = [(1, 1, 1), (2, 1, 1), (3, 61, 4), (4, 4093, 8)]
    else:
        plan = [(1, 1, 1), (2, 1, 1), (3, 1, 16), (4, 61, 64)]
    strings = 0
    for ln, stride, slices in plan:
        step = (255 + slices - 1) // slices
        lo = 1
        while lo <= 255:
            hi = min(255, lo + step - 1)
            cases.append(dict(bt, id="bytes-%d-%02X-%02X" % (ln, lo, hi), kind="bytes", len=ln, b0lo=lo, b0hi=hi,
                              stride=stride, offset=ctx.seed % stride))
            strings += ((hi - lo + 1) * 255 ** (ln - 1) + stride - 1) // stride
            lo = hi + 1
    for ln in (1, 2, 3, 4):
        cases.append(dict(bt, id="bytes-boundary-%d" % ln, kind="bytes", len=ln, b0lo=1, b0hi=255, stride=1, offset=0,
                          values=BOUNDARY_BYTES))
        strings += len(BOUNDARY_BYTES) ** ln
    ctx.extra["byte_strings_swept"] = strings
    ctx.extra["byte_sweep_plan"] = [{"len": a, "stride": b} for a, b, _ in plan]
    return cases


# --------------------------------------------------------------------------- replay

def sig_of(c, r):
    k = r.get("step", -1)
    note = r.get("note", "") or ""
    if "crash" in r:
        what = "crash=%s" % r["crash"]
    elif c["kind"] == "bytes":
        what = FNS[k] if isinstance(k, int) and 0 <= k < len(FNS) else "step%s" % k
    else:
        what = STEPS[k] if isinstance(k, int) and 0 <= k < len(STEPS) else "step%s" % k
    rej = ""
    if isinstance(r.get("got"), dict) and "rejected" in r["got"]:
        rej = " rejected"
    if c["kind"] == "str":
        return "str %s cps=[%s] suffix=%r xmlchar=%s%s" % (what, ",".join(cpn(x) for x in c["cps"]), c["suffix"],
                                                           str(c["xmlchar"]).lower(), rej)
    if c["kind"] == "sweep":
        first = ""
        for tok in note.split():
            if tok.startswith("first="):
                first = " " + tok
        return "sweep %s rows=[%s-%s]%s xmlchar=%s%s" % (what, cpn(c["lo"]), cpn(c["hi"]), first,
                                                         str(c["attr"]["xmlchar"]).lower(), rej)
    first = ""
    for tok in note.split():
        if tok.startswith("first="):
            first = " " + tok
    return "bytes %s len=%d b0=[%02X-%02X]%s" % (what, c["len"], c["b0lo"], c["b0hi"], first)


def run_cases(ctx, cases, binary=None):
    binary = binary or vlib.build("escape_replay", "escape_replay.cpp")
    # long running sweeps first so that the shards are balanced
    order = sorted(cases, key=lambda c: 0 if c["kind"] == "bytes" else (1 if c["kind"] == "sweep" else 2))
    res = vlib.replay_cases(binary, order, timeout=3000)
    byid = {c["id"]: c for c in cases}
    if len(res) != len(cases):
        raise vlib.ModelFailure("replay returned %d results for %d cases" % (len(res), len(cases)))
    for r in res:
        if r.get("ok"):
            continue
        c = byid[r["id"]]
        note = r.get("note", "") or ""
        if "MACHINERY" in note:
            raise vlib.ModelFailure("harness: %s (case %s)" % (note, c["id"]))
        if "crash" in r:
            what = "real code %s at step %s of %s: %s" % (r["crash"], r.get("step"), c["id"], r.get("stderr", "")[:700])
        else:
            what = "differs from the spec at step %s (%s): exp=%s got=%s" % (
                r.get("step"), note[:300], json.dumps(r.get("exp"))[:300], json.dumps(r.get("got"))[:300])
        sig = sig_of(c, r)
        ctx.violation(sig, {"case": c, "result": r}, sig + ": " + what)
    return res


def run(ctx):
    box = {}

    def bg_build():
        try:
            box["bin"] = vlib.build("escape_replay", "escape_replay.cpp")
        except Exception as ex:   # re-raised in the main thread
            box["err"] = ex

    th = threading.Thread(target=bg_build)
    th.start()
    try:
        results = run_tlc(ctx)
        cases = compile_cases(ctx, results)
    finally:
        th.join()
    if "err" in box:
        raise box["err"]
    run_cases(ctx, cases, box["bin"])

    nstr = sum(1 for c in cases if c["kind"] == "str")
    ctx.traces = len(cases)
    ctx.evaluations = nstr * 6 + ctx.extra["scalars_swept"] * 10 + ctx.extra["byte_strings_swept"] * 3
    ctx.nontrivial = nstr + ctx.extra["scalars_swept"] + ctx.extra["verdict_class_strings"]
    ctx.rule = ("a case = one exported behaviour (string, suffix) | one slice of a row of the exported table | one slice of the "
                "byte strings of one length; distinct = distinct strings + scalar values + sequence-length class strings; "
                "evaluations = compared calls (6 per string case, 10 per scalar value: escape/structure/5 parser contexts/"
                "XML escape/structure/expat, 3 functions per byte string)")
    kinds = set()
    for c in cases:
        if c["kind"] not in kinds or (c["kind"] == "str" and len(c["cps"]) >= 3 and "str3" not in kinds):
            kinds.add(c["kind"])
            if c["kind"] == "str" and len(c["cps"]) >= 3:
                kinds.add("str3")
            d = {k: c[k] for k in c if k not in ("id", "table", "verdicts", "seqlen")}
            ctx.sample(d)
    ctx.extra["exhaustive_scope"] = {"scalar_values": "all of U+0001..U+10FFFF without surrogates",
                      "strings": "all strings to length %d over the OPL and the XML structural alphabet" % (3 if ctx.tier == "quick" else 4),
                      "byte_strings": "lengths 1-2 all; length 3 %s; length 4 strided; all strings over the 14 class-boundary bytes"
                                      % ("strided" if ctx.tier == "quick" else "all")}
    ctx.assumptions = [
        "byte strings of length 4 (and 3 in the quick tier) are swept with a prime stride, not all 2^32: most of them make the "
        "escaper throw and a C++ throw under ASan costs microseconds; the spec shows the verdict depends only on the "
        "sequence-length class of each byte (SeqLenAgree over all 255 bytes, two representatives per class) and every "
        "string over the class-boundary bytes is swept in full",
        "expat 2.5 stands for 'the XML parser'; its contract is modelled in the spec as the XML 1.0 attribute-value rules",
        "code points U+0001-8, B, C, E-1F, FFFE, FFFF cannot be carried by XML 1.0: the spec names them (XmlUnrepresentable), "
        "the round trip fails on them in the real code and is reported as known finding F14b",
        "injectivity is decided on the spec (image set as large as the domain) and follows on the code from the exact round trip",
    ]


def replay(ctx, path):
    with open(path) as fh:
        d = json.load(fh)
    c = d["case"]["case"]
    run_cases(ctx, [c])
    ctx.traces = 1
    ctx.evaluations = 6
    ctx.nontrivial = 2
    ctx.states = ctx.transitions = 1
    ctx.sample({k: c[k] for k in c if k not in ("id", "table", "verdicts", "seqlen")})


def selftest(ctx):
    """The spec with the hex output as originally shipped (every upper nibble tested on its own) must be refuted by TLC."""
    r = vlib.tlc("Escaping", "MCEscapingAsShipped.cfg", workers=2, timeout=600)
    if r.violation and "EscapeMatchesA" in r.violation:
        vlib.log("selftest ok: TLC refutes the as-shipped hex output (EscapeMatchesA violated for U+10FFFF)")
        return 0
    vlib.log("selftest FAILED: %s" % (r.violation or r.error or "no violation found"))
    return 2
