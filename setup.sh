#!/bin/sh
# Offline setup: verify the tool chain; nothing is downloaded.  Harness binaries are built on demand
# by ./check from /repo's current working tree (cache under /verif/build).
set -e
cd "$(dirname "$0")"
command -v java >/dev/null
test -f /opt/veriftools/tla/tla2tools.jar
command -v g++ >/dev/null
test -f /usr/include/nlohmann/json.hpp
mkdir -p build evidence/replays
python3 tools/mkmanifest.py >/dev/null
echo "setup ok"
