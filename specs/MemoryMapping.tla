--------------------------- MODULE MemoryMapping ----------------------------
(* C12 (extension, layer below the index vectors): osmium::util::MemoryMapping, AnonymousMemoryMapping and
   TypedMemoryMapping<T> (include/osmium/util/memory_mapping.hpp) with osmium::util::file_size / resize_file
   (include/osmium/util/file.hpp).  The dense/sparse mmap and file based indexes keep their slots in such a mapping.

   A-layer (the mathematical object): a WINDOW of `alen` bytes at offset `aoff` onto a byte array that reads zero
   wherever nothing was written.  For a file the array is the file (`abase`, `abaselen` bytes); it is only ever
   extended, with zeros, to exactly offset + length of a window that does not fit ("If the file backing a file-backed
   mapping is not large enough, it will be resized"); a shared window writes through, a private window keeps its
   changes to itself, a readonly window cannot be written.  An anonymous window has an array of its own.
     * resize keeps every byte of the common prefix (Preserved), newly exposed bytes read as the array has them:
       zero unless they had been written before.  For an ANONYMOUS window bytes that were written and then cut off by a
       shrink are UNSPECIFIED when a later resize exposes them again (the kernel keeps whole pages), all other newly
       exposed bytes are zero.
     * named deviation kept in the A-layer (PrivateFileResizeDropsChanges): resizing a write_private window onto a FILE
       discards the private changes - the implementation unmaps and maps the file again; nothing in the documentation
       promises more, no index uses this combination.
     * after unmap() (or a failed resize of a file window) there is no window: operator bool is false, nothing may be
       accessed; unmap() twice and the destructor after unmap() do nothing.
     * errors (std::system_error) exactly when: the descriptor is not a file descriptor (file_size fails); a file
       window does not fit and the descriptor is not writable (resize_file fails); the byte offset is not a multiple of
       the page size; a write_shared window on a descriptor that is not writable (mmap fails).
     * a window of 0 elements is one page long (check_size).
   TypedMemoryMapping<T>: sizes and offsets count elements of esz bytes: window length = esz * n, offset = esz * off,
   size() = length / esz, end() - begin() = size().

   I-layer: the system calls the implementation makes, with their page granularity: fstat / ftruncate (`fsize`,
   `fcont`), mmap / munmap / mremap (`vma` = length of the mapped region, a multiple of the page size; `mem` = the
   bytes of the anonymous pages or the copy-on-write bytes of a private file window), reading a file page beyond the
   end of the file = SIGBUS.  One action per API call; the steps inside a call are sequential (no other actor).

   Byte values: 0 = never written; k = the k-th write of the history; Init9 = what the file held before. *)
EXTENDS Integers, Sequences, FiniteSets, TLC, Json

CONSTANTS P,          \* page size
          Sizes,      \* sizes (in elements) tried by constructors and resize()
          Offs,       \* offsets (in elements) tried by the file constructors
          ESizes,     \* sizeof(T): 1 = MemoryMapping itself
          WPos,       \* byte positions (relative to the window) at which histories write
          F0s,        \* sizes of the file before the first window
          FdKinds,    \* subset of {"anon", "rw", "ro", "bad"}
          MaxOps, MaxWrites, MaxObjs,
          ExportHist

VARIABLES
  \* descriptor and file (I-layer: what fstat / pread see)
  fdk, fsize, fcont,
  \* the object (I-layer)
  obj,        \* an object exists
  valid,      \* m_addr != MAP_FAILED
  msize, off, mode, esz,
  vma,        \* bytes of address space mapped for the object (page multiple), 0 = none
  mem,        \* anonymous pages / private copy-on-write bytes: position -> value
  ierr,       \* the last call threw std::system_error
  \* A-layer
  awin, alen, aoff, abase, abaselen, aown, aerr,
  \* bookkeeping
  nops, nwrites, nobjs, done, hist

ivars == <<fdk, fsize, fcont, obj, valid, msize, off, mode, esz, vma, mem, ierr>>
avars == <<awin, alen, aoff, abase, abaselen, aown, aerr>>
vars == <<fdk, fsize, fcont, obj, valid, msize, off, mode, esz, vma, mem, ierr,
          awin, alen, aoff, abase, abaselen, aown, aerr, nops, nwrites, nobjs, done, hist>>

Init9 == 9
Unspec == -1
Max2(a, b) == IF a > b THEN a ELSE b
PageCeil(n) == ((n + P - 1) \div P) * P
IsFile == fdk \in {"rw", "ro"}
Below(f, n) == LET d == {p \in DOMAIN f : p < n} IN [p \in d |-> f[p]]
RECURSIVE Asc(_, _)
Asc(T, acc) == IF T = {} THEN acc ELSE LET m == CHOOSE x \in T : \A y \in T : x <= y IN Asc(T \ {m}, Append(acc, m))

\* ---------------------------------------------------------------- what can be read
(* I-layer: a load from window position p.  "SIGBUS" must never be the answer for an addressed byte. *)
IRead(p) == IF fdk = "anon" THEN (IF p \in DOMAIN mem THEN mem[p] ELSE 0)
            ELSE IF mode = "private" /\ p \in DOMAIN mem THEN mem[p]
            ELSE IF PageCeil(fsize) <= off + p THEN "SIGBUS"
            ELSE IF off + p >= fsize THEN 0                                  \* rest of the last file page
            ELSE IF off + p \in DOMAIN fcont THEN fcont[off + p] ELSE 0
(* A-layer: the byte the window shows *)
ViewAt(own, base, boff, p) == IF p \in DOMAIN own THEN own[p]
                              ELSE IF boff + p \in DOMAIN base THEN base[boff + p] ELSE 0
AView(p) == ViewAt(aown, abase, aoff, p)
(* every window position at which either layer holds something, and the positions histories write at *)
Relevant == WPos \cup DOMAIN aown \cup DOMAIN mem \cup {q - off : q \in DOMAIN abase \cup DOMAIN fcont}

\* ---------------------------------------------------------------- history
(* cells: the bytes of the window that are neither zero nor unspecified; every other byte of the window is zero or
   listed in unspec.  fcells: the bytes of the file that are not zero. *)
CellsOf(own, base, boff, len) ==
    LET ps == Asc({p \in DOMAIN own \cup {q - boff : q \in DOMAIN base} :
                      p >= 0 /\ p < len /\ ViewAt(own, base, boff, p) \notin {0, Unspec}}, <<>>)
    IN [i \in 1..Len(ps) |-> <<ps[i], ViewAt(own, base, boff, ps[i])>>]
Rec(a, n, o, m, p) ==
    /\ nops' = nops + 1
    /\ hist' = IF ExportHist
               THEN Append(hist, [a |-> a, n |-> n, off |-> o, mode |-> m, p |-> p, esz |-> esz', fdk |-> fdk,
                                  err |-> aerr', win |-> awin', len |-> alen', elems |-> alen' \div esz',
                                  fsize |-> abaselen', fchk |-> ~aerr',
                                  cells |-> IF awin' THEN CellsOf(aown', abase', aoff', alen') ELSE <<>>,
                                  unspec |-> IF awin' THEN Asc({q \in DOMAIN aown' : q < alen' /\ aown'[q] = Unspec}, <<>>) ELSE <<>>,
                                  fcells |-> LET ps == Asc(DOMAIN abase', <<>>) IN [i \in 1..Len(ps) |-> <<ps[i], abase'[ps[i]]>>]])
               ELSE hist

\* ---------------------------------------------------------------- Init: a descriptor, possibly a file with content
Init == /\ fdk \in FdKinds
        /\ fsize \in (IF fdk \in {"rw", "ro"} THEN F0s ELSE {0})
        /\ fcont = IF fsize > 0 THEN (fsize - 1) :> Init9 ELSE <<>>
        /\ obj = FALSE /\ valid = FALSE /\ msize = 0 /\ off = 0 /\ mode = "private" /\ esz = 1 /\ vma = 0 /\ mem = <<>>
        /\ ierr = FALSE
        /\ awin = FALSE /\ alen = 0 /\ aoff = 0 /\ abase = fcont /\ abaselen = fsize /\ aown = <<>> /\ aerr = FALSE
        /\ nops = 0 /\ nwrites = 0 /\ nobjs = 0 /\ done = FALSE
        /\ hist = IF ExportHist
                  THEN <<[a |-> "file", n |-> 0, off |-> 0, mode |-> "private", p |-> 0, esz |-> 1, fdk |-> fdk,
                          err |-> FALSE, win |-> FALSE, len |-> 0, elems |-> 0, fsize |-> fsize, fchk |-> TRUE,
                          cells |-> <<>>, unspec |-> <<>>,
                          fcells |-> IF fsize > 0 THEN <<(<<fsize - 1, Init9>>)>> ELSE <<>>]>>
                  ELSE <<>>

Bytes(e, n) == IF n = 0 THEN P ELSE e * n              \* check_size(): zero-sized mapping -> one page

\* ---------------------------------------------------------------- constructor
(* A: does the window come into being, and what does the array look like afterwards *)
ACtorFails(bytes, boff, m) ==
    \/ fdk = "bad"
    \/ IsFile /\ boff % P # 0
    \/ fdk = "ro" /\ (m = "shared" \/ abaselen < boff + bytes)
ACtor(bytes, boff, m) ==
    IF ACtorFails(bytes, boff, m)
    THEN /\ aerr' = TRUE /\ awin' = FALSE /\ alen' = 0 /\ aoff' = 0 /\ aown' = <<>> /\ abase' = abase
         (* whether a file was already extended when the mapping is refused is not specified (fchk = FALSE: the
            harness does not compare the file size after a failed call but sets it to this value) *)
         /\ abaselen' = IF fdk = "rw" THEN Max2(abaselen, boff + bytes) ELSE abaselen
    ELSE /\ aerr' = FALSE /\ awin' = TRUE /\ alen' = bytes /\ aoff' = boff /\ aown' = <<>> /\ abase' = abase
         /\ abaselen' = IF IsFile THEN Max2(abaselen, boff + bytes) ELSE abaselen

(* I: m_size(check_size(size)), m_offset(offset), m_fd(resize_fd(fd)), m_addr(mmap(...)) *)
ICtor(e, bytes, boff, m) ==
    IF fdk = "anon"
    THEN /\ obj' = TRUE /\ valid' = TRUE /\ msize' = bytes /\ off' = 0 /\ mode' = m /\ esz' = e
         /\ vma' = PageCeil(bytes) /\ mem' = <<>> /\ ierr' = FALSE /\ UNCHANGED <<fsize, fcont>>
    ELSE IF fdk = "bad"                                             \* resize_fd: file_size(fd): fstat fails
    THEN /\ ierr' = TRUE /\ obj' = FALSE /\ valid' = FALSE /\ vma' = 0 /\ mem' = <<>>
         /\ msize' = 0 /\ off' = 0 /\ mode' = m /\ esz' = e /\ UNCHANGED <<fsize, fcont>>
    ELSE LET grow == fsize < bytes + boff                           \* current_file_size < m_size + m_offset
             truncfails == grow /\ fdk = "ro"                       \* ftruncate on a descriptor not open for writing
             nfsize == IF grow /\ ~truncfails THEN bytes + boff ELSE fsize
             mmapfails == boff % P # 0 \/ (m = "shared" /\ fdk = "ro")  \* EINVAL / EACCES
         IN /\ fsize' = nfsize /\ fcont' = fcont
            /\ msize' = (IF truncfails \/ mmapfails THEN 0 ELSE bytes)
            /\ off' = (IF truncfails \/ mmapfails THEN 0 ELSE boff)
            /\ mode' = m /\ esz' = e /\ mem' = <<>>
            /\ IF truncfails \/ mmapfails
               THEN ierr' = TRUE /\ obj' = FALSE /\ valid' = FALSE /\ vma' = 0
               ELSE ierr' = FALSE /\ obj' = TRUE /\ valid' = TRUE /\ vma' = PageCeil(bytes)

Ctor(e, n, o, m) ==
    /\ ~done /\ ~obj /\ nops < MaxOps /\ nobjs < MaxObjs
    /\ (fdk = "anon" => (o = 0 /\ m # "readonly"))        \* @pre of the constructor; anonymous: no offset
    /\ LET bytes == Bytes(e, n)
           boff == e * o
       IN ACtor(bytes, boff, m) /\ ICtor(e, bytes, boff, m)
    /\ nobjs' = nobjs + 1
    /\ UNCHANGED <<fdk, nwrites, done>>
    /\ Rec("ctor", n, o, m, 0)

\* ---------------------------------------------------------------- write one byte through the window
Write(p) ==
    /\ ~done /\ obj /\ valid /\ mode # "readonly" /\ p < msize /\ nwrites < MaxWrites /\ nops < MaxOps
    /\ LET s == nwrites + 1 IN
       /\ nwrites' = s
       \* A: a shared file window writes through to the array, every other window keeps the byte
       /\ IF IsFile /\ mode = "shared"
          THEN abase' = ((aoff + p) :> s) @@ abase /\ aown' = aown
          ELSE aown' = (p :> s) @@ aown /\ abase' = abase
       \* I: a store into the page: anonymous / copy-on-write page, or the page cache of the file
       /\ IF fdk = "anon" \/ mode = "private"
          THEN mem' = (p :> s) @@ mem /\ fcont' = fcont
          ELSE fcont' = ((off + p) :> s) @@ fcont /\ mem' = mem
    /\ aerr' = FALSE /\ ierr' = FALSE
    /\ UNCHANGED <<fdk, fsize, obj, valid, msize, off, mode, esz, vma, awin, alen, aoff, abaselen, nobjs, done>>
    /\ Rec("write", 0, 0, mode, p)

\* ---------------------------------------------------------------- resize
AResizeFails(bytes) == fdk = "ro" /\ abaselen < aoff + bytes
AResize(bytes) ==
    IF AResizeFails(bytes)
    THEN /\ aerr' = TRUE /\ awin' = FALSE /\ alen' = bytes /\ aown' = <<>> /\ UNCHANGED <<aoff, abase, abaselen>>
    ELSE /\ aerr' = FALSE /\ awin' = TRUE /\ alen' = bytes /\ aoff' = aoff /\ abase' = abase
         /\ abaselen' = IF IsFile THEN Max2(abaselen, aoff + bytes) ELSE abaselen
         /\ aown' = IF IsFile
                    THEN <<>>                        \* PrivateFileResizeDropsChanges (shared / readonly windows own nothing)
                    ELSE [p \in DOMAIN aown |-> IF p >= bytes THEN Unspec ELSE aown[p]]   \* cut off: unspecified from now on

IResize(bytes) ==
    IF fdk = "anon"
    THEN \* m_addr = mremap(m_addr, m_size, new_size, MREMAP_MAYMOVE): pages beyond the new region are dropped
         /\ vma' = PageCeil(bytes) /\ mem' = Below(mem, PageCeil(bytes)) /\ msize' = bytes
         /\ valid' = TRUE /\ ierr' = FALSE /\ UNCHANGED <<fsize, fcont, obj, off, mode, esz>>
    ELSE \* unmap(); m_size = new_size; resize_fd(m_fd); m_addr = mmap(...)
         LET grow == fsize < bytes + off
             truncfails == grow /\ fdk = "ro"
         IN /\ msize' = bytes /\ mem' = <<>>
            /\ fsize' = (IF grow /\ ~truncfails THEN bytes + off ELSE fsize)
            /\ IF truncfails THEN valid' = FALSE /\ vma' = 0 /\ ierr' = TRUE
                             ELSE valid' = TRUE /\ vma' = PageCeil(bytes) /\ ierr' = FALSE
            /\ UNCHANGED <<fcont, obj, off, mode, esz>>

Resize(n) ==
    /\ ~done /\ obj /\ valid /\ n > 0 /\ nops < MaxOps          \* @param new_size must be > 0
    /\ AResize(esz * n) /\ IResize(esz * n)
    /\ UNCHANGED <<fdk, nwrites, nobjs, done>>
    /\ Rec("resize", n, off \div esz, mode, 0)

\* ---------------------------------------------------------------- unmap / destructor / move
Unmap ==
    /\ ~done /\ obj /\ nops < MaxOps
    /\ awin' = FALSE /\ aown' = <<>> /\ aerr' = FALSE /\ UNCHANGED <<alen, aoff, abase, abaselen>>
    /\ valid' = FALSE /\ vma' = 0 /\ mem' = <<>> /\ ierr' = FALSE      \* if (is_valid()) { munmap; make_invalid(); }
    /\ UNCHANGED <<fdk, fsize, fcont, obj, msize, off, mode, esz, nwrites, nobjs, done>>
    /\ Rec("unmap", 0, 0, mode, 0)

Destroy ==
    /\ ~done /\ obj                                            \* (always possible: a history ends without an object)
    /\ awin' = FALSE /\ aown' = <<>> /\ aerr' = FALSE /\ alen' = 0 /\ aoff' = 0 /\ UNCHANGED <<abase, abaselen>>
    /\ obj' = FALSE /\ valid' = FALSE /\ vma' = 0 /\ mem' = <<>> /\ ierr' = FALSE /\ msize' = 0 /\ off' = 0
    /\ UNCHANGED <<fdk, fsize, fcont, mode, esz, nwrites, nobjs, done>>
    /\ Rec("dtor", 0, 0, mode, 0)

(* move construction / move assignment: the new object takes the window over, the old one is invalid *)
Move(assign) ==
    /\ ~done /\ obj /\ nops < MaxOps
    /\ aerr' = FALSE /\ ierr' = FALSE
    /\ UNCHANGED <<fdk, fsize, fcont, obj, valid, msize, off, mode, esz, vma, mem,
                   awin, alen, aoff, abase, abaselen, aown, nwrites, nobjs, done>>
    /\ Rec(IF assign THEN "move_assign" ELSE "move_ctor", 0, 0, mode, 0)

Finish == /\ ~done /\ ~obj /\ (nobjs = MaxObjs \/ nops >= MaxOps \/ (fdk = "bad" /\ nops >= 2)) /\ done' = TRUE
          /\ UNCHANGED <<fdk, fsize, fcont, obj, valid, msize, off, mode, esz, vma, mem, ierr,
                         awin, alen, aoff, abase, abaselen, aown, aerr, nops, nwrites, nobjs, hist>>

Modes == {"readonly", "private", "shared"}
Next == \/ \E e \in ESizes, n \in Sizes, o \in Offs, m \in Modes : Ctor(e, n, o, m)
        \/ \E p \in WPos : Write(p)
        \/ \E n \in Sizes : Resize(n)
        \/ Unmap \/ Destroy \/ Move(TRUE) \/ Move(FALSE) \/ Finish
Spec == Init /\ [][Next]_vars

\* ---------------------------------------------------------------- I => A
(* the window exists exactly when the object holds a mapping, is as long as m_size says, and lies inside the mapped
   region *)
WindowOK == /\ awin = (obj /\ valid)
            /\ (awin => (alen = msize /\ aoff = off /\ msize <= vma /\ msize > 0))
            /\ (~(obj /\ valid) => vma = 0)                                 \* nothing stays mapped behind the object's back
(* every addressed byte reads what the A-layer says (where it says something), in particular never SIGBUS *)
ViewOK == awin => \A p \in Relevant : (p >= 0 /\ p < alen /\ AView(p) # Unspec) => IRead(p) = AView(p)
NoSigbus == (obj /\ valid /\ IsFile) => fsize >= off + msize                \* "the file ends up at least as large as the mapping"
FileOK == fsize = abaselen /\ fcont = abase                                 \* grown with zeros, never shrunk, written through
ErrOK == ierr = aerr
TypedOK == awin => (alen % esz = 0 \/ alen = P)                             \* size() = m_size / sizeof(T)

Export == done => PrintT(<<"CASE", ToJson([steps |-> hist])>>)
=============================================================================
