SPECIFICATION Spec
CONSTANTS
  Caps <- CapsAll
  Modes = {"no", "yes", "internal"}
  Kinds = {"node", "way", "relation", "changeset"}
  ULens = {0, 5, 6, 8, 14, 60}
  TagLens <- TagLens2
  RoleLens = {0, 7, 8}
  CommentLens <- CommentLens2
  MaxObjects = 6
  MaxElems = 3
  MaxSteps = 16
  Ops <- BufferOps
  ExportHist = TRUE
INVARIANT Export
INVARIANT Inv
CHECK_DEADLOCK FALSE
