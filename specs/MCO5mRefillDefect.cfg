SPECIFICATION Spec
CONSTANTS
  HdrLen = 7
  MaxVarint = 10
  Shapes <- ShapesDefect
  RepointOnFail = FALSE
  MaxCuts = 99
  TruncCuts = 99
  FixedSizes = {}
  ExportHist = FALSE
INVARIANTS ResultInv
