SPECIFICATION Spec
CONSTANTS
  Ctors <- BothCtors
  NameTokens <- TokQ
  MaxName = 4
  FixedNames <- NamesForFs
  FmtTokens <- FTokQ
  MaxFmt = 3
  Heads <- HeadEq
  OptParts <- OptsFew
  MaxOpts = 1
  AllowNoFs = TRUE
  Setters <- NoneSet
  MaxSetters = 0
  ExportHist = TRUE
INVARIANTS TypeOK Agrees CheckAgrees Bounded Consumed Export
