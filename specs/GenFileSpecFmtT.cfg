SPECIFICATION Spec
CONSTANTS
  Ctors <- BothCtors
  NameTokens <- TokQ
  MaxName = 4
  FixedNames <- NamesForFsFew
  FmtTokens <- FTokT
  MaxFmt = 3
  Heads <- HeadEq
  OptParts <- NoneSet
  MaxOpts = 0
  AllowNoFs = TRUE
  Setters <- NoneSet
  MaxSetters = 0
  ExportHist = TRUE
INVARIANTS TypeOK Agrees CheckAgrees Bounded Consumed Export
