SPECIFICATION Spec
CONSTANTS
  G = 1048576
  Sizes = {0, 1, 5, 1048575, 1048576, 1048577, 2097153, 2097154, 3145730}
  Slots = {0, 1, 4, 1048574, 1048575, 1048576, 2097152, 2097153}
  Backings = {"anon", "tmpfile", "fd"}
  F0s = {0, 5, 1048576, 1048580, 77}
  OddFile = 77
  MaxOps = 9
  MaxPush = 4
  ExportHist = TRUE
INVARIANTS Refines NoGarbage CapOK FileCovers Export
CHECK_DEADLOCK FALSE
