SPECIFICATION Spec
CONSTANTS
  Mode = "str"
  Alphabet <- AlphaWide
  ByteReps <- BytesOnePerClass
  MaxLen = 24
  Suffixes = {"", ",", "=", " ", "tab"}
  DoExport = TRUE
  HexAsShipped = FALSE
INVARIANTS TypeOK NoOverRead ConsumesSequences VerdictMatchesA StrAlwaysOk EscapeMatchesA OplNoStructural OplRoundTrip XmlEscapeMatchesA XmlNoStructural XmlRoundTrip XmlDeviation ExportStr
CHECK_DEADLOCK FALSE
