SPECIFICATION Spec
CONSTANTS
  MaxElems = 6
  MaxDepth = 6
  Fixed = TRUE
  ExportHist = TRUE
  Vocab = {"osm", "way", "nd", "tag", "bbox", "foo"}
INVARIANTS TypeOK WellFormedCommitted BuilderDiscipline NoStaleBuilders ObjectMatchesStack Export
CHECK_DEADLOCK FALSE
