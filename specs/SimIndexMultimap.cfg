SPECIFICATION Spec
CONSTANTS
  Ids = {0, 1, 3, 4, 5, 7}
  Vals = {1, 2, 3}
  Probes = {0, 1, 2, 3, 4, 5, 6, 7}
  Backings = {"vector", "mmap", "file", "stdmm", "hybrid"}
  MaxSets = 6
  MaxRemoves = 3
  MaxOther = 4
  ExportHist = TRUE
INVARIANTS NoLoss Link Refines FileOK Export
CHECK_DEADLOCK FALSE
