SPECIFICATION Spec
CONSTANTS
  Cand = {0, 7, 65536, 1073741824, 1073741825, 1073741826, 1073741827, 1073741828, 1073741829}
  Probes = {0, 1, 6, 7, 8, 65535, 65536, 65537, 1073741823, 1073741824, 1073741825, 1073741826, 1073741827, 1073741828, 1073741829, 1073741830}
  MaxSets = 3
  MaxSorts = 1
  MaxDumps = 1
  ArrayLimit = 4194304
  ExportHist = TRUE
  G = 1048576
  W = 1310720
  Backings = {"mmap"}
INVARIANTS Refines Link NoGarbage FileOK Export
CHECK_DEADLOCK FALSE
