\* C20 ext (specs/TagRules.tla), thorough: design check only; TagsFilter, the larger alphabet of: regex matchers (anchored at the start, at the end, both, with a wildcard); rule lists <= 3 x every single tag of all 49, and the shapes of the export configuration.  Deadlock checking stays on: every behaviour must reach phase "done".
SPECIFICATION Spec
CONSTANTS
  Fams <- OnlyTF
  Alpha <- AlphaRe5
  Shapes <- ShapeCrossT
INVARIANTS TypeOK RefinesRules RefinesIter RefinesRest
