---------------------------- MODULE FileSpecCrc ----------------------------
(* C01 extension (4/4): osmium::CRC<TCRC> - the checksum of an object is a function of its abstract content only,
   and a write/read round trip preserves it for the fields the format carries.

   Content (A-layer): the tuple [t, id, vis, ver, ts, cs, uid, user, tags, loc, nodes, members, rings, cset].  Numbers are
   tokens "0" (the default), "a", "b" (two distinct other values; "u" = undefined coordinate), strings are sequences of
   character tokens.  AFeed(content) is the documented input of the checksum: the sequence of (width, field class,
   value) items, integers little-endian, strings without terminator - as laid down in crc.hpp including its two
   compatibility notes (the changeset id of an OSMObject is NOT fed; the id of a Changeset is fed as 64 bit).
   What the checksum does not see is exactly Canon: K1 the changeset id of objects, K2 roles and boundaries of the
   rings of an area, K3 the boundaries between consecutive strings, K4 the item type itself (a way without nodes, a
   relation without members and an area without rings feed the same bytes) (FeedSeesContent).

   Physical object (I-layer): the fixed part plus a sequence of sub-items as a builder leaves them in a buffer - the
   tag list / node list / member list / discussion in either order, absent or present-but-empty when the content is
   empty, the tag list of an area anywhere between its rings - plus attributes the walk must not depend on (which
   memory, which offset, which builder).  The CRC walk, one action per update() overload:
     Choose                    an object is laid out (Layouts) in one of the physical variants
     UpdFixed                  update(OSMObject) / update(Changeset): the fixed-size members and the user name
     UpdTags                   update(object.tags()): the FIRST sub-item of type tag_list, nothing if there is none
     UpdBody                   node: location; way: nodes(); relation: members(); changeset: discussion()
     UpdRing                   area: one step of the loop over all sub-items, feeding outer and inner rings
     Finish
   TLC checks  feed = AFeed(content)  at the end of every walk (LayoutIndependent).

   Round trips: CProject(o, c) is the content that comes back through a Writer/Reader pair with option vector o (the
   A-layer of RoundTrip.tla restricted to what the checksum sees, with its named deviations D1 and D4); the export
   carries AFeed(CProject(o, c)).                                                                                  *)
EXTENDS Integers, Sequences, FiniteSets, TLC, Json

CONSTANTS Contents, MemVariants, RtOptions, ExportHist

VARIABLES pc, content, phys, feed, pos, hist
vars == <<pc, content, phys, feed, pos, hist>>

Item(w, f, v) == [w |-> w, f |-> f, v |-> v]
RECURSIVE Flat(_)
Flat(ss) == IF ss = <<>> THEN <<>> ELSE Head(ss) \o Flat(Tail(ss))
Map(s, Op(_)) == [i \in 1..Len(s) |-> Op(s[i])]

(***************************************************************************)
(* A-layer                                                                 *)
(***************************************************************************)
StrFeed(s) == [i \in 1..Len(s) |-> Item(8, "char", s[i])]
LocFeed(l) == <<Item(32, "coord", l.x), Item(32, "coord", l.y)>>
TagFeed(t) == StrFeed(t.k) \o StrFeed(t.v)
TagsFeed(ts) == Flat(Map(ts, TagFeed))
NodeRefFeed(n) == <<Item(64, "ref", n.ref)>> \o LocFeed(n.loc)
NodesFeed(ns) == Flat(Map(ns, NodeRefFeed))
MemberFeed(m) == <<Item(64, "ref", m.ref), Item(16, "mtype", m.mt)>> \o StrFeed(m.role)
MembersFeed(ms) == Flat(Map(ms, MemberFeed))
CommentFeed(c) == <<Item(32, "time", c.date), Item(32, "uid", c.uid)>> \o StrFeed(c.user) \o StrFeed(c.text)
DiscFeed(d) == Flat(Map(d, CommentFeed))
RingFeed(r) == NodesFeed(r.nodes)
ObjectFeed(c) == <<Item(64, "id", c.id), Item(8, "bool", IF c.vis THEN "true" ELSE "false"), Item(32, "version", c.ver), Item(32, "time", c.ts), Item(32, "uid", c.uid)>>
                 \o StrFeed(c.user)
ChangesetFixedFeed(c) == <<Item(64, "csid", c.id), Item(32, "time", c.cset.created), Item(32, "time", c.cset.closed)>>
                         \o LocFeed(c.cset.bl) \o LocFeed(c.cset.tr)
                         \o <<Item(32, "count", c.cset.nch), Item(32, "count", c.cset.ncm), Item(32, "uid", c.uid)>> \o StrFeed(c.user)
AFeed(c) == CASE c.t = "node" -> ObjectFeed(c) \o TagsFeed(c.tags) \o LocFeed(c.loc)
              [] c.t = "way" -> ObjectFeed(c) \o TagsFeed(c.tags) \o NodesFeed(c.nodes)
              [] c.t = "relation" -> ObjectFeed(c) \o TagsFeed(c.tags) \o MembersFeed(c.members)
              [] c.t = "area" -> ObjectFeed(c) \o TagsFeed(c.tags) \o Flat(Map(c.rings, RingFeed))
              [] c.t = "changeset" -> ChangesetFixedFeed(c) \o TagsFeed(c.tags) \o DiscFeed(c.cset.disc)

\* what the checksum sees of a content (K1 K2 K3 K4)
StrCat(ss) == Flat(ss)
Canon(c) == [t |-> IF c.t \in {"way", "relation", "area"} THEN "way/relation/area" ELSE c.t, id |-> c.id, vis |-> c.vis, ver |-> c.ver, ts |-> c.ts, uid |-> c.uid,
             strs |-> IF c.t = "changeset" THEN <<>> ELSE StrCat(<<c.user>> \o Flat(Map(c.tags, LAMBDA t : <<t.k, t.v>>))),
             loc |-> c.loc, nodes |-> c.nodes,
             members |-> c.members,
             rings |-> Flat(Map(c.rings, LAMBDA r : r.nodes)),
             cset |-> IF c.t # "changeset" THEN <<>>
                      ELSE <<c.cset.created, c.cset.closed, c.cset.bl, c.cset.tr, c.cset.nch, c.cset.ncm,
                             StrCat(<<c.user>> \o Flat(Map(c.tags, LAMBDA t : <<t.k, t.v>>))),
                             Map(c.cset.disc, LAMBDA d : <<d.date, d.uid, StrCat(<<d.user, d.text>>)>>)>>]

\* osmium::detect_available_metadata (metadata_options.hpp)
AAvailable(c) == {f \in {"version", "timestamp", "changeset", "uid", "user"} :
                    CASE f = "version" -> c.ver # "0" [] f = "timestamp" -> c.ts # "0" [] f = "changeset" -> c.cs # "0"
                      [] f = "uid" -> c.uid # "0" [] f = "user" -> c.user # <<>>}

\* ---- round trips (RoundTrip.tla: Project, restricted to what the checksum sees)
UndefLoc == [x |-> "u", y |-> "u"]
Md(o, f, tok, dflt) == IF f \in o.md THEN tok ELSE dflt
ProjVis(o, c) == CASE o.fmt = "pbf" -> IF o.hist THEN c.vis ELSE TRUE
                   [] o.fmt = "xml" -> IF o.hist THEN c.vis ELSE TRUE
                   [] o.fmt = "opl" -> IF o.md # {} THEN c.vis ELSE TRUE
CProject(o, c) ==
    IF c.t = "changeset"
    THEN [c EXCEPT !.cset.disc = IF o.fmt = "xml" THEN @ ELSE <<>>,
                   !.user = IF o.fmt = "xml" /\ c.uid = "0" THEN <<>> ELSE @]                     \* D4
    ELSE [c EXCEPT !.ver = Md(o, "version", @, "0"), !.ts = Md(o, "timestamp", @, "0"), !.cs = Md(o, "changeset", @, "0"),
                   !.uid = Md(o, "uid", @, "0"), !.user = Md(o, "user", @, <<>>),
                   !.vis = ProjVis(o, c),
                   !.loc = IF c.t = "node" /\ o.fmt = "pbf" /\ ~ProjVis(o, c) THEN UndefLoc ELSE @,   \* D1
                   !.nodes = [i \in 1..Len(c.nodes) |-> [c.nodes[i] EXCEPT !.loc = IF o.low THEN @ ELSE UndefLoc]]]
RtDomain(o, c) == /\ c.t \in {"node", "way", "relation", "changeset"}
                  /\ (c.t = "changeset" => o.fmt \in {"xml", "opl"} /\ (c.uid = "0" => c.user = <<>>))

(***************************************************************************)
(* I-layer: physical layouts and the CRC walk                              *)
(***************************************************************************)
Sub(kind, data) == [kind |-> kind, data |-> data]
\* the sub-items a content needs: an empty list may be absent or present and empty
TagSubs(c) == IF c.tags = <<>> THEN {<<>>, <<Sub("tags", <<>>)>>} ELSE {<<Sub("tags", c.tags)>>}
BodySubs(c) == CASE c.t = "node" -> {<<>>}
                 [] c.t = "way" -> IF c.nodes = <<>> THEN {<<>>, <<Sub("nodes", <<>>)>>} ELSE {<<Sub("nodes", c.nodes)>>}
                 [] c.t = "relation" -> IF c.members = <<>> THEN {<<>>, <<Sub("members", <<>>)>>} ELSE {<<Sub("members", c.members)>>}
                 [] c.t = "changeset" -> IF c.cset.disc = <<>> THEN {<<>>, <<Sub("disc", <<>>)>>} ELSE {<<Sub("disc", c.cset.disc)>>}
                 [] c.t = "area" -> {[i \in 1..Len(c.rings) |-> Sub(IF c.rings[i].outer THEN "outer" ELSE "inner", c.rings[i].nodes)]}
\* the tag list in front of, behind, or (areas) anywhere between the other sub-items
Insert(s, k, x) == SubSeq(s, 1, k) \o x \o SubSeq(s, k + 1, Len(s))
Layouts(c) == UNION {{Insert(b, k, t) : k \in (IF c.t = "area" THEN 0..Len(b) ELSE {0, Len(b)})} : t \in TagSubs(c), b \in BodySubs(c)}

First(subs, kind) == IF \E i \in 1..Len(subs) : subs[i].kind = kind
                     THEN subs[CHOOSE i \in 1..Len(subs) : subs[i].kind = kind /\ \A j \in 1..(i - 1) : subs[j].kind # kind].data
                     ELSE <<>>

Choose == /\ pc = "init"
          /\ \E c \in Contents : \E l \in Layouts(c), mv \in MemVariants :
             /\ content' = c
             /\ phys' = [fixed |-> c, subs |-> l, mem |-> mv]
          /\ pc' = "fixed" /\ feed' = <<>> /\ pos' = 1 /\ hist' = hist
UpdFixed == /\ pc = "fixed"
            /\ feed' = IF phys.fixed.t = "changeset" THEN ChangesetFixedFeed(phys.fixed) ELSE ObjectFeed(phys.fixed)
            /\ pc' = "tags" /\ UNCHANGED <<content, phys, pos, hist>>
UpdTags == /\ pc = "tags"
           /\ feed' = feed \o TagsFeed(First(phys.subs, "tags"))
           /\ pc' = (IF phys.fixed.t = "area" THEN "rings" ELSE "body") /\ UNCHANGED <<content, phys, pos, hist>>
UpdBody == /\ pc = "body"
           /\ feed' = feed \o CASE phys.fixed.t = "node" -> LocFeed(phys.fixed.loc)
                                [] phys.fixed.t = "way" -> NodesFeed(First(phys.subs, "nodes"))
                                [] phys.fixed.t = "relation" -> MembersFeed(First(phys.subs, "members"))
                                [] phys.fixed.t = "changeset" -> DiscFeed(First(phys.subs, "disc"))
           /\ pc' = "end" /\ UNCHANGED <<content, phys, pos, hist>>
UpdRing == /\ pc = "rings" /\ pos <= Len(phys.subs)
           /\ feed' = IF phys.subs[pos].kind \in {"outer", "inner"} THEN feed \o NodesFeed(phys.subs[pos].data) ELSE feed
           /\ pos' = pos + 1 /\ UNCHANGED <<pc, content, phys, hist>>
RingsEnd == /\ pc = "rings" /\ pos > Len(phys.subs) /\ pc' = "end" /\ UNCHANGED <<content, phys, feed, pos, hist>>
Finish == /\ pc = "end" /\ pc' = "done" /\ UNCHANGED <<content, phys, feed, pos>>
          /\ hist' = IF ExportHist THEN [kind |-> "layout", c |-> content, subs |-> phys.subs, mem |-> phys.mem, feed |-> feed,
                                         avail |-> IF content.t # "changeset" THEN AAvailable(content) ELSE {"n/a"}]
                     ELSE hist
\* round trips are one step: the abstract statement only (the Writer/Reader pair is RoundTrip.tla's business)
RoundTrip == /\ pc = "init"
             /\ \E c \in Contents, o \in RtOptions :
                /\ RtDomain(o, c)
                /\ content' = CProject(o, c)
                /\ phys' = [fixed |-> c, subs |-> <<>>, mem |-> "roundtrip"]
                /\ feed' = AFeed(CProject(o, c))
                /\ hist' = IF ExportHist THEN [kind |-> "roundtrip", c |-> c, opt |-> o, back |-> CProject(o, c), feed0 |-> AFeed(c), feed |-> AFeed(CProject(o, c))]
                           ELSE hist
             /\ pc' = "rtdone" /\ pos' = 1
Done == pc \in {"done", "rtdone"} /\ UNCHANGED vars

NoHist == [kind |-> "none"]
Init == pc = "init" /\ content = <<>> /\ phys = <<>> /\ feed = <<>> /\ pos = 1 /\ hist = NoHist
Next == Choose \/ UpdFixed \/ UpdTags \/ UpdBody \/ UpdRing \/ RingsEnd \/ Finish \/ RoundTrip \/ Done
Spec == Init /\ [][Next]_vars

\* the checksum input depends on the content only: every layout, every physical variant
LayoutIndependent == pc = "done" => feed = AFeed(content)
\* and on all of it except K1-K3: contents of the set with equal feeds are equal up to Canon (checked once, in the initial state)
FeedSeesContent == pc = "init" => \A c1, c2 \in Contents : AFeed(c1) = AFeed(c2) <=> Canon(c1) = Canon(c2)
\* the deviations are present in the set (vacuity): some pair differs and has equal feeds
HasBlindSpots == pc = "init" => \E c1, c2 \in Contents : c1 # c2 /\ AFeed(c1) = AFeed(c2)
\* a round trip with every metadata field, history and locations on ways changes the checksum of a visible object not at all
FullRoundTrip == pc = "rtdone" /\ hist.kind = "roundtrip" /\ content.t # "changeset" =>
                     LET o == hist.opt IN (o.md = {"version", "timestamp", "changeset", "uid", "user"} /\ o.hist /\ o.low /\ hist.c.vis)
                                          => feed = AFeed(hist.c)
Export == pc \in {"done", "rtdone"} => PrintT(<<"CASE", ToJson(hist)>>)

\* ---- the distinguishing set
u1 == <<"u", "1">>
L(x, y) == [x |-> x, y |-> y]
T(k, v) == [k |-> k, v |-> v]
NR(r, l) == [ref |-> r, loc |-> l]
M(r, t, role) == [ref |-> r, mt |-> t, role |-> role]
Ring(o, ns) == [outer |-> o, nodes |-> ns]
Cm(d, u, n, t) == [date |-> d, uid |-> u, user |-> n, text |-> t]
NoCs == [created |-> "0", closed |-> "0", bl |-> UndefLoc, tr |-> UndefLoc, nch |-> "0", ncm |-> "0", disc |-> <<>>]
Blank(t) == [t |-> t, id |-> "a", vis |-> TRUE, ver |-> "a", ts |-> "a", cs |-> "a", uid |-> "a", user |-> u1, tags |-> <<T(<<"k">>, <<"v">>)>>,
             loc |-> UndefLoc, nodes |-> <<>>, members |-> <<>>, rings |-> <<>>, cset |-> NoCs]
N0 == [Blank("node") EXCEPT !.loc = L("a", "b")]
W0 == [Blank("way") EXCEPT !.nodes = <<NR("a", UndefLoc), NR("b", L("a", "a"))>>]
R0 == [Blank("relation") EXCEPT !.members = <<M("a", "node", <<"r">>), M("b", "way", <<>>)>>]
A0 == [Blank("area") EXCEPT !.rings = <<Ring(TRUE, <<NR("a", L("a", "a")), NR("b", L("b", "a")), NR("a", L("a", "a"))>>),
                                         Ring(FALSE, <<NR("b", L("0", "0")), NR("a", L("a", "b")), NR("b", L("0", "0"))>>),
                                         Ring(TRUE, <<NR("a", L("b", "b"))>>)>>]
C0 == [Blank("changeset") EXCEPT !.vis = TRUE, !.ver = "0", !.ts = "0", !.cs = "0",
                                 !.cset = [created |-> "a", closed |-> "b", bl |-> L("0", "0"), tr |-> L("a", "a"), nch |-> "a", ncm |-> "b",
                                           disc |-> <<Cm("a", "a", <<"n">>, <<"t", "x">>), Cm("b", "0", <<>>, <<"L">>)>>]]
\* single-field edits of an object (every type shares these)
ObjEdits(c) == {c, [c EXCEPT !.id = "b"], [c EXCEPT !.id = "0"], [c EXCEPT !.vis = FALSE], [c EXCEPT !.ver = "b"], [c EXCEPT !.ver = "0"],
                [c EXCEPT !.ts = "b"], [c EXCEPT !.ts = "0"], [c EXCEPT !.cs = "b"], [c EXCEPT !.cs = "0"], [c EXCEPT !.uid = "b"],
                [c EXCEPT !.uid = "0", !.user = <<>>], [c EXCEPT !.user = <<>>], [c EXCEPT !.user = <<"u", "2">>], [c EXCEPT !.user = <<"L">>],
                [c EXCEPT !.tags = <<>>], [c EXCEPT !.tags = <<T(<<"k", "v">>, <<>>)>>], [c EXCEPT !.tags = <<T(<<"k">>, <<"w">>)>>],
                [c EXCEPT !.tags = <<T(<<"j">>, <<"v">>)>>], [c EXCEPT !.tags = <<T(<<"k">>, <<"v">>), T(<<"k">>, <<"v">>)>>],
                [c EXCEPT !.tags = <<T(<<"k">>, <<"L">>), T(<<"j">>, <<>>)>>], [c EXCEPT !.user = <<"u">>, !.tags = <<T(<<"1", "k">>, <<"v">>)>>],
                [c EXCEPT !.ver = "0", !.ts = "0", !.cs = "0", !.uid = "0", !.user = <<>>, !.tags = <<>>]}
NodeSet == ObjEdits(N0) \cup {[N0 EXCEPT !.loc = UndefLoc], [N0 EXCEPT !.loc = L("b", "b")], [N0 EXCEPT !.loc = L("a", "a")], [N0 EXCEPT !.loc = L("b", "a")],
                              [N0 EXCEPT !.vis = FALSE, !.loc = UndefLoc]}
WaySet == ObjEdits(W0) \cup {[W0 EXCEPT !.nodes = <<>>], [W0 EXCEPT !.nodes = <<NR("b", L("a", "a")), NR("a", UndefLoc)>>],
                             [W0 EXCEPT !.nodes = <<NR("a", UndefLoc), NR("b", L("a", "b"))>>], [W0 EXCEPT !.nodes = <<NR("a", UndefLoc), NR("0", L("a", "a"))>>],
                             [W0 EXCEPT !.nodes = <<NR("a", UndefLoc)>>], [W0 EXCEPT !.nodes = <<NR("a", UndefLoc), NR("b", UndefLoc)>>],
                             [W0 EXCEPT !.tags = <<>>, !.nodes = <<>>]}
RelSet == ObjEdits(R0) \cup {[R0 EXCEPT !.members = <<>>], [R0 EXCEPT !.members = <<M("a", "way", <<"r">>), M("b", "way", <<>>)>>],
                             [R0 EXCEPT !.members = <<M("a", "relation", <<"r">>), M("b", "way", <<>>)>>],
                             [R0 EXCEPT !.members = <<M("a", "node", <<"s">>), M("b", "way", <<>>)>>],
                             [R0 EXCEPT !.members = <<M("a", "node", <<>>), M("b", "way", <<"r">>)>>],
                             [R0 EXCEPT !.members = <<M("b", "node", <<"r">>), M("b", "way", <<>>)>>],
                             [R0 EXCEPT !.members = <<M("b", "way", <<>>), M("a", "node", <<"r">>)>>],
                             [R0 EXCEPT !.members = <<M("a", "node", <<"L">>)>>]}
AreaSet == {A0, [A0 EXCEPT !.id = "b"], [A0 EXCEPT !.tags = <<>>], [A0 EXCEPT !.rings = <<>>],
            [A0 EXCEPT !.rings = <<A0.rings[1], Ring(TRUE, A0.rings[2].nodes), A0.rings[3]>>],           \* K2: role
            [A0 EXCEPT !.rings = <<Ring(TRUE, A0.rings[1].nodes \o A0.rings[2].nodes), A0.rings[3]>>],    \* K2: boundary
            [A0 EXCEPT !.rings = <<A0.rings[1], A0.rings[3], A0.rings[2]>>],
            [A0 EXCEPT !.rings = <<A0.rings[1], A0.rings[2]>>],
            [A0 EXCEPT !.rings = <<A0.rings[1], A0.rings[2], Ring(TRUE, <<NR("a", L("b", "a"))>>)>>]}
CsSet == {C0, [C0 EXCEPT !.id = "b"], [C0 EXCEPT !.uid = "b"], [C0 EXCEPT !.uid = "0", !.user = <<>>], [C0 EXCEPT !.user = <<"u", "2">>],
          [C0 EXCEPT !.tags = <<>>], [C0 EXCEPT !.tags = <<T(<<"k">>, <<"w">>)>>],
          [C0 EXCEPT !.cset.created = "b"], [C0 EXCEPT !.cset.created = "0"], [C0 EXCEPT !.cset.closed = "0"], [C0 EXCEPT !.cset.closed = "a"],
          [C0 EXCEPT !.cset.bl = UndefLoc, !.cset.tr = UndefLoc], [C0 EXCEPT !.cset.tr = L("a", "0")], [C0 EXCEPT !.cset.bl = L("b", "0")],
          [C0 EXCEPT !.cset.nch = "b"], [C0 EXCEPT !.cset.nch = "0"], [C0 EXCEPT !.cset.ncm = "a"], [C0 EXCEPT !.cset.ncm = "0"],
          [C0 EXCEPT !.cset.disc = <<>>], [C0 EXCEPT !.cset.disc = <<C0.cset.disc[1]>>], [C0 EXCEPT !.cset.disc = <<C0.cset.disc[2], C0.cset.disc[1]>>],
          [C0 EXCEPT !.cset.disc = <<Cm("b", "a", <<"n">>, <<"t", "x">>), C0.cset.disc[2]>>],
          [C0 EXCEPT !.cset.disc = <<Cm("a", "b", <<"n">>, <<"t", "x">>), C0.cset.disc[2]>>],
          [C0 EXCEPT !.cset.disc = <<Cm("a", "a", <<"m">>, <<"t", "x">>), C0.cset.disc[2]>>],
          [C0 EXCEPT !.cset.disc = <<Cm("a", "a", <<"n">>, <<"t", "y">>), C0.cset.disc[2]>>],
          [C0 EXCEPT !.cset.disc = <<Cm("a", "a", <<"n", "t">>, <<"x">>), C0.cset.disc[2]>>]}                  \* K3
ContentsAll == NodeSet \cup WaySet \cup RelSet \cup AreaSet \cup CsSet
MemAll == {"plain", "grow", "offset", "copy", "dirty", "attr", "revset"}
MemFew == {"plain", "grow", "dirty"}
MdAll == {"version", "timestamp", "changeset", "uid", "user"}
RtOpt(f, m, h, l) == [fmt |-> f, md |-> m, hist |-> h, low |-> l]
MdSets == {MdAll, {}, {"version", "uid"}, {"timestamp", "user"}}
RtAll == {RtOpt(f, m, h, l) : f \in {"pbf", "xml", "opl"}, m \in MdSets \cup {{x} : x \in MdAll}, h \in BOOLEAN, l \in BOOLEAN}
RtFew == {RtOpt(f, m, TRUE, TRUE) : f \in {"pbf", "xml", "opl"}, m \in MdSets}
         \cup {RtOpt(f, m, FALSE, TRUE) : f \in {"pbf", "xml", "opl"}, m \in {MdAll, {"version", "uid"}}}
         \cup {RtOpt(f, MdAll, TRUE, FALSE) : f \in {"pbf", "xml", "opl"}}
=============================================================================
