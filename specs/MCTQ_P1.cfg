SPECIFICATION Spec
CONSTANTS
  Threads <- PThreads
  Kind <- PKind
  Script <- PScript
  Max = 1
  Throwing <- PThrowing
INVARIANTS TypeOK FifoWhileInUse OrderAlways Accounted PerConsumerOrder Bound BoundSingle RunAtMostOnce PoolJoined DeadlockFree
CHECK_DEADLOCK FALSE
