SPECIFICATION InitOnly
CONSTANTS
  Configs <- RealPbfConfigs
  Ns = {2, 3, 4}
  NestSets <- NestThorough
  Bounds <- BoundsLive
  Pools = {FALSE, TRUE}
  Fds = {TRUE}
  ScriptLen = 3
  LongScripts = TRUE
  FdStop = TRUE
  SkipAll = FALSE
INVARIANT ExportCfg
CHECK_DEADLOCK FALSE
