\* round trip through the library's own compressor; with liveness
\* constants scaled down: R = libbz2's read block (5000 in reality), B = piece size (input_buffer_size / 10240)
CONSTANTS
  Kind = "bz2fd"
  Algo = "fixed"
  R = 3
  B = 2
  MaxStreams = 1
  CLens = {3,4,6}
  ULens = {0}
  Faults = {"none"}
  WChunks = {0,1,2,3}
  MaxWrites = 3
  ExportHist = TRUE
SPECIFICATION FairSpec
INVARIANTS
  TypeOK
  PrefixInv
  OffsetInv
  Correct
  RoundTrip
  LenientOnly
  Bounded
  Export
PROPERTY Termination
CHECK_DEADLOCK TRUE
