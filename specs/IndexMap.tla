------------------------------ MODULE IndexMap ------------------------------
(* C12 (base module).  A-layer of every id-to-value index of libosmium (osmium::index::map::Map<TId, TValue>):
   ONE partial function id |-> value.  The family modules IndexDense, IndexSparse and IndexFlexMem EXTEND this
   module, add the implementation-shaped state (I-layer) and conjoin their actions with the A-actions below; TLC
   checks in each of them that every lookup the implementation would answer equals ALookup (I => A).

   ids are naturals < 2^31 (TLC integers); ids >= 2^30 stand for ids beyond 2^32 (the harness maps them order-
   preservingly to 2^32-1, 2^32, 2^32+1, ...).  The value stored with the k-th insertion is k (the harness turns
   k and the id into a Location); 0 is "not found" (get() throws osmium::not_found / get_noexcept() returns the
   empty value).

   Contract modelled (index/map.hpp "Sort data in map. Call this after writing all data and before reading"):
   lookups are DEFINED when the ids, as an append-only vector holds them, are in ascending order - i.e. after
   sort() or when the ids arrived in ascending order (this is what NodeLocationsForWays relies on).  Ids of one
   history are distinct (the property's quantifier). *)
EXTENDS Integers, Sequences, FiniteSets, TLC, Json

CONSTANTS Cand,        \* candidate ids for insertion
          Probes,      \* ids looked up whenever lookups are defined (inserted ids, their neighbours, absent ids)
          MaxSets,     \* insertions per history
          MaxSorts,    \* sort() calls per history
          MaxDumps,    \* dump / reload / reopen / reserve / force-dense steps per history
          ArrayLimit,  \* dump_as_array is only exercised while every id is below this (the file has max id + 1 slots)
          ExportHist   \* TRUE in the Gen configs only (history variable)

VARIABLES amap,    \* A-layer: the map
          ins,     \* A-layer ghost: the ids as an append-only vector would hold them (sorted by sort())
          afile,   \* A-layer: what the last dump must contain
          nsorts, ndumps, done, hist

avars == <<amap, ins, afile, nsorts, ndumps, done, hist>>

Max(S) == CHOOSE x \in S : \A y \in S : y <= x
RECURSIVE Asc(_, _)
Asc(T, acc) == IF T = {} THEN acc ELSE LET m == CHOOSE x \in T : \A y \in T : x <= y IN Asc(T \ {m}, Append(acc, m))
SeqSet(s) == {s[i] : i \in 1..Len(s)}
IsSortedIds(s) == \A i \in 1..Len(s) - 1 : s[i] < s[i + 1]
SortIds(s) == Asc(SeqSet(s), <<>>)

(* sequences of <<id, value>> pairs (the element type of the sparse indexes) *)
IdsOf(v) == [i \in 1..Len(v) |-> v[i][1]]
PairsSorted(v) == IsSortedIds(IdsOf(v))
SortPairs(v) == LET ids == SortIds(IdsOf(v))                       \* std::sort; ids are distinct
                IN [i \in 1..Len(ids) |-> CHOOSE p \in SeqSet(v) : p[1] = ids[i]]

(* std::lower_bound(first, last, id, [](a, b){ return a.first < b.first; }) as libstdc++ runs it: returns the
   1-based position of the first element that is not less than id (Len + 1 if there is none). *)
RECURSIVE LB(_, _, _, _)
LB(v, id, first, count) == IF count <= 0 THEN first
                           ELSE LET step == count \div 2
                                    it == first + step
                                IN IF v[it][1] < id THEN LB(v, id, it + 1, count - (step + 1))
                                                    ELSE LB(v, id, first, step)
LowerBound(v, id) == LB(v, id, 1, Len(v))
VecLookup(v, id) == LET k == LowerBound(v, id)                     \* find_id + the "== end || first != id" test
                    IN IF k > Len(v) \/ v[k][1] # id THEN 0 ELSE v[k][2]

\* ---------------------------------------------------------------- A-layer
NextVal == Cardinality(DOMAIN amap) + 1
LookupIn(m, id) == IF id \in DOMAIN m THEN m[id] ELSE 0
ALookup(id) == LookupIn(amap, id)
Defined == IsSortedIds(ins)
ProbeSeq == Asc(Probes, <<>>)
TabOf(m) == [i \in 1..Len(ProbeSeq) |-> <<ProbeSeq[i], LookupIn(m, ProbeSeq[i])>>]
PairsOf(m) == LET ids == Asc(DOMAIN m, <<>>) IN [i \in 1..Len(ids) |-> <<ids[i], m[ids[i]]>>]

NoFile == [kind |-> "none", n |-> 0, vals |-> <<>>]
(* dump_as_array: max id + 1 slots, slot id holds the value, every other slot the empty value *)
AArrayFile(m) == [kind |-> "array", n |-> IF DOMAIN m = {} THEN 0 ELSE Max(DOMAIN m) + 1, vals |-> PairsOf(m)]
(* dump_as_list: the <<id, value>> pairs in the order of the vector *)
AListFile(m, order) == [kind |-> "list", n |-> Len(order), vals |-> [i \in 1..Len(order) |-> <<order[i], m[order[i]]>>]]

AInit == /\ amap = <<>> /\ ins = <<>> /\ afile = NoFile /\ nsorts = 0 /\ ndumps = 0 /\ done = FALSE /\ hist = <<>>

(* x: a family-specific observable of the step (evidence only); d: the step dumps the index - the record then carries
   what dump_as_list / dump_as_array must write according to the A-layer (the I-layer's file is compared with it by
   the invariant FileOK of the family modules) *)
Rec(a, id, x, d) ==
    hist' = IF ExportHist
            THEN Append(hist, [a |-> a, id |-> id, v |-> LookupIn(amap', id), def |-> IsSortedIds(ins'),
                               tab |-> IF IsSortedIds(ins') THEN TabOf(amap') ELSE <<>>, x |-> x,
                               flist |-> IF d THEN AListFile(amap', ins') ELSE NoFile,
                               farr |-> IF d /\ (\A i \in DOMAIN amap' : i < ArrayLimit) THEN AArrayFile(amap') ELSE NoFile])
            ELSE hist

ASet(id) == /\ ~done /\ Cardinality(DOMAIN amap) < MaxSets /\ id \notin DOMAIN amap
            /\ amap' = (id :> NextVal) @@ amap /\ ins' = Append(ins, id)
            /\ UNCHANGED <<afile, nsorts, ndumps, done>>
ASort == /\ ~done /\ nsorts < MaxSorts /\ ~Defined
         /\ ins' = SortIds(ins) /\ nsorts' = nsorts + 1
         /\ UNCHANGED <<amap, afile, ndumps, done>>
(* a step that does not change the map (reserve, reopen, switch_to_dense) *)
AKeep == /\ ~done /\ ndumps < MaxDumps /\ ndumps' = ndumps + 1
         /\ UNCHANGED <<amap, ins, afile, nsorts, done>>
(* dump_as_list and reload; `sorted` when the dumping index keeps its entries ordered (std::map) *)
AReloadList(sorted) == /\ ~done /\ ndumps < MaxDumps /\ ndumps' = ndumps + 1
                       /\ ins' = IF sorted THEN SortIds(ins) ELSE ins
                       /\ afile' = AListFile(amap, ins')
                       /\ UNCHANGED <<amap, nsorts, done>>
ADumpArray == /\ ~done /\ ndumps < MaxDumps /\ ndumps' = ndumps + 1
              /\ \A id \in DOMAIN amap : id < ArrayLimit
              /\ afile' = AArrayFile(amap)
              /\ UNCHANGED <<amap, ins, nsorts, done>>
AFinish == /\ ~done /\ Cardinality(DOMAIN amap) = MaxSets /\ Defined
           /\ done' = TRUE /\ UNCHANGED <<amap, ins, afile, nsorts, ndumps>>

Export == done => PrintT(<<"CASE", ToJson([steps |-> hist])>>)
=============================================================================
