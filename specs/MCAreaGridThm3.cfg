SPECIFICATION Spec
CONSTANTS
  G = 3
  MaxRings = 2
  Drawings = 1
  Kinds = {"rect", "dia"}
  MutSeq <- MutThmQ
  Modes = {"any"}
  MaxSegs = 26
  Styles = {}
  Theorems = TRUE
INVARIANTS RayIndependent FillIsXor CancelSound CatalogueValid JudgeAcceptsReference JudgeRejectsSpoiled
CHECK_DEADLOCK FALSE
