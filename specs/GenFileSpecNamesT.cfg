SPECIFICATION Spec
CONSTANTS
  Ctors <- NameCtor
  NameTokens <- TokM
  MaxName = 4
  FixedNames <- NoneSet
  FmtTokens <- FTokQ
  MaxFmt <- NoFmt
  Heads <- NoneSet
  OptParts <- NoneSet
  MaxOpts = 0
  AllowNoFs = TRUE
  Setters <- NoneSet
  MaxSetters = 0
  ExportHist = TRUE
INVARIANTS TypeOK Agrees CheckAgrees Bounded Consumed Export
