SPECIFICATION Spec
CONSTANTS
  Options <- OptsSeq
  Elements <- ElemsSeq
  FixedInputs <- NoInputs
  MaxLen = 6
  MaxBlob = 33554432
  GateSize = 31876710
  MaxEntities = 8000
  Sizes <- SizesMC
  Tolerance = 0
  PostCheck = TRUE
  ExportHist = FALSE
INVARIANTS TypeOK RoundTrip OutcomeAgrees NoReaderError BlobLimits SizeLimit BlockShape DeltaReset Bounded
