SPECIFICATION Spec
CONSTANTS
  Caps = {64, 72, 80, 88, 104, 128}
  Modes = {"yes", "internal"}
  Kinds = {"area"}
  ULens = {6}
  TagLens <- TagLens1
  RoleLens = {0}
  Pres = {0, 1}
  Wraps = {FALSE}
  CbMaxs = {0}
  MaxObjects = 1
  MaxElems = 1
  MaxSubs = 3
  MaxSteps = 11
  Ops <- AreaOps
  Script <- NoScript
  ExportHist = TRUE
INVARIANT Export
CHECK_DEADLOCK FALSE
