SPECIFICATION Spec
CONSTANTS
  Mode = "static"
  Alphabet <- AlphaOplSmall
  ByteReps <- BytesOnePerClass
  MaxLen = 4
  Suffixes = {""}
  DoExport = TRUE
  HexAsShipped = FALSE
INVARIANTS StaticOpl StaticXml StaticWide SeqLenAgree RowsUniform RowsCover ExportTable
CHECK_DEADLOCK FALSE
