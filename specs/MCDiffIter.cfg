\* C20, thorough: design check only (no export); all cuts of every sequence.  Deadlock checking stays on: every behaviour must reach phase "done".
SPECIFICATION Spec
CONSTANTS
  Keys <- Keys3
  MaxV = 3
  NoisePatterns <- NoiseAll
  Modes <- IterModes
  HandlerLists <- DiffLists
  SmallN = 20
  MaxChunks = 3
INVARIANTS Cursors Refines AShape 
