SPECIFICATION Spec
CONSTANTS
  MaxElems = 4
  MaxDepth = 6
  Fixed = FALSE
  ReadTypes = {"n", "w", "r", "c"}
  ExportHist = FALSE
  Vocab = {"osm", "osmChange", "create", "modify", "delete", "node", "way", "relation", "changeset", "tag", "nd", "member", "discussion", "comment", "text", "bounds", "bbox", "foo"}
INVARIANTS TypeOK WellFormedCommitted
CHECK_DEADLOCK FALSE
