SPECIFICATION Spec
CONSTANTS
  DSNames = {"empty", "tiny2", "basic", "meta", "hist", "delta", "wayloc"}
  Grans = {100, 1000, 1}
  Offs = {0, 300}
  DGrans = {1000, 60000}
  Sizes = {"normal"}
  Comps = {"raw", "zlib", "zlib0", "zlib9", "lz4", "lz4m"}
  Packs = {"packed"}
  XBlobs = {"none"}
  Full = FALSE
  ExportHist = FALSE
INVARIANTS DecodedOK
CHECK_DEADLOCK FALSE
