------------------------------ MODULE Chunking ------------------------------
(* C06 - the parse result is independent of how the input byte stream is chunked.

   Common part of the four carry-over specifications (LineByLine, PbfRefill, O5mRefill, XmlFeed):
   the delivery of ONE byte stream of length n in consecutive non-empty pieces through the parser's
   input queue, as libosmium's Parser sees it (io/detail/input_format.hpp, queue_util.hpp):

       get_input()   = queue_wrapper::pop(): returns the next piece; the piece after the last one is
                       the empty end-of-data marker, and popping it is what makes
       input_done()  = has_reached_end_of_data() become true.  Once it is true get_input() keeps
                       returning "" without blocking.

   A byte is identified with its position 1..n in the stream (so that lost, duplicated or reordered
   bytes are visible); what a byte *is* (a line feed, a byte of a length field ...) is looked up through
   the stream description of the sub-module.

   A-layer (all four modules): a function  Result(stream)  of the byte stream alone - the token
   sequence (lines / frames / datasets / elements) plus the verdict (ok or which error).
   I-layer: the code's carry-over state.  The property is  "whenever the I-layer terminates,
   what it delivered = Result(stream)", for EVERY way the environment (Pop below) cuts the stream,
   together with a window invariant per module (the bytes the parser holds are exactly the
   received-but-unconsumed part of the stream).

   Segmentation is chosen on the fly: mode = 0 lets every Pop choose any length as long as the number of
   cuts stays <= MaxCuts (MaxCuts >= n - 1 : every one of the 2^(n-1) segmentations); mode = k > 0 is the
   fixed piece size k.  `pieces` is the history of piece lengths, kept only when ExportHist. *)
EXTENDS Integers, Sequences, FiniteSets, TLC, Json
CONSTANTS MaxCuts,       \* bound on the number of cuts in free mode
          FixedSizes,    \* fixed piece sizes explored in addition ({} in the exhaustive configs)
          ExportHist     \* TRUE: keep the piece history and print cases at terminal states

VARIABLES fed,           \* number of bytes of the stream popped by the parser so far
          eof,           \* input_done(): the end-of-data marker has been popped
          mode, ncuts, pieces
qvars == <<fed, eof, mode, ncuts, pieces>>

\* used: part of the cut budget MaxCuts that is not available to this stream (export configs give truncated
\* streams a smaller budget than complete ones)
QInitB(used) == fed = 0 /\ eof = FALSE /\ mode \in ({0} \cup FixedSizes) /\ ncuts = used /\ pieces = <<>>
QInit == QInitB(0)

NextLens(n) == LET r == n - fed IN
               IF mode = 0 THEN {k \in 1..r : k = r \/ ncuts < MaxCuts}
               ELSE {IF mode < r THEN mode ELSE r}

(* One call of get_input() on a stream of n bytes; k is the length of the piece returned
   (0 = the end marker, or "" after the end).  The popped bytes are fed+1 .. fed+k. *)
Pop(n, k) == /\ IF eof THEN k = 0 /\ UNCHANGED <<fed, eof, ncuts, pieces>>
                ELSE IF fed = n
                     THEN k = 0 /\ eof' = TRUE /\ UNCHANGED <<fed, ncuts, pieces>>
                     ELSE /\ k \in NextLens(n)
                          /\ fed' = fed + k /\ eof' = FALSE
                          /\ ncuts' = IF fed + k < n THEN ncuts + 1 ELSE ncuts
                          /\ pieces' = IF ExportHist THEN Append(pieces, k) ELSE pieces
             /\ UNCHANGED mode

Range(a, b) == [i \in 1..(b - a + 1) |-> a + i - 1]          \* the byte positions a..b as a sequence
IsPrefix(s, t) == Len(s) <= Len(t) /\ \A i \in 1..Len(s) : s[i] = t[i]
=============================================================================
