\* C20 ext (specs/TagRules.tla), thorough: design check and export; TagsFilter, the larger alphabet (6-7 TagMatcher templates) of: list matchers (from a vector, filled with add_string, empty list, list holding the empty string); rule lists <= 3 x single tags of 10, <= 2 x <= 2 of 6, <= 1 x <= 3 of 6.  Deadlock checking stays on: every behaviour must reach phase "done".
SPECIFICATION Spec
CONSTANTS
  Fams <- OnlyTF
  Alpha <- AlphaList5
  Shapes <- ShapeCrossM
INVARIANTS TypeOK RefinesRules RefinesIter RefinesRest Export
