---------------------------- MODULE NumTextCoord ----------------------------
(* C13 (1/4).  osmium::detail::string_to_location_coordinate() as a state machine - one action per
   statement / loop iteration of the scanner in include/osmium/osm/location.hpp - checked against the
   A-layer CoordValue (NumTextCoordA.tla, positional decimal arithmetic) on every string the
   environment can produce:

   Mode "feed":    the environment feeds the string one character at a time exactly when the scanner
                   looks at a position it has not seen yet (or closes the string = NUL).  Every string
                   over Alphabet up to MaxLen in which the scanner looks at every character is produced
                   once; after the scanner has stopped up to TailMax further characters are appended (within MaxLen)
                   (the A-layer must not depend on them beyond `rest`).
   Mode "grammar": long grammar-directed strings (sign x integer part x fraction x exponent x suffix)
                   from the boundary sets below; this is where digit-count limits, rounding at the 8th
                   fraction digit, digits behind it that a positive exponent makes significant, and
                   exponents that overflow a 64 bit accumulator live.

   `res` (int64_t result in the code) is a digit sequence; Guard / Pull select the model of the code:
   Guard = FALSE is the scanner before the F9 fix (`result *= 10` unguarded: TLC finds the int64
   overflow), Pull = FALSE is the scanner before the F11 fix (digits behind the 8th fraction digit are
   dropped even when a positive exponent shifts them in front of the rounding position: TLC finds
   IimpliesA violated by 0.000000005e1). *)
EXTENDS NumTextCoordA, FiniteSets, Json
CONSTANTS Alphabet, MaxLen, TailMax, Mode, Level, Guard, Pull, DoExport
VARIABLES s, closed, tail,                    \* environment: the string so far, NUL seen, tail length
          pc, pos, neg, res, scale, maxd, eneg, eres, mb, me,   \* the scanner's locals (mb/me: skipped digits)
          ub,                                  \* signed overflow happened (undefined behaviour)
          out                                  \* result: RejectC or [ok, neg, mag, rest]
vars == <<s, closed, tail, pc, pos, neg, res, scale, maxd, eneg, eres, mb, me, ub, out>>

Ch(i) == At(s, i)
(* highest index the next scanner statement reads (0: none) *)
Want == CASE pc \in {"sign", "int", "point", "fign", "exp", "esign", "efirst", "eloop"} -> pos
          [] pc = "first" -> IF Ch(pos) = "." THEN pos + 1 ELSE pos
          [] pc = "fsig" -> IF scale > 0 THEN pos ELSE 0
          [] OTHER -> 0
Ready == Want <= Len(s) \/ closed
Limit == <<2, 1, 4, 7, 4, 8, 3, 6, 4, 7, 0, 0>>   \* INT32_MAX * 100, the F9 guard of the scale-up loop

---------------------------------------------------------------------------
(* grammar-directed strings *)
Nines(n) == Rep("9", n)
Zeros(n) == Rep("0", n)
Signs == {<<>>, <<"-">>}
IntParts == IF Level = 0 THEN {<<>>, <<"0">>, <<"1">>, <<"2", "1", "4">>, Nines(10), Zeros(10) \o <<"1">>}
            ELSE {<<>>, <<"0">>, <<"9">>, <<"0", "0">>, <<"1", "8", "0">>, <<"2", "1", "4">>, <<"2", "1", "5">>,
                  <<"2", "1", "4", "7", "4", "8", "3", "6", "4", "7">>, <<"2", "1", "4", "7", "4", "8", "3", "6", "4", "8">>,
                  Nines(10), Nines(11), <<"1">> \o Zeros(9), Zeros(9) \o <<"1">>,
                  <<"1", "2", "3", "4", "5", "6", "7", "8", "9", "0", "1", "2">>}
NoPoint == <<"#">>                              \* marker: no decimal point at all
FracParts == IF Level = 0
             THEN {NoPoint, <<>>, <<"5">>, <<"7", "4", "8", "3", "6", "4", "7", "5">>, Zeros(8) \o <<"5">>,
                   <<"1", "2", "3", "4", "5", "6", "7", "8", "9">>, Nines(27), Nines(28)}
             ELSE {NoPoint, <<>>, <<"0">>, <<"4">>, <<"4", "9">>,
                   <<"7", "4", "8", "3", "6", "4", "7">>, <<"7", "4", "8", "3", "6", "4", "8">>,
                   <<"7", "4", "8", "3", "6", "4", "7", "5">>, <<"7", "4", "8", "3", "6", "4", "7", "4">>,
                   <<"7", "4", "8", "3", "6", "4", "7", "4", "9">>, <<"7", "4", "8", "3", "6", "4", "8", "4", "9", "9">>,
                   Zeros(7) \o <<"4">>, Zeros(7) \o <<"5">>, Zeros(7) \o <<"4", "9">>,
                   Zeros(8) \o <<"4">>, Zeros(9) \o <<"5">>, Zeros(14) \o <<"5">>,
                   Nines(7) \o <<"5">>, Nines(7) \o <<"4">>, Nines(9),
                   <<"1", "2", "3", "4", "5", "6", "7", "8", "4", "9">>,
                   Rep("1", 27), Rep("1", 28), Zeros(26) \o <<"5">>, Zeros(27) \o <<"5">>,
                   <<"1", "2", "3", "4", "5", "6", "7", "8", "9", "0", "1", "2", "3", "4", "5", "6", "7", "8", "9", "0">>}
NoExp == <<"#">>
ExpNums == IF Level = 0 THEN {<<"0">>, <<"1">>, <<"2">>, <<"9">>, <<"1", "0">>, <<"2", "0">>, <<"5", "6">>, Nines(5), Nines(6)}
           ELSE {<<>>, <<"0">>, <<"1">>, <<"3">>, <<"7">>, <<"8">>, <<"9">>, <<"1", "1">>, <<"1", "2">>,
                 <<"1", "9">>, <<"6", "4">>, <<"1", "0", "0">>, <<"0", "0", "0", "0", "2">>,
                 Nines(5), <<"1">> \o Zeros(5)}
ExpParts == {NoExp} \cup {<<"e">> \o x : x \in ExpNums} \cup {<<"e", "-">> \o x : x \in ExpNums}
                    \cup (IF Level = 0 THEN {} ELSE {<<"E">> \o x : x \in {<<"1">>, <<"2", "0">>}}
                                                    \cup {<<"E", "-">> \o x : x \in {<<"8">>}}
                                                    \cup {<<"e", "+", "1">>})
Suffixes == IF Level = 0 THEN {<<>>} ELSE {<<>>, <<"x">>}
GrammarStrings == {sg \o ip \o (IF fp = NoPoint THEN <<>> ELSE <<".">> \o fp) \o (IF ep = NoExp THEN <<>> ELSE ep) \o sx :
                   sg \in Signs, ip \in IntParts, fp \in FracParts, ep \in ExpParts, sx \in Suffixes}

---------------------------------------------------------------------------
Init == /\ IF Mode = "feed" THEN s = <<>> /\ closed = FALSE ELSE s \in GrammarStrings /\ closed = TRUE
        /\ tail = 0 /\ pc = "sign" /\ pos = 1 /\ neg = FALSE /\ res = <<>> /\ scale = 8 /\ maxd = 10
        /\ eneg = FALSE /\ eres = 0 /\ mb = 0 /\ me = 0 /\ ub = FALSE /\ out = RejectC

Env == <<s, closed, tail>>
Loc == <<pos, neg, res, scale, maxd, eneg, eres, mb, me, ub>>
(* environment *)
Feed(c) == /\ pc # "done" /\ ~Ready /\ Len(s) < MaxLen
           /\ s' = Append(s, c) /\ UNCHANGED <<closed, tail, pc, out>> /\ UNCHANGED Loc
Close == /\ pc # "done" /\ ~Ready
         /\ closed' = TRUE /\ UNCHANGED <<s, tail, pc, out>> /\ UNCHANGED Loc
TailFeed(c) == /\ pc = "done" /\ ~closed /\ tail < TailMax /\ Len(s) < MaxLen
               /\ s' = Append(s, c) /\ tail' = tail + 1 /\ UNCHANGED <<closed, pc, out>> /\ UNCHANGED Loc

(* scanner *)
Throw == /\ pc' = "done" /\ out' = RejectC
Step(p) == pc = p /\ Ready /\ UNCHANGED Env
Sign == /\ Step("sign")
        /\ IF Ch(pos) = "-" THEN neg' = TRUE /\ pos' = pos + 1 ELSE UNCHANGED <<neg, pos>>
        /\ pc' = "first" /\ UNCHANGED <<res, scale, maxd, eneg, eres, mb, me, ub, out>>
First == /\ Step("first")
         /\ IF Ch(pos) # "."
            THEN IF IsDig(Ch(pos))
                 THEN res' = <<DV[Ch(pos)]>> /\ pos' = pos + 1 /\ pc' = "int" /\ UNCHANGED out
                 ELSE Throw /\ UNCHANGED <<res, pos>>
            ELSE IF IsDig(Ch(pos + 1))
                 THEN pc' = "point" /\ UNCHANGED <<res, pos, out>>
                 ELSE Throw /\ UNCHANGED <<res, pos>>
         /\ UNCHANGED <<neg, scale, maxd, eneg, eres, mb, me, ub>>
IntDigit == /\ Step("int") /\ IsDig(Ch(pos)) /\ maxd > 0
            /\ res' = Append(res, DV[Ch(pos)]) /\ pos' = pos + 1 /\ maxd' = maxd - 1
            /\ UNCHANGED <<pc, neg, scale, eneg, eres, mb, me, ub, out>>
IntExit == /\ Step("int") /\ ~(IsDig(Ch(pos)) /\ maxd > 0)
           /\ IF maxd = 0 THEN Throw ELSE pc' = "point" /\ UNCHANGED out
           /\ UNCHANGED Loc
Point == /\ Step("point")
         /\ IF Ch(pos) = "." THEN pos' = pos + 1 /\ pc' = "fsig" ELSE pc' = "exp" /\ UNCHANGED pos
         /\ UNCHANGED <<neg, res, scale, maxd, eneg, eres, mb, me, ub, out>>
FracSig == /\ Step("fsig") /\ scale > 0 /\ IsDig(Ch(pos))
           /\ res' = Append(res, DV[Ch(pos)]) /\ scale' = scale - 1 /\ pos' = pos + 1
           /\ UNCHANGED <<pc, neg, maxd, eneg, eres, mb, me, ub, out>>
FracSigExit == /\ Step("fsig") /\ ~(scale > 0 /\ IsDig(Ch(pos)))
               /\ mb' = pos /\ maxd' = 20 /\ pc' = "fign"
               /\ UNCHANGED <<pos, neg, res, scale, eneg, eres, me, ub, out>>
FracIgn == /\ Step("fign") /\ IsDig(Ch(pos)) /\ maxd > 0
           /\ pos' = pos + 1 /\ maxd' = maxd - 1
           /\ UNCHANGED <<pc, neg, res, scale, eneg, eres, mb, me, ub, out>>
FracIgnExit == /\ Step("fign") /\ ~(IsDig(Ch(pos)) /\ maxd > 0)
               /\ me' = pos
               /\ IF maxd = 0 THEN Throw ELSE pc' = "exp" /\ UNCHANGED out
               /\ UNCHANGED <<pos, neg, res, scale, maxd, eneg, eres, mb, ub>>
Exp == /\ Step("exp")
       /\ IF Ch(pos) \in {"e", "E"} THEN pos' = pos + 1 /\ pc' = "esign" ELSE pc' = "scale" /\ UNCHANGED pos
       /\ UNCHANGED <<neg, res, scale, maxd, eneg, eres, mb, me, ub, out>>
ESign == /\ Step("esign")
         /\ IF Ch(pos) = "-" THEN eneg' = TRUE /\ pos' = pos + 1 ELSE UNCHANGED <<eneg, pos>>
         /\ pc' = "efirst" /\ UNCHANGED <<neg, res, scale, maxd, eres, mb, me, ub, out>>
EFirst == /\ Step("efirst")
          /\ IF IsDig(Ch(pos))
             THEN eres' = DV[Ch(pos)] /\ pos' = pos + 1 /\ maxd' = 5 /\ pc' = "eloop" /\ UNCHANGED out
             ELSE Throw /\ UNCHANGED <<eres, pos, maxd>>
          /\ UNCHANGED <<neg, res, scale, eneg, mb, me, ub>>
EDigit == /\ Step("eloop") /\ IsDig(Ch(pos)) /\ maxd > 0
          /\ eres' = eres * 10 + DV[Ch(pos)] /\ pos' = pos + 1 /\ maxd' = maxd - 1
          /\ UNCHANGED <<pc, neg, res, scale, eneg, mb, me, ub, out>>
EExit == /\ Step("eloop") /\ ~(IsDig(Ch(pos)) /\ maxd > 0)
         /\ IF maxd = 0 THEN Throw /\ UNCHANGED scale
            ELSE scale' = scale + eres * (IF eneg THEN -1 ELSE 1) /\ pc' = "scale" /\ UNCHANGED out
         /\ UNCHANGED <<pos, neg, res, maxd, eneg, eres, mb, me, ub>>
Scale == /\ Step("scale") /\ pc' = (IF scale < 0 THEN "down" ELSE "up") /\ UNCHANGED Loc /\ UNCHANGED out
Down == /\ Step("down") /\ scale < 0 /\ ~IsZero(res)
        /\ res' = Div10(res) /\ scale' = scale + 1
        /\ UNCHANGED <<pc, pos, neg, maxd, eneg, eres, mb, me, ub, out>>
DownExit == /\ Step("down") /\ ~(scale < 0 /\ ~IsZero(res))
            /\ pc' = "round" /\ UNCHANGED Loc /\ UNCHANGED out
UpCond == scale > 0 /\ (Guard => Leq(res, Limit))
HavePull == Pull /\ mb < me
Up == /\ Step("up") /\ UpCond /\ (~IsZero(res) \/ HavePull)
      /\ LET r == IF HavePull THEN Append(res, DV[Ch(mb)]) ELSE Mul10(res)
         IN  IF Less(I64MAX, r) THEN ub' = TRUE /\ Throw /\ UNCHANGED <<res, scale, mb>>
             ELSE /\ res' = r /\ scale' = scale - 1 /\ mb' = (IF HavePull THEN mb + 1 ELSE mb)
                  /\ UNCHANGED <<pc, ub, out>>
      /\ UNCHANGED <<pos, neg, maxd, eneg, eres, me>>
(* `result *= 10` on a zero result with nothing left to pull is the identity: the up to 100007 remaining
   iterations are one step of the model *)
UpZero == /\ Step("up") /\ UpCond /\ IsZero(res) /\ ~HavePull
          /\ scale' = 0 /\ UNCHANGED <<pc, pos, neg, res, maxd, eneg, eres, mb, me, ub, out>>
UpExit == /\ Step("up") /\ ~UpCond
          /\ pc' = "round" /\ UNCHANGED Loc /\ UNCHANGED out
Round == /\ Step("round")
         /\ LET r == Strip(Div10(AddSmall(res, 5)))
            IN  out' = IF (IF neg THEN Less(I32MINABS, r) ELSE Less(I32MAX, r)) THEN RejectC
                       ELSE [ok |-> TRUE, neg |-> neg /\ r # <<>>, mag |-> r, rest |-> pos]
         /\ pc' = "done" /\ UNCHANGED Loc

Scanner == Sign \/ First \/ IntDigit \/ IntExit \/ Point \/ FracSig \/ FracSigExit \/ FracIgn \/ FracIgnExit
           \/ Exp \/ ESign \/ EFirst \/ EDigit \/ EExit \/ Scale \/ Down \/ DownExit \/ Up \/ UpZero \/ UpExit \/ Round
Next == Scanner \/ Close \/ \E c \in Alphabet : Feed(c) \/ TailFeed(c)
Spec == Init /\ [][Next]_vars

---------------------------------------------------------------------------
(* I => A: whatever the scanner returns is what the string means *)
IimpliesA == pc = "done" => out = CoordValue(s)
(* the accumulator never leaves int64 (no undefined behaviour), the scanner never reads behind the NUL *)
NoOverflow == ~ub /\ Leq(res, I64MAX)
NoOverread == Want <= Len(s) + 1 /\ pos <= Len(s) + 1
(* set_lon()/set_lat() on top of the scanner: everything must have been consumed *)
FullOf(o) == IF o.ok /\ o.rest = Len(s) + 1 THEN o ELSE RejectC
FullOK == pc = "done" => FullOf(out) = CoordFull(s)

Export == (DoExport /\ pc = "done") =>
            PrintT(<<"CASE", ToJson([s |-> s, ok |-> out.ok, neg |-> out.neg, mag |-> out.mag, rest |-> out.rest])>>)
=============================================================================
