\* design check: every area with 0..2 outer rings x 0..1 inner rings each, rings from CatFull (duplicates at both ends, undefined/invalid locations at the start, middle, end)
SPECIFICATION Spec
CONSTANTS
  Toks = {"p"}
  MaxLen = 0
  Kinds = {"multipolygon"}
  RingCat <- CatFull
  MaxOuter = 2
  MaxInner = 1
  MaxCalls = 1
  ExportHist = FALSE
INVARIANTS TypeOK Refines RegsOK NoEmptyList
CHECK_DEADLOCK FALSE
