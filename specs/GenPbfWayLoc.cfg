SPECIFICATION Spec
CONSTANTS
  DSNames = {"wayloc"}
  Grans = {100, 1000, 1, 200}
  Offs = {0, 300}
  DGrans = {1000, 1, 60000}
  Sizes = {"normal"}
  Comps = {"raw", "zlib", "zlib0", "zlib9", "lz4", "lz4m"}
  Packs = {"packed"}
  XBlobs = {"none"}
  Full = TRUE
  ExportHist = TRUE
INVARIANTS DecodedOK Export
CHECK_DEADLOCK FALSE
