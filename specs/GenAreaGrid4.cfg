SPECIFICATION Spec
CONSTANTS
  G = 4
  MaxRings = 3
  Drawings = 4
  Kinds = {"rect", "tri", "L", "T", "dia", "rectD", "triD", "LD", "diaD"}
  MutSeq <- MutGen
  Styles = {"long", "short", "mixed", "mid"}
  Theorems = FALSE
INVARIANTS Export
CHECK_DEADLOCK FALSE
