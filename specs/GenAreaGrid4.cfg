SPECIFICATION Spec
CONSTANTS
  G = 4
  MaxRings = 3
  Drawings = 4
  Kinds = {"rect", "tri", "L", "T", "dia", "rectD", "triD", "LD", "diaD"}
  MutSeq <- MutGen
  Modes = {"any", "inside", "around", "apart", "touch", "same"}
  MaxSegs = 26
  Styles = {"long", "short", "mixed", "mid"}
  Theorems = FALSE
INVARIANTS Export
CHECK_DEADLOCK FALSE
