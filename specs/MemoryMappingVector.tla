------------------------ MODULE MemoryMappingVector -------------------------
(* C12 (extension): osmium::detail::mmap_vector_base<T> / mmap_vector_anon<T> / mmap_vector_file<T>
   (index/detail/mmap_vector_base.hpp, mmap_vector_anon.hpp, mmap_vector_file.hpp, tmpfile.hpp) driven DIRECTLY - the
   index specs IndexDense / IndexSparse model the same growth rules behind Map::set() but can observe neither
   capacity() nor at(), and never call clear(), shrink_to_fit() or resize() downwards.  It sits on MemoryMapping.tla:
   reserve() is TypedMemoryMapping::resize(), of which this module uses exactly what MemoryMapping.tla establishes -
   the old slots keep their bytes, the new ones are zero bytes (`Zero`, which is NOT the empty value), the file is
   extended to capacity * sizeof(T).

   A-layer: an unbounded array of slots that read `Empty` unless written, with an end marker `asize` (this is what
   the class is; unlike std::vector, clear() and a shrinking resize() keep the slots, a later growth shows them
   again), at(n) = slot n for n < size and std::out_of_range otherwise; capacity() (`acap`) starts at G
   (mmap_vector_size_increment), never shrinks, reserve(n) raises it to n, a resize()/push_back() beyond it raises it
   to the new size + G.
   Opening a file: size = file size / sizeof(T) minus the trailing empty slots; std::runtime_error when the file
   size is not a multiple of sizeof(T).
   I-layer: m_size, capacity() = size of the mapping, the slots written, and `init`: slots [0, init) were filled with the
   empty value (constructor fill, reserve() fill); a slot neither written nor filled reads as Zero. *)
EXTENDS Integers, Sequences, FiniteSets, TLC, Json

CONSTANTS G,          \* mmap_vector_size_increment
          Sizes,      \* arguments of resize() / reserve()
          Slots,      \* indexes written through operator[] and read through at()
          Backings,   \* subset of {"anon", "tmpfile", "fd"}
          F0s,        \* element counts of the file a "fd" history starts with
          OddFile,    \* the member of F0s that stands for a file whose size is not a multiple of sizeof(T)
          MaxOps, MaxPush,
          ExportHist

VARIABLES backing, size, cap, mem, init, fsize,    \* I-layer (fsize in elements)
          asize, aslots, acap, aerr,             \* A-layer
          nops, npush, open, done, hist
vars == <<backing, size, cap, mem, init, fsize, asize, aslots, acap, aerr, nops, npush, open, done, hist>>

Empty == 0
Zero == -1
Max2(a, b) == IF a > b THEN a ELSE b
Max(S) == CHOOSE x \in S : \A y \in S : y <= x
RECURSIVE Asc(_, _)
Asc(T, acc) == IF T = {} THEN acc ELSE LET m == CHOOSE x \in T : \A y \in T : x <= y IN Asc(T \ {m}, Append(acc, m))

ISlot(i) == IF i \in DOMAIN mem THEN mem[i] ELSE IF i < init THEN Empty ELSE Zero          \* data()[i]
IAt(i) == IF i >= size THEN "out_of_range" ELSE ISlot(i)
ASlot(i) == IF i \in DOMAIN aslots THEN aslots[i] ELSE Empty
AAt(i) == IF i >= asize THEN "out_of_range" ELSE ASlot(i)
(* shrink_to_fit(): while (m_size > 0 && data()[m_size - 1] == empty) --m_size; *)
IShrinkOf(m, ini, n) == LET keep == {i \in DOMAIN m : i < n /\ m[i] # Empty}
                            junk == IF ini < n THEN {n - 1} ELSE {}
                        IN IF keep \cup junk = {} THEN 0 ELSE Max(keep \cup junk) + 1
IShrink(n) == IShrinkOf(mem, init, n)
AShrinkOf(sl, n) == LET keep == {i \in DOMAIN sl : i < n /\ sl[i] # Empty} IN IF keep = {} THEN 0 ELSE Max(keep) + 1
AShrink(n) == AShrinkOf(aslots, n)

Probe == Slots \cup {asize' - 1, asize', acap' - 1} \cup DOMAIN aslots'
Rec(a, n, v) ==
    /\ nops' = nops + 1
    /\ hist' = IF ExportHist
               THEN Append(hist, [a |-> a, n |-> n, v |-> v, err |-> aerr', size |-> asize', cap |-> acap',
                                  fsize |-> fsize',
                                  tab |-> IF open' THEN LET ps == Asc({i \in Probe : i >= 0}, <<>>)
                                                        IN [k \in 1..Len(ps) |-> <<ps[k], IF ps[k] >= asize' THEN -2
                                                                                           ELSE IF ps[k] \in DOMAIN aslots' THEN aslots'[ps[k]] ELSE Empty>>]
                                          ELSE <<>>,
                                  cells |-> LET ps == Asc({i \in DOMAIN aslots' : aslots'[i] # Empty}, <<>>)
                                            IN [k \in 1..Len(ps) |-> <<ps[k], aslots'[ps[k]]>>]])
               ELSE hist

(* mmap_vector_base(capacity = increment): fill_n(data(), capacity, empty);  mmap_vector_file(): the same on a
   temporary file;  mmap_vector_file(fd): capacity = max(increment, filesize), size = filesize, fill, shrink_to_fit.
   A "fd" history starts with a file of f slots holding value 7 in slot 0 and in slot f - 3 and Empty elsewhere;
   f = OddFile: the file size is not a multiple of sizeof(T). *)
Init == /\ backing \in Backings /\ open = FALSE /\ aerr = FALSE
        /\ size = 0 /\ cap = 0 /\ mem = <<>> /\ init = 0 /\ fsize = 0 /\ asize = 0 /\ aslots = <<>> /\ acap = 0
        /\ nops = 0 /\ npush = 0 /\ done = FALSE /\ hist = <<>>
Open(f) ==
    /\ ~done /\ ~open /\ nops = 0
    /\ (backing # "fd" => f = 0)
    /\ IF f = OddFile
       THEN /\ open' = FALSE /\ aerr' = TRUE /\ fsize' = f
            /\ UNCHANGED <<size, cap, mem, init, asize, aslots, acap>>
       ELSE /\ open' = TRUE /\ aerr' = FALSE
            /\ mem' = [i \in {j \in {0, f - 3} : j >= 0 /\ j < f} |-> 7] /\ aslots' = mem'
            /\ cap' = Max2(G, f) /\ init' = cap' /\ acap' = Max2(G, f)
            /\ fsize' = (IF backing = "anon" THEN 0 ELSE cap')          \* the mapping extends the file to its own size
            /\ size' = IShrinkOf(mem', init', f) /\ asize' = AShrinkOf(aslots', f)
    /\ UNCHANGED <<backing, npush, done>>
    /\ Rec("open", f, 0)

(* reserve(new_capacity): if (new_capacity > capacity()) { m_mapping.resize(new_capacity); fill(old, new, empty) } *)
IReserve(n, c, ini) == IF n > c THEN <<n, IF ini >= c THEN n ELSE ini>> ELSE <<c, ini>>      \* <<capacity, init>>
(* resize(new_size): if (new_size > capacity()) reserve(new_size + increment); m_size = new_size *)
IGrow(n) == IF n > cap THEN IReserve(n + G, cap, init) ELSE <<cap, init>>
FileAfter(c) == IF backing = "anon" THEN fsize ELSE Max2(fsize, c)

Resize(n) == /\ ~done /\ open /\ nops < MaxOps
             /\ asize' = n /\ aslots' = aslots /\ acap' = (IF n > acap THEN n + G ELSE acap) /\ aerr' = FALSE
             /\ size' = n /\ cap' = IGrow(n)[1] /\ init' = IGrow(n)[2] /\ mem' = mem /\ fsize' = FileAfter(cap')
             /\ UNCHANGED <<backing, npush, open, done>>
             /\ Rec("resize", n, 0)
PushBack == /\ ~done /\ open /\ nops < MaxOps /\ npush < MaxPush
            /\ LET v == npush + 1 IN
               /\ npush' = v
               /\ asize' = asize + 1 /\ aslots' = (asize :> v) @@ aslots
               /\ acap' = (IF asize + 1 > acap THEN asize + 1 + G ELSE acap) /\ aerr' = FALSE
               /\ size' = size + 1 /\ cap' = IGrow(size + 1)[1] /\ init' = IGrow(size + 1)[2]
               /\ mem' = (size :> v) @@ mem /\ fsize' = FileAfter(cap')
               /\ UNCHANGED <<backing, open, done>>
               /\ Rec("push_back", 0, v)
Reserve(n) == /\ ~done /\ open /\ nops < MaxOps
              /\ acap' = Max2(acap, n) /\ aerr' = FALSE /\ UNCHANGED <<asize, aslots>>
              /\ cap' = IReserve(n, cap, init)[1] /\ init' = IReserve(n, cap, init)[2] /\ fsize' = FileAfter(cap')
              /\ UNCHANGED <<backing, size, mem, npush, open, done>>
              /\ Rec("reserve", n, 0)
(* operator[](i) = value, i < size *)
SetAt(i) == /\ ~done /\ open /\ nops < MaxOps /\ i < size /\ npush < MaxPush
            /\ LET v == npush + 1 IN
               /\ npush' = v /\ aslots' = (i :> v) @@ aslots /\ mem' = (i :> v) @@ mem /\ aerr' = FALSE
               /\ UNCHANGED <<backing, size, cap, init, fsize, asize, acap, open, done>>
               /\ Rec("set_at", i, v)
ShrinkToFit == /\ ~done /\ open /\ nops < MaxOps
               /\ asize' = AShrink(asize) /\ size' = IShrink(size) /\ aerr' = FALSE
               /\ UNCHANGED <<backing, cap, mem, init, fsize, aslots, acap, npush, open, done>>
               /\ Rec("shrink_to_fit", 0, 0)
Clear == /\ ~done /\ open /\ nops < MaxOps
         /\ asize' = 0 /\ size' = 0 /\ aerr' = FALSE
         /\ UNCHANGED <<backing, cap, mem, init, fsize, aslots, acap, npush, open, done>>
         /\ Rec("clear", 0, 0)
(* the vector is closed and a new mmap_vector_file(fd) opened on the same descriptor: all `capacity` slots are there *)
Reopen == /\ ~done /\ open /\ nops < MaxOps /\ backing \in {"tmpfile", "fd"}
          /\ asize' = AShrink(acap) /\ aslots' = aslots /\ acap' = acap /\ aerr' = FALSE
          /\ cap' = Max2(G, fsize) /\ init' = (IF init >= cap THEN cap' ELSE init) /\ mem' = mem
          /\ size' = IShrink(fsize) /\ fsize' = Max2(fsize, cap')
          /\ UNCHANGED <<backing, npush, open, done>>
          /\ Rec("reopen", 0, 0)
Finish == /\ ~done /\ nops > 0 /\ (nops >= MaxOps \/ ~open) /\ done' = TRUE
          /\ UNCHANGED <<backing, size, cap, mem, init, fsize, asize, aslots, acap, aerr, nops, npush, open, hist>>

Next == \/ \E f \in F0s : Open(f)
        \/ \E n \in Sizes : Resize(n) \/ Reserve(n)
        \/ \E i \in Slots : SetAt(i)
        \/ PushBack \/ ShrinkToFit \/ Clear \/ Reopen \/ Finish
Spec == Init /\ [][Next]_vars

\* ---------------------------------------------------------------- I => A
Refines == open => (size = asize /\ \A i \in Slots \cup DOMAIN aslots \cup {size - 1, size, cap - 1} : i >= 0 => IAt(i) = AAt(i))
NoGarbage == open => (init >= cap /\ \A i \in Slots \cup {cap - 1} : (i >= 0 /\ i < cap) => ISlot(i) = ASlot(i))
CapOK == open => (cap >= size /\ cap = acap /\ cap >= G)
FileCovers == (open /\ backing # "anon") => fsize >= cap                 \* no slot of the mapping lies beyond the file

Export == done => PrintT(<<"CASE", ToJson([backing |-> backing, steps |-> hist])>>)
=============================================================================
