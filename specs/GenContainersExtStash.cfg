SPECIFICATION Spec
CONSTANTS
  Cap0 = 16
  Kinds <- KindsReal
  GCMin = 10000
  JStar = 865
  MaxBlocks = 14
  MaxSteps = 22
  MaxClears = 1
  MaxGCs = 2
  FillFirst = 0
  RemovableTo = 0
  ExportHist = TRUE
INVARIANTS Refines Export
CHECK_DEADLOCK FALSE
