SPECIFICATION Spec
CONSTANTS
  MaxElems = 6
  MaxDepth = 6
  Fixed = TRUE
  ReadTypes = {"n", "w", "r", "c"}
  ExportHist = FALSE
  Vocab = {"osm", "osmChange", "create", "modify", "delete", "node", "way", "relation", "changeset", "tag", "nd", "member", "discussion", "comment", "text", "bounds", "bbox", "foo"}
INVARIANTS TypeOK WellFormedCommitted BuilderDiscipline NoStaleBuilders ObjectMatchesStack
CHECK_DEADLOCK FALSE
