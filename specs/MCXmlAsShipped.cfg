SPECIFICATION Spec
CONSTANTS
  DSNames = {"kids"}
  MaxSec = 3
  KidsModel = "asshipped"
  KidOrders = {"refs_first", "tags_first", "interleave"}
  Full = FALSE
  ExportHist = FALSE
INVARIANTS DecodedOK
CHECK_DEADLOCK FALSE
