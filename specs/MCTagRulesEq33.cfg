\* C20 ext (specs/TagRules.tla), thorough: design check only; TagsFilter: the complete product rule lists <= 3 (3 templates x 2 results) x tag lists <= 3 over 6 tags; equal / always_true / always_false matchers, made from const char*, std::string, bool and the matcher classes, with and without value matcher and invert.  Deadlock checking stays on: every behaviour must reach phase "done".
SPECIFICATION Spec
CONSTANTS
  Fams <- OnlyTF
  Alpha <- AlphaEq
  Shapes <- ShapeSmall33
INVARIANTS TypeOK RefinesRules RefinesIter RefinesRest
