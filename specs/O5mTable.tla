------------------------------ MODULE O5mTable ------------------------------
(* C02, o5m / o5c.  I-layer: the encoding choice space of the format as encoder actions, fused step by
   step with a decoder shaped like osmium::io::detail::O5mParser / ReferenceTable.

   encoder (A-side, the format)                      decoder (I-side, the code)
   mru    strings of the table, most recent first     ring, cur   ReferenceTable: m_table rows, current_entry
   ereg   delta registers                             dreg        m_delta_id, m_delta_timestamp, ... (reset())
   For every string of an object the encoder chooses "inline" or ANY table index that holds the string;
   between data sets it may place a reset, sync / jump / unknown / single-byte data sets, and - before
   the first object - a bounding box or file timestamp.  A reset is mandatory when the object type
   changes (all producers do that; whether ids / node references of different object types share a
   register is not observable then).
   Each action = one call of the real code: Reset = reset(), Skip = the default branch of decode_data(),
   ObjStart = decode_node/way/relation up to the first string, Str = decode_string() + ReferenceTable::add()
   (decode_user / decode_role / decode_tags), ObjEnd = buffer().commit().

   Checked by TLC (MCO5m*.cfg):
     TableAgree   ring[(cur + N - idx) % N] = mru[idx] for every idx a conformant file may use - "most
                  recent first" numbering survives wrap-around (N = 3) and reset (cur := 0, rows stale)
     RegsAgree    decoder registers = encoder registers (separate chains per field and per member type,
                  all cleared by reset)
     DecodedOK    what has been decoded is a prefix of Data(ds); at the end it is Data(ds)
   A reader may ask for a subset of the object types (mask).  The code then skips the other data sets WITHOUT decoding
   them (SkipUndecoded) - table and registers of the decoder fall behind the encoder's.  Because a reset precedes every
   change of object type (TypeResets) they meet again before the next wanted data set: TableAgree / RegsAgree are
   required whenever the decoder works on a wanted data set, DecodedOK compares with SelectSeq(D, wanted).
   MCO5mMaskAsShipped.cfg (TypeResets = FALSE) shows all three fail for files without those resets (known finding).
   RoleLimit = 250 is the format's rule for single strings (member type + role), 251 is what
   ReferenceTable::add(size <= 252) implements; MCO5mAsShipped.cfg shows TableAgree / DecodedOK fail
   with 251 on data set "role250" (recorded as known finding, see DESIGN). *)
EXTENDS Encodings
CONSTANTS N,            \* rows of the reference table (15000 in the format; 3 here, hook OSMIUM_VERIF_O5M_TABLE_SIZE)
          DSNames,      \* data sets explored
          MaxExtra,     \* bound on optional resets + skipped data sets per file
          RoleLimit,    \* see above
          SkipSet,      \* kinds of skipped data sets the encoder may insert
          HdrSet,       \* header data sets (bbox, filets) it may insert
          RefPolicy,    \* "any": inline or any matching row; "first": always the newest matching row; "inline": never a reference
          BulkN,        \* size of the generated data set "bulk" (more distinct strings than the real table has rows)
          MaskSet,      \* the sets of object types a reader may ask for (osm_entity_bits)
          TypeResets,   \* TRUE: a reset precedes every change of object type (what every known producer writes)
          SkipUndecoded,\* TRUE: data sets of a type the reader did not ask for are skipped WITHOUT decoding (as the code does)
          FillOnly,     \* TRUE: the first BulkN objects of "bulk" are only taken by FillerRun (one action for all of them)
          ExportHist
VARIABLES ds, variant, mask, pc, i, slot, fresh, nextra,
          mru, ereg,                 \* encoder
          ring, cur, dreg,           \* decoder
          dobj, decoded, box, hist
vars == <<ds, variant, mask, pc, i, slot, fresh, nextra, mru, ereg, ring, cur, dreg, dobj, decoded, box, hist>>

\* "bulk": BulkN nodes with one new tag each, then nodes whose tags were seen 1, N-1, N and N+1 .. insertions ago
BulkTag(j) == T(ToString(j), "v")
BulkData == [j \in 1..BulkN |-> NodeB(j, 0, 0, <<BulkTag(j)>>)] \o
            << NodeB(BulkN + 1, 1, 1, <<BulkTag(BulkN), BulkTag(BulkN - N + 1), BulkTag(BulkN - N), BulkTag(BulkN - N + 2), BulkTag(1)>>),
               NodeB(BulkN + 2, 2, 2, <<BulkTag(BulkN - N), BulkTag(BulkN), BulkTag(BulkN - 1), BulkTag(2)>>) >>
D == IF ds = "bulk" THEN BulkData ELSE Data(ds)
Min(a, b) == IF a < b THEN a ELSE b

ZeroReg == [id |-> 0, ts |-> 0, cs |-> 0, lon |-> 0, lat |-> 0, wref |-> 0, n |-> 0, w |-> 0, r |-> 0]
NoStr == [k |-> "-", a |-> "", b |-> ""]

\* ---- strings of an object in file order: author, (member type + role)*, tag*
UserBody(o) == [k |-> "u", a |-> ToString(o.uid), b |-> o.user]
RoleBodies(ms) == [j \in 1..Len(ms) |-> [k |-> "r", a |-> ms[j].mt, b |-> ms[j].role]]
TagBodies(ts) == [j \in 1..Len(ts) |-> [k |-> "t", a |-> ts[j][1], b |-> ts[j][2]]]
HasUser(o) == o.v # 0 /\ o.ts # 0
Slots(o) == (IF HasUser(o) THEN <<UserBody(o)>> ELSE <<>>) \o
            (IF o.vis THEN RoleBodies(o.mems) \o TagBodies(o.tags) ELSE <<>>)

\* characters of a string (pair), terminators not counted
Chars(b) == CASE b.k = "u" -> (IF b.a = "0" THEN 0 ELSE 5) + W(b.b)
              [] b.k = "t" -> W(b.a) + W(b.b)
              [] OTHER     -> 1 + W(b.b)
FormatStores(b) == Chars(b) <= 250                                     \* A: the format
CodeStores(b) == IF b.k = "r" THEN Chars(b) <= RoleLimit ELSE Chars(b) <= 250   \* I: ReferenceTable::add

\* ---- 32 bit arithmetic of lon / lat, scaled to 8 bits: deltas are sint32 and wrap, the decoder adds
\*      in 64 bits and truncates when the Location is built
Wrap(x) == ((x + 128) % 256) - 128

\* ---- delta chains over reference lists
RECURSIVE EncRefs(_, _, _)          \* way node refs: <<deltas, last>>
EncRefs(refs, k, last) == IF k > Len(refs) THEN <<>> ELSE <<refs[k] - last>> \o EncRefs(refs, k + 1, refs[k])
RECURSIVE DecRefs(_, _, _)
DecRefs(ds_, k, acc) == IF k > Len(ds_) THEN <<>> ELSE <<acc + ds_[k]>> \o DecRefs(ds_, k + 1, acc + ds_[k])
LastOr(s, d) == IF s = <<>> THEN d ELSE s[Len(s)]
RECURSIVE EncMems(_, _, _)          \* member refs: one chain per member type; reg is [n, w, r]
EncMems(ms, k, reg) == IF k > Len(ms) THEN <<>>
                       ELSE <<ms[k].ref - reg[ms[k].mt]>> \o EncMems(ms, k + 1, [reg EXCEPT ![ms[k].mt] = ms[k].ref])
RECURSIVE DecMems(_, _, _, _)
DecMems(ms, dl, k, reg) == IF k > Len(dl) THEN <<>>
                           ELSE LET t == ms[k].mt  v == reg[t] + dl[k]
                                IN <<v>> \o DecMems(ms, dl, k + 1, [reg EXCEPT ![t] = v])
RECURSIVE FinalMems(_, _, _)
FinalMems(ms, k, reg) == IF k > Len(ms) THEN reg ELSE FinalMems(ms, k + 1, [reg EXCEPT ![ms[k].mt] = ms[k].ref])
MReg(reg) == [n |-> reg.n, w |-> reg.w, r |-> reg.r]

Wanted(o) == o.t \in mask                     \* read_types() & osm_entity_bits::...
Decodes(o) == Wanted(o) \/ ~SkipUndecoded      \* does the decoder look into this data set at all
Selected == SelectSeq(D, Wanted)               \* A-layer: what a reader that asked for `mask` must deliver

Init == /\ ds \in DSNames /\ variant \in {"o5m", "o5c"} /\ mask \in MaskSet
        /\ ds = "bulk" => mask = {"n", "w", "r"}
        /\ LET dd == D IN /\ (\E k \in 1..Len(dd) : ~dd[k].vis) => variant = "o5c"
                          /\ \A k \in 1..Len(dd) : O5mCarries(dd[k])
        /\ pc = "obj" /\ i = 1 /\ slot = 0 /\ fresh = TRUE /\ nextra = 0
        /\ mru = <<>> /\ ereg = ZeroReg
        /\ ring = [x \in 0..N - 1 |-> NoStr] /\ cur = 0 /\ dreg = ZeroReg
        /\ dobj = [num |-> <<>>, strs |-> <<>>] /\ decoded = <<>> /\ box = FALSE /\ hist = <<>>

Rec(step) == hist' = IF ExportHist THEN Append(hist, step) ELSE hist

(* 0xff: table and all registers cleared.  The code only sets current_entry := 0, the rows keep their
   (stale) content. *)
Reset == /\ pc = "obj" /\ nextra < MaxExtra /\ i <= Len(D)
         /\ mru' = <<>> /\ ereg' = ZeroReg
         /\ cur' = 0 /\ dreg' = ZeroReg
         /\ fresh' = TRUE /\ nextra' = nextra + 1
         /\ Rec([a |-> "reset"])
         /\ UNCHANGED <<ds, variant, mask, pc, i, slot, ring, dobj, decoded, box>>
\* the mandatory reset in front of the first object of another type (not counted against MaxExtra)
TypeReset == /\ TypeResets /\ pc = "obj" /\ i > 1 /\ i <= Len(D) /\ D[i].t # D[i - 1].t /\ ~fresh
             /\ mru' = <<>> /\ ereg' = ZeroReg
             /\ cur' = 0 /\ dreg' = ZeroReg
             /\ fresh' = TRUE
             /\ Rec([a |-> "reset"])
             /\ UNCHANGED <<ds, variant, mask, pc, i, slot, nextra, ring, dobj, decoded, box>>

(* data sets a reader has to skip: sync (0xee), jump (0xef), types no version of the format defines
   (with content, without content, with a 2 byte length), single byte data sets 0xf0..0xfd *)
SkipKinds == {"sync", "jump", "unknown", "unknown0", "unknownL", "byte"} \cap SkipSet
Skip(kind) == /\ pc = "obj" /\ nextra < MaxExtra
              /\ nextra' = nextra + 1
              /\ Rec([a |-> "skip", kind |-> kind])
              /\ UNCHANGED <<ds, variant, mask, pc, i, slot, fresh, mru, ereg, ring, cur, dreg, dobj, decoded, box>>
\* header data before the first object: bounding box (0xdb), file timestamp (0xdc)
HeaderDs(kind) == /\ pc = "obj" /\ i = 1 /\ nextra < MaxExtra /\ (kind = "bbox" => ~box)
                  /\ nextra' = nextra + 1 /\ box' = (box \/ kind = "bbox")
                  /\ Rec([a |-> kind])
                  /\ UNCHANGED <<ds, variant, mask, pc, i, slot, fresh, mru, ereg, ring, cur, dreg, dobj, decoded>>

(* the numeric part of a data set: id, version, timestamp, changeset, lon/lat or reference section *)
ObjStart ==
    /\ pc = "obj" /\ i <= Len(D)
    /\ ~(FillOnly /\ ds = "bulk" /\ i <= BulkN)
    /\ IF i = 1 \/ fresh \/ ~TypeResets THEN TRUE ELSE D[i - 1].t = D[i].t
    /\ LET o == D[i]
           \* ---- encoder: deltas against its registers
           wId  == o.id - ereg.id
           wTs  == o.ts - ereg.ts
           wCs  == o.cs - ereg.cs
           wLon == Wrap(o.lon - ereg.lon)
           wLat == Wrap(o.lat - ereg.lat)
           wRef == EncRefs(o.refs, 1, ereg.wref)
           wMem == EncMems(o.mems, 1, MReg(ereg))
           e1 == [ereg EXCEPT !.id = o.id,
                              !.ts = IF o.v # 0 THEN o.ts ELSE @,
                              !.cs = IF o.v # 0 /\ o.ts # 0 THEN o.cs ELSE @]
           e2 == IF ~o.vis THEN e1
                 ELSE IF o.t = "n" THEN [e1 EXCEPT !.lon = o.lon, !.lat = o.lat]
                 ELSE IF o.t = "w" THEN [e1 EXCEPT !.wref = LastOr(o.refs, @)]
                 ELSE LET f == FinalMems(o.mems, 1, MReg(e1)) IN [e1 EXCEPT !.n = f.n, !.w = f.w, !.r = f.r]
           \* ---- decoder: decode_node / decode_way / decode_relation + decode_info
           id  == dreg.id + wId
           hasInfo == o.v # 0                                  \* first byte of the info section is not 0x00
           ts  == IF hasInfo THEN dreg.ts + wTs ELSE 0
           hasAuthor == hasInfo /\ ts # 0                      \* "timestamp != 0"
           cs  == IF hasAuthor THEN dreg.cs + wCs ELSE 0
           body == o.vis                                       \* data == end: no body, object is deleted
           lonAcc == dreg.lon + wLon
           latAcc == dreg.lat + wLat
           refs == DecRefs(wRef, 1, dreg.wref)
           mems == DecMems(o.mems, wMem, 1, MReg(dreg))
           d1 == [dreg EXCEPT !.id = id,
                              !.ts = IF hasInfo THEN ts ELSE @,
                              !.cs = IF hasAuthor THEN cs ELSE @]
           d2 == IF ~body THEN d1
                 ELSE IF o.t = "n" THEN [d1 EXCEPT !.lon = lonAcc, !.lat = latAcc]
                 ELSE IF o.t = "w" THEN [d1 EXCEPT !.wref = LastOr(refs, @)]
                 ELSE LET f == FinalMems([j \in 1..Len(mems) |-> [mt |-> o.mems[j].mt, ref |-> mems[j]]], 1, MReg(d1))
                      IN [d1 EXCEPT !.n = f.n, !.w = f.w, !.r = f.r]
       IN /\ ereg' = e2 /\ dreg' = IF Decodes(o) THEN d2 ELSE dreg
          /\ dobj' = [num |-> [t |-> o.t, id |-> id, v |-> o.v, vis |-> body, cs |-> cs, ts |-> ts,
                               lon |-> IF body /\ o.t = "n" THEN Wrap(lonAcc) ELSE NoCoord,
                               lat |-> IF body /\ o.t = "n" THEN Wrap(latAcc) ELSE NoCoord,
                               refs |-> IF body /\ o.t = "w" THEN refs ELSE <<>>,
                               mrefs |-> IF body /\ o.t = "r" THEN mems ELSE <<>>,
                               hasAuthor |-> hasAuthor],
                      strs |-> <<>>]
    /\ pc' = "strs" /\ slot' = 1 /\ fresh' = FALSE
    /\ Rec([a |-> "obj", i |-> i - 1, strs |-> <<>>])
    /\ UNCHANGED <<ds, variant, mask, i, nextra, mru, ring, cur, decoded, box>>

\* a string (pair) written inline enters the table: A = list with the newest first, I = ReferenceTable::add
AIns(m, b) == IF FormatStores(b) THEN SubSeq(<<b>> \o m, 1, Min(N, Len(m) + 1)) ELSE m
IIns(r, c, b) == IF CodeStores(b) THEN [ring |-> [r EXCEPT ![c] = b], cur |-> (c + 1) % N] ELSE [ring |-> r, cur |-> c]

Hows(b) == LET m == {idx \in 1..Len(mru) : mru[idx] = b} IN
           CASE RefPolicy = "inline" -> {0}
             [] RefPolicy = "first"  -> IF m = {} THEN {0} ELSE {CHOOSE x \in m : \A y \in m : x <= y}
             [] OTHER                -> {0} \cup m
(* one string (pair): inline (0x00 + bytes) or a reference 1..N; inline strings enter the table *)
Str == /\ pc = "strs" /\ slot <= Len(Slots(D[i]))
       /\ LET b == Slots(D[i])[slot] IN
          \E how \in Hows(b) :
             /\ LET got == IF how = 0 THEN b ELSE ring[(cur + N - how) % N]        \* ReferenceTable::get
                IN dobj' = IF Decodes(D[i]) THEN [dobj EXCEPT !.strs = Append(@, got)] ELSE dobj
             /\ mru' = IF how = 0 THEN AIns(mru, b) ELSE mru
             /\ LET rc == IF how = 0 /\ Decodes(D[i]) THEN IIns(ring, cur, b) ELSE [ring |-> ring, cur |-> cur]
                IN ring' = rc.ring /\ cur' = rc.cur
             /\ hist' = IF ExportHist THEN [hist EXCEPT ![Len(hist)].strs = Append(@, how)] ELSE hist
       /\ slot' = slot + 1
       /\ UNCHANGED <<ds, variant, mask, pc, i, fresh, nextra, ereg, dreg, decoded, box>>

UidOf(a) == CHOOSE u \in 0..63 : ToString(u) = a
\* assemble the object from the decoded numbers and strings (builder calls of decode_*)
Assemble(d) ==
    LET n == d.num
        s == d.strs
        u == IF n.hasAuthor THEN 1 ELSE 0
        nm == Len(n.mrefs)
        user == IF u = 1 THEN s[1] ELSE NoStr
    IN Obj(n.t, n.id, n.v, n.vis, n.cs, n.ts,
           IF u = 1 THEN UidOf(user.a) ELSE 0,                                \* the uid travels inside the string
           IF u = 1 THEN user.b ELSE "",
           n.lon, n.lat,
           [j \in 1..(Len(s) - u - nm) |-> <<s[u + nm + j].a, s[u + nm + j].b>>],
           n.refs,
           [j \in 1..nm |-> [mt |-> s[u + j].a, ref |-> n.mrefs[j], role |-> s[u + j].b]])

ObjEnd == /\ pc = "strs" /\ slot > Len(Slots(D[i]))
          /\ decoded' = IF Wanted(D[i]) THEN Append(decoded, Assemble(dobj)) ELSE decoded
          /\ i' = i + 1 /\ pc' = "obj" /\ slot' = 0
          /\ UNCHANGED <<ds, variant, mask, fresh, nextra, mru, ereg, ring, cur, dreg, dobj, box, hist>>

(* The first BulkN objects of the data set "bulk" (node j at 0/0 with the single new tag j=v, all strings inline) in ONE
   action: the BulkN-fold composition of ObjStart ; Str(inline) ; ObjEnd in closed form (starting from an empty table):
   the list holds the last min(N, BulkN) strings, newest first; row x of the ring holds the last string j with
   (j - 1) % N = x; current_entry = BulkN % N.  It exists so that a table of the real size (N = 15000) can be filled
   without 45000 states of 15000 rows each.  MCO5mFill*.cfg (FillOnly = FALSE, small N, with and without wrap-around)
   contain both ways and check that the single steps arrive at exactly this state (FillAgree). *)
FillBody(j) == [k |-> "t", a |-> ToString(j), b |-> "v"]
FillMru == [k \in 1..Min(N, BulkN) |-> FillBody(BulkN - k + 1)]
FillRing(r) == [x \in 0..N - 1 |-> IF x + 1 <= BulkN THEN FillBody(x + 1 + ((BulkN - 1 - x) \div N) * N) ELSE r[x]]
FillReg == [ZeroReg EXCEPT !.id = BulkN]
FillDec == [j \in 1..BulkN |-> NodeB(j, 0, 0, <<<<ToString(j), "v">>>>)]
FillerRun == /\ ds = "bulk" /\ pc = "obj" /\ i = 1 /\ nextra = 0 /\ mru = <<>> /\ cur = 0
             /\ mru' = FillMru /\ ring' = FillRing(ring) /\ cur' = BulkN % N
             /\ ereg' = FillReg /\ dreg' = FillReg
             /\ decoded' = FillDec
             /\ i' = BulkN + 1 /\ fresh' = FALSE
             /\ Rec([a |-> "fill", n |-> BulkN])
             /\ UNCHANGED <<ds, variant, mask, pc, slot, nextra, dobj, box>>
FillAgree == (ds = "bulk" /\ pc = "obj" /\ i = BulkN + 1 /\ nextra = 0) =>
                /\ mru = FillMru /\ ring = FillRing([x \in 0..N - 1 |-> NoStr]) /\ cur = BulkN % N
                /\ ereg = FillReg /\ dreg = FillReg /\ decoded = FillDec

Finish == /\ pc = "obj" /\ i > Len(D)
          /\ pc' = "done"
          /\ UNCHANGED <<ds, variant, mask, i, slot, fresh, nextra, mru, ereg, ring, cur, dreg, dobj, decoded, box, hist>>

Next == Reset \/ TypeReset \/ (\E k \in SkipKinds : Skip(k)) \/ (\E k \in {"bbox", "filets"} \cap HdrSet : HeaderDs(k))
        \/ ObjStart \/ Str \/ ObjEnd \/ FillerRun \/ Finish
Spec == Init /\ [][Next]_vars

(* ---------------------------------------------------------------- properties *)
TypeOK == /\ cur \in 0..N - 1 /\ Len(mru) <= N /\ i \in 1..Len(D) + 1
\* the decoder is at work on a data set the reader asked for (or may start one now)
CanStart == i <= Len(D) /\ (IF i = 1 \/ fresh \/ ~TypeResets THEN TRUE ELSE D[i - 1].t = D[i].t)
Active == \/ pc = "strs" /\ Wanted(D[i])
          \/ pc = "obj" /\ CanStart /\ Wanted(D[i])
TableAgree == Active => \A idx \in 1..Len(mru) : ring[(cur + N - idx) % N] = mru[idx]
\* the decoder's lon / lat registers are 64 bit accumulators: equal to the encoder's 32 bit registers modulo 2^32
RegsAgree == (pc = "obj" /\ CanStart /\ Wanted(D[i])) => [dreg EXCEPT !.lon = Wrap(@), !.lat = Wrap(@)] = ereg
\* one object is appended per step, so "the newest object is right" at every reachable state = "decoded is a prefix"
DecodedOK == /\ Len(decoded) <= Len(Selected)
             /\ decoded # <<>> => decoded[Len(decoded)] = Selected[Len(decoded)]
             /\ pc = "done" => Len(decoded) = Len(Selected)
             /\ (pc = "strs" /\ Wanted(D[i]) /\ dobj.strs # <<>>) => dobj.strs[Len(dobj.strs)] = Slots(D[i])[Len(dobj.strs)]
Export == pc = "done" =>
            PrintT(<<"CASE", ToJson([fmt |-> "o5m", ds |-> ds, N |-> N, variant |-> variant, mask |-> SetToSeq(mask), box |-> box,
                                     steps |-> hist, all |-> D, exp |-> decoded])>>)
=============================================================================
