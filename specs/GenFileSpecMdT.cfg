SPECIFICATION Spec
CONSTANTS
  Strings <- StringsAll
  OpsFrom <- StringsFour
  Others <- OthersFew
  MaxOps = 3
  ExportHist = TRUE
INVARIANTS TypeOK Refines TextLaw ParseFn Bounded Export
