------------------------------ MODULE XmlChoices ------------------------------
(* C02, OSM XML / osmChange.  I-layer: the choices of a producer as encoder actions, fused with a decoder
   shaped like XMLParser (context stack osm | osmChange > create | modify | delete > node | way | relation >
   tag | nd | member; init_object(); attribute dispatch).

   Semantic choices: root element osm or osmChange; for osmChange how the object list is cut into create /
   modify / delete sections (any number, also empty ones; deleted objects go to a delete section or carry
   visible="false"); for every object which attributes that have their default value are written or left
   out; the order of the child elements (references first, tags first, interleaved - the published DTD
   allows (tag|nd)* / (tag|member)* ).
   Labels the decoder must be indifferent to (Full = TRUE): attribute order, quote character, spelling of
   special characters (named entity, decimal / hex character reference, references for ordinary characters),
   white space and line ends, empty-element tag or start + end tag, XML declaration / BOM, comments and
   processing instructions, elements and attributes of other dialects, bounds / bound, number notation.

   KidsModel = "format": child order is irrelevant (A-layer).  KidsModel = "asshipped": what XMLParser
   builds - a new TagList / WayNodeList / RelationMemberList sub-item for every RUN of equal children, of
   which Object::tags() / Way::nodes() / Relation::members() see the first one only; MCXmlAsShipped.cfg
   shows DecodedOK fail for interleaved children (known finding).  *)
EXTENDS Encodings
CONSTANTS DSNames, MaxSec, KidsModel, KidOrders, Full, ExportHist
VARIABLES ds, pc, root, sec, secn, nsec, i, decoded, hist
vars == <<ds, pc, root, sec, secn, nsec, i, decoded, hist>>

D == Data(ds)
LabS(S, d) == IF Full THEN S ELSE {d}
Rec(step) == hist' = IF ExportHist THEN Append(hist, step) ELSE hist

XmlDefault(o) == DefaultFields(o) \cap {"v", "t", "c", "i", "u", "d"}
NKids(o) == IF o.t = "w" THEN Len(o.refs) ELSE IF o.t = "r" THEN Len(o.mems) ELSE 0

\* ---- children as written: a sequence of <<"T", j>> / <<"R", j>> (tag j, reference j)
Kids(o, order) ==
    LET nt == Len(o.tags)  nr == NKids(o)
        ts == [j \in 1..nt |-> <<"T", j>>]  rs == [j \in 1..nr |-> <<"R", j>>]
        m == IF nt > nr THEN nt ELSE nr
        RECURSIVE Mix(_)
        Mix(j) == IF j > m THEN <<>> ELSE (IF j <= nt THEN <<ts[j]>> ELSE <<>>) \o (IF j <= nr THEN <<rs[j]>> ELSE <<>>) \o Mix(j + 1)
    IN CASE order = "tags_first" -> ts \o rs [] order = "interleave" -> Mix(1) [] OTHER -> rs \o ts
\* ---- decoder: which children end up in the lists the object hands out
RECURSIVE FirstRun(_, _, _, _)
FirstRun(kids, kind, p, started) ==
    IF p > Len(kids) THEN <<>>
    ELSE IF kids[p][1] = kind THEN <<kids[p][2]>> \o FirstRun(kids, kind, p + 1, TRUE)
    ELSE IF started THEN <<>> ELSE FirstRun(kids, kind, p + 1, FALSE)
AllOf(kids, kind) == LET idx == {p \in 1..Len(kids) : kids[p][1] = kind}
                         RECURSIVE Col(_)
                         Col(p) == IF p > Len(kids) THEN <<>> ELSE (IF kids[p][1] = kind THEN <<kids[p][2]>> ELSE <<>>) \o Col(p + 1)
                     IN Col(1)
Seen(kids, kind) == IF KidsModel = "asshipped" THEN FirstRun(kids, kind, 1, FALSE) ELSE AllOf(kids, kind)

\* init_object() + attribute dispatch + children
Decode(o, omit, visattr, inDelete, order) ==
    LET kids == Kids(o, order)
        tj == Seen(kids, "T")  rj == Seen(kids, "R")
        vis == IF (o.vis /\ "d" \notin omit) \/ (~o.vis /\ visattr) THEN o.vis      \* attribute visible= present
               ELSE ~inDelete                                                       \* default: false inside <delete>
    IN Obj(o.t, o.id,
           IF "v" \in omit THEN 0 ELSE o.v, vis, IF "c" \in omit THEN 0 ELSE o.cs, IF "t" \in omit THEN 0 ELSE o.ts,
           IF "i" \in omit THEN 0 ELSE o.uid, IF "u" \in omit THEN "" ELSE o.user,
           o.lon, o.lat,
           [k \in 1..Len(tj) |-> o.tags[tj[k]]],
           IF o.t = "w" THEN [k \in 1..Len(rj) |-> o.refs[rj[k]]] ELSE <<>>,
           IF o.t = "r" THEN [k \in 1..Len(rj) |-> o.mems[rj[k]]] ELSE <<>>)

Init == /\ ds \in DSNames /\ root \in {"osm", "osmChange"}
        /\ pc = "style1" /\ sec = "none" /\ secn = 0 /\ nsec = 0 /\ i = 1 /\ decoded = <<>> /\ hist = <<>>

Style1 == /\ pc = "style1"
          /\ \E attrs \in LabS({"canon", "rev", "rot", "swap"}, "canon"), quote \in LabS({"dq", "sq"}, "dq"),
                esc \in LabS({"named", "named_all", "dec", "hex", "over"}, "named") :
                Rec([a |-> "style", root |-> root, attrs |-> attrs, quote |-> quote, esc |-> esc])
          /\ pc' = "style2" /\ UNCHANGED <<ds, root, sec, secn, nsec, i, decoded>>
Style2 == /\ pc = "style2"
          /\ \E ws \in LabS({"lf", "crlf", "none", "tabs", "cr"}, "lf"), selfclose \in LabS(BOOLEAN, TRUE),
                decl \in LabS({"full", "sq", "ver", "bom", "none"}, "full") :
                Rec([a |-> "style", ws |-> ws, selfclose |-> selfclose, decl |-> decl])
          /\ pc' = "style3" /\ UNCHANGED <<ds, root, sec, secn, nsec, i, decoded>>
Style3 == /\ pc = "style3"
          /\ \E comments \in LabS(BOOLEAN, FALSE), unkel \in LabS(BOOLEAN, FALSE), rootextra \in LabS(BOOLEAN, FALSE),
                bounds \in LabS({"none", "bounds", "bound"}, "none"), coord \in LabS({"fix", "min", "long"}, "fix") :
                Rec([a |-> "style", comments |-> comments, unkel |-> unkel, rootextra |-> rootextra, bounds |-> bounds, coord |-> coord])
          /\ pc' = "body" /\ UNCHANGED <<ds, root, sec, secn, nsec, i, decoded>>

\* MaxSec bounds the number of EMPTY sections; a section for the next object can always be opened
OpenSec(s) == /\ pc = "body" /\ root = "osmChange" /\ sec = "none"
              /\ \/ nsec < MaxSec
                 \/ i <= Len(D) /\ (s = "delete" => ~D[i].vis)
              /\ sec' = s /\ secn' = 0
              /\ \E secattr \in LabS(BOOLEAN, FALSE) : Rec([a |-> "open", sec |-> s, secattr |-> secattr])
              /\ UNCHANGED <<ds, pc, root, nsec, i, decoded>>
CloseSec == /\ pc = "body" /\ sec # "none"
            /\ secn = 0 => nsec < MaxSec
            /\ nsec' = IF secn = 0 THEN nsec + 1 ELSE nsec
            /\ sec' = "none" /\ secn' = 0 /\ Rec([a |-> "close"])
            /\ UNCHANGED <<ds, pc, root, i, decoded>>

Object == /\ pc = "body" /\ i <= Len(D)
          /\ root = "osmChange" => sec # "none"
          /\ LET o == D[i] IN
             /\ o.vis => sec # "delete"
             /\ \E omit \in SUBSET XmlDefault(o), visattr \in BOOLEAN, order \in KidOrders,
                   unkattr \in LabS(BOOLEAN, FALSE), comment \in LabS(BOOLEAN, FALSE) :
                   /\ ~o.vis /\ sec # "delete" => visattr
                   /\ o.vis => ~visattr                                   \* (visattr only concerns deleted objects)
                   /\ (NKids(o) = 0 \/ o.tags = <<>>) => order = "refs_first"   \* (no order to choose)
                   /\ decoded' = Append(decoded, Decode(o, omit, visattr, sec = "delete", order))
                   /\ Rec([a |-> "obj", i |-> i - 1, omit |-> SetToSeq(omit), visattr |-> visattr, kids |-> order,
                           unkattr |-> unkattr, comment |-> comment])
          /\ i' = i + 1 /\ secn' = secn + 1 /\ UNCHANGED <<ds, pc, root, sec, nsec>>

Finish == /\ pc = "body" /\ i > Len(D) /\ sec = "none"
          /\ pc' = "done" /\ UNCHANGED <<ds, root, sec, secn, nsec, i, decoded, hist>>

Next == Style1 \/ Style2 \/ Style3 \/ (\E s \in {"create", "modify", "delete"} : OpenSec(s)) \/ CloseSec \/ Object \/ Finish
Spec == Init /\ [][Next]_vars

DecodedOK == /\ IsPrefix(decoded, D)
             /\ pc = "done" => decoded = D
             /\ Len(decoded) = i - 1
Export == pc = "done" => PrintT(<<"CASE", ToJson([fmt |-> "xml", ds |-> ds, root |-> root, steps |-> hist, exp |-> decoded])>>)
=============================================================================
