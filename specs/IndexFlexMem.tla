---------------------------- MODULE IndexFlexMem ----------------------------
(* C12, the self-switching index: osmium::index::map::FlexMem (index/map/flex_mem.hpp).

   I-layer: m_sparse_entries (vector of <<id, value>>), m_max_id, m_dense, m_dense_blocks (number of blocks,
   the set of allocated - non-empty - blocks, and the slots written), with set_sparse() and its density
   heuristic, switch_to_dense() as the loop over the sparse entries, set_dense()/assure_block(), get_sparse() =
   std::lower_bound, get_dense(), sort().  B = block_size, MinDense = min_dense_entries (0xffffff; lowered by the
   OSMIUM_VERIF_FLEXMEM_MIN_DENSE hook), Factor = density_factor. *)
EXTENDS IndexMap

CONSTANTS B, MinDense, Factor,
          Dense0       \* the use_dense constructor argument

VARIABLES ent, maxid, dense, nblocks, alloc, dmem
ivars == <<ent, maxid, dense, nblocks, alloc, dmem>>
vars == <<amap, ins, afile, nsorts, ndumps, done, hist, ent, maxid, dense, nblocks, alloc, dmem>>

Block(id) == id \div B                       \* id >> bits
D == [nblocks |-> nblocks, alloc |-> alloc, dmem |-> dmem]

(* set_dense(): assure_block(block(id)) [resize the block vector, assign(block_size, empty) to an empty block];
   m_dense_blocks[block(id)][offset(id)] = value *)
SetDense(d, id, v) == [nblocks |-> IF Block(id) >= d.nblocks THEN Block(id) + 1 ELSE d.nblocks,
                       alloc |-> d.alloc \cup {Block(id)},
                       dmem |-> (id :> v) @@ d.dmem]
(* switch_to_dense(): for (const auto& entry : m_sparse_entries) set_dense(entry.id, entry.value); *)
RECURSIVE CarryOver(_, _, _)
CarryOver(d, e, k) == IF k > Len(e) THEN d ELSE CarryOver(SetDense(d, e[k][1], e[k][2]), e, k + 1)

(* get_dense(): no such block, or block empty -> empty value; else the slot *)
GetDense(id) == IF nblocks <= Block(id) \/ Block(id) \notin alloc THEN 0
                ELSE IF id \in DOMAIN dmem THEN dmem[id] ELSE 0
IGet(id) == IF dense THEN GetDense(id) ELSE VecLookup(ent, id)
Answers == dense \/ PairsSorted(ent)

Init == /\ AInit /\ ent = <<>> /\ maxid = 0 /\ dense = Dense0 /\ nblocks = 0 /\ alloc = {} /\ dmem = <<>>

Install(d) == nblocks' = d.nblocks /\ alloc' = d.alloc /\ dmem' = d.dmem

Set(id) ==
    /\ ASet(id)
    /\ IF dense
       THEN Install(SetDense(D, id, NextVal)) /\ UNCHANGED <<ent, maxid, dense>>
       ELSE LET e == Append(ent, <<id, NextVal>>)                               \* m_sparse_entries.emplace_back(id, value)
                switch == id > maxid /\ Len(e) >= MinDense /\ id < Len(e) * Factor
            IN IF switch
               THEN /\ Install(CarryOver(D, e, 1))
                    /\ ent' = <<>> /\ maxid' = 0 /\ dense' = TRUE
               ELSE /\ ent' = e /\ maxid' = (IF id > maxid THEN id ELSE maxid)
                    /\ UNCHANGED <<dense, nblocks, alloc, dmem>>
    /\ Rec("set", id, IF dense' THEN 1 ELSE 0, FALSE)

Sort == /\ ASort /\ ent' = SortPairs(ent)                                       \* std::sort(m_sparse_entries)
        /\ UNCHANGED <<maxid, dense, nblocks, alloc, dmem>>
        /\ Rec("sort", 0, IF dense THEN 1 ELSE 0, FALSE)

(* the public switch_to_dense(): "Does nothing if the index is already in dense mode" *)
ForceDense == /\ AKeep
              /\ IF dense THEN UNCHANGED ivars
                 ELSE /\ Install(CarryOver(D, ent, 1))
                      /\ ent' = <<>> /\ maxid' = 0 /\ dense' = TRUE
              /\ Rec("switch_to_dense", 0, 1, FALSE)

Finish == AFinish /\ UNCHANGED ivars /\ UNCHANGED hist

Next == \/ \E id \in Cand : Set(id)
        \/ Sort \/ ForceDense \/ Finish
Spec == Init /\ [][Next]_vars

\* ---------------------------------------------------------------- I => A
Refines == Answers => \A p \in Probes : IGet(p) = ALookup(p)
Link == /\ (Defined => Answers)
        /\ (~dense => IdsOf(ent) = ins /\ nblocks = 0 /\ dmem = <<>>)
        /\ (dense => ent = <<>> /\ DOMAIN dmem = DOMAIN amap)                    \* the switch carried every entry over
        /\ (~dense /\ ent # <<>> => maxid = Max(SeqSet(IdsOf(ent))))
        /\ \A id \in DOMAIN dmem : Block(id) \in alloc /\ Block(id) < nblocks
=============================================================================
