SPECIFICATION Spec
CONSTANTS
  Caps = {64, 72, 88, 104, 128}
  Modes = {"yes", "internal"}
  Kinds = {"node", "way", "relation", "changeset"}
  ULens = {0, 6}
  TagLens <- TagLens1
  RoleLens = {0, 7}
  CommentLens <- CommentLens1
  MaxObjects = 1
  MaxElems = 2
  MaxSteps = 13
  Ops <- BuilderOps
  ExportHist = FALSE
INVARIANT Inv
PROPERTY CommittedStable
CHECK_DEADLOCK FALSE
