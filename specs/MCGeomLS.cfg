\* design check: every node list of length 0..5 over {p,q,r,U,X} x {unique,all} x {fwd,bwd} as linestring and as polygon, every point
SPECIFICATION Spec
CONSTANTS
  Toks = {"p", "q", "r", "U", "X"}
  MaxLen = 5
  Kinds = {"point", "linestring", "polygon"}
  RingCat <- CatTwo
  MaxOuter = 0
  MaxInner = 0
  MaxCalls = 1
  ExportHist = FALSE
INVARIANTS TypeOK Refines RegsOK NoEmptyList
CHECK_DEADLOCK FALSE
