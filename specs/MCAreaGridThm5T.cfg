SPECIFICATION Spec
CONSTANTS
  G = 5
  MaxRings = 3
  Drawings = 1
  Kinds = {"rect"}
  MutSeq <- MutNone
  Modes = {"inside"}
  MaxSegs = 26
  Styles = {}
  Theorems = TRUE
INVARIANTS RayIndependent FillIsXor CancelSound CatalogueValid JudgeAcceptsReference JudgeRejectsSpoiled
CHECK_DEADLOCK FALSE
