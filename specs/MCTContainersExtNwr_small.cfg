SPECIFICATION Spec
CONSTANTS
  Ids = {0, 9, 20}
  Kind = "small"
  MaxSteps = 7
  ExportHist = FALSE
INVARIANT Refines
PROPERTY Independent
CHECK_DEADLOCK FALSE
