----------------------------- MODULE NumTextInt -----------------------------
(* C13 (4/4).  Integer attributes as text.

   Parsers (Mode "parse"): the environment builds every string over Alphabet up to MaxLen (Extend / Close)
   and, from a second set of initial states, the boundary strings around every type limit
   (2^31, 2^32, 2^63, 2^64, the overflow guard 922337203685477580 of opl_parse_int) with signs, leading
   zeros and trailing garbage.  On the closed string
     - opl_parse_int<T>() runs as a state machine, one action per loop iteration, accumulating the NEGATIVE
       value exactly as the code does (|value| is the digit sequence `val`), with the guard before
       `value *= 10`; T = int64 (ids) and T = uint32 (version, changeset, uid, num_changes, num_comments)
       share the scan and differ in the final range check;
     - string_to_object_id(), detail::string_to_ulong() (string_to_object_version/changeset_id/uid/
       num_changes/num_comments) and detail::str_to_int<T>() are the code's pre-checks and post-checks
       around the C library's strtoll()/strtoul(), which are the environment (contract: skip leading white
       space, optional sign, longest digit run, saturate, report the end).
   A-layer: the grammars and ranges the documentation promises, on digit sequences:
       opl int      -? D+ as a prefix, value in [min(T), max(T)], rest returned
       object id    [+-]? D+ the whole string, value strictly inside int64
       ulong        "-1" (= 0)  |  +? D+ the whole string, value < 2^32 - 1
       str_to_int   ws* [+-]? D+ the whole string, 0 <= value < max(T) and < 2^63 - 1, else 0

   Output (Mode "out"): OutputBlock::output_int(int64) as a state machine (sign, digit loop into temp[20],
   copy loop) against FormatIntA; round trip theorems on the spec: OplA(FormatIntA(x)) = x for every x,
   ObjectIdA(FormatIntA(x)) = x for x strictly inside int64, UlongA(FormatIntA(x)) = x for 0 <= x < 2^32-1.
   FixMin = FALSE is the code before the F12 fix (`value = -value` on INT64_MIN: undefined behaviour). *)
EXTENDS NumDigits, FiniteSets, Json
CONSTANTS Mode, Alphabet, MaxLen, Level, FixMin, DoExport
VARIABLES s, closed,
          pc, pos, oneg, val, ub, out,           \* opl_parse_int scanner / result records
          xneg, xmag, v, temp, outp              \* output_int
vars == <<s, closed, pc, pos, oneg, val, ub, out, xneg, xmag, v, temp, outp>>

WS == {" ", "\t", "\n"}                          \* isspace() characters that occur in the strings
Rej == [ok |-> FALSE, neg |-> FALSE, mag |-> <<>>, rest |-> 0]
Acc(n, m, r) == [ok |-> TRUE, neg |-> n /\ ~IsZero(m), mag |-> Strip(m), rest |-> r]
Guard922 == <<9, 2, 2, 3, 3, 7, 2, 0, 3, 6, 8, 5, 4, 7, 7, 5, 8, 0>>
U32MAXm1 == <<4, 2, 9, 4, 9, 6, 7, 2, 9, 4>>
Ch(k) == At(s, k)

---------------------------------------------------------------------------
(* A-layer *)
RECURSIVE SkipWs(_, _)
SkipWs(str, k) == IF At(str, k) \in WS THEN SkipWs(str, k + 1) ELSE k
(* optional sign from `signs`, then a digit run; [found, neg, i (first digit), n (digits)] *)
SignedRun(str, k, signs) == LET sg == At(str, k) \in signs
                                i1 == IF sg THEN k + 1 ELSE k
                            IN  [neg |-> sg /\ At(str, k) = "-", i |-> i1, n |-> Run(str, i1)]
MaxOf(T) == IF T = "i64" THEN I64MAX ELSE U32MAX
MinAbsOf(T) == IF T = "i64" THEN I64MINABS ELSE <<>>
OplA(str, T) == LET r == SignedRun(str, 1, {"-"})
                    M == Digits(str, r.i, r.n)
                IN  IF r.n = 0 THEN Rej
                    ELSE IF (IF r.neg THEN Less(MinAbsOf(T), M) ELSE Less(MaxOf(T), M)) THEN Rej
                    ELSE Acc(r.neg, M, r.i + r.n)
ObjectIdA(str) == LET r == SignedRun(str, 1, {"-", "+"})
                      M == Digits(str, r.i, r.n)
                  IN  IF r.n = 0 \/ r.i + r.n # Len(str) + 1 THEN Rej
                      ELSE IF (IF r.neg THEN Leq(I64MINABS, M) ELSE Leq(I64MAX, M)) THEN Rej
                      ELSE Acc(r.neg, M, Len(str) + 1)
UlongA(str) == IF str = <<"-", "1">> THEN Acc(FALSE, <<>>, 3)
               ELSE LET r == SignedRun(str, 1, {"+"})
                        M == Digits(str, r.i, r.n)
                    IN  IF r.n = 0 \/ r.i + r.n # Len(str) + 1 \/ Leq(U32MAX, M) THEN Rej
                        ELSE Acc(FALSE, M, Len(str) + 1)
StrToIntA(str, max) == LET k == SkipWs(str, 1)
                           r == SignedRun(str, k, {"-", "+"})
                           M == Digits(str, r.i, r.n)
                       IN  IF r.n = 0 \/ r.i + r.n # Len(str) + 1 \/ (r.neg /\ ~IsZero(M)) \/ Leq(max, M) \/ Leq(I64MAX, M)
                           THEN <<>> ELSE Strip(M)
FormatIntA(n, m) == (IF n THEN <<"-">> ELSE <<>>) \o (IF m = <<>> THEN <<"0">> ELSE Chars(m))

---------------------------------------------------------------------------
(* environment: strtoll / strtoul (base 10) *)
StrToLL(str) == LET k == SkipWs(str, 1)
                    r == SignedRun(str, k, {"-", "+"})
                    M == Strip(Digits(str, r.i, r.n))
                IN  IF r.n = 0 THEN [neg |-> FALSE, mag |-> <<>>, endp |-> 1]
                    ELSE [neg |-> r.neg /\ M # <<>>,
                          mag |-> IF r.neg THEN (IF Less(I64MINABS, M) THEN I64MINABS ELSE M)
                                  ELSE (IF Less(I64MAX, M) THEN I64MAX ELSE M),
                          endp |-> r.i + r.n]
StrToUL(str) == LET k == SkipWs(str, 1)
                    r == SignedRun(str, k, {"-", "+"})
                    M == Strip(Digits(str, r.i, r.n))
                IN  IF r.n = 0 THEN [neg |-> FALSE, mag |-> <<>>, endp |-> 1]
                    ELSE [neg |-> r.neg, mag |-> IF Less(U64MAX, M) THEN U64MAX ELSE M, endp |-> r.i + r.n]

(* the code around them *)
ObjectIdI(str) == IF At(str, 1) # END /\ At(str, 1) \notin WS
                  THEN LET r == StrToLL(str)
                       IN  IF ~(r.neg /\ r.mag = I64MINABS) /\ ~(~r.neg /\ r.mag = I64MAX) /\ At(str, r.endp) = END
                           THEN Acc(r.neg, r.mag, r.endp) ELSE Rej
                  ELSE Rej
UlongI(str) == IF At(str, 1) = "-" /\ At(str, 2) = "1" /\ At(str, 3) = END THEN Acc(FALSE, <<>>, 3)
               ELSE IF At(str, 1) # END /\ At(str, 1) # "-" /\ At(str, 1) \notin WS
               THEN LET r == StrToUL(str)
                    IN  IF ~r.neg /\ Less(r.mag, U32MAX) /\ At(str, r.endp) = END THEN Acc(FALSE, r.mag, r.endp) ELSE Rej
               ELSE Rej
(* strtoul is never asked to negate: a '-' can not get past the pre-check *)
UlongNeverNegates == ~(At(s, 1) # END /\ At(s, 1) # "-" /\ At(s, 1) \notin WS /\ StrToUL(s).neg /\ StrToUL(s).mag # <<>>)
StrToIntI(str, max) == LET r == StrToLL(str)
                       IN  IF r.neg \/ r.mag = I64MAX \/ Leq(max, r.mag) \/ At(str, r.endp) # END THEN <<>> ELSE r.mag

---------------------------------------------------------------------------
(* inputs *)
Bases == IF Level = 0 THEN {I32MAX, U32MAX, I64MAX, U64MAX, Guard922}
         ELSE {I32MAX, U32MAX, I64MAX, U64MAX, Guard922, <<1>> \o Rep(0, 18), <<1>> \o Rep(0, 19), Rep(9, 18), Rep(9, 21),
               <<9, 2, 2, 3, 3, 7, 2, 0, 3, 6, 8, 5, 4, 7, 7, 5, 8, 1>>, <<6, 5, 5, 3, 5>>, <<1>> \o Rep(0, 9)}
Around(b) == {Dec(b), b, AddSmall(b, 1), AddSmall(b, 2)}
Prefixes == IF Level = 0 THEN {<<>>, <<"-">>, <<"+">>, <<"0">>, <<"-", "0">>, <<" ">>}
            ELSE {<<>>, <<"-">>, <<"+">>, <<"0">>, <<"-", "0">>, <<" ">>, <<"0", "0", "0">>, <<"+", "-">>, <<"-", "+">>, <<"\t", "-">>, <<" ", "+">>,
                  <<"-", " ">>, <<"\n">>, <<"x">>}
Posts == IF Level = 0 THEN {<<>>, <<" ">>, <<"x">>, <<"0">>} ELSE {<<>>, <<" ">>, <<"x">>, <<"0">>, <<".", "0">>, <<"8">>, <<"9">>, <<"-">>, <<"\t">>, <<"e", "1">>}
BoundaryStrings == {pre \o Chars(n) \o po : pre \in Prefixes, n \in UNION {Around(b) : b \in Bases}, po \in Posts}
                   \cup {<<"-", "1">>, <<"-", "1", " ">>, <<"-", "2">>, <<"+", "1">>, <<"-", "0", "1">>, <<"-", "1", "0">>}
Values == {[neg |-> n, mag |-> Strip(m)] : n \in BOOLEAN,
           m \in UNION {Around(b) : b \in Bases \ {U64MAX, Rep(9, 21), <<1>> \o Rep(0, 19)}} \cup {<<>>, <<1>>, <<9>>, <<1, 0>>, <<9, 9>>, <<1, 0, 0>>, <<1, 2, 3, 4, 5, 6, 7, 8, 9, 0>>}}
OutDomain == {x \in Values \cup {[neg |-> n, mag |-> m] : n \in BOOLEAN, m \in {Rep(9, k) : k \in 1..18} \cup {<<1>> \o Rep(0, k) : k \in 1..18}} : (IF x.neg THEN Leq(x.mag, I64MINABS) ELSE Leq(x.mag, I64MAX)) /\ ~(x.neg /\ x.mag = <<>>)}

---------------------------------------------------------------------------
NoOut == /\ xneg = FALSE /\ xmag = <<>> /\ v = <<>> /\ temp = <<>> /\ outp = <<>>
Init == /\ IF Mode = "parse"
           THEN /\ (s = <<>> /\ closed = FALSE) \/ (s \in BoundaryStrings /\ closed = TRUE)
                /\ pc = "build" /\ NoOut
           ELSE /\ s = <<>> /\ closed = TRUE /\ pc = "ostart"
                /\ \E x \in OutDomain : xneg = x.neg /\ xmag = x.mag
                /\ v = <<>> /\ temp = <<>> /\ outp = <<>>
        /\ pos = 1 /\ oneg = FALSE /\ val = <<>> /\ ub = FALSE /\ out = [i64 |-> Rej, u32 |-> Rej]

OutVars == <<xneg, xmag, v, temp, outp>>
Extend(c) == /\ pc = "build" /\ ~closed /\ Len(s) < MaxLen /\ s' = Append(s, c)
             /\ UNCHANGED <<closed, pc, pos, oneg, val, ub, out>> /\ UNCHANGED OutVars
Close == /\ pc = "build" /\ ~closed /\ closed' = TRUE
         /\ UNCHANGED <<s, pc, pos, oneg, val, ub, out>> /\ UNCHANGED OutVars
(* opl_parse_int *)
Stay == UNCHANGED <<s, closed>> /\ UNCHANGED OutVars
Throw == pc' = "done" /\ out' = [i64 |-> Rej, u32 |-> Rej]
OSign == /\ pc = "build" /\ closed
         /\ IF Ch(1) = "-" THEN oneg' = TRUE /\ pos' = 2 ELSE UNCHANGED <<oneg, pos>>
         /\ pc' = "ofirst" /\ UNCHANGED <<val, ub, out>> /\ Stay
OFirst == /\ pc = "ofirst"
          /\ IF IsDig(Ch(pos)) THEN pc' = "oloop" /\ UNCHANGED out ELSE Throw
          /\ UNCHANGED <<pos, oneg, val, ub>> /\ Stay
(* while (digit) { if (value <= -G) { if (value < -G || digit > '8') throw; } value *= 10; value -= digit; } *)
ODigit == /\ pc = "oloop" /\ IsDig(Ch(pos))
          /\ IF Leq(Guard922, val) /\ (Less(Guard922, val) \/ DV[Ch(pos)] > 8)
             THEN Throw /\ UNCHANGED <<val, pos, ub>>
             ELSE /\ val' = Append(val, DV[Ch(pos)]) /\ pos' = pos + 1
                  /\ ub' = (ub \/ Less(I64MINABS, Append(val, DV[Ch(pos)])))
                  /\ UNCHANGED <<pc, out>>
          /\ UNCHANGED oneg /\ Stay
OFinal(T) == IF oneg THEN (IF Less(MinAbsOf(T), val) THEN Rej ELSE Acc(TRUE, val, pos))
             ELSE (IF Strip(val) = I64MINABS \/ Less(MaxOf(T), val) THEN Rej ELSE Acc(FALSE, val, pos))
OExit == /\ pc = "oloop" /\ ~IsDig(Ch(pos))
         /\ out' = [i64 |-> OFinal("i64"), u32 |-> OFinal("u32")] /\ pc' = "done"
         /\ UNCHANGED <<pos, oneg, val, ub>> /\ Stay

(* output_int *)
Keep == UNCHANGED <<s, closed, pos, oneg, val, out, xneg, xmag>>
OutStart == /\ pc = "ostart"
            /\ outp' = (IF xneg THEN <<"-">> ELSE <<>>)
            /\ ub' = (~FixMin /\ xneg /\ xmag = I64MINABS)          \* value = -value overflows
            /\ v' = xmag /\ pc' = "odigits" /\ UNCHANGED temp /\ Keep
(* do { *t++ = value % 10 + '0'; value /= 10; } while (value > 0); *)
OutDigit == /\ pc = "odigits"
            /\ temp' = Append(temp, DC[(IF v = <<>> THEN 0 ELSE v[Len(v)]) + 1])
            /\ v' = Div10(v)
            /\ pc' = (IF ~IsZero(Div10(v)) THEN "odigits" ELSE "ocopy")
            /\ UNCHANGED <<outp, ub>> /\ Keep
(* do { *data++ = *--t; } while (t != temp); *)
OutCopy == /\ pc = "ocopy"
           /\ outp' = Append(outp, temp[Len(temp)]) /\ temp' = SubSeq(temp, 1, Len(temp) - 1)
           /\ pc' = (IF Len(temp) > 1 THEN "ocopy" ELSE "odone")
           /\ UNCHANGED <<v, ub>> /\ Keep

Next == (\E c \in Alphabet : Extend(c)) \/ Close \/ OSign \/ OFirst \/ ODigit \/ OExit \/ OutStart \/ OutDigit \/ OutCopy
Spec == Init /\ [][Next]_vars

---------------------------------------------------------------------------
NoOverflow == ~ub
BufferOK == Len(temp) <= 20
OplIimpliesA == pc = "done" => out.i64 = OplA(s, "i64") /\ out.u32 = OplA(s, "u32")
WrappersIimpliesA == (pc = "done") =>
                        /\ ObjectIdI(s) = ObjectIdA(s) /\ UlongI(s) = UlongA(s) /\ UlongNeverNegates
                        /\ StrToIntI(s, I32MAX) = StrToIntA(s, I32MAX) /\ StrToIntI(s, U64MAX) = StrToIntA(s, U64MAX)
OutIimpliesA == pc = "odone" => outp = FormatIntA(xneg, xmag)
X == [ok |-> TRUE, neg |-> xneg, mag |-> xmag, rest |-> Len(outp) + 1]
OutRoundTrip == pc = "odone" =>
                   /\ OplA(outp, "i64") = X
                   /\ (IF xneg THEN Less(xmag, I64MINABS) ELSE Less(xmag, I64MAX)) => ObjectIdA(outp) = X
                   /\ (~xneg /\ Leq(xmag, U32MAX)) => OplA(outp, "u32") = X
                   /\ (~xneg /\ Less(xmag, U32MAX)) => UlongA(outp) = X

R(r) == [ok |-> r.ok, neg |-> r.neg, mag |-> r.mag, rest |-> r.rest]
Export == /\ (DoExport /\ pc = "done") =>
               PrintT(<<"CASE", ToJson([k |-> "parse", s |-> s, opl64 |-> R(out.i64), opl32 |-> R(out.u32), oid |-> R(ObjectIdI(s)),
                                        ulong |-> R(UlongI(s)), sti32 |-> StrToIntI(s, I32MAX), sti64 |-> StrToIntI(s, U64MAX)])>>)
          /\ (DoExport /\ pc = "odone") =>
               PrintT(<<"CASE", ToJson([k |-> "out", neg |-> xneg, mag |-> xmag, str |-> outp])>>)
=============================================================================
