---------------------------- MODULE MCRoundTrip ----------------------------
(* Constants for the design-check and export configurations of RoundTrip.tla. *)
EXTENDS RoundTrip

MdAll == {"version", "timestamp", "changeset", "uid", "user"}
MdEvery == SUBSET MdAll                                       \* all 32 subsets
MdSome == {{}, MdAll, {"version"}, {"user"}, {"timestamp", "changeset"}, {"version", "uid", "user"}, {"uid"}, {"version", "timestamp", "changeset", "uid"}}
MdFew == {{}, MdAll, {"user"}}

\* ---- option vectors.  dense / comp only mean something for PBF, hist is fixed by the format for change files.
PbfOpts(M, C, F, L) == {[fmt |-> "pbf", dense |-> d, comp |-> c, md |-> m, hist |-> h, low |-> l, fcomp |-> f] :
                        d \in BOOLEAN, c \in C, m \in M, h \in BOOLEAN, l \in L, f \in F}
XmlOpts(M, F, L) == {[fmt |-> "xml", dense |-> TRUE, comp |-> "zlib", md |-> m, hist |-> h, low |-> l, fcomp |-> f] :
                     m \in M, h \in BOOLEAN, l \in L, f \in F}
ChgOpts(M, F, L) == {[fmt |-> "xmlchange", dense |-> TRUE, comp |-> "zlib", md |-> m, hist |-> TRUE, low |-> l, fcomp |-> f] :
                     m \in M, l \in L, f \in F}
OplOpts(M, F, L) == {[fmt |-> "opl", dense |-> TRUE, comp |-> "zlib", md |-> m, hist |-> h, low |-> l, fcomp |-> f] :
                     m \in M, h \in BOOLEAN, l \in L, f \in F}
Comps == {"none", "zlib", "lz4"}
FComps == {"none", "gzip", "bzip2"}
AllOpts(M, C, F) == PbfOpts(M, C, F, BOOLEAN) \cup XmlOpts(M, F, BOOLEAN) \cup ChgOpts(M, F, BOOLEAN) \cup OplOpts(M, F, BOOLEAN)
OptsFull == AllOpts(MdEvery, Comps, FComps)                     \* 3264 option vectors
\* the structural part of the option vector; blob and file compression are passed through by the model (they are
\* assigned by the check in a covering way)
OptsStructEvery == AllOpts(MdEvery, {"zlib"}, {"none"})         \* 576
OptsStructSome == AllOpts(MdSome, {"zlib"}, {"none"})           \* 144
OptsBlocks == PbfOpts(MdFew, {"zlib"}, {"none"}, {FALSE})       \* 12
OptsBulk == PbfOpts({MdAll, {}}, {"zlib"}, {"none"}, {FALSE})   \* 8
OptsSeq == PbfOpts({MdAll}, {"zlib"}, {"none"}, {TRUE}) \cup XmlOpts({MdAll}, {"none"}, {TRUE}) \cup ChgOpts({MdAll}, {"none"}, {TRUE})
             \cup OplOpts({MdAll}, {"none"}, {TRUE})

\* ---- elements
Base == [t |-> "node", n |-> 1, cls |-> "tiny", ver |-> "0", ts |-> "0", cs |-> "0", uid |-> "0", user |-> "0", vis |-> TRUE,
         loc |-> "undef", refs |-> 0, rloc |-> "undef", mem |-> 0, tags |-> 0,
         closed |-> "0", bounds |-> "undef", nch |-> "0", ncm |-> "0", disc |-> 0]
Full(e) == [e EXCEPT !.ver = "v", !.ts = "v", !.cs = "v", !.uid = "v", !.user = "v"]
Node(n, loc, vis, tags) == [Full(Base) EXCEPT !.n = n, !.loc = loc, !.vis = vis, !.tags = tags]
Way(n, refs, rloc, vis, tags) == [Full(Base) EXCEPT !.t = "way", !.n = n, !.refs = refs, !.rloc = rloc, !.vis = vis, !.tags = tags]
Rel(n, mem, vis, tags) == [Full(Base) EXCEPT !.t = "relation", !.n = n, !.mem = mem, !.vis = vis, !.tags = tags]
Cs(n, ts, closed, uid, user, bounds, tags, disc, nch, ncm) ==
    [Base EXCEPT !.t = "changeset", !.n = n, !.ts = ts, !.closed = closed, !.uid = uid, !.user = user, !.bounds = bounds,
                 !.tags = tags, !.disc = disc, !.nch = nch, !.ncm = ncm]
Heavy(e, cls, n) == [e EXCEPT !.cls = cls, !.n = n]

nA == Node(2, "valid", TRUE, 2)
nD == [Node(2, "valid", FALSE, 1) EXCEPT !.cs = "0"]                      \* deleted node that still has a location
nE == Node(1, "ext", TRUE, 1)
nU == [Base EXCEPT !.n = 2]                                               \* nothing but an id
nP == [Node(1, "valid", TRUE, 0) EXCEPT !.ts = "0", !.uid = "0"]           \* partial metadata: zero fields next to non-zero ones
nQ == [Node(1, "undef", FALSE, 0) EXCEPT !.ver = "0", !.user = "0"]
wA == Way(2, 3, "valid", TRUE, 1)
wM == [Way(1, 4, "mix", FALSE, 0) EXCEPT !.user = "0"]
wU == Way(1, 2, "undef", TRUE, 2)
wE == Way(1, 2, "ext", TRUE, 0)
w0 == [Base EXCEPT !.t = "way", !.user = "v"]                              \* no nodes, no tags
rA == Rel(2, 3, TRUE, 1)
rD == [Rel(1, 2, FALSE, 0) EXCEPT !.ts = "0"]
r0 == [Base EXCEPT !.t = "relation"]
cA == Cs(2, "v", "v", "v", "v", "valid", 2, 2, "v", "v")
c0 == Cs(2, "v", "0", "0", "0", "undef", 0, 0, "0", "0")                   \* anonymous, open
cD == Cs(1, "0", "0", "v", "0", "undef", 1, 1, "0", "v")
cN == Cs(1, "v", "v", "v", "v", "undef", 0, 0, "v", "0")

ElemsRich == {nA, nD, nE, nU, nP, nQ, wA, wM, wU, wE, w0, rA, rD, r0, cA, c0, cD, cN}
SeqObjects == <<nA, nD, nE, nU, wA, nP, nQ, wM, wU, w0, rA, rD, r0, nA>>
SeqWithChangesets == <<cA, nA, wA, c0, cD, rA, cN, cA>>
SeqExtRefs == <<nA, wE, rA>>
InputsMatrix == {SeqObjects, SeqWithChangesets, SeqExtRefs}

\* type switches: every sequence over one object of each kind
ElemsSeq == {Node(1, "valid", TRUE, 1), Way(1, 2, "valid", TRUE, 1), Rel(1, 2, TRUE, 1), Node(1, "undef", FALSE, 0)}

\* block borders.  Sizes in bytes, in the Writer's own measure (PrimitiveBlock::size()).
SizesMC == [tiny |-> 300, med |-> 1342177, big |-> 3355443, str |-> 5300, dtag |-> 11300]
n1 == Node(1, "valid", TRUE, 1)
w1 == Way(1, 2, "undef", TRUE, 1)
r1 == Rel(1, 2, TRUE, 1)
nRun(k) == Node(k, "valid", TRUE, 1)
wRun(k) == Way(k, 2, "undef", TRUE, 1)
wMed(k) == Heavy(w1, "med", k)
wBig == Heavy(w1, "big", 1)
wStr(k) == Heavy(Way(1, 2, "undef", TRUE, 5), "str", k)
nTag(k) == Heavy(Node(1, "valid", TRUE, 1400), "dtag", k)
ElemsBlocks == {n1, w1, nRun(7999), nRun(8000), nRun(8001), wRun(8000), wMed(23), wMed(1), wStr(8000), nTag(8000)}
ElemsBulkQ == {n1, w1, nRun(7999), nRun(8001), wMed(23), wMed(2), wStr(8000), nTag(8000)}
ElemsF7 == {w1, wMed(23), wBig}
InputsF7 == {<<wMed(23), wBig, w1>>, <<w1, wMed(23), wBig>>}
InputsBulkQ == {<<nRun(7999), n1, n1>>, <<nRun(8001), w1>>, <<wRun(8000), w1, n1>>, <<wMed(23), wMed(2), w1>>, <<wMed(2), wMed(23)>>,
                <<wStr(8000), w1>>, <<nTag(8000), n1>>, <<n1, nRun(8000), nRun(8000), n1>>}
NoInputs == {}
ElemsOf(S) == UNION {{s[i] : i \in 1..Len(s)} : s \in S}
ElemsMatrix == ElemsOf(InputsMatrix)
ElemsBulkFixed == ElemsOf(InputsBulkQ)
ElemsF7Fixed == ElemsOf(InputsF7)
OptsQuick == AllOpts(MdSome, Comps, FComps)                     \* 816 option vectors
ElemsBlocksQ == {n1, w1, r1, nRun(7999), nRun(8000), nRun(8001), wMed(23), wStr(8000)}
=============================================================================
