SPECIFICATION Spec
CONSTANTS
  N = 3
  DSNames = {"basic", "hist", "delta", "kids"}
  MaxExtra = 1
  SkipSet = {"sync", "jump", "unknown", "unknown0", "unknownL", "byte"}
  HdrSet = {"bbox", "filets"}
  RefPolicy = "any"
  MaskSet = {{"n", "w", "r"}, {"n"}, {"w"}, {"r"}, {"n", "w"}, {"n", "r"}, {"w", "r"}}
  TypeResets = FALSE
  SkipUndecoded = FALSE
  FillOnly = FALSE
  BulkN = 5
  RoleLimit = 250
  ExportHist = TRUE
INVARIANTS TableAgree RegsAgree DecodedOK Export
CHECK_DEADLOCK FALSE
