SPECIFICATION Spec
CONSTANTS
  Cand = {0, 1, 2, 3, 4, 5, 6, 7, 8, 9, 10, 11, 12, 13, 14, 15, 16, 17, 18, 19, 20, 22, 23, 25}
  Probes = {0, 1, 2, 3, 4, 5, 6, 7, 8, 9, 10, 11, 12, 13, 14, 15, 16, 17, 18, 19, 20, 21, 22, 23, 24, 25, 26}
  MaxSets = 19
  MaxSorts = 3
  MaxDumps = 0
  ArrayLimit = 0
  ExportHist = TRUE
  B = 1
  MinDense = 16
  Factor = 3
  Dense0 = FALSE
INVARIANTS Refines Link Export
CHECK_DEADLOCK FALSE
