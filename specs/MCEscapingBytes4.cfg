SPECIFICATION Spec
CONSTANTS
  Mode = "bytes"
  Alphabet <- AlphaOpl
  ByteReps <- BytesTwoPerClass
  MaxLen = 4
  Suffixes = {""}
  DoExport = FALSE
  HexAsShipped = FALSE
INVARIANTS TypeOK NoOverRead ConsumesSequences VerdictMatchesA XmlNoStructural
CHECK_DEADLOCK FALSE
