\* C20, thorough.  Deadlock checking stays on: every behaviour must reach phase "done".
SPECIFICATION Spec
CONSTANTS
  Alphabet <- AlphaFile
  MaxLen = 4
  HandlerLists <- Singles
  Containers <- ContReader
  MaxChunks = 1
INVARIANTS TypeOK Refines NoThrow Export
