SPECIFICATION Spec
CONSTANTS
  Configs <- TheConfigs
  Ns = {0, 1, 2}
  NestSets <- NestSmall
  Bounds <- BoundsSmall
  Pools = {FALSE, TRUE}
  Fds = {FALSE}
  ScriptLen = 3
  LongScripts = TRUE
  FdStop = TRUE
  SkipAll = FALSE
INVARIANTS LogIsExpected NoReadAfterClose HeaderOnce NoThreadLeft NoFdLeft QueueBounds
