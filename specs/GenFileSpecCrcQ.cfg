SPECIFICATION Spec
CONSTANTS
  Contents <- ContentsAll
  MemVariants <- MemAll
  RtOptions <- RtFew
  ExportHist = TRUE
INVARIANTS LayoutIndependent FeedSeesContent HasBlindSpots FullRoundTrip Export
