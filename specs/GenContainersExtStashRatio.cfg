SPECIFICATION Spec
CONSTANTS
  Cap0 = 16
  Kinds <- KindsK1000
  GCMin = 10000
  JStar = 865
  MaxBlocks = 72
  MaxSteps = 84
  MaxClears = 0
  MaxGCs = 0
  FillFirst = 64
  RemovableTo = 16
  ExportHist = TRUE
INVARIANTS Refines Export
CHECK_DEADLOCK FALSE
