------------------------------ MODULE MCBufferExt ------------------------------
EXTENDS BufferExt
TagLens1 == {<<1, 7>>}
TagLens2 == {<<0, 0>>, <<1, 7>>, <<3, 4>>, <<7, 8>>}
NoScript == <<>>
AreaOps == {"OpenObject", "SetUser", "OpenSub", "AddTag", "AddNodeRef", "Commit"}
BuilderOps == AreaOps \cup {"AddMember", "Rollback", "Move", "OthBuild", "TakeNested"}
BufferOps == {"OpenObject", "Commit", "Rollback", "Clear", "AddBuffer", "PushBack", "SetRemoved", "Purge", "Swap", "Move",
              "TakeNested", "OthBuild"}
CbOps == {"OpenObject", "SetUser", "Commit", "Rollback", "CbPossiblyFlush", "CbFlush", "CbRead", "CbSetCallback"}
CbAllOps == CbOps \cup {"OpenSub", "AddTag", "AddNodeRef", "Move"}
AllOps == BuilderOps \cup BufferOps
CapsAll == {64 + 8 * i : i \in 0..24}
CapsScript == {64 + 8 * i : i \in 0..27}

St(a, args) == [a |-> a, args |-> args]
X0 == [x |-> 0]
Ring(k, n) == <<St("OpenSub", [k |-> k])>> \o [i \in 1..n |-> St("AddNodeRef", X0)] \o <<St("CloseSub", X0)>>
(* one multipolygon: user name that needs extension, tags, outer(3) inner(2) inner(1) outer(2) inner(1); 264 bytes *)
ScriptArea1 ==
    <<St("OpenObject", [k |-> "area", id |-> 1]), St("SetUser", [ul |-> 14]),
      St("OpenSub", [k |-> "taglist"]), St("AddTag", [k |-> 3, v |-> 4]), St("AddTag", [k |-> 0, v |-> 0]), St("CloseSub", X0)>>
    \o Ring("outer", 3) \o Ring("inner", 2) \o Ring("inner", 1) \o Ring("outer", 2) \o Ring("inner", 1)
    \o <<St("CloseObject", X0), St("Commit", X0)>>
(* odd shapes: an inner ring before any outer ring, empty rings, the tag list last, the user name filling the minimal field
   exactly; then a second, plain area, a purge of the first and the nested chain taken out *)
ScriptArea2 ==
    <<St("OpenObject", [k |-> "area", id |-> 1]), St("SetUser", [ul |-> 5])>>
    \o Ring("inner", 1) \o Ring("outer", 0) \o Ring("inner", 0) \o Ring("outer", 1)
    \o <<St("OpenSub", [k |-> "taglist"]), St("AddTag", [k |-> 7, v |-> 8]), St("CloseSub", X0),
         St("CloseObject", X0), St("Commit", X0),
         St("OpenObject", [k |-> "area", id |-> 2])>>
    \o Ring("outer", 2)
    \o <<St("Move", X0), St("CloseObject", X0), St("Commit", X0)>>
(* internal growth with removed items: a removed item is frozen into a nested buffer together with kept ones, the nested
   buffer is taken out and purged itself, the current block is purged while nested buffers exist, sources with open builders *)
ScriptPurge ==
    <<St("OpenObject", [k |-> "node", id |-> 1]), St("CloseObject", X0), St("Commit", X0),
      St("SetRemoved", [i |-> 1, id |-> 801]),
      St("OthOpen", [id |-> 2]), St("PushBack", X0), St("AddBuffer", X0), St("OthClose", X0), St("Commit", X0),
      St("OpenObject", [k |-> "area", id |-> 3]), St("SetUser", [ul |-> 14])>>
    \o Ring("outer", 2)
    \o <<St("Move", X0), St("CloseObject", X0), St("Commit", X0),
         St("TakeNested", [purge |-> TRUE]),
         St("OpenObject", [k |-> "node", id |-> 4]), St("CloseObject", X0), St("Commit", X0),
         St("Purge", X0), St("Clear", X0)>>
S1Len == Len(ScriptArea1)
S3Len == Len(ScriptPurge)
S2Len == Len(ScriptArea2)
=============================================================================
