------------------------------ MODULE Encodings ------------------------------
(* C02 - "Readers decode every spec-conformant file, however it was encoded".

   A-LAYER.  The mathematical object the property talks about is the OBJECT LIST a file describes.
   This module defines that list for a small catalogue of data sets (values are small numbers /
   string tokens; the replay side maps them onto boundary values, see tools/enc_common.py) and the
   notions every format module shares (default values, what a format can carry).

   The four format modules EXTEND this module and add the I-layer: the ENCODING CHOICE SPACE of the
   format as nondeterministic encoder actions, fused step by step with a decoder that is shaped like
   libosmium's parser for that format:
       O5mTable.tla    string reference table ring + delta registers + reset + skipped data sets
       PbfChoices.tla  block / group layout, block parameters, string table, dense arrays, Info
       XmlChoices.tla  osm / osmChange, sections, attribute sets, child order
       OplChoices.tla  field sets and order, line structure
   Each of them checks with TLC the same A-layer statement, `DecodedOK`:
       whatever the encoder chose, what the decoder has produced so far is a prefix of Data(ds),
       and at the end it is Data(ds).
   Because all four are stated against the SAME Data(ds), the four readers agree with each other
   on every data set all formats can carry ("common" data sets below).  *)
EXTENDS Integers, Sequences, FiniteSets, TLC, Json

NoCoord == -999          \* "location undefined" / not a node

(* ---- strings are tokens; W gives the number of bytes of the concrete string (the o5m table rule
        depends on it: only strings of at most 250 characters enter the table) *)
W(s) == CASE s = ""     -> 0
          [] s = "L150" -> 150      \* "k100" + "L150" = 250 characters: the longest pair that is stored
          [] s = "L151" -> 151      \* "k100" + "L151" = 251 characters: never stored
          [] s = "k100" -> 100
          [] s = "R249" -> 249      \* member type + role = 250 characters: the longest role that is stored
          [] s = "R250" -> 250      \* 251 characters: not stored by the format's rule (libosmium stores it: known finding)
          [] s = "R251" -> 251      \* never stored
          [] OTHER      -> 5        \* ordinary short strings ("alice", "k1", "v1", "ra" ...); the replay
                                    \* side draws 1..40 bytes for them

Obj(t, id, v, vis, cs, ts, uid, user, lon, lat, tags, refs, mems) ==
    [t |-> t, id |-> id, v |-> v, vis |-> vis, cs |-> cs, ts |-> ts, uid |-> uid, user |-> user,
     lon |-> lon, lat |-> lat, tags |-> tags, refs |-> refs, mems |-> mems,
     locs |-> <<>>]      \* ways only: <<>> = no node locations, else one <<lon, lat>> per node reference (see WayL)

\* shorthands: F = full metadata (version, changeset, timestamp, uid, user), B = bare
NodeF(id, v, cs, ts, uid, user, lon, lat, tags) == Obj("n", id, v, TRUE, cs, ts, uid, user, lon, lat, tags, <<>>, <<>>)
NodeB(id, lon, lat, tags) == Obj("n", id, 0, TRUE, 0, 0, 0, "", lon, lat, tags, <<>>, <<>>)
WayF(id, v, cs, ts, uid, user, refs, tags) == Obj("w", id, v, TRUE, cs, ts, uid, user, NoCoord, NoCoord, tags, refs, <<>>)
WayB(id, refs, tags) == Obj("w", id, 0, TRUE, 0, 0, 0, "", NoCoord, NoCoord, tags, refs, <<>>)
\* ways that carry the location of every node they reference ("LocationsOnWays": osmformat.proto Way.lat / Way.lon,
\* <nd ref= lat= lon=/>, n1x..y..).  A way has locations for ALL its references or for none.
L(lon, lat) == <<lon, lat>>
WayL(id, v, cs, ts, uid, user, refs, locs, tags) == [WayF(id, v, cs, ts, uid, user, refs, tags) EXCEPT !.locs = locs]
WayLB(id, refs, locs, tags) == [WayB(id, refs, tags) EXCEPT !.locs = locs]
RelF(id, v, cs, ts, uid, user, mems, tags) == Obj("r", id, v, TRUE, cs, ts, uid, user, NoCoord, NoCoord, tags, <<>>, mems)
RelB(id, mems, tags) == Obj("r", id, 0, TRUE, 0, 0, 0, "", NoCoord, NoCoord, tags, <<>>, mems)
Del(t, id, v, cs, ts, uid, user) == Obj(t, id, v, FALSE, cs, ts, uid, user, NoCoord, NoCoord, <<>>, <<>>, <<>>)
M(t, ref, role) == [mt |-> t, ref |-> ref, role |-> role]
T(k, v) == <<k, v>>

(* ---- the data set catalogue.  Timestamps are seconds (the replay side adds a multiple of 60),
        coordinates are multiples of 1e-7 degree (the replay side adds a multiple of 100). *)
Data(ds) ==
  CASE ds = "empty" -> <<>>
    [] ds = "tiny"  -> << NodeB(1, 3, 4, <<>>) >>                      \* a file of a few bytes
    [] ds = "tiny2" -> << NodeB(1, 3, 4, <<T("k1", "v1")>>), NodeB(2, 3, 4, <<T("k1", "v1")>>) >>
    [] ds = "basic" ->                                                 \* strings shared between objects and object types
         << NodeF(1, 1, 4, 120, 7, "alice", 10, 20, <<T("k1", "v1")>>),
            NodeF(2, 2, 4, 180, 7, "alice", -30, 50, <<T("k1", "v1"), T("k2", "v2")>>),
            NodeB(5, 10, 20, <<>>),
            WayF(7, 1, 5, 240, 8, "bob", <<1, 2, 5>>, <<T("k1", "v1")>>),
            RelF(9, 3, 5, 240, 7, "alice", <<M("n", 1, "ra"), M("w", 7, "rb"), M("r", 9, "ra"), M("n", 2, "rb")>>, <<T("k2", "v2")>>) >>
    [] ds = "wrap" ->                                                  \* more distinct strings than a 3 entry table holds
         << NodeF(1, 1, 4, 60, 7, "alice", 0, 0, <<T("k1", "v1"), T("k2", "v2"), T("k3", "v3")>>),
            NodeF(2, 1, 4, 60, 8, "bob", 10, -10, <<T("k4", "v4"), T("k1", "v1")>>),
            NodeF(3, 1, 4, 60, 7, "alice", 20, 10, <<T("k2", "v2"), T("k4", "v4"), T("k3", "v3")>>) >>
    [] ds = "long" ->                                                  \* strings at the 250 character border of the o5m table
         << NodeB(1, 0, 0, <<T("k1", "v1"), T("k100", "L151"), T("k1", "v1"), T("k100", "L150"), T("k1", "v1"), T("k100", "L150"), T("k100", "L151")>>),
            RelB(2, <<M("n", 1, "ra"), M("n", 2, "R251"), M("n", 3, "ra"), M("w", 1, "R249"), M("n", 3, "ra"), M("w", 2, "R249"), M("n", 4, "R251")>>, <<>>) >>
    [] ds = "kids" ->                                                  \* several tags AND several references (child order of XML)
         << WayB(1, <<1, 2, 3>>, <<T("k1", "v1"), T("k2", "v2")>>),
            RelB(2, <<M("n", 1, "ra"), M("w", 1, "rb")>>, <<T("k1", "v1"), T("k2", "v2"), T("k3", "v3")>>) >>
    [] ds = "role250" ->                                               \* the single-string border of the o5m table
         << RelB(2, <<M("n", 1, "ra"), M("n", 2, "R250"), M("n", 3, "ra"), M("w", 4, "R250")>>, <<>>) >>
    [] ds = "meta" ->                                                  \* every metadata level a format can express
         << NodeB(1, 1, 1, <<>>),
            Obj("n", 2, 2, TRUE, 0, 0, 0, "", 2, 2, <<>>, <<>>, <<>>),             \* version only
            NodeF(3, 1, 6, 61, 0, "", 3, 3, <<>>),                                  \* anonymous: uid 0, no name
            NodeF(4, 1, 6, 61, 9, "", 4, 4, <<T("k1", "")>>),                       \* uid without name, empty tag value
            NodeF(5, 3, 0, 120, 9, "carol", 5, 5, <<T("k1", "v1")>>),               \* no changeset
            WayF(6, 1, 6, 60, 9, "carol", <<>>, <<T("", "v1")>>),                   \* way without nodes, empty key
            RelF(7, 1, 6, 60, 9, "carol", <<M("w", 6, "")>>, <<>>) >>               \* empty role
    [] ds = "hist" ->                                                  \* several versions, deleted objects (bare, as o5c carries them)
         << NodeF(1, 1, 4, 60, 7, "alice", 10, 20, <<T("k1", "v1")>>),
            Del("n", 1, 2, 5, 120, 8, "bob"),
            NodeF(2, 1, 4, 60, 7, "alice", 11, 21, <<>>),
            WayF(3, 1, 4, 60, 7, "alice", <<1, 2>>, <<T("k1", "v1")>>),
            Del("w", 3, 2, 5, 120, 8, "bob"),
            RelF(4, 1, 4, 60, 7, "alice", <<M("w", 3, "ra")>>, <<>>),
            Del("r", 4, 2, 5, 120, 7, "alice") >>
    [] ds = "delta" ->                                                 \* ids going down and below zero, far apart coordinates
         << NodeB(8, 100, 100, <<>>), NodeB(3, -100, -100, <<>>), NodeB(-4, 100, 100, <<>>), NodeB(-1, -100, 50, <<>>),
            WayB(5, <<8, -4, 3, 8>>, <<>>), WayB(-2, <<-1, 8>>, <<>>),
            RelB(6, <<M("n", 8, "ra"), M("w", 5, "ra"), M("n", -4, "ra"), M("r", 6, "rb"), M("w", -2, "ra"), M("r", -3, "ra")>>, <<>>),
            RelB(-3, <<M("r", 6, "rb"), M("n", 3, "ra"), M("w", 5, "rb"), M("w", -2, "ra")>>, <<>>),
            RelB(4, <<M("w", -2, "ra"), M("n", 8, "ra"), M("r", -3, "rb")>>, <<>>) >>
    [] ds = "wayloc" ->                                                \* ways with node locations (carried by the PBF module only)
         << NodeB(1, 10, 20, <<>>),
            WayL(2, 1, 5, 240, 8, "bob", <<1, 2, 5>>, <<L(10, 20), L(-30, 50), L(10, 20)>>, <<T("k1", "v1")>>),
            WayB(3, <<5, 1>>, <<>>),                                                \* a way without locations between two with
            WayLB(4, <<8, -4, 3, 8>>, <<L(100, 100), L(-100, -100), L(7, -3), L(100, 100)>>, <<>>),
            WayLB(5, <<7>>, <<L(0, 0)>>, <<T("k2", "v2")>>),
            WayLB(-6, <<9, 8, 7>>, <<L(13, 3), L(3, 23), L(-7, 13)>>, <<>>) >>      \* fits granularity 1000 only with offset 300
    [] OTHER -> <<>>

\* (data sets every format module can be run on; "wayloc" needs an encoder / decoder model for node locations of ways)
AllDataSets == {"empty", "tiny", "tiny2", "basic", "wrap", "long", "kids", "role250", "meta", "hist", "delta"}

(* ---- what a format can carry (the quantifier of the property is restricted per format to this) *)
HasAuthor(o) == o.cs # 0 \/ o.uid # 0 \/ o.user # ""
O5mCarries(o) ==
    /\ (o.v = 0 => o.ts = 0 /\ ~HasAuthor(o))          \* no author information without a version
    /\ (o.ts = 0 => ~HasAuthor(o))                     \* ... nor without a timestamp
    /\ (o.uid = 0 => o.user = "")                      \* the anonymous user is the pair ("", "")
    /\ (~o.vis => o.tags = <<>> /\ o.refs = <<>> /\ o.mems = <<>> /\ o.lon = NoCoord)
    /\ (o.vis /\ o.t = "n" => o.lon # NoCoord)
PbfCarries(o) == /\ (o.t = "n" /\ o.vis => o.lon # NoCoord)  \* lat / lon are required fields of a visible node
                 /\ (o.locs # <<>> => o.t = "w" /\ Len(o.locs) = Len(o.refs))   \* Way.lat / Way.lon run parallel to Way.refs
\* (OSM XML and OPL carry every object of the catalogue)

IsPrefix(a, b) == Len(a) <= Len(b) /\ a = SubSeq(b, 1, Len(a))

\* sorted sequence of a set of integers / ranks (used for ToJson friendly export of sets)
RECURSIVE SetToSeq(_)
SetToSeq(S) == IF S = {} THEN <<>> ELSE LET x == CHOOSE y \in S : TRUE IN <<x>> \o SetToSeq(S \ {x})

(* ---- fields with a default value: a producer may write the default or leave the field out *)
DefaultFields(o) ==
    (IF o.v = 0 THEN {"v"} ELSE {}) \cup (IF o.ts = 0 THEN {"t"} ELSE {}) \cup (IF o.cs = 0 THEN {"c"} ELSE {}) \cup
    (IF o.uid = 0 THEN {"i"} ELSE {}) \cup (IF o.user = "" THEN {"u"} ELSE {}) \cup (IF o.vis THEN {"d"} ELSE {}) \cup
    (IF o.tags = <<>> THEN {"T"} ELSE {}) \cup
    (IF o.t = "w" /\ o.refs = <<>> THEN {"N"} ELSE {}) \cup (IF o.t = "r" /\ o.mems = <<>> THEN {"M"} ELSE {}) \cup
    (IF o.t = "n" /\ o.lon = NoCoord THEN {"x"} ELSE {})

=============================================================================
