SPECIFICATION Spec
CONSTANTS
  Caps = {64, 128}
  Modes = {"yes"}
  Kinds = {"node"}
  ULens = {0, 14}
  TagLens <- TagLens1
  RoleLens = {0}
  Pres = {0, 1}
  Wraps = {TRUE}
  CbMaxs = {40, 48, 96, 104}
  MaxObjects = 3
  MaxElems = 0
  MaxSubs = 0
  MaxSteps = 9
  Ops <- CbOps
  Script <- NoScript
  ExportHist = FALSE
INVARIANT Inv
INVARIANT CbConservation
INVARIANT CbBounded
INVARIANT CbHandedNonEmpty
PROPERTY CommittedStable
PROPERTY CbFireRule
CHECK_DEADLOCK FALSE
