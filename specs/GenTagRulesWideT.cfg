\* C20 ext (specs/TagRules.tla), thorough: design check and export; TagsFilter with all 29 TagMatcher templates, <= 2 rules x single tags of 10 in addition.  Deadlock checking stays on: every behaviour must reach phase "done".
SPECIFICATION Spec
CONSTANTS
  Fams <- OnlyTF
  Alpha <- AlphaAll5
  Shapes <- ShapeWideT
INVARIANTS TypeOK RefinesRules RefinesIter RefinesRest Export
