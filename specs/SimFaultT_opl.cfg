SPECIFICATION Spec
CONSTANTS
  Fmt = "opl"
  MaxFaults = 2
  WithTrunc = TRUE
  TruncAfterFault = TRUE
  ExportHist = TRUE
INVARIANTS TypeOK Applicable DistinctPositions TruncOK Export
CHECK_DEADLOCK FALSE
