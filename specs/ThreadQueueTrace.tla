------------------------ MODULE ThreadQueueTrace ------------------------
(* Trace validation for C19: is a recorded execution of the real Queue / Pool (harness/queue_trace.cpp,
   hooks in thread/queue.hpp and thread/pool.hpp) a behaviour of ThreadQueue?

   Logged events are bound to the spec action of the same critical section together with the logged
   fields (ticket, size after the operation).  Steps the code takes outside any lock (the unlocked
   read/store of m_in_use, condition variable sleeps and wake-ups, returns to the caller) are not
   logged; they are interleaved as silent steps of the original actions.

   The first line of the file is a header with the scenario (kinds, scripts, max, throwing); several
   executions of the same scenario are separated by Reset records.  Acceptance: position
   Len(TraceLog)+1 is reachable (INVARIANT NotAccepted is violated = accepted).  The farthest position
   reached is kept in TLC register 1 and printed by the post-condition for diagnosis. *)
EXTENDS ThreadQueue, Json, IOUtils, TLCExt

TraceLog == ndJsonDeserialize(IOEnv.TRACE)
Hdr == TraceLog[1]

TrThreads == 1..Len(Hdr.kind)
TrKind == [t \in TrThreads |-> Hdr.kind[t]]
TrScript == [t \in TrThreads |-> Hdr.script[t]]
TrMax == Hdr.max
TrThrowing == {Hdr.throwing[i] : i \in 1..Len(Hdr.throwing)}

VARIABLE l
tvars == <<vars, l>>

TraceInit == Init /\ l = 2

Ev == TraceLog[l]
IsEvent(e) == l <= Len(TraceLog) /\ Ev.e = e /\ l' = l + 1
HasX == "x" \in DOMAIN Ev
T == Ev.t

TrPushCall == IsEvent("PushCall") /\ PushCall(T) /\ cur'[T] = Ev.x
(* size() called by push(): the value read under the lock is the model's queue length *)
TrSize == IsEvent("Size") /\ PushObserve(T) /\ Len(q) = Ev.n
TrEnq == IsEvent("Enq") /\ PushEnqueue(T) /\ Len(q') = Ev.n /\ (HasX => cur[T] = Ev.x)
TrDeq == IsEvent("Deq") /\ PopTake(T) /\ q # <<>> /\ Len(q') = Ev.n /\ (HasX => Head(q) = Ev.x)
TrPopEmpty == IsEvent("PopEmpty") /\ PopTake(T) /\ q = <<>>
TrTryDeq == IsEvent("TryDeq") /\ TryPop(T) /\ q # <<>> /\ Len(q') = Ev.n /\ (HasX => Head(q) = Ev.x)
TrTryEmpty == IsEvent("TryEmpty") /\ TryPop(T) /\ q = <<>>
TrShutdownCall == IsEvent("ShutdownCall") /\ ShutdownCall(T)
TrDrain == IsEvent("Drain") /\ ShutdownDrain(T) /\ Len(q) = Ev.n
TrRun == IsEvent("Run") /\ WorkerRun(T) /\ cur[T] = Ev.x
TrWorkerExit == IsEvent("WorkerExit") /\ WorkerRun(T) /\ cur[T] = StopTask
TrThreadDone == IsEvent("ThreadDone") /\ pc[T] = "done" /\ UNCHANGED vars
TrDestroyCall == IsEvent("DestroyCall") /\ AllSubmitted /\ UNCHANGED vars
TrJoined == IsEvent("Joined") /\ DestroyerJoin(T)
TrFuture == IsEvent("Future") /\ UNCHANGED vars
            /\ Ev.x \in DOMAIN fut
            /\ Ev.n = (IF fut[Ev.x] = "value" THEN 1 ELSE 2)
            /\ ran[Ev.x] = 1
TrAllJoined == IsEvent("AllJoined") /\ AllDone /\ UNCHANGED vars
TrReset == IsEvent("Reset") /\ AllDone
           /\ q' = <<>> /\ inUse' = TRUE /\ waitData' = {} /\ waitSpace' = {}
           /\ pc' = [t \in Threads |-> "idle"] /\ cur' = [t \in Threads |-> NoItem]
           /\ todo' = [t \in Threads |-> Script[t]]
           /\ enq' = <<>> /\ deq' = <<>> /\ drained' = <<>> /\ dropped' = <<>> /\ sdStarted' = FALSE
           /\ ran' = [i \in {} |-> 0] /\ fut' = [i \in {} |-> ""]
           /\ got' = [t \in Threads |-> <<>>]

Silent(t) == \/ PushReadInUse(t) \/ PushWaitSpace(t) \/ PushTimeout(t)
             \/ PopCall(t) \/ PopWait(t) \/ PopSpurious(t) \/ PopNotifySpace(t)
             \/ ConsumerReturn(t) \/ ConsumerDone(t) \/ PusherDone(t) \/ TryReturn(t)
             \/ ShutdownStore(t) \/ DestroyerPush(t)
             \/ (WorkerRun(t) /\ cur[t] = NoItem)

TraceNext == \/ TrPushCall \/ TrSize \/ TrEnq \/ TrDeq \/ TrPopEmpty \/ TrTryDeq \/ TrTryEmpty
             \/ TrShutdownCall \/ TrDrain \/ TrRun \/ TrWorkerExit \/ TrThreadDone \/ TrDestroyCall
             \/ TrJoined \/ TrFuture \/ TrAllJoined \/ TrReset
             \/ (l <= Len(TraceLog) /\ UNCHANGED l /\ \E t \in Threads : Silent(t))

TraceSpec == TraceInit /\ [][TraceNext]_tvars

NotAccepted == l <= Len(TraceLog)
(* farthest trace position reached so far (diagnosis of a rejection) *)
Progress == IF l > TLCGet(1) THEN TLCSet(1, l) ELSE TRUE
ReportMax == PrintT(<<"MAXL", TLCGet(1), Len(TraceLog)>>)
ASSUME TLCSet(1, 0)
=============================================================================
