------------------------- MODULE ContainersExtSmall -------------------------
(* C15 extension (2/5).  osmium::index::IdSetSmall<T> as a value: two objects "a" and "b"; set() in any order
   (duplicates that are not adjacent stay in the vector until sort_unique()), sort_unique() at any time (also on
   an empty or already sorted set), merge_sorted() with every operand shape (other object, the object itself,
   empty left side, empty right side, overlapping contents), clear(), copy assignment, linear and binary
   search, and the four iterator accessors begin/end/cbegin/cend (the exported list is what they must yield).
   used_memory() is bracketed from below only: the vector holds Len(data) ids of sizeof(T) bytes.

   A-layer: one set per object.  I-layer: the vector m_data per object. *)
EXTENDS Integers, Sequences, FiniteSets, TLC, Json
CONSTANTS Ids, MaxSteps, ExportHist
Obj == {"a", "b"}
VARIABLES d,       \* [Obj -> Seq(Ids)]   m_data
          SA,      \* A-layer
          last,    \* ghost: [a |-> name of the call just made, o |-> its target]
          ret, steps, hist
vars == <<d, SA, last, ret, steps, hist>>

SeqSet(s) == {s[i] : i \in 1..Len(s)}
Sorted(s) == \A i \in 1..Len(s) - 1 : s[i] < s[i + 1]
RECURSIVE Asc(_, _)
Asc(T, acc) == IF T = {} THEN acc ELSE LET m == CHOOSE x \in T : \A y \in T : x <= y IN Asc(T \ {m}, Append(acc, m))

Init == d = [x \in Obj |-> <<>>] /\ SA = [x \in Obj |-> {}] /\ ret = "none" /\ steps = 0 /\ hist = <<>>
        /\ last = [a |-> "none", o |-> "a"]
Rec(act, x, y, id) ==
    /\ steps' = steps + 1 /\ last' = [a |-> act, o |-> x]
    /\ hist' = IF ExportHist THEN Append(hist, [a |-> act, o |-> x, p |-> y, x |-> id, ret |-> ret',
                                                 la |-> d'["a"], lb |-> d'["b"],
                                                 sa |-> Sorted(d'["a"]), sb |-> Sorted(d'["b"])]) ELSE hist
Go == steps < MaxSteps

Set(x, id) == /\ Go
              /\ d' = [d EXCEPT ![x] = IF @ = <<>> \/ @[Len(@)] # id THEN Append(@, id) ELSE @]
              /\ SA' = [SA EXCEPT ![x] = @ \cup {id}] /\ ret' = "none"
              /\ Rec("set", x, x, id)
Get(x, id) == /\ Go /\ ret' = IF id \in SeqSet(d[x]) THEN "true" ELSE "false"
              /\ UNCHANGED <<d, SA>> /\ Rec("get", x, x, id)
GetBin(x, id) == /\ Go /\ Sorted(d[x])
                 /\ ret' = IF id \in SeqSet(d[x]) THEN "true" ELSE "false"
                 /\ UNCHANGED <<d, SA>> /\ Rec("get_binary_search", x, x, id)
SortUnique(x) == /\ Go
                 /\ d' = [d EXCEPT ![x] = Asc(SeqSet(@), <<>>)]
                 /\ ret' = "none" /\ UNCHANGED SA
                 /\ Rec("sort_unique", x, x, 0)
MergeSorted(x, y) ==      \* x.merge_sorted(y), y may be x; precondition: both sorted and unique
    /\ Go /\ Sorted(d[x]) /\ Sorted(d[y])
    /\ d' = [d EXCEPT ![x] = Asc(SeqSet(d[x]) \cup SeqSet(d[y]), <<>>)]
    /\ SA' = [SA EXCEPT ![x] = SA[x] \cup SA[y]] /\ ret' = "none"
    /\ Rec("merge_sorted", x, y, 0)
Clear(x) == /\ Go /\ d[x] # <<>>
            /\ d' = [d EXCEPT ![x] = <<>>] /\ SA' = [SA EXCEPT ![x] = {}] /\ ret' = "none"
            /\ Rec("clear", x, x, 0)
CopyAssign(x, y) == /\ Go /\ (x = y \/ d[x] # d[y])
                    /\ d' = [d EXCEPT ![x] = d[y]] /\ SA' = [SA EXCEPT ![x] = SA[y]] /\ ret' = "none"
                    /\ Rec("copy_assign", x, y, 0)

Next == \/ \E x \in Obj, id \in Ids : Set(x, id) \/ Get(x, id) \/ GetBin(x, id)
        \/ \E x \in Obj : SortUnique(x) \/ Clear(x)
        \/ \E x, y \in Obj : MergeSorted(x, y) \/ CopyAssign(x, y)
Spec == Init /\ [][Next]_vars

Refines == \A x \in Obj :
    /\ SeqSet(d[x]) = SA[x]
    /\ Sorted(d[x]) => (Len(d[x]) = Cardinality(SA[x]) /\ d[x] = Asc(SA[x], <<>>))
    /\ \A i \in 1..Len(d[x]) - 1 : d[x][i] # d[x][i + 1]                       \* set() never stores the same id twice in a row
(* sort_unique and merge_sorted leave a sorted, duplicate-free vector; merging a sorted set with itself or with
   an empty set, and sorting a sorted set, change nothing *)
PostConds == /\ last.a \in {"sort_unique", "merge_sorted"} => Sorted(d[last.o])
             /\ last.a = "clear" => d[last.o] = <<>>
NoChange == [][(/\ last'.a \in {"sort_unique", "merge_sorted"} /\ Sorted(d[last'.o]) /\ SA'[last'.o] = SA[last'.o])
               => d' = d]_vars

Export == steps = MaxSteps => PrintT(<<"CASE", ToJson([steps |-> hist])>>)
=============================================================================
