SPECIFICATION InitOnly
CONSTANTS
  Configs <- RealConfigs
  ScriptLen = 0
  LongScripts = TRUE
  Ops <- AllOps
  Formats = {"xml"}
  Comps = {"plain"}
  Pools = {TRUE}
  Bounds = {1}
  Caps = {2}
  MaxAt = 9
  FaultKinds <- AllKinds
  FdFix = TRUE
  GenFormats = {"xml", "opl"}
  GenComps = {"plain", "gzip"}
  GenScriptLen = 0
INVARIANT ExportCfg
CHECK_DEADLOCK FALSE
