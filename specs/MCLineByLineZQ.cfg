SPECIFICATION Spec
CONSTANTS
  Alphabet = {"n", "r", "x", "b", "z"}
  L = 4
  RestSkipsNul = TRUE
  MaxCuts = 99
  FixedSizes = {}
  ExportHist = FALSE
INVARIANTS WindowInv ResultInv
