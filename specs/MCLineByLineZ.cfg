SPECIFICATION Spec
CONSTANTS
  Alphabet = {"n", "r", "x", "b", "z"}
  L = 5
  RestSkipsNul = TRUE
  MaxCuts = 99
  FixedSizes = {}
  ExportHist = FALSE
INVARIANTS WindowInv ResultInv
