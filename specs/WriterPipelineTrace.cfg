SPECIFICATION TraceSpec
CONSTANTS
  Configs <- TraceConfigs
INVARIANTS NotAccepted LogAllowed NeverLost NoSpuriousException RefusesAfterException FutureReadOnce NoThreadLeft QueueBound
CONSTRAINT Progress
POSTCONDITION ReportMax
CHECK_DEADLOCK FALSE
