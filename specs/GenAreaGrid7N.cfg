SPECIFICATION Spec
CONSTANTS
  G = 7
  MaxRings = 4
  Drawings = 3
  Kinds = {"rect"}
  MutSeq <- MutMild
  ModeSeq <- ModeDeep
  MaxSegs = 26
  Styles = {"long", "short", "mixed", "mid"}
  RolePats <- AllRolePats
  Theorems = FALSE
  Tiles = FALSE
INVARIANTS Export
CHECK_DEADLOCK FALSE
