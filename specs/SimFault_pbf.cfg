SPECIFICATION Spec
CONSTANTS
  Fmt = "pbf"
  MaxFaults = 2
  WithTrunc = FALSE
  TruncAfterFault = FALSE
  ExportHist = TRUE
INVARIANTS TypeOK Applicable DistinctPositions TruncOK Export
CHECK_DEADLOCK FALSE
