------------------------- MODULE ContainersExtDense -------------------------
(* C15 extension (1/5).  osmium::index::IdSetDense<T, chunk_bits> as a VALUE: two objects "a" and "b" and the
   whole-object operations the base spec (IdSetDense.tla) leaves out - copy construction, copy assignment onto
   a non-empty set (also onto itself), move construction, move assignment, swap (also with itself) - together
   with unset() on a chunk that was never allocated, iteration after clear(), and used_memory().

   A-layer: one set of ids per object (SA).
   I-layer: per object the chunk vector (alloc), the bits, m_size and the flag mv = "moved from".  A moved-from
   object is in an unspecified state (the defaulted move operations leave m_size behind): nothing is observed
   on it and the only calls the model makes on it are clear() and being the TARGET of an assignment or
   construction, after which it is an ordinary object again.
   used_memory(): "an estimate of the amount of memory used".  The model brackets it: at least the chunks that
   are really allocated, at most every slot of the chunk vector (the implementation counts empty slots too),
   and it never shrinks under set/check_and_set/unset/get.
   Geometry scaled down as in IdSetDense.tla (chunk = 2^CB bytes, id type of TBits bits); the harness embeds
   the ids border-preservingly. *)
EXTENDS Integers, Sequences, FiniteSets, TLC, Json

CONSTANTS CB, TBits, Ids, MaxSteps, ExportHist

Obj == {"a", "b"}
ChunkBytes == 2 ^ CB
ChunkIds == ChunkBytes * 8
TMax == 2 ^ TBits - 1

VARIABLES o,       \* [Obj -> [alloc : Seq(BOOLEAN), bits : SUBSET Ids, msize : Nat, mv : BOOLEAN]]
          SA,      \* A-layer: [Obj -> SUBSET Ids]
          gr,      \* ghost: the objects whose used_memory() must not have shrunk in the step just taken
          ret, steps, hist
vars == <<o, SA, gr, ret, steps, hist>>

ChunkOf(id) == id \div ChunkIds
Max(x, y) == IF x > y THEN x ELSE y
Touch(al, id) == LET n == Max(Len(al), ChunkOf(id) + 1) IN
                 [i \in 1..n |-> IF i = ChunkOf(id) + 1 THEN TRUE ELSE IF i <= Len(al) THEN al[i] ELSE FALSE]
GetOf(al, bi, id) == /\ ChunkOf(id) < Len(al) /\ al[ChunkOf(id) + 1] /\ id \in bi

LastOf(al) == Len(al) * ChunkIds
ByteEmpty(bi, v) == \A k \in 0..7 : ((v \div 8) * 8 + k) \notin bi
RECURSIVE Skip(_, _, _)
Skip(al, bi, v) ==
    IF v = LastOf(al) \/ GetOf(al, bi, v) THEN v
    ELSE LET cid == ChunkOf(v) IN
         IF ~al[cid + 1] THEN Skip(al, bi, (cid + 1) * ChunkIds)
         ELSE IF ByteEmpty(bi, v) THEN Skip(al, bi, ((v + 8) \div 8) * 8)
         ELSE Skip(al, bi, v + 1)
RECURSIVE Walk(_, _, _, _)
Walk(al, bi, v, acc) == IF v = LastOf(al) THEN acc ELSE Walk(al, bi, Skip(al, bi, v + 1), Append(acc, v))
IterOf(al, bi) == Walk(al, bi, Skip(al, bi, 0), <<>>)
RECURSIVE Asc(_, _)
Asc(T, acc) == IF T = {} THEN acc ELSE LET m == CHOOSE x \in T : \A y \in T : x <= y IN Asc(T \ {m}, Append(acc, m))

Fresh == [alloc |-> <<>>, bits |-> {}, msize |-> 0, mv |-> FALSE]
NAlloc(al) == Cardinality({i \in 1..Len(al) : al[i]})

Init == o = [x \in Obj |-> Fresh] /\ SA = [x \in Obj |-> {}] /\ ret = "none" /\ steps = 0 /\ hist = <<>> /\ gr = {}

View(x) == IF o'[x].mv THEN [mv |-> TRUE, size |-> 0, iter |-> <<>>, memlo |-> 0, memhi |-> 0]
           ELSE [mv |-> FALSE, size |-> o'[x].msize, iter |-> IterOf(o'[x].alloc, o'[x].bits),
                 memlo |-> NAlloc(o'[x].alloc), memhi |-> Len(o'[x].alloc)]
(* grow = the objects whose used_memory() must not be smaller after this step than before *)
Rec(act, x, y, id, grow) ==
    /\ steps' = steps + 1 /\ gr' = grow
    /\ hist' = IF ExportHist THEN Append(hist, [a |-> act, o |-> x, p |-> y, x |-> id, ret |-> ret',
                                                 grow |-> Asc({IF g = "a" THEN 0 ELSE 1 : g \in grow}, <<>>),
                                                 va |-> View("a"), vb |-> View("b")]) ELSE hist
Go == steps < MaxSteps
Live(x) == ~o[x].mv

CheckAndSet(x, id) ==
    /\ Go /\ Live(x)
    /\ o' = [o EXCEPT ![x].alloc = Touch(@, id),
                      ![x].bits = @ \cup {id},
                      ![x].msize = IF id \in o[x].bits THEN @ ELSE @ + 1]
    /\ ret' = IF id \in o[x].bits THEN "false" ELSE "true"
    /\ SA' = [SA EXCEPT ![x] = @ \cup {id}]
    /\ Rec("check_and_set", x, x, id, {y \in Obj : Live(y)})

Unset(x, id) ==            \* get_element() allocates the chunk even if the id was never there
    /\ Go /\ Live(x)
    /\ o' = [o EXCEPT ![x].alloc = Touch(@, id),
                      ![x].bits = @ \ {id},
                      ![x].msize = IF id \in o[x].bits THEN @ - 1 ELSE @]
    /\ ret' = "none"
    /\ SA' = [SA EXCEPT ![x] = @ \ {id}]
    /\ Rec("unset", x, x, id, {y \in Obj : Live(y)})

Get(x, id) ==
    /\ Go /\ Live(x)
    /\ ret' = IF GetOf(o[x].alloc, o[x].bits, id) THEN "true" ELSE "false"
    /\ UNCHANGED <<o, SA>>
    /\ Rec("get", x, x, id, {y \in Obj : Live(y)})

Clear(x) ==                \* also brings a moved-from object back into a specified state
    /\ Go /\ (o[x].alloc # <<>> \/ o[x].mv)
    /\ o' = [o EXCEPT ![x] = Fresh]
    /\ SA' = [SA EXCEPT ![x] = {}] /\ ret' = "none"
    /\ Rec("clear", x, x, 0, Obj \ {x})

CopyAssign(x, y) ==        \* x = y;  also x = x;  copy and swap: x ends up with y's chunk vector, slot by slot
    /\ Go /\ Live(y)
    /\ (x = y \/ o[x] # o[y])
    /\ o' = [o EXCEPT ![x] = o[y]]
    /\ SA' = [SA EXCEPT ![x] = SA[y]] /\ ret' = "none"
    /\ Rec("copy_assign", x, y, 0, Obj \ {x})

CopyCtor(x, y) ==          \* x is destroyed and constructed again as a copy of y
    /\ Go /\ Live(y) /\ x # y /\ o[x] # o[y]
    /\ o' = [o EXCEPT ![x] = o[y]]
    /\ SA' = [SA EXCEPT ![x] = SA[y]] /\ ret' = "none"
    /\ Rec("copy_ctor", x, y, 0, Obj \ {x})

MoveCtor(x, y) ==          \* x is destroyed and constructed again from std::move(y)
    /\ Go /\ Live(y) /\ x # y
    /\ o' = [o EXCEPT ![x] = o[y], ![y] = [Fresh EXCEPT !.mv = TRUE]]
    /\ SA' = [SA EXCEPT ![x] = SA[y], ![y] = {}] /\ ret' = "none"
    /\ Rec("move_ctor", x, y, 0, {})

MoveAssign(x, y) ==        \* x = std::move(y)
    /\ Go /\ Live(y) /\ x # y
    /\ o' = [o EXCEPT ![x] = o[y], ![y] = [Fresh EXCEPT !.mv = TRUE]]
    /\ SA' = [SA EXCEPT ![x] = SA[y], ![y] = {}] /\ ret' = "none"
    /\ Rec("move_assign", x, y, 0, {})

Swap(x, y) ==              \* swap(x, y), also swap(x, x)
    /\ Go /\ Live(x) /\ Live(y)
    /\ (x = y \/ o[x] # o[y])
    /\ o' = [o EXCEPT ![x] = o[y], ![y] = o[x]]
    /\ SA' = [SA EXCEPT ![x] = SA[y], ![y] = SA[x]] /\ ret' = "none"
    /\ Rec("swap", x, y, 0, {})

Next == \/ \E x \in Obj, id \in Ids : CheckAndSet(x, id) \/ Unset(x, id) \/ Get(x, id)
        \/ \E x \in Obj : Clear(x)
        \/ \E x, y \in Obj : CopyAssign(x, y) \/ CopyCtor(x, y) \/ MoveCtor(x, y) \/ MoveAssign(x, y) \/ Swap(x, y)
Spec == Init /\ [][Next]_vars

(* I => A for every object in a specified state; the two objects never share anything *)
Refines == \A x \in Obj :
    /\ o[x].mv => SA[x] = {}
    /\ ~o[x].mv =>
         /\ o[x].bits = SA[x]
         /\ o[x].msize = Cardinality(SA[x])
         /\ \A id \in Ids : GetOf(o[x].alloc, o[x].bits, id) = (id \in SA[x])
         /\ IterOf(o[x].alloc, o[x].bits) = Asc(SA[x], <<>>)
         /\ \A id \in o[x].bits : ChunkOf(id) < Len(o[x].alloc) /\ o[x].alloc[ChunkOf(id) + 1]
         /\ NAlloc(o[x].alloc) <= Len(o[x].alloc)
         /\ NAlloc(o[x].alloc) >= Cardinality({ChunkOf(id) : id \in SA[x]})      \* every member lives in an allocated chunk
    /\ \A id \in Ids : id <= TMax
(* used_memory never shrinks under the element-wise calls: neither the vector nor the allocated chunks do *)
MemMonotone == [][\A x \in gr' : /\ Len(o'[x].alloc) >= Len(o[x].alloc)
                                   /\ NAlloc(o'[x].alloc) >= NAlloc(o[x].alloc)]_vars

Export == steps = MaxSteps => PrintT(<<"CASE", ToJson([cb |-> CB, tbits |-> TBits, steps |-> hist])>>)
=============================================================================
