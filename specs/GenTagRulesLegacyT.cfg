\* C20 ext (specs/TagRules.tla), thorough: design check and export; the three legacy filters with the larger alphabets (3-5 templates): rule lists <= 3 x single tags of 15, <= 2 x <= 2 of 6, <= 1 x <= 3 of 6.  Deadlock checking stays on: every behaviour must reach phase "done".
SPECIFICATION Spec
CONSTANTS
  Fams <- Legacy
  Alpha <- AlphaLegacyBig
  Shapes <- ShapeCrossL
INVARIANTS TypeOK RefinesRules RefinesIter RefinesRest Export
