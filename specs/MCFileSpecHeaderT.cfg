SPECIFICATION Spec
CONSTANTS
  InitLists <- InitAll
  Keys <- KeysAll
  Values <- ValuesAll
  DataParts <- DataAll
  BoxSet <- BoxesAll
  BoxLists <- BoxListsAll
  MaxOps = 4
  ExportHist = FALSE
INVARIANTS OptionsAgree JoinedAgrees JoinedShape Bounded
