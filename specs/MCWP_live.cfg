SPECIFICATION FairSpec
CONSTANTS
  Configs <- TheConfigs
  ScriptLen = 0
  LongScripts = TRUE
  Ops <- AllOps
  Formats = {"xml"}
  Comps = {"plain", "gzip", "bzip2"}
  Pools = {TRUE}
  Bounds = {1}
  Caps = {2}
  MaxAt = 9
  FaultKinds <- AllKinds
  FdFix = TRUE
  GenFormats = {"xml"}
  GenComps = {"plain"}
  GenScriptLen = 0
PROPERTY Termination
