SPECIFICATION FairSpec
CONSTANTS
  Configs <- TheConfigs
  ScriptLen = 2
  LongScripts = FALSE
  Ops = {"buf", "nul", "flush", "close", "big"}
  Formats = {"xml"}
  Comps = {"plain", "gzip", "bzip2"}
  Pools = {TRUE}
  Bounds = {1}
  Caps = {2}
  MaxAt = 5
  FaultKinds <- AllKinds
  FdFix = TRUE
  EmptyFix = TRUE
  GenFormats = {"xml"}
  GenComps = {"plain"}
  GenScriptLen = 2
PROPERTY Termination
