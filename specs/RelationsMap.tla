---------------------------- MODULE RelationsMap ----------------------------
(* C15 (3/4).  RelationsMapStash / RelationsMapIndex / RelationsMapIndexes (index/relations_map.hpp).

   A-layer: a set of <<member, relation>> pairs; lookups return the related ids ascending, no duplicates.
   I-layer: the two flat maps (32-bit entries for pairs that fit, 64-bit otherwise), the three index
   builders as written (flip_in_place / flip_copy / sort_unique / append32to64) and the lookup through
   std::equal_range on the representation chosen at build time.  "32 bit" is scaled down to W bits
   (Small = 2^W - 1); the harness maps a model id x to (x mod 2^W) + (x div 2^W) * 2^32, so ids that
   differ only above bit 32 share their low word exactly as in the model. *)
EXTENDS Integers, Sequences, FiniteSets, TLC, Json
CONSTANTS W, Ids, MaxPairs, ExportHist
Small == 2 ^ W - 1
Low(x) == x % (2 ^ W)                                   \* static_cast<uint32_t>(x)

VARIABLES map32, map64,   \* stash: sequences of <<key, value>>
          P,              \* A-layer: set of pairs <<member, relation>>
          phase,          \* "stash" | "m2p" | "p2m" | "both"
          idxA, idxB,     \* built indexes: [small |-> BOOLEAN, m |-> sorted unique Seq(<<k, v>>)] (B only for "both")
          hist
vars == <<map32, map64, P, phase, idxA, idxB, hist>>

RECURSIVE SortPairs(_, _)
PairLess(a, b) == a[1] < b[1] \/ (a[1] = b[1] /\ a[2] < b[2])
SortPairs(T, acc) == IF T = {} THEN acc
                     ELSE LET m == CHOOSE x \in T : \A y \in T : x = y \/ PairLess(x, y) IN SortPairs(T \ {m}, Append(acc, m))
SeqSet(s) == {s[i] : i \in 1..Len(s)}
SortUnique(s) == SortPairs(SeqSet(s), <<>>)
Flip(s) == [i \in 1..Len(s) |-> <<s[i][2], s[i][1]>>]
Append32to64(m32, m64) == SortUnique(SortUnique(m64) \o m32)

NoIdx == [small |-> TRUE, m |-> <<>>]
Init == map32 = <<>> /\ map64 = <<>> /\ P = {} /\ phase = "stash" /\ idxA = NoIdx /\ idxB = NoIdx /\ hist = <<>>

Rec(a, x) == hist' = IF ExportHist THEN Append(hist, [a |-> a, x |-> x]) ELSE hist

Add(m, r) == /\ phase = "stash" /\ Len(map32) + Len(map64) < MaxPairs
             /\ IF m <= Small /\ r <= Small THEN map32' = Append(map32, <<m, r>>) /\ UNCHANGED map64
                                            ELSE map64' = Append(map64, <<m, r>>) /\ UNCHANGED map32
             /\ P' = P \cup {<<m, r>>} /\ UNCHANGED <<phase, idxA, idxB>>
             /\ Rec("add", <<m, r>>)

BuildM2P == /\ phase = "stash" /\ phase' = "m2p"
            /\ idxA' = IF map64 = <<>> THEN [small |-> TRUE, m |-> SortUnique(map32)]
                       ELSE [small |-> FALSE, m |-> Append32to64(SortUnique(map32), map64)]
            /\ UNCHANGED <<map32, map64, P, idxB>> /\ Rec("build_member_to_parent_index", <<0, 0>>)
BuildP2M == /\ phase = "stash" /\ phase' = "p2m"
            /\ idxA' = IF map64 = <<>> THEN [small |-> TRUE, m |-> SortUnique(Flip(map32))]
                       ELSE [small |-> FALSE, m |-> Append32to64(SortUnique(Flip(map32)), Flip(map64))]
            /\ UNCHANGED <<map32, map64, P, idxB>> /\ Rec("build_parent_to_member_index", <<0, 0>>)
BuildBoth == /\ phase = "stash" /\ phase' = "both"
             /\ IF map64 = <<>>
                THEN /\ idxA' = [small |-> TRUE, m |-> SortUnique(map32)]
                     /\ idxB' = [small |-> TRUE, m |-> SortUnique(Flip(map32))]
                ELSE /\ idxA' = [small |-> FALSE, m |-> Append32to64(SortUnique(map32), map64)]
                     /\ idxB' = [small |-> FALSE, m |-> Append32to64(SortUnique(Flip(map32)), Flip(map64))]
             /\ UNCHANGED <<map32, map64, P>> /\ Rec("build_indexes", <<0, 0>>)

(* RelationsMapIndex::for_each(id): equal_range over the keys of the chosen representation.  On the small
   index an id that does not fit into 32 bits has no entries. *)
LookupI(idx, id) == IF idx.small /\ id > Small THEN <<>>
                    ELSE LET s == SelectSeq(idx.m, LAMBDA p : p[1] = id) IN [i \in 1..Len(s) |-> s[i][2]]
RECURSIVE Asc(_, _)
Asc(T, acc) == IF T = {} THEN acc ELSE LET m == CHOOSE x \in T : \A y \in T : x <= y IN Asc(T \ {m}, Append(acc, m))
ParentsA(id) == Asc({p[2] : p \in {q \in P : q[1] = id}}, <<>>)
MembersA(id) == Asc({p[1] : p \in {q \in P : q[2] = id}}, <<>>)

Next == \/ \E m, r \in Ids : Add(m, r)
        \/ BuildM2P \/ BuildP2M \/ BuildBoth
Spec == Init /\ [][Next]_vars

Refines == /\ phase = "m2p" => \A id \in Ids : LookupI(idxA, id) = ParentsA(id)
           /\ phase = "p2m" => \A id \in Ids : LookupI(idxA, id) = MembersA(id)
           /\ phase = "both" => \A id \in Ids : LookupI(idxA, id) = ParentsA(id) /\ LookupI(idxB, id) = MembersA(id)
           /\ phase # "stash" => Len(idxA.m) = Cardinality(P)
           /\ phase = "stash" => SeqSet(map32) \cup SeqSet(map64) = P

Export == phase # "stash" =>
    PrintT(<<"CASE", ToJson([w |-> W, steps |-> hist, phase |-> phase, size |-> Cardinality(P),
                              probes |-> [i \in 1..Cardinality(Ids) |->
                                 LET id == Asc(Ids, <<>>)[i] IN [id |-> id, parents |-> ParentsA(id), members |-> MembersA(id)]]])>>)
=============================================================================
