SPECIFICATION Spec
CONSTANTS
  Shapes <- ShapesGenT
  MaxCuts = 99
  TruncCuts = 99
  FixedSizes = {}
  ExportHist = TRUE
INVARIANTS WindowInv ResultInv Export
