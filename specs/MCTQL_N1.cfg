SPECIFICATION FairSpec
CONSTANTS
  Threads <- NThreads
  Kind <- NKind
  Script <- NScript
  Max = 1
  Throwing <- NoThrow
PROPERTY Termination
CHECK_DEADLOCK FALSE
