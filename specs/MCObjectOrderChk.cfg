SPECIFICATION SpecChk
CONSTANTS IdMax = 4
  LawIds = {0}
  LawTypes = {1}
  NVersions = 4
  SeqLen = 0
  SeqVersions = {1}
INVARIANT CheckerAgrees
INVARIANT CheckerRegs
CHECK_DEADLOCK FALSE
