SPECIFICATION Spec
CONSTANTS
  P = 4
  Sizes = {0, 1, 3, 4, 5, 9}
  Offs = {0, 1, 4}
  ESizes = {1, 2}
  WPos = {0, 2, 3, 4, 8}
  F0s = {0, 3, 5, 8}
  FdKinds = {"anon", "rw", "ro", "bad"}
  MaxOps = 4
  MaxWrites = 2
  MaxObjs = 2
  ExportHist = FALSE
INVARIANTS WindowOK ViewOK NoSigbus FileOK ErrOK TypedOK
CHECK_DEADLOCK FALSE
