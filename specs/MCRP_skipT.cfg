SPECIFICATION Spec
CONSTANTS
  Configs <- TheConfigs
  Ns = {1, 2, 3}
  NestSets <- NestLive3
  Bounds <- BoundsLive
  Pools = {FALSE, TRUE}
  Fds = {FALSE, TRUE}
  ScriptLen = 1
  LongScripts = TRUE
  FdStop = TRUE
  SkipAll = TRUE
INVARIANTS LogIsExpected NoReadAfterClose HeaderOnce NoThreadLeft NoFdLeft QueueBounds
