SPECIFICATION Spec
CONSTANTS
  Alphabet = {"0", "1", "5", "9", ".", "-", "+", "e", "E", " ", "x"}
  MaxLen = 6
  TailMax = 1
  Mode = "feed"
  Level = 0
  Guard = TRUE
  Pull = TRUE
  DoExport = TRUE
INVARIANTS IimpliesA NoOverflow NoOverread FullOK Export
CHECK_DEADLOCK FALSE
