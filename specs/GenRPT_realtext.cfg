SPECIFICATION InitOnly
CONSTANTS
  Configs <- RealTextConfigs
  Ns = {1, 2, 3}
  NestSets <- NestThorough
  Bounds <- BoundsLive
  Pools = {FALSE, TRUE}
  Fds = {FALSE}
  ScriptLen = 3
  LongScripts = TRUE
  FdStop = TRUE
  SkipAll = FALSE
INVARIANT ExportCfg
CHECK_DEADLOCK FALSE
