SPECIFICATION Spec
CONSTANTS
  Ids = {0, 3, 5, 9}
  MaxSteps = 5
  ExportHist = FALSE
INVARIANTS Refines PostConds
PROPERTY NoChange
CHECK_DEADLOCK FALSE
