SPECIFICATION Spec
CONSTANTS
  G = 7
  MaxRings = 4
  Drawings = 1
  Kinds = {"rect"}
  MutSeq <- MutNone
  ModeSeq <- ModeChain
  MaxSegs = 26
  Styles = {}
  RolePats <- TwoRolePats
  Theorems = TRUE
  Tiles = FALSE
INVARIANTS RayIndependent FillIsXor CancelSound CatalogueValid JudgeAcceptsReference JudgeRejectsSpoiled
CHECK_DEADLOCK FALSE
