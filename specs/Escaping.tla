------------------------------ MODULE Escaping ------------------------------
(* C14.  Text-format string escaping of libosmium (OPL: append_utf8_encoded_string /
   opl_parse_string; XML: append_xml_encoded_string / expat attribute parsing).

   A-layer: the documented rule over code points - the pass-through interval table, the
   "%hex%" form (2 lowercase hex digits up to U+00FF, otherwise the value with at least 4
   digits), the XML entity table, the structural character sets, UTF-8 as a function
   of the code point, and "a byte string is cut off / invalid" as a segmentation by lead byte.

   I-layer: what the code does, byte by byte: strlen, one EscStep per iteration of the
   while loop (utf8_sequence_length by shifting, the length check against end_ptr,
   next_utf8_codepoint's masks, interval test, nibble-wise hex output), one action per
   iteration of the loops in opl_parse_string and opl_parse_escaped (max_length 8,
   "%%" -> '%', append_codepoint_as_utf8), one XmlStep per byte of the XML escaper, and expat
   as an environment (XML 1.0 attribute value: references, normalisation of literal
   TAB/LF/CR, the Char production).

   Code points are plain integers (<= 0x10FFFF < 2^31).  Bytes are integers 1..255; the
   terminating NUL of the C string is the (virtual) element at index Len+1. *)
EXTENDS Integers, Sequences, FiniteSets, TLC, Json

CONSTANTS Mode,        \* "str": strings of code points over Alphabet; "bytes": byte strings over ByteReps;
                       \* "static": no behaviour, only the constant-level theorems are evaluated
          Alphabet,    \* set of code points
          ByteReps,    \* set of bytes (1..255)
          MaxLen,      \* maximum length of the built string (code points resp. bytes)
          Suffixes,    \* what follows the escaped form in the parser's input: "" "," "=" " " "tab"
          DoExport,    \* TRUE: print one CASE line per terminal state
          HexAsShipped \* TRUE: I-layer hex output as originally shipped (every upper nibble tested on its own);
                       \* only used to show that TLC finds the U+100000.. defect (F14a) on the spec

VARIABLES phase,    \* "build" "escape" "parse" "xml" "xparse" "done"
          cps,      \* the string as code points (str mode)
          inb,      \* its bytes = the C string handed to the escaping functions
          suffix,
          \* ---- append_utf8_encoded_string
          pos,      \* data (index into inb; Len(inb)+1 = end_ptr)
          out,      \* escaped output
          maxread,  \* highest index of inb that was read so far
          status,   \* "ok" | "invalid" (runtime_error) | "incomplete" (out_of_range)
          \* ---- opl_parse_string / opl_parse_escaped
          pin, ps, res, perr,
          esclen,   \* 0: in opl_parse_string; k >= 1: in opl_parse_escaped, about to do `++length` for the k-th time
          escval,
          \* ---- append_xml_encoded_string
          xpos, xout,
          \* ---- expat (environment)
          xps, xres, xerr
vars == <<phase, cps, inb, suffix, pos, out, maxread, status, pin, ps, res, perr, esclen, escval,
          xpos, xout, xps, xres, xerr>>

Max(a, b) == IF a > b THEN a ELSE b
Range(s) == {s[i] : i \in 1..Len(s)}
RECURSIVE Flat(_)
Flat(ss) == IF ss = <<>> THEN <<>> ELSE Head(ss) \o Flat(Tail(ss))
At(s, i) == IF i <= Len(s) THEN s[i] ELSE 0            \* C string read: NUL behind the last byte
Pow16(n) == CASE n = 0 -> 1 [] n = 1 -> 16 [] n = 2 -> 256 [] n = 3 -> 4096 [] n = 4 -> 65536
              [] n = 5 -> 1048576 [] n = 6 -> 16777216 [] n = 7 -> 268435456

MaxCp == 1114111                                        \* U+10FFFF
IsScalar(c) == c >= 1 /\ c <= MaxCp /\ ~(c >= 55296 /\ c <= 57343)     \* U+0000 cannot be in a C string

(* ===================================================================== A-layer *)

\* --- UTF-8 (RFC 3629) as a function of the code point
Utf8Len(c) == IF c < 128 THEN 1 ELSE IF c < 2048 THEN 2 ELSE IF c < 65536 THEN 3 ELSE 4
Utf8(c) == IF c < 128 THEN <<c>>
           ELSE IF c < 2048 THEN <<192 + c \div 64, 128 + (c % 64)>>
           ELSE IF c < 65536 THEN <<224 + c \div 4096, 128 + ((c \div 64) % 64), 128 + (c % 64)>>
           ELSE <<240 + c \div 262144, 128 + ((c \div 4096) % 64), 128 + ((c \div 64) % 64), 128 + (c % 64)>>
Utf8Str(s) == Flat([i \in 1..Len(s) |-> Utf8(s[i])])

\* --- OPL: the documented pass-through table
OplPass == << <<33, 36>>, <<38, 43>>, <<45, 60>>, <<62, 63>>, <<65, 126>>, <<161, 172>>, <<174, 1535>> >>
PassThrough(c) == \E i \in DOMAIN OplPass : OplPass[i][1] <= c /\ c <= OplPass[i][2]
OplSeparators == {32, 9, 10, 13, 44, 61, 64}             \* space TAB LF CR , = @
Percent == 37
OplStructural == OplSeparators \cup {Percent}

HexChar(d) == IF d < 10 THEN 48 + d ELSE 87 + d          \* 0-9 a-f
NumHex(c) == IF c <= 255 THEN 2 ELSE IF c < 65536 THEN 4 ELSE IF c < 1048576 THEN 5 ELSE 6
HexOf(c, n) == [i \in 1..n |-> HexChar((c \div Pow16(n - i)) % 16)]
EscapeCpA(c) == IF PassThrough(c) THEN <<c>> ELSE <<Percent>> \o HexOf(c, NumHex(c)) \o <<Percent>>
EscapeA(s) == Flat([i \in 1..Len(s) |-> EscapeCpA(s[i])])       \* a sequence of code points

IsHexChar(ch) == (ch >= 48 /\ ch <= 57) \/ (ch >= 97 /\ ch <= 102) \/ (ch >= 65 /\ ch <= 70)
HexVal(ch) == IF ch <= 57 THEN ch - 48 ELSE IF ch >= 97 THEN ch - 87 ELSE ch - 55
RECURSIVE HexSeqVal(_, _)
HexSeqVal(h, acc) == IF h = <<>> THEN acc ELSE HexSeqVal(Tail(h), acc * 16 + HexVal(Head(h)))
\* the inverse on code point sequences; partial: only defined on well-formed escaped forms
RECURSIVE UnescapeA(_)
UnescapeA(e) ==
    IF e = <<>> THEN <<>>
    ELSE IF Head(e) # Percent THEN <<Head(e)>> \o UnescapeA(Tail(e))
    ELSE LET k == CHOOSE k \in 2..Len(e) : e[k] = Percent /\ \A j \in 2..(k - 1) : e[j] # Percent
         IN <<IF k = 2 THEN Percent ELSE HexSeqVal(SubSeq(e, 2, k - 1), 0)>> \o UnescapeA(SubSeq(e, k + 1, Len(e)))
\* well-formed escaped form: literal non-structural characters and %hex+% groups, nothing else
RECURSIVE WellFormedEsc(_)
WellFormedEsc(e) ==
    IF e = <<>> THEN TRUE
    ELSE IF Head(e) # Percent THEN Head(e) \notin OplStructural /\ WellFormedEsc(Tail(e))
    ELSE \E k \in 3..Len(e) : /\ e[k] = Percent
                              /\ \A j \in 2..(k - 1) : IsHexChar(e[j])
                              /\ WellFormedEsc(SubSeq(e, k + 1, Len(e)))

\* --- XML
XmlEntities == << <<38, "&amp;">>, <<34, "&quot;">>, <<39, "&apos;">>, <<60, "&lt;">>, <<62, "&gt;">>,
                  <<10, "&#xA;">>, <<13, "&#xD;">>, <<9, "&#x9;">> >>
XmlStructural == {XmlEntities[i][1] : i \in DOMAIN XmlEntities}      \* & " ' < > LF CR TAB
Amp == 38
EntBytes(c) == CASE c = 38 -> <<38, 97, 109, 112, 59>>            \* &amp;
                 [] c = 34 -> <<38, 113, 117, 111, 116, 59>>      \* &quot;
                 [] c = 39 -> <<38, 97, 112, 111, 115, 59>>       \* &apos;
                 [] c = 60 -> <<38, 108, 116, 59>>                \* &lt;
                 [] c = 62 -> <<38, 103, 116, 59>>                \* &gt;
                 [] c = 10 -> <<38, 35, 120, 65, 59>>             \* &#xA;
                 [] c = 13 -> <<38, 35, 120, 68, 59>>             \* &#xD;
                 [] c = 9  -> <<38, 35, 120, 57, 59>>             \* &#x9;
XmlEscapeCpA(c) == IF c \in XmlStructural THEN EntBytes(c) ELSE <<c>>
XmlEscapeA(s) == Flat([i \in 1..Len(s) |-> XmlEscapeCpA(s[i])])   \* code points
\* XML 1.0 production [2] Char
XmlChar(c) == c \in {9, 10, 13} \/ (c >= 32 /\ c <= 55295) \/ (c >= 57344 /\ c <= 65533) \/ (c >= 65536 /\ c <= MaxCp)
AllXmlChar(s) == \A i \in 1..Len(s) : XmlChar(s[i])
\* Named deviation (known finding F14b): these scalar values cannot be written in an XML 1.0 document at
\* all, so the XML writer's output for them is rejected by every conforming parser.
XmlUnrepresentable == (1..8) \cup {11, 12} \cup (14..31) \cup {65534, 65535}

\* --- byte strings: sequence length by lead byte, and the verdict of a left-to-right segmentation
SeqLenTable == << <<1, 127, 1>>, <<128, 191, 0>>, <<192, 223, 2>>, <<224, 239, 3>>, <<240, 247, 4>>, <<248, 255, 0>> >>
SeqLenA(b) == LET i == CHOOSE i \in DOMAIN SeqLenTable : SeqLenTable[i][1] <= b /\ b <= SeqLenTable[i][2]
              IN SeqLenTable[i][3]
RECURSIVE VerdictA(_)
VerdictA(b) == IF b = <<>> THEN "ok"
               ELSE LET L == SeqLenA(b[1]) IN
                    IF L = 0 THEN "invalid"
                    ELSE IF L > Len(b) THEN "incomplete"          \* cut off at the end of the string
                    ELSE VerdictA(SubSeq(b, L + 1, Len(b)))

(* ===================================================================== I-layer *)

\* utf8_sequence_length(): shifts
SeqLenI(first) == IF first < 128 THEN 1
                  ELSE IF first \div 32 = 6 THEN 2
                  ELSE IF first \div 16 = 14 THEN 3
                  ELSE IF first \div 8 = 30 THEN 4
                  ELSE 0
\* next_utf8_codepoint(): masks as written (continuation bytes are not validated)
DecodeI(b, p, L) ==
    CASE L = 1 -> b[p]
      [] L = 2 -> ((b[p] * 64) % 2048) + (b[p + 1] % 64)
      [] L = 3 -> ((b[p] * 4096) % 65536) + ((b[p + 1] * 64) % 4096) + (b[p + 2] % 64)
      [] L = 4 -> ((b[p] * 262144) % 2097152) + ((b[p + 1] * 4096) % 262144) + ((b[p + 2] * 64) % 4096) + (b[p + 3] % 64)
PassI(c) == \/ (33 <= c /\ c <= 36) \/ (38 <= c /\ c <= 43) \/ (45 <= c /\ c <= 60) \/ (62 <= c /\ c <= 63)
            \/ (65 <= c /\ c <= 126) \/ (161 <= c /\ c <= 172) \/ (174 <= c /\ c <= 1535)
Nib(c, k) == (c \div Pow16(k)) % 16
\* append_2_hex_digits / append_min_4_hex_digits (values < 2^28 here)
Hex2I(c) == <<HexChar(Nib(c, 1)), HexChar(Nib(c, 0))>>
\* upper digits: only LEADING zeros are suppressed (`if (value >= 0x00100000U)` ...).  As originally shipped every
\* upper nibble was tested on its own (`v = value & 0x000f0000U; if (v)`), which drops inner zeros: defect F14a.
Printed(c, k) == IF HexAsShipped THEN Nib(c, k) # 0 ELSE c >= Pow16(k)
Hex4I(c) == (IF Printed(c, 6) THEN <<HexChar(Nib(c, 6))>> ELSE <<>>)
            \o (IF Printed(c, 5) THEN <<HexChar(Nib(c, 5))>> ELSE <<>>)
            \o (IF Printed(c, 4) THEN <<HexChar(Nib(c, 4))>> ELSE <<>>)
            \o <<HexChar(Nib(c, 3)), HexChar(Nib(c, 2)), HexChar(Nib(c, 1)), HexChar(Nib(c, 0))>>
HexI(c) == IF c <= 255 THEN Hex2I(c) ELSE Hex4I(c)
\* append_codepoint_as_utf8(); the first byte is truncated to a char
CpToUtf8I(cp) == IF cp < 128 THEN <<cp>>
                 ELSE IF cp < 2048 THEN <<192 + cp \div 64, 128 + (cp % 64)>>
                 ELSE IF cp < 65536 THEN <<224 + cp \div 4096, 128 + ((cp \div 64) % 64), 128 + (cp % 64)>>
                 ELSE <<(240 + ((cp \div 262144) % 16)) % 256, 128 + ((cp \div 4096) % 64), 128 + ((cp \div 64) % 64), 128 + (cp % 64)>>

SuffixBytes(t) == CASE t = "" -> <<>> [] t = "," -> <<44>> [] t = "=" -> <<61>> [] t = " " -> <<32>> [] t = "tab" -> <<9>>

Init == /\ phase = (IF Mode = "static" THEN "done" ELSE "build")
        /\ cps = <<>> /\ inb = <<>> /\ suffix = ""
        /\ pos = 1 /\ out = <<>> /\ maxread = 0 /\ status = "ok"
        /\ pin = <<>> /\ ps = 1 /\ res = <<>> /\ perr = "" /\ esclen = 0 /\ escval = 0
        /\ xpos = 1 /\ xout = <<>> /\ xps = 1 /\ xres = <<>> /\ xerr = ""

\* ---- building the input (the quantifier of the property)
AppendCp(c) == /\ Mode = "str" /\ phase = "build" /\ Len(cps) < MaxLen
               /\ cps' = Append(cps, c) /\ inb' = inb \o Utf8(c)
               /\ UNCHANGED <<phase, suffix, pos, out, maxread, status, pin, ps, res, perr, esclen, escval, xpos, xout, xps, xres, xerr>>
AppendByte(b) == /\ Mode = "bytes" /\ phase = "build" /\ Len(inb) < MaxLen
                 /\ inb' = Append(inb, b)
                 /\ UNCHANGED <<phase, cps, suffix, pos, out, maxread, status, pin, ps, res, perr, esclen, escval, xpos, xout, xps, xres, xerr>>
\* call append_utf8_encoded_string(out, data): strlen reads up to and including the NUL
EscBegin(t) == /\ phase = "build" /\ Mode \in {"str", "bytes"}
               /\ phase' = "escape" /\ suffix' = t /\ pos' = 1 /\ maxread' = Len(inb) + 1
               /\ UNCHANGED <<cps, inb, out, status, pin, ps, res, perr, esclen, escval, xpos, xout, xps, xres, xerr>>

\* ---- one iteration of `while (data != end_ptr)`
EscGuard == phase = "escape" /\ status = "ok" /\ pos <= Len(inb)
EscInvalid == /\ EscGuard /\ SeqLenI(inb[pos]) = 0
              /\ status' = "invalid" /\ maxread' = Max(maxread, pos)
              /\ UNCHANGED <<phase, cps, inb, suffix, pos, out, pin, ps, res, perr, esclen, escval, xpos, xout, xps, xres, xerr>>
EscIncomplete == /\ EscGuard /\ SeqLenI(inb[pos]) # 0
                 /\ (Len(inb) + 1) - pos < SeqLenI(inb[pos])                 \* std::distance(it, end) < length
                 /\ status' = "incomplete" /\ maxread' = Max(maxread, pos)
                 /\ UNCHANGED <<phase, cps, inb, suffix, pos, out, pin, ps, res, perr, esclen, escval, xpos, xout, xps, xres, xerr>>
EscPass == /\ EscGuard
           /\ LET L == SeqLenI(inb[pos]) IN
              /\ L # 0 /\ (Len(inb) + 1) - pos >= L
              /\ PassI(DecodeI(inb, pos, L))
              /\ out' = out \o SubSeq(inb, pos, pos + L - 1)                 \* out.append(prev, data)
              /\ pos' = pos + L /\ maxread' = Max(maxread, pos + L - 1)
           /\ UNCHANGED <<phase, cps, inb, suffix, status, pin, ps, res, perr, esclen, escval, xpos, xout, xps, xres, xerr>>
EscHex == /\ EscGuard
          /\ LET L == SeqLenI(inb[pos]) IN
             /\ L # 0 /\ (Len(inb) + 1) - pos >= L
             /\ ~PassI(DecodeI(inb, pos, L))
             /\ out' = out \o <<Percent>> \o HexI(DecodeI(inb, pos, L)) \o <<Percent>>
             /\ pos' = pos + L /\ maxread' = Max(maxread, pos + L - 1)
          /\ UNCHANGED <<phase, cps, inb, suffix, status, pin, ps, res, perr, esclen, escval, xpos, xout, xps, xres, xerr>>
\* return resp. exception leaves the function; the next call is the parser (str) or the XML escaper (bytes)
EscEnd == /\ phase = "escape" /\ (status # "ok" \/ pos = Len(inb) + 1)
          /\ IF Mode = "str" /\ status = "ok"
             THEN phase' = "parse" /\ pin' = out \o SuffixBytes(suffix) /\ ps' = 1
             ELSE phase' = "xml" /\ UNCHANGED <<pin, ps>>
          /\ UNCHANGED <<cps, inb, suffix, pos, out, maxread, status, res, perr, esclen, escval, xpos, xout, xps, xres, xerr>>

\* ---- opl_parse_string: one iteration of `while (true)`
PGuard == phase = "parse" /\ perr = "" /\ esclen = 0
ParseStop == /\ PGuard /\ At(pin, ps) \in {0, 32, 9, 44, 61}
             /\ phase' = "xml"
             /\ UNCHANGED <<cps, inb, suffix, pos, out, maxread, status, pin, ps, res, perr, esclen, escval, xpos, xout, xps, xres, xerr>>
ParseLiteral == /\ PGuard /\ At(pin, ps) \notin {0, 32, 9, 44, 61, Percent}
                /\ res' = Append(res, pin[ps]) /\ ps' = ps + 1
                /\ UNCHANGED <<phase, cps, inb, suffix, pos, out, maxread, status, pin, perr, esclen, escval, xpos, xout, xps, xres, xerr>>
ParseEscOpen == /\ PGuard /\ At(pin, ps) = Percent
                /\ ps' = ps + 1 /\ esclen' = 1 /\ escval' = 0
                /\ UNCHANGED <<phase, cps, inb, suffix, pos, out, maxread, status, pin, res, perr, xpos, xout, xps, xres, xerr>>
\* ---- opl_parse_escaped: one iteration of `while (++length <= max_length)`, max_length = 8
EGuard == phase = "parse" /\ perr = "" /\ esclen >= 1
ParseEscDigit == /\ EGuard /\ esclen <= 8 /\ IsHexChar(At(pin, ps))
                 /\ escval' = (IF esclen = 8 THEN escval ELSE escval * 16 + HexVal(pin[ps]))   \* 8th digit: value no longer used
                 /\ ps' = ps + 1 /\ esclen' = esclen + 1
                 /\ UNCHANGED <<phase, cps, inb, suffix, pos, out, maxread, status, pin, res, perr, xpos, xout, xps, xres, xerr>>
ParseEscClose == /\ EGuard /\ esclen <= 8 /\ At(pin, ps) = Percent
                 /\ escval < 2097152                                      \* beyond: see ParseEscError
                 /\ res' = res \o (IF escval = 0 THEN <<Percent>> ELSE CpToUtf8I(escval))
                 /\ ps' = ps + 1 /\ esclen' = 0
                 /\ UNCHANGED <<phase, cps, inb, suffix, pos, out, maxread, status, pin, perr, escval, xpos, xout, xps, xres, xerr>>
ParseEscError == /\ EGuard
                 /\ perr' = (IF esclen > 8 THEN "hex escape too long"
                             ELSE IF At(pin, ps) = 0 THEN "eol"
                             ELSE IF At(pin, ps) = Percent THEN "unmodelled: value >= 0x200000"
                             ELSE "not a hex char")
                 /\ (esclen > 8 \/ At(pin, ps) = 0 \/ (At(pin, ps) = Percent /\ escval >= 2097152)
                     \/ (At(pin, ps) # Percent /\ ~IsHexChar(At(pin, ps))))
                 /\ phase' = "xml"
                 /\ UNCHANGED <<cps, inb, suffix, pos, out, maxread, status, pin, ps, res, esclen, escval, xpos, xout, xps, xres, xerr>>

\* ---- append_xml_encoded_string: one iteration of `for (; *data != '\0'; ++data)`
XmlStep == /\ phase = "xml" /\ xpos <= Len(inb)
           /\ xout' = xout \o (IF inb[xpos] \in XmlStructural THEN EntBytes(inb[xpos]) ELSE <<inb[xpos]>>)
           /\ xpos' = xpos + 1
           /\ UNCHANGED <<phase, cps, inb, suffix, pos, out, maxread, status, pin, ps, res, perr, esclen, escval, xps, xres, xerr>>
XmlEnd == /\ phase = "xml" /\ xpos = Len(inb) + 1                               \* reads the NUL, returns
          /\ phase' = (IF Mode = "str" THEN "xparse" ELSE "done")
          /\ UNCHANGED <<cps, inb, suffix, pos, out, maxread, status, pin, ps, res, perr, esclen, escval, xpos, xout, xps, xres, xerr>>

\* ---- environment: expat parsing the attribute value  v="<xout>"  (XML 1.0 sections 2.2, 2.11, 3.3.3, 4.1, 4.6)
XGuard == phase = "xparse" /\ xerr = "" /\ xps <= Len(xout)
RefEnd(p) == CHOOSE k \in p..(Len(xout) + 1) : k = Len(xout) + 1 \/ xout[k] = 59          \* next ';'
XRef == /\ XGuard /\ xout[xps] = Amp
        /\ LET k == RefEnd(xps)
               body == SubSeq(xout, xps + 1, k - 1)
           IN /\ k <= Len(xout)
              /\ \/ \E c \in {38, 34, 39, 60, 62} : EntBytes(c) = <<Amp>> \o body \o <<59>> /\ xres' = Append(xres, c)
                 \/ /\ Len(body) >= 3 /\ body[1] = 35 /\ body[2] = 120                    \* &#x...;
                    /\ \A j \in 3..Len(body) : IsHexChar(body[j])
                    /\ Len(body) <= 8
                    /\ XmlChar(HexSeqVal(SubSeq(body, 3, Len(body)), 0))
                    /\ xres' = xres \o Utf8(HexSeqVal(SubSeq(body, 3, Len(body)), 0))
              /\ xps' = k + 1
        /\ UNCHANGED <<phase, cps, inb, suffix, pos, out, maxread, status, pin, ps, res, perr, esclen, escval, xpos, xout, xerr>>
XLiteral == /\ XGuard /\ xout[xps] \notin {Amp, 60, 34}
            /\ LET L == SeqLenA(xout[xps]) IN
               /\ L # 0 /\ xps + L - 1 <= Len(xout)
               /\ XmlChar(DecodeI(xout, xps, L))
               /\ xres' = xres \o (IF xout[xps] \in {9, 10, 13} THEN <<32>>               \* attribute value normalisation
                                   ELSE SubSeq(xout, xps, xps + L - 1))
               /\ xps' = xps + L
            /\ UNCHANGED <<phase, cps, inb, suffix, pos, out, maxread, status, pin, ps, res, perr, esclen, escval, xpos, xout, xerr>>
XReject == /\ XGuard
           /\ ~ENABLED XRef /\ ~ENABLED XLiteral
           /\ xerr' = "not well-formed"
           /\ UNCHANGED <<phase, cps, inb, suffix, pos, out, maxread, status, pin, ps, res, perr, esclen, escval, xpos, xout, xps, xres>>
XEnd == /\ phase = "xparse" /\ (xerr # "" \/ xps = Len(xout) + 1)
        /\ phase' = "done"
        /\ UNCHANGED <<cps, inb, suffix, pos, out, maxread, status, pin, ps, res, perr, esclen, escval, xpos, xout, xps, xres, xerr>>

Next == \/ \E c \in Alphabet : AppendCp(c)
        \/ \E b \in ByteReps : AppendByte(b)
        \/ \E t \in Suffixes : EscBegin(t)
        \/ EscInvalid \/ EscIncomplete \/ EscPass \/ EscHex \/ EscEnd
        \/ ParseStop \/ ParseLiteral \/ ParseEscOpen \/ ParseEscDigit \/ ParseEscClose \/ ParseEscError
        \/ XmlStep \/ XmlEnd \/ XRef \/ XLiteral \/ XReject \/ XEnd
Spec == Init /\ [][Next]_vars

(* ===================================================================== what TLC checks: I => A *)

Phases == {"build", "escape", "parse", "xml", "xparse", "done"}
\* everything a call produced stays unchanged until "done", and every behaviour ends in "done" (the check counts
\* the terminal states), so the A-layer comparisons are evaluated there only
After(p) == {"done"}
TypeOK == /\ phase \in Phases /\ status \in {"ok", "invalid", "incomplete"}
          /\ \A i \in 1..Len(inb) : inb[i] \in 1..255
          /\ \A i \in 1..Len(out) : out[i] \in 1..255
          /\ \A i \in 1..Len(res) : res[i] \in 0..255
          /\ pos \in 1..(Len(inb) + 1) /\ xpos \in 1..(Len(inb) + 1) /\ ps \in 1..(Len(pin) + 1)
          /\ esclen \in 0..9

\* "never read beyond its terminating NUL" (the NUL is index Len+1); also for the parser
NoOverRead == maxread <= Len(inb) + 1 /\ ps <= Len(pin) + 1 /\ xpos <= Len(inb) + 1
\* the decoder consumes exactly its sequence or raises
ConsumesSequences == phase = "escape" /\ status = "ok" => VerdictA(SubSeq(inb, 1, pos - 1)) = "ok"
\* exception <=> a sequence is cut off at the end / the lead byte is none (A-layer segmentation)
VerdictMatchesA == (Mode # "static" /\ phase \in After("escape")) => status = VerdictA(inb)
StrAlwaysOk == Mode = "str" => status = "ok"

\* escape: I-layer bytes = UTF-8 of the A-layer rule
EscapeMatchesA == (Mode = "str" /\ phase \in After("escape")) => out = Utf8Str(EscapeA(cps))
\* no structural character; every '%' delimits a hex group
OplNoStructural == (Mode = "str" /\ phase \in After("escape")) =>
                      /\ \A i \in 1..Len(out) : out[i] \notin OplSeparators
                      /\ WellFormedEsc(EscapeA(cps))
\* the parser undoes it exactly and stops exactly where the escaped form ends
OplRoundTrip == (Mode = "str" /\ phase \in After("parse")) =>
                   /\ perr = "" /\ esclen = 0
                   /\ res = inb
                   /\ ps = Len(out) + 1
                   /\ UnescapeA(EscapeA(cps)) = cps

XmlEscapeMatchesA == (Mode = "str" /\ phase \in After("xml")) => xout = Utf8Str(XmlEscapeA(cps))
XmlNoStructural == phase \in After("xml") =>
                      \A i \in 1..Len(xout) :
                         /\ xout[i] \notin (XmlStructural \ {Amp})
                         /\ xout[i] = Amp => \E c \in XmlStructural : /\ i + Len(EntBytes(c)) - 1 <= Len(xout)
                                                          /\ SubSeq(xout, i, i + Len(EntBytes(c)) - 1) = EntBytes(c)
\* round trip through a conforming XML parser - for every string that XML 1.0 can carry at all ...
XmlRoundTrip == (Mode = "str" /\ phase = "done" /\ AllXmlChar(cps)) => (xerr = "" /\ xres = inb)
\* ... and the named deviation: the others are rejected (never silently altered)
XmlDeviation == (Mode = "str" /\ phase = "done" /\ ~AllXmlChar(cps)) =>
                   (xerr # "" /\ \E i \in 1..Len(cps) : cps[i] \in XmlUnrepresentable)

(* ---- the table over the whole code point range (exported; the harness sweeps every scalar value) *)
Bounds == {1, MaxCp + 1, 256, 4096, 65536, 1048576, 128, 2048, 55296, 57344, 65534, 32, 127, 160}
          \cup {OplPass[i][1] : i \in DOMAIN OplPass} \cup {OplPass[i][2] + 1 : i \in DOMAIN OplPass}
          \cup OplStructural \cup {c + 1 : c \in OplStructural}
          \cup XmlStructural \cup {c + 1 : c \in XmlStructural}
          \cup {9, 11, 13, 14}
RowAttr(c) == [pass |-> PassThrough(c), hexn |-> (IF PassThrough(c) THEN 0 ELSE NumHex(c)), ulen |-> Utf8Len(c),
               scalar |-> IsScalar(c), xmlchar |-> XmlChar(c), xmlent |-> (c \in XmlStructural),
               oplstruct |-> (c \in OplStructural)]
NextBound(b) == CHOOSE x \in Bounds : x > b /\ \A y \in Bounds : y > b => x <= y
Rows == {[lo |-> b, hi |-> NextBound(b) - 1, attr |-> RowAttr(b)] : b \in Bounds \ {MaxCp + 1}}
BoundAlphabet == {c \in UNION {{b - 1, b, b + 1} : b \in Bounds} : IsScalar(c)}

\* alphabets (selected in the cfg files)
AlphaOpl == {37, 44, 61, 64, 32, 97, 173, 1536, 1114111, 50, 53}     \* % , = @ sp a U+00AD U+0600 U+10FFFF 2 5
AlphaOplSmall == {37, 44, 32, 97, 173, 1114111, 50, 53}
AlphaXml == {38, 60, 62, 34, 39, 10, 13, 9, 97, 59, 35, 120, 233}     \* & < > " ' LF CR TAB a ; # x U+00E9
AlphaWide == BoundAlphabet \cup AlphaOpl \cup AlphaXml \cup {1048575, 1048577, 69632, 983040, 1052672, 8364, 128512}
BytesTwoPerClass == {1, 65, 127, 37, 128, 191, 192, 223, 224, 239, 240, 247, 248, 255}
BytesOnePerClass == {65, 128, 195, 226, 240, 248}

(* ---- constant-level theorems (Mode = "static": evaluated once, in the single state of that mode) *)
StaticOn == Mode = "static"
StringsOver(A, n) == UNION {[1..k -> A] : k \in 0..n}
\* distinct strings have distinct escaped forms: the image set is as large as the domain
OplInjectiveOn(A, n) == Cardinality({EscapeA(s) : s \in StringsOver(A, n)}) = Cardinality(StringsOver(A, n))
XmlInjectiveOn(A, n) == Cardinality({XmlEscapeA(s) : s \in StringsOver(A, n)}) = Cardinality(StringsOver(A, n))
OplInverseOn(A, n) == \A s \in StringsOver(A, n) : UnescapeA(EscapeA(s)) = s /\ WellFormedEsc(EscapeA(s))
\* per code point: the code's interval test, decoder, encoder and hex output agree with the A-layer
AgreeOn(A) == \A c \in A : /\ PassI(c) = PassThrough(c)
                           /\ DecodeI(Utf8(c), 1, Utf8Len(c)) = c
                           /\ SeqLenI(Utf8(c)[1]) = Utf8Len(c)
                           /\ CpToUtf8I(c) = Utf8(c)
                           /\ HexI(c) = HexOf(c, NumHex(c))
                           /\ (PassThrough(c) => c \notin OplStructural)
TheoremsOn(A, n) == OplInjectiveOn(A, n) /\ XmlInjectiveOn(A, n) /\ OplInverseOn(A, n) /\ AgreeOn(A)
StaticOpl == StaticOn => TheoremsOn(AlphaOpl, MaxLen)        \* structural alphabets: to the length of the cfg
StaticXml == StaticOn => TheoremsOn(AlphaXml, MaxLen)
StaticWide == StaticOn => TheoremsOn(AlphaWide, 2)           \* every interval bound +-1: pairs
\* lead-byte classes: shifts of the code = table, for every byte
SeqLenAgree == StaticOn => \A b \in 1..255 : SeqLenI(b) = SeqLenA(b)
\* every code point of a row has the row's attributes (the whole range, 1.1 million evaluations)
RowsUniform == StaticOn => \A r \in Rows : \A c \in r.lo..r.hi : RowAttr(c) = r.attr
RowsCover == StaticOn => /\ \A r \in Rows : r.lo <= r.hi
                         /\ Cardinality(Rows) = Cardinality(Bounds) - 1
                         /\ \E r \in Rows : r.lo = 1
                         /\ \E r \in Rows : r.hi = MaxCp

(* ---- export *)
ExportTable ==
    (DoExport /\ Mode = "static") =>
       PrintT(<<"CASE", ToJson([kind |-> "table",
                                rows |-> Rows,
                                oplsep |-> OplSeparators,
                                percent |-> Percent,
                                xmlstruct |-> XmlStructural,
                                entities |-> [i \in DOMAIN XmlEntities |-> [cp |-> XmlEntities[i][1], text |-> XmlEntities[i][2],
                                                                            bytes |-> EntBytes(XmlEntities[i][1])]],
                                xmlunrep |-> XmlUnrepresentable,
                                seqlen |-> [i \in DOMAIN SeqLenTable |-> [lo |-> SeqLenTable[i][1], hi |-> SeqLenTable[i][2],
                                                                          len |-> SeqLenTable[i][3]]]])>>)
ExportStr ==
    (DoExport /\ Mode = "str" /\ phase = "done") =>
       PrintT(<<"CASE", ToJson([kind |-> "str", cps |-> cps, inb |-> inb, suffix |-> suffix,
                                opl |-> out, parsed |-> res, consumed |-> ps - 1,
                                xml |-> xout, xmlchar |-> AllXmlChar(cps),
                                xmodel |-> (IF xerr = "" THEN "accepted" ELSE "rejected")])>>)
ExportBytes ==
    (DoExport /\ Mode = "bytes" /\ phase = "done") =>
       PrintT(<<"CASE", ToJson([kind |-> "bytes", inb |-> inb, status |-> status,
                                lens |-> [i \in 1..Len(inb) |-> SeqLenA(inb[i])]])>>)

=============================================================================
