SPECIFICATION SpecGC
CONSTANTS
  RelIds <- RelIds3
  Refs <- RefsGC
  MaxMembers = 4
  Stream <- StreamGC
  TypesWanted <- TNW
  ExportHist = TRUE
INVARIANTS Inv Export
CHECK_DEADLOCK FALSE
