SPECIFICATION Spec
CONSTANTS
  N = 3
  DSNames = {"basic"}
  MaxExtra = 0
  SkipSet = {"sync", "jump", "unknown", "unknown0", "unknownL", "byte"}
  HdrSet = {"bbox", "filets"}
  RefPolicy = "any"
  MaskSet = {{"n", "w", "r"}, {"n"}, {"w"}, {"r"}, {"n", "w"}, {"n", "r"}, {"w", "r"}}
  TypeResets = FALSE
  SkipUndecoded = TRUE
  FillOnly = FALSE
  BulkN = 5
  RoleLimit = 250
  ExportHist = FALSE
INVARIANTS TypeOK TableAgree RegsAgree DecodedOK
CHECK_DEADLOCK FALSE
