-------------------------- MODULE ContainersExtNwr --------------------------
(* C15 extension (3/5).  osmium::nwr_array<T> (index/nwr_array.hpp) holding three id sets
   (T = IdSetDense<...> or IdSetSmall<...>): "three somethings accessed conveniently through the call operator".

   A-layer: one set of ids per item type; the three sets are independent.
   I-layer: the std::array m_data of three slots.  operator()(type) indexes it with item_type_to_nwr_index(type)
   = numeric value of the item_type - 1 (node = 1, way = 2, relation = 3); nodes()/ways()/relations() index it
   with the literals 0/1/2; begin()..end() walks the slots in order.  Each slot is kept as the vector of an
   IdSetSmall (Kind = "small": insertion order, "same as last" suppression) or as the bit set of an IdSetDense
   (Kind = "dense": ascending iteration, check_and_set result, unset) - the slots' own machinery is what
   IdSetDense.tla / IdSetSmall.tla specify, here only what crosses the array matters.  The whole array is a
   value (copy construction / assignment: saved copy and restore). *)
EXTENDS Integers, Sequences, FiniteSets, TLC, Json
CONSTANTS Ids, Kind, MaxSteps, ExportHist
Types == {"node", "way", "relation"}
TypeNum(t) == CASE t = "node" -> 1 [] t = "way" -> 2 [] t = "relation" -> 3          \* enum class item_type
NwrIndex(t) == TypeNum(t) - 1                                                          \* item_type_to_nwr_index
NamedIndex(t) == CASE t = "node" -> 0 [] t = "way" -> 1 [] t = "relation" -> 2        \* nodes() / ways() / relations()
Via == {"call", "named", "const_call"}      \* which accessor the harness has to use for the step

VARIABLES slots,   \* m_data: <<s0, s1, s2>>, each a sequence of ids (small: the vector; dense: ascending list)
          saved,   \* a copy of the whole array taken earlier
          A, SAVED,  \* A-layer: [Types -> SUBSET Ids] for the array and for the copy
          ret, steps, hist
vars == <<slots, saved, A, SAVED, ret, steps, hist>>

SeqSet(s) == {s[i] : i \in 1..Len(s)}
RECURSIVE Asc(_, _)
Asc(T, acc) == IF T = {} THEN acc ELSE LET m == CHOOSE x \in T : \A y \in T : x <= y IN Asc(T \ {m}, Append(acc, m))
Idx(t, via) == IF via = "named" THEN NamedIndex(t) ELSE NwrIndex(t)

Empty3 == <<<<>>, <<>>, <<>>>>
NoSets == [t \in Types |-> {}]
Init == slots = Empty3 /\ saved = Empty3 /\ A = NoSets /\ SAVED = NoSets /\ ret = "none" /\ steps = 0 /\ hist = <<>>

Rec(act, t, via, id) ==
    /\ steps' = steps + 1
    /\ hist' = IF ExportHist THEN Append(hist, [a |-> act, t |-> t, via |-> via, x |-> id, ret |-> ret',
                                                 slots |-> slots',                                   \* in begin()..end() order
                                                 node |-> slots'[1], way |-> slots'[2], relation |-> slots'[3]]) ELSE hist
Go == steps < MaxSteps

SlotSet(s, id) == IF Kind = "small" THEN (IF s = <<>> \/ s[Len(s)] # id THEN Append(s, id) ELSE s)
                  ELSE Asc(SeqSet(s) \cup {id}, <<>>)
Set(t, via, id) ==
    /\ Go /\ via # "const_call"
    /\ slots' = [slots EXCEPT ![Idx(t, via) + 1] = SlotSet(@, id)]
    /\ ret' = IF Kind = "dense" THEN (IF id \in SeqSet(slots[Idx(t, via) + 1]) THEN "false" ELSE "true") ELSE "none"
    /\ A' = [A EXCEPT ![t] = @ \cup {id}] /\ UNCHANGED <<saved, SAVED>>
    /\ Rec("set", t, via, id)
Unset(t, via, id) ==
    /\ Go /\ Kind = "dense" /\ via # "const_call"
    /\ slots' = [slots EXCEPT ![Idx(t, via) + 1] = SelectSeq(@, LAMBDA v : v # id)]
    /\ ret' = "none" /\ A' = [A EXCEPT ![t] = @ \ {id}] /\ UNCHANGED <<saved, SAVED>>
    /\ Rec("unset", t, via, id)
Get(t, via, id) ==
    /\ Go
    /\ ret' = IF id \in SeqSet(slots[Idx(t, via) + 1]) THEN "true" ELSE "false"
    /\ UNCHANGED <<slots, saved, A, SAVED>>
    /\ Rec("get", t, via, id)
Clear(t, via) ==
    /\ Go /\ via # "const_call" /\ slots[Idx(t, via) + 1] # <<>>
    /\ slots' = [slots EXCEPT ![Idx(t, via) + 1] = <<>>]
    /\ ret' = "none" /\ A' = [A EXCEPT ![t] = {}] /\ UNCHANGED <<saved, SAVED>>
    /\ Rec("clear", t, via, 0)
ClearAll ==        \* for (auto& set : array) set.clear();
    /\ Go /\ slots # Empty3
    /\ slots' = Empty3 /\ A' = NoSets /\ ret' = "none" /\ UNCHANGED <<saved, SAVED>>
    /\ Rec("clear_all", "node", "call", 0)
Save ==            \* copy construction of the whole array
    /\ Go /\ saved # slots
    /\ saved' = slots /\ SAVED' = A /\ ret' = "none" /\ UNCHANGED <<slots, A>>
    /\ Rec("save", "node", "call", 0)
Restore ==         \* copy assignment of the whole array
    /\ Go /\ saved # slots
    /\ slots' = saved /\ A' = SAVED /\ ret' = "none" /\ UNCHANGED <<saved, SAVED>>
    /\ Rec("restore", "node", "call", 0)

Next == \/ \E t \in Types, via \in Via, id \in Ids : Set(t, via, id) \/ Unset(t, via, id) \/ Get(t, via, id)
        \/ \E t \in Types, via \in Via : Clear(t, via)
        \/ ClearAll \/ Save \/ Restore
Spec == Init /\ [][Next]_vars

(* every accessor reaches the slot of its own type and nothing else ever changes *)
Refines == /\ \A t \in Types, via \in Via : SeqSet(slots[Idx(t, via) + 1]) = A[t]
           /\ \A t \in Types : SeqSet(saved[NwrIndex(t) + 1]) = SAVED[t]
           /\ \A t \in Types : NwrIndex(t) = NamedIndex(t) /\ NwrIndex(t) \in 0..2
           /\ Kind = "dense" => \A i \in 1..3 : slots[i] = Asc(SeqSet(slots[i]), <<>>)
Independent == [][\A t \in Types : A'[t] # A[t] => \/ \A u \in Types \ {t} : A'[u] = A[u] /\ slots'[NwrIndex(u) + 1] = slots[NwrIndex(u) + 1]
                                                  \/ A' = NoSets \/ A' = SAVED]_vars

Export == steps = MaxSteps => PrintT(<<"CASE", ToJson([kind |-> Kind, steps |-> hist])>>)
=============================================================================
