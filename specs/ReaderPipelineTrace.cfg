SPECIFICATION TraceSpec
CONSTANTS
  Configs <- TraceConfigs
INVARIANTS NotAccepted LogIsExpected NoReadAfterClose HeaderOnce NoThreadLeft NoFdLeft QueueBounds
CONSTRAINT Progress
POSTCONDITION ReportMax
CHECK_DEADLOCK FALSE
