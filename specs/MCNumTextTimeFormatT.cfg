SPECIFICATION Spec
CONSTANTS
  Mode = "format"
  Level = 1
  DoExport = TRUE
INVARIANTS FormatIimpliesA RoundTrip Export
CHECK_DEADLOCK FALSE
