SPECIFICATION Spec
CONSTANTS
  Cand = {1, 65535, 65536, 65537, 131071, 131072, 196608, 1073741824, 1073741825, 1073741827}
  Probes = {0, 1, 2, 65534, 65535, 65536, 65537, 65538, 131070, 131071, 131072, 131073, 196607, 196608, 196609, 262144, 1073741823, 1073741824, 1073741825, 1073741826, 1073741827, 1073741828}
  MaxSets = 7
  MaxSorts = 2
  MaxDumps = 1
  ArrayLimit = 4194304
  ExportHist = TRUE
  B = 65536
  MinDense = 3
  Factor = 3
  Dense0 = FALSE
INVARIANTS Refines Link Export
CHECK_DEADLOCK FALSE
