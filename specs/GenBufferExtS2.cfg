SPECIFICATION Spec
CONSTANTS
  Caps <- CapsScript
  Modes = {"yes", "internal"}
  Kinds = {"area"}
  ULens = {5}
  TagLens <- TagLens2
  RoleLens = {0}
  Pres = {0, 1}
  Wraps = {FALSE}
  CbMaxs = {0}
  MaxObjects = 2
  MaxElems = 2
  MaxSubs = 6
  MaxSteps <- S2Len
  Ops <- AllOps
  Script <- ScriptArea2
  ExportHist = TRUE
INVARIANT Export
INVARIANT Inv
CHECK_DEADLOCK FALSE
