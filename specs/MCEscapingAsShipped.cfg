SPECIFICATION Spec
CONSTANTS
  Mode = "str"
  Alphabet <- AlphaOplSmall
  ByteReps <- BytesOnePerClass
  MaxLen = 2
  Suffixes = {""}
  DoExport = FALSE
  HexAsShipped = TRUE
INVARIANTS TypeOK NoOverRead ConsumesSequences VerdictMatchesA StrAlwaysOk EscapeMatchesA OplNoStructural OplRoundTrip XmlEscapeMatchesA XmlNoStructural XmlRoundTrip XmlDeviation
CHECK_DEADLOCK FALSE
