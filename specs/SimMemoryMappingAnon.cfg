SPECIFICATION Spec
CONSTANTS
  P = 4096
  Sizes = {1, 4095, 4096, 4097, 8192, 12289}
  Offs = {0}
  ESizes = {1, 8}
  WPos = {0, 4095, 4096, 4097, 8191, 12288, 32767}
  F0s = {0}
  FdKinds = {"anon"}
  MaxOps = 12
  MaxWrites = 6
  MaxObjs = 2
  ExportHist = TRUE
INVARIANTS WindowOK ViewOK NoSigbus FileOK ErrOK TypedOK Export
CHECK_DEADLOCK FALSE
