SPECIFICATION Spec
CONSTANTS
  Configs <- TheConfigs
  ScriptLen = 1
  LongScripts = FALSE
  Ops <- AllOps
  Formats = {"xml"}
  Comps = {"plain", "gzip", "bzip2"}
  Pools = {TRUE}
  Bounds = {1}
  Caps = {2}
  MaxAt = 9
  FaultKinds = {"write", "fsync", "close"}
  FdFix = FALSE
  EmptyFix = TRUE
  GenFormats = {"xml"}
  GenComps = {"plain"}
  GenScriptLen = 0
INVARIANTS NoFdLeft
