SPECIFICATION Spec
CONSTANTS
  Threads <- P3Threads
  Kind <- P3Kind
  Script <- P3Script
  Max = 1
  Throwing <- NoThrow
INVARIANTS TypeOK FifoWhileInUse OrderAlways Accounted PerConsumerOrder Bound BoundSingle RunAtMostOnce PoolJoined DeadlockFree
CHECK_DEADLOCK FALSE
