SPECIFICATION Spec
CONSTANTS
  Ids = {0, 3, 5}
  Vals = {1, 2}
  Probes = {0, 1, 3, 4, 5, 6}
  Backings = {"hybrid"}
  MaxSets = 6
  MaxRemoves = 4
  MaxOther = 3
  ExportHist = TRUE
INVARIANTS NoLoss Link Refines FileOK Export
CHECK_DEADLOCK FALSE
