SPECIFICATION Spec
CONSTANTS
  Mode = "bytes"
  Alphabet <- AlphaOpl
  ByteReps <- BytesOnePerClass
  MaxLen = 4
  Suffixes = {""}
  DoExport = TRUE
  HexAsShipped = FALSE
INVARIANTS TypeOK NoOverRead ConsumesSequences VerdictMatchesA XmlNoStructural ExportBytes
CHECK_DEADLOCK FALSE
