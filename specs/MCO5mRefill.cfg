SPECIFICATION Spec
CONSTANTS
  HdrLen = 7
  MaxVarint = 10
  Shapes <- ShapesMC
  RepointOnFail = TRUE
  MaxCuts = 99
  TruncCuts = 99
  FixedSizes = {}
  ExportHist = FALSE
INVARIANTS WindowInv ResultInv
