\* C20 ext (specs/TagRules.tla), design check only (no export), small; handy for a manual run: tlc -config MCTagRulesTiny.cfg MCTagRules.tla.  Deadlock checking stays on: every behaviour must reach phase "done".
SPECIFICATION Spec
CONSTANTS
  Fams <- AllFams
  Alpha <- AlphaTiny
  Shapes <- ShapeTiny33q
INVARIANTS TypeOK RefinesRules RefinesIter RefinesRest
