SPECIFICATION Spec
CONSTANTS
  G = 1048576
  Sizes = {1048577}
  Slots = {0, 1048576}
  Backings = {"anon", "tmpfile", "fd"}
  F0s = {0, 1, 2, 3, 5, 1048575, 1048576, 1048577, 1048580, 77}
  OddFile = 77
  MaxOps = 2
  MaxPush = 1
  ExportHist = TRUE
INVARIANTS Refines NoGarbage CapOK FileCovers Export
CHECK_DEADLOCK FALSE
