\* C20 ext (specs/TagRules.tla), thorough: design check only; the complete product rule lists <= 3 x tag lists <= 3 over 6 tags for all four families, two templates per family.  Deadlock checking stays on: every behaviour must reach phase "done".
SPECIFICATION Spec
CONSTANTS
  Fams <- AllFams
  Alpha <- AlphaTiny
  Shapes <- ShapeSmall33
INVARIANTS TypeOK RefinesRules RefinesIter RefinesRest
