\* C20, thorough.  Deadlock checking stays on: every behaviour must reach phase "done".
SPECIFICATION Spec
CONSTANTS
  Keys <- Keys5
  MaxV = 3
  NoisePatterns <- NoiseAll
  Modes <- IterModes
  HandlerLists <- DiffLists
  SmallN = 5
  MaxChunks = 3
INVARIANTS Cursors Refines AShape Export
