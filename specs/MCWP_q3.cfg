SPECIFICATION Spec
CONSTANTS
  Configs <- TheConfigs
  ScriptLen = 1
  LongScripts = TRUE
  Ops <- AllOps
  Formats = {"pbf"}
  Comps = {"plain", "gzip", "bzip2"}
  Pools = {TRUE}
  Bounds = {2}
  Caps = {2}
  MaxAt = 9
  FaultKinds <- AllKinds
  FdFix = TRUE
  EmptyFix = TRUE
  GenFormats = {"xml"}
  GenComps = {"plain"}
  GenScriptLen = 1
INVARIANTS TypeOK LogAllowed CompleteOrThrows NeverLost NoSpuriousException RefusesAfterException FutureReadOnce NoThreadLeft NoFdLeft QueueBound
