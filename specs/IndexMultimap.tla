--------------------------- MODULE IndexMultimap ----------------------------
(* C12 (extension, sideways): the id-to-values indexes osmium::index::multimap::* - VectorBasedSparseMultimap
   (index/detail/vector_multimap.hpp) over std::vector (SparseMemArray), mmap_vector_anon (SparseMmapArray) and
   mmap_vector_file (SparseFileArray), SparseMemMultimap (std::multimap) and Hybrid (a sorted vector plus a
   std::multimap for later additions, index/multimap/hybrid.hpp).

   A-layer: ONE multiset (bag) of <<id, value>> pairs.  set / unsorted_set add one occurrence, remove(id, value) takes
   one occurrence away (nothing happens if there is none), get_all(id) is the bag of the values stored with the id,
   sort / erase_removed / consolidate do not change the bag, dump_as_list writes the bag.  Entries whose value is the
   implementation's empty value are no entries (the vector based classes keep a removed pair as such a tombstone until
   erase_removed()).  Contract (index/multimap.hpp "Sort data in map. Call this after writing all data and before
   reading. Not all implementations need this"): get_all() / remove() are DEFINED when everything that was written to
   a part that needs sorting has been sorted (`asorted`; tracked conservatively with the largest id seen, `alast`).

   I-layer: the vector of pairs in memory order with tombstones (value 0 here; the real tombstone is
   empty_value<TValue>(), the harness drives TValue = uint64_t, where that is 2^64-1, and uint32_t, where it is 0),
   std::equal_range on the ids (lower / upper bound as libstdc++ runs them), std::sort on whole pairs, the std::multimap
   as a sequence kept in key order (emplace goes behind the equal keys), Hybrid's two parts and its iterator that walks
   the range of the vector, skipping tombstones, and then the range of the multimap.  The growth of the mmap vectors
   is the business of IndexSparse.tla / MemoryMappingVector.tla and not repeated here. *)
EXTENDS Integers, Sequences, FiniteSets, TLC, Json

CONSTANTS Ids,         \* candidate ids
          Vals,        \* candidate values (> 0)
          Probes,      \* ids looked up whenever lookups are defined
          Backings,    \* subset of {"vector", "mmap", "file", "stdmm", "hybrid"}
          MaxSets, MaxRemoves, MaxOther,
          ExportHist

VARIABLES backing,
          vec,         \* I: m_vector (Hybrid: m_main), pairs <<id, value>>, value 0 = removed
          extra,       \* I: the std::multimap (SparseMemMultimap: m_elements, Hybrid: m_extra), in iteration order
          file,        \* I: what dump_as_list wrote last
          abag, asorted, alast, afile,    \* A-layer
          nsets, nrem, nother, done, hist

vars == <<backing, vec, extra, file, abag, asorted, alast, afile, nsets, nrem, nother, done, hist>>

Tomb == 0
SeqSet(s) == {s[i] : i \in 1..Len(s)}
Max2(a, b) == IF a > b THEN a ELSE b
PairLess(a, b) == a[1] < b[1] \/ (a[1] = b[1] /\ a[2] < b[2])          \* operator< of std::pair
RECURSIVE InsertSorted(_, _)
InsertSorted(s, x) == IF s = <<>> THEN <<x>>
                      ELSE IF PairLess(x, s[1]) THEN <<x>> \o s ELSE <<s[1]>> \o InsertSorted(Tail(s), x)
RECURSIVE SortPairs(_)
SortPairs(s) == IF s = <<>> THEN <<>> ELSE InsertSorted(SortPairs(Tail(s)), s[1])   \* result of std::sort (as a sequence of values)
Live(p) == p[2] # Tomb
IdSorted(s) == \A i \in 1..Len(s) - 1 : s[i][1] <= s[i + 1][1]

\* ---------------------------------------------------------------- bags
BagOf(s) == [x \in SeqSet(s) |-> Cardinality({i \in 1..Len(s) : s[i] = x})]
BagAdd(b, x) == IF x \in DOMAIN b THEN [b EXCEPT ![x] = @ + 1] ELSE (x :> 1) @@ b
BagDel(b, x) == IF x \notin DOMAIN b THEN b
                ELSE IF b[x] = 1 THEN [y \in DOMAIN b \ {x} |-> b[y]] ELSE [b EXCEPT ![x] = @ - 1]
(* a bag as a sorted sequence (for the export and for comparing) *)
RECURSIVE Rep(_, _)
Rep(x, n) == IF n = 0 THEN <<>> ELSE <<x>> \o Rep(x, n - 1)
RECURSIVE BagSeq(_)
BagSeq(b) == IF DOMAIN b = {} THEN <<>>
             ELSE LET m == CHOOSE x \in DOMAIN b : \A y \in DOMAIN b : y = x \/ PairLess(x, y)
                  IN Rep(m, b[m]) \o BagSeq([y \in DOMAIN b \ {m} |-> b[y]])

\* ---------------------------------------------------------------- A-layer
AValues(id) == LET ps == SelectSeq(BagSeq(abag), LAMBDA p : p[1] = id) IN [i \in 1..Len(ps) |-> ps[i][2]]
NeedsSort(b, a) == IF b = "stdmm" THEN FALSE ELSE IF b = "hybrid" THEN a = "uset" ELSE TRUE
Defined == asorted
RECURSIVE AscS(_, _)
AscS(T, acc) == IF T = {} THEN acc ELSE LET m == CHOOSE x \in T : \A y \in T : x <= y IN AscS(T \ {m}, Append(acc, m))
ProbeSeq == AscS(Probes, <<>>)
ValuesIn(b, id) == LET ps == SelectSeq(BagSeq(b), LAMBDA p : p[1] = id) IN [i \in 1..Len(ps) |-> ps[i][2]]
Tab(b) == [i \in 1..Len(ProbeSeq) |-> <<ProbeSeq[i], ValuesIn(b, ProbeSeq[i])>>]

AInit == abag = <<>> /\ asorted = TRUE /\ alast = -1 /\ afile = <<>>
ASet(id, v, needs) == /\ abag' = BagAdd(abag, <<id, v>>)
                      /\ asorted' = IF needs THEN (asorted /\ id >= alast) ELSE asorted
                      /\ alast' = Max2(alast, id)
                      /\ UNCHANGED afile
ASort == asorted' = TRUE /\ UNCHANGED <<abag, alast, afile>>
ARemove(id, v) == Defined /\ abag' = BagDel(abag, <<id, v>>) /\ UNCHANGED <<asorted, alast, afile>>
AKeep == UNCHANGED <<abag, asorted, alast, afile>>
ADump(sorts) == /\ afile' = BagSeq(abag) /\ asorted' = (asorted \/ sorts) /\ UNCHANGED <<abag, alast>>

\* ---------------------------------------------------------------- I-layer: the containers
(* std::lower_bound / std::upper_bound on the ids, as libstdc++ runs them (1-based positions) *)
RECURSIVE LB(_, _, _, _)
LB(v, id, first, count) == IF count <= 0 THEN first
                           ELSE LET step == count \div 2
                                    it == first + step
                                IN IF v[it][1] < id THEN LB(v, id, it + 1, count - (step + 1)) ELSE LB(v, id, first, step)
RECURSIVE UB(_, _, _, _)
UB(v, id, first, count) == IF count <= 0 THEN first
                           ELSE LET step == count \div 2
                                    it == first + step
                                IN IF id < v[it][1] THEN UB(v, id, first, step) ELSE UB(v, id, it + 1, count - (step + 1))
Lo(v, id) == LB(v, id, 1, Len(v))
Hi(v, id) == UB(v, id, 1, Len(v))
VecRange(v, id) == IF Lo(v, id) < Hi(v, id) THEN SubSeq(v, Lo(v, id), Hi(v, id) - 1) ELSE <<>>   \* get_all(id)
(* position of the first pair of the range whose value is `val`, 0 if there is none *)
FirstMatch(v, id, val) == LET c == {k \in Lo(v, id)..(Hi(v, id) - 1) : v[k][2] = val}
                          IN IF c = {} THEN 0 ELSE CHOOSE k \in c : \A j \in c : k <= j

(* std::multimap: emplace inserts behind the elements with an equal key; equal_range; erase(iterator) *)
RECURSIVE MMInsert(_, _)
MMInsert(s, x) == IF s = <<>> THEN <<x>>
                  ELSE IF x[1] < s[1][1] THEN <<x>> \o s ELSE <<s[1]>> \o MMInsert(Tail(s), x)
MMRange(s, id) == SelectSeq(s, LAMBDA p : p[1] = id)
MMFirst(s, id, val) == LET c == {k \in 1..Len(s) : s[k] = <<id, val>>} IN IF c = {} THEN 0 ELSE CHOOSE k \in c : \A j \in c : k <= j
DropAt(s, k) == SubSeq(s, 1, k - 1) \o SubSeq(s, k + 1, Len(s))

IsVec == backing \in {"vector", "mmap", "file"}
(* what iterating over get_all(id) yields; tombstones are no entries (HybridIterator skips them itself) *)
IGetAll(id) == IF IsVec THEN SelectSeq(VecRange(vec, id), Live)
               ELSE IF backing = "stdmm" THEN MMRange(extra, id)
               ELSE SelectSeq(VecRange(vec, id), Live) \o MMRange(extra, id)
Answers == backing = "stdmm" \/ IdSorted(vec)                         \* precondition of std::equal_range
IValues(id) == LET ps == SortPairs(IGetAll(id)) IN [i \in 1..Len(ps) |-> ps[i][2]]
LiveBag == BagOf(SelectSeq(vec, Live) \o extra)

\* ---------------------------------------------------------------- history
Rec(a, id, v, dumped) ==
    hist' = IF ExportHist
            THEN Append(hist, [a |-> a, id |-> id, v |-> v, b |-> backing', def |-> asorted',
                               tab |-> IF asorted' THEN Tab(abag') ELSE <<>>,
                               dump |-> IF dumped THEN afile' ELSE <<>>])
            ELSE hist

Init == /\ AInit /\ backing \in Backings /\ vec = <<>> /\ extra = <<>> /\ file = <<>>
        /\ nsets = 0 /\ nrem = 0 /\ nother = 0 /\ done = FALSE
        /\ hist = IF ExportHist THEN <<[a |-> "new", id |-> 0, v |-> 0, b |-> backing, def |-> TRUE, tab |-> <<>>, dump |-> <<>>]>> ELSE <<>>

\* ---------------------------------------------------------------- actions (one per API call)
(* set(): vector: push_back; std::multimap: emplace; Hybrid: m_extra.set() *)
Set(id, v) == /\ ~done /\ nsets < MaxSets /\ nsets' = nsets + 1
              /\ ASet(id, v, NeedsSort(backing, "set"))
              /\ IF IsVec THEN vec' = Append(vec, <<id, v>>) /\ UNCHANGED extra
                          ELSE extra' = MMInsert(extra, <<id, v>>) /\ UNCHANGED vec
              /\ UNCHANGED <<backing, file, nrem, nother, done>>
              /\ Rec("set", id, v, FALSE)
(* Hybrid::unsorted_set(): m_main.set() (the other classes: the same as set(), not generated twice) *)
USet(id, v) == /\ ~done /\ backing = "hybrid" /\ nsets < MaxSets /\ nsets' = nsets + 1
               /\ ASet(id, v, NeedsSort(backing, "uset"))
               /\ vec' = Append(vec, <<id, v>>)
               /\ UNCHANGED <<backing, extra, file, nrem, nother, done>>
               /\ Rec("uset", id, v, FALSE)
(* sort(): std::sort(m_vector.begin(), m_vector.end()); the default (empty) implementation for the std::multimap *)
Sort == /\ ~done /\ nother < MaxOther /\ nother' = nother + 1
        /\ ASort
        /\ vec' = SortPairs(vec)
        /\ UNCHANGED <<backing, extra, file, nsets, nrem, done>>
        /\ Rec("sort", 0, 0, FALSE)
(* remove(id, value): the first pair of get_all(id) with that value: vector: value := empty_value (tombstone);
   std::multimap: erase; Hybrid: the vector part first, the multimap part only if the vector part had none *)
Remove(id, v) ==
    /\ ~done /\ nrem < MaxRemoves /\ nrem' = nrem + 1
    /\ ARemove(id, v)
    /\ LET k == IF backing = "stdmm" THEN 0 ELSE FirstMatch(vec, id, v)
           m == MMFirst(extra, id, v)
       IN IF k # 0 THEN vec' = [vec EXCEPT ![k] = <<id, Tomb>>] /\ UNCHANGED extra
          ELSE IF m # 0 /\ ~IsVec THEN extra' = DropAt(extra, m) /\ UNCHANGED vec
          ELSE UNCHANGED <<vec, extra>>
    /\ UNCHANGED <<backing, file, nsets, nother, done>>
    /\ Rec("remove", id, v, FALSE)
(* erase_removed(): m_vector.erase(std::remove_if(..., is_removed), end) - compiles for std::vector only *)
Erase == /\ ~done /\ backing = "vector" /\ nother < MaxOther /\ nother' = nother + 1
         /\ AKeep
         /\ vec' = SelectSeq(vec, Live)
         /\ UNCHANGED <<backing, extra, file, nsets, nrem, done>>
         /\ Rec("erase", 0, 0, FALSE)
(* consolidate(): vector: std::sort; std::multimap: nothing; Hybrid: m_main.erase_removed(); every element of m_extra
   -> m_main.set(); m_extra.clear(); m_main.sort() *)
Consolidate ==
    /\ ~done /\ nother < MaxOther /\ nother' = nother + 1
    /\ IF backing = "stdmm" THEN AKeep ELSE ASort
    /\ IF IsVec THEN vec' = SortPairs(vec) /\ UNCHANGED extra
       ELSE IF backing = "hybrid" THEN vec' = SortPairs(SelectSeq(vec, Live) \o extra) /\ extra' = <<>>
       ELSE UNCHANGED <<vec, extra>>
    /\ UNCHANGED <<backing, file, nsets, nrem, done>>
    /\ Rec("consolidate", 0, 0, FALSE)
(* dump_as_list(fd): vector: the vector as it is (tombstones included); std::multimap: its pairs, sorted; Hybrid:
   consolidate() and the vector.  The file is then opened as a SparseFileArray (mmap_vector_file(fd): size = file size,
   shrink_to_fit() drops trailing all-zero pairs) and the history continues on that object. *)
RECURSIVE Strip(_)
Strip(v) == IF v # <<>> /\ v[Len(v)] = <<0, 0>> THEN Strip(SubSeq(v, 1, Len(v) - 1)) ELSE v
Reload ==
    /\ ~done /\ nother < MaxOther /\ nother' = nother + 1
    /\ ADump(backing \in {"stdmm", "hybrid"})
    /\ LET out == IF IsVec THEN vec
                  ELSE IF backing = "stdmm" THEN SortPairs(extra)
                  ELSE SortPairs(SelectSeq(vec, Live) \o extra)
       IN file' = out /\ vec' = Strip(out) /\ extra' = <<>> /\ backing' = "file"
    /\ UNCHANGED <<nsets, nrem, done>>
    /\ Rec("reload", 0, 0, TRUE)

Finish == /\ ~done /\ nsets = MaxSets /\ Defined /\ done' = TRUE
          /\ UNCHANGED <<backing, vec, extra, file, abag, asorted, alast, afile, nsets, nrem, nother, hist>>

Next == \/ \E id \in Ids, v \in Vals : Set(id, v) \/ USet(id, v) \/ Remove(id, v)
        \/ Sort \/ Erase \/ Consolidate \/ Reload \/ Finish
Spec == Init /\ [][Next]_vars

\* ---------------------------------------------------------------- I => A
NoLoss == LiveBag = abag                                            \* no pair lost, invented or duplicated, sorted or not
Link == Defined => Answers                                          \* lookups are defined only when equal_range's precondition holds
Refines == Answers => \A id \in Probes : IValues(id) = AValues(id)  \* get_all(id) is the bag of the values of id
FileOK == BagSeq(BagOf(SelectSeq(file, Live))) = afile              \* the dump holds the bag (tombstones are no entries)

Export == done => PrintT(<<"CASE", ToJson([steps |-> hist])>>)
=============================================================================
