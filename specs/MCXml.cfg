SPECIFICATION Spec
CONSTANTS
  DSNames = {"empty", "tiny", "tiny2", "basic", "wrap", "long", "kids", "role250", "meta", "hist", "delta"}
  MaxSec = 3
  KidsModel = "format"
  KidOrders = {"refs_first", "tags_first", "interleave"}
  Full = FALSE
  ExportHist = FALSE
INVARIANTS DecodedOK
CHECK_DEADLOCK FALSE
