SPECIFICATION InitOnly
CONSTANTS
  Configs <- RealXmlQConfigs
  Ns = {1, 2, 3}
  NestSets <- NestLive
  Bounds <- BoundsLive
  Pools = {FALSE, TRUE}
  Fds = {FALSE}
  ScriptLen = 0
  LongScripts = FALSE
  FdStop = TRUE
  SkipAll = FALSE
INVARIANT ExportCfg
CHECK_DEADLOCK FALSE
