SPECIFICATION Spec
CONSTANTS
  Contents <- ContentsAll
  MemVariants <- MemAll
  RtOptions <- RtAll
  ExportHist = TRUE
INVARIANTS LayoutIndependent FeedSeesContent HasBlindSpots FullRoundTrip Export
