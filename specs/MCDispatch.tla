----------------------------- MODULE MCDispatch -----------------------------
(* Constants of the C20 dispatch configurations.  The handler lists below are exactly the template
   combinations instantiated by harness/dispatch_replay.cpp (tables SINGLES / PAIRS / MULTI there). *)
EXTENDS Dispatch
T(t) == [t |-> t, rm |-> FALSE]
R(t) == [t |-> t, rm |-> TRUE]
AlphaAll == {T(t) : t \in AllTypes}
AlphaRm == AlphaAll \cup {R("node"), R("way"), R("changeset"), R("tag_list")}
AlphaSmall == {T("node"), T("relation"), T("area"), T("changeset"), T("tag_list"), T("undefined"), R("way")}
AlphaFile == {T("node"), T("way"), T("relation"), T("changeset")}

Singles == {<<k>> : k \in AllKinds}
PairKinds == {"SB", "SN", "DY", "LNc", "LO", "CH"}
Pairs == {<<a, b>> : a \in PairKinds, b \in PairKinds}
Multi == {<<"SC", "SC", "SC">>, <<"SB", "DY", "LO">>, <<"LNc", "CH", "SC">>, <<"DF", "LA", "SN">>, <<"LM", "FO", "LE">>,
          <<"SC", "SB", "SC", "SB">>, <<"SB", "LWn", "DF", "CH">>, <<"LA", "FO", "LM", "LO">>, <<"DY", "DY", "LNc", "SN">>}
ContAll == {"buf", "cbuf", "item", "citem", "obj", "cobj", "in_item", "in_ent", "in_cobj"}
ContPairs == {"buf", "item", "citem", "in_item"}
ContMulti == {"cbuf", "item", "citem"}
ContReader == {"reader"}
ContInput == {"in_item", "in_ent", "in_cobj"}
ChunkLists == {<<"SB">>, <<"LO">>}
=============================================================================
