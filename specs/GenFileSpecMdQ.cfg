SPECIFICATION Spec
CONSTANTS
  Strings <- StringsAll
  OpsFrom <- StringsFew
  Others <- OthersFew
  MaxOps = 2
  ExportHist = TRUE
INVARIANTS TypeOK Refines TextLaw ParseFn Bounded Export
