SPECIFICATION Spec
CONSTANTS
  Ctors <- BothCtors
  NameTokens <- TokQ
  MaxName = 4
  FixedNames <- NamesForSet
  FmtTokens <- FTokQ
  MaxFmt <- NoFmt
  Heads <- HeadsForSet
  OptParts <- OptsFew
  MaxOpts = 1
  AllowNoFs = TRUE
  Setters <- SettersAll
  MaxSetters = 1
  ExportHist = TRUE
INVARIANTS TypeOK Agrees CheckAgrees Bounded Consumed Export
