SPECIFICATION Spec
CONSTANTS
  Caps = {64, 72, 88, 104, 128}
  Modes = {"yes", "internal"}
  Kinds = {"area"}
  ULens = {0, 6}
  TagLens <- TagLens1
  RoleLens = {0}
  Pres = {0, 1}
  Wraps = {FALSE}
  CbMaxs = {0}
  MaxObjects = 1
  MaxElems = 1
  MaxSubs = 3
  MaxSteps = 13
  Ops <- AreaOps
  Script <- NoScript
  ExportHist = FALSE
INVARIANT Inv
PROPERTY CommittedStable
CHECK_DEADLOCK FALSE
