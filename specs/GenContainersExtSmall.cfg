SPECIFICATION Spec
CONSTANTS
  Ids = {0, 1, 2, 3, 5, 9}
  MaxSteps = 14
  ExportHist = TRUE
INVARIANTS Refines Export
CHECK_DEADLOCK FALSE
