\* C20 ext (specs/TagRules.tla), quick+thorough: design check and export; TagsFilter over TagMatchers with equal / always_true / always_false matchers, made from const char*, std::string, bool and the matcher classes, with and without value matcher and invert: rule lists of length <= 3 x every single tag of 10, <= 2 rules x <= 2 tags of 4, <= 1 rule x tag lists of length <= 3 over 6 tags.  Deadlock checking stays on: every behaviour must reach phase "done".
SPECIFICATION Spec
CONSTANTS
  Fams <- OnlyTF
  Alpha <- AlphaEq
  Shapes <- ShapeCross
INVARIANTS TypeOK RefinesRules RefinesIter RefinesRest Export
