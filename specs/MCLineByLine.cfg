SPECIFICATION Spec
CONSTANTS
  Alphabet = {"n", "r", "x", "b"}
  L = 6
  RestSkipsNul = TRUE
  MaxCuts = 99
  FixedSizes = {}
  ExportHist = FALSE
INVARIANTS WindowInv ResultInv
