SPECIFICATION Spec
CONSTANTS
  CB = 1
  TBits = 6
  Ids = {0, 8, 16, 63}
  MaxSteps = 5
  ExportHist = FALSE
INVARIANT Refines
PROPERTY MemMonotone
CHECK_DEADLOCK FALSE
