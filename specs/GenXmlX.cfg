SPECIFICATION Spec
CONSTANTS
  DSNames = {"basic", "kids", "wrap"}
  MaxSec = 4
  KidsModel = "format"
  KidOrders = {"interleave"}
  Full = TRUE
  ExportHist = TRUE
INVARIANTS DecodedOK Export
CHECK_DEADLOCK FALSE
