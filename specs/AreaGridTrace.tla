---------------------------- MODULE AreaGridTrace ----------------------------
(* C10, code -> spec: the oracle stays in TLA+.

   IOEnv.TRACE names an NDJSON file.  Every line is one observation (a ring set and the runs that produced it) of the real osmium::area::Assembler
   (harness/area_replay.cpp) on one case exported from AreaGrid.tla:

     {"id":.., "grp":n, "G":g, "ways":[[[x,y],..],..], "roles":[..],
      "exp":{"valid":..,"empty":..,"ncross":..,"nodd":..,"ntouch":..,"region":[..]},      (as exported by TLC)
      "rings":[{"pts":[[x,y],..],"inn":[[[x,y],..],..]},..],                       (the rings that were observed)
      "runs":[{"entry":"rel"|"way","mgr":b,"pr":b,"ne":b,"ret":b,"area":b,"st":{..},"rep":{..}},..]}   (by which runs)
     (tiled cases additionally carry "tile":{"n":N,"dx":DX}, see JudgeTiled)

   TLC evaluates AreaGrid!Judge on every line: verdict, validity of every ring, orientation, nesting, region of the
   multipolygon = even-odd fill of the input, problem counts.  Consecutive lines with the same "grp" are cases over
   the same segment set (other member order, way directions, cutting into ways, roles): their ring sets must be
   identical ("invariance").  The names of the violated requirements are printed per line as
   <<"CASE", "{\"i\":..,\"id\":..,\"fails\":[..]}">> and collected by checks/C10.py; an empty list = accepted.

   The spec is a counter over the lines in two levels (block, then line) only so that TLC's workers share the lines;
   the variables of the case builder of AreaGrid are carried along unchanged. *)
EXTENDS AreaGrid, IOUtils

Log == ndJsonDeserialize(IOEnv.TRACE)
N == Len(Log)
TraceG == Log[1].G

VARIABLES phase, idx
tvars == <<vars, phase, idx>>

SeqSet(s) == {s[k] : k \in 1..Len(s)}
ExpOf(r) == [valid |-> r.exp.valid, empty |-> r.exp.empty, ncross |-> r.exp.ncross, nodd |-> r.exp.nodd,
             ntouch |-> r.exp.ntouch, region |-> SeqSet(r.exp.region)]

(* ---- one line *)
Verdict(i) ==
  LET r == Log[i]
      base == Judge(r.ways, r.roles, ExpOf(r), r.rings, r.runs, AllSamples)
      inv == IF /\ i > 1 /\ Log[i - 1].grp = r.grp /\ r.exp.valid /\ r.rings # <<>> /\ Log[i - 1].rings # <<>>
                /\ Canon(r.rings) # Canon(Log[i - 1].rings)
             THEN {"invariance"} ELSE {}
  IN base \cup inv

NBlocks == IF N < 24 THEN N ELSE 24
TraceInit == Init /\ phase = 0 /\ idx = 0
TraceNext == /\ UNCHANGED vars
             /\ \/ phase = 0 /\ phase' = 1 /\ idx' \in 1..NBlocks
                \/ phase = 1 /\ phase' = 2 /\ idx' \in {i \in 1..N : i % NBlocks = idx % NBlocks}
TraceSpec == TraceInit /\ [][TraceNext]_tvars

Emit == phase = 2 => PrintT(<<"CASE", ToJson([i |-> idx, id |-> Log[idx].id, fails |-> Verdict(idx)])>>)
=============================================================================
