---------------------------- MODULE AreaGridTrace ----------------------------
(* C10, code -> spec: the oracle stays in TLA+.

   IOEnv.TRACE names an NDJSON file.  Every line is one observation (a ring set and the runs that produced it) of the real osmium::area::Assembler
   (harness/area_replay.cpp) on one case exported from AreaGrid.tla:

     {"id":.., "grp":n, "G":g, "ways":[[[x,y],..],..], "roles":[..],
      "exp":{"valid":..,"empty":..,"ncross":..,"nodd":..,"ntouch":..,"region":[..]},      (as exported by TLC)
      "rings":[{"pts":[[x,y],..],"inn":[[[x,y],..],..]},..],                       (the rings that were observed)
      "runs":[{"entry":"rel"|"way","mgr":b,"pr":b,"ne":b,"ret":b,"area":b,"st":{..},"rep":{..}},..]}   (by which runs)
     (tiled cases additionally carry "tile":{"n":N,"dx":G,"ntouch":T}, see JudgeTiled)

   TLC evaluates AreaGrid!Judge on every line: verdict, validity of every ring, orientation, nesting, region of the
   multipolygon = even-odd fill of the input, problem counts.  Consecutive lines with the same "grp" are cases over
   the same segment set (other member order, way directions, cutting into ways, roles): their ring sets must be
   identical ("invariance").  The names of the violated requirements are printed per line as
   <<"CASE", "{\"i\":..,\"id\":..,\"fails\":[..]}">> and collected by checks/C10.py; an empty list = accepted.

   The spec is a counter over the lines (parallelism comes from running several TLC processes on separate files);
   the variables of the case builder of AreaGrid are carried along unchanged. *)
EXTENDS AreaGrid, IOUtils

Log == ndJsonDeserialize(IOEnv.TRACE)
N == Len(Log)
TraceG == Log[1].G

VARIABLE i
tvars == <<vars, i>>

SeqSet(s) == {s[k] : k \in 1..Len(s)}
ExpOf(r) == [valid |-> r.exp.valid, empty |-> r.exp.empty, ncross |-> r.exp.ncross, nodd |-> r.exp.nodd,
             ntouch |-> r.exp.ntouch, region |-> SeqSet(r.exp.region)]

(* ---- tiled cases ("tile":{"n":N,"dx":G,"ntouch":T}): N copies of the motif given by "ways", copy k shifted by k*G
   in x (AreaGrid!TileOK, TileTheorem).  The chain is a valid arrangement with T touching points, so it must be
   assembled; every ring segment lies in exactly one copy, the ring segments in copy k are the motif's segments
   shifted, and the region of the multipolygon on the sample columns of copy k is the motif's region shifted
   (vertical rays: only segments of copy k can be hit).  Closedness, length, repeated points and orientation are
   evaluated on the whole rings; conflicts only between segments of the same or of adjacent copies. *)
JudgeTiled(r) ==
  LET n == r.tile.n
      dx == r.tile.dx
      rgs == r.rings
      ex == ExpOf(r)
      motif == Segments(r.ways)
      ids == RingIds(rgs)
      rs == RingSegSeq(rgs)
      m == Len(rs)
      outers == {x \in ids : x[2] = 0}
      inners == ids \ outers
      tl(j) == rs[j].s[1][1] \div dx                         \* copy in which ring segment j lies (s[1] is its left end)
      occIn == [k \in 0..(n - 1) |-> {j \in 1..m : tl(j) = k}]
      segsIn(k) == {ShiftSeg(rs[j].s, -(k * dx)) : j \in occIn[k]}
      ringsIn(k) == {rs[j].r : j \in occIn[k]}
      fillIn(k, x) == {I \in SampleIdx(k * dx, (k + 1) * dx) :
                          Cardinality({j \in occIn[k] : rs[j].r = x /\ HitsY(rs[j].s, SP(I))}) % 2 = 1}
      mpIn(k) == UNION {fillIn(k, o) \ UNION {fillIn(k, x) : x \in {y \in inners : y[1] = o[1]}} : o \in outers \cap ringsIn(k)}
      regionShift(k) == {<<I[1] - 2 * k * dx, I[2]>> : I \in mpIn(k)}
      runFails(run) == {f \in {"not_assembled", "count_touch", "count_problems"} :
                          CASE f = "not_assembled" -> ~(run.ret /\ run.area)
                            [] f = "count_touch" -> run.st.touching_rings # r.tile.ntouch \/ (run.pr /\ run.rep.touching_ring # r.tile.ntouch)
                            [] f = "count_problems" -> run.st.intersections # 0 \/ run.st.open_rings # 0}
  IN IF rgs = <<>> THEN {"not_assembled"}
     ELSE {f \in {"closed", "short", "duppoint", "ringcross", "orient", "inside", "region", "segset"} :
            CASE f = "closed" -> \E x \in ids : LET p == RingPts(rgs, x) IN Len(p) < 1 \/ p[1] # p[Len(p)]
              [] f = "short" -> \E x \in ids : Len(RingPts(rgs, x)) < 4
              [] f = "duppoint" -> \E x \in ids : LET p == RingPts(rgs, x) IN \E k \in 1..(Len(p) - 1) : p[k] = p[k + 1]
              [] f = "ringcross" -> \E k \in 0..(n - 1) : \E j1 \in occIn[k] :
                                      \E j2 \in occIn[k] \cup (IF k + 1 < n THEN occIn[k + 1] ELSE {}) :
                                        j1 # j2 /\ Conflict(rs[j1].s, rs[j2].s)
              [] f = "orient" -> \E x \in ids : IF x[2] = 0 THEN Area2(RingPts(rgs, x)) <= 0 ELSE Area2(RingPts(rgs, x)) >= 0
              [] f = "inside" -> \E k \in 0..(n - 1) : \E x \in inners \cap ringsIn(k) : ~(fillIn(k, x) \subseteq fillIn(k, <<x[1], 0>>))
              [] f = "region" -> \E k \in 0..(n - 1) : {IdxNum(I) : I \in regionShift(k)} # ex.region
              [] f = "segset" -> \/ \E j \in 1..m : tl(j) < 0 \/ tl(j) >= n
                                 \/ \E k \in 0..(n - 1) : segsIn(k) # motif}
          \cup UNION {runFails(r.runs[k]) : k \in 1..Len(r.runs)}

(* ---- one line *)
Verdict(n) ==
  LET r == Log[n]
      base == IF "tile" \in DOMAIN r THEN JudgeTiled(r) ELSE Judge(r.ways, r.roles, ExpOf(r), r.rings, r.runs, AllSamples)
      inv == IF /\ n > 1 /\ "tile" \notin DOMAIN r /\ Log[n - 1].grp = r.grp /\ r.exp.valid /\ r.rings # <<>> /\ Log[n - 1].rings # <<>>
                /\ Canon(r.rings) # Canon(Log[n - 1].rings)
             THEN {"invariance"} ELSE {}
  IN base \cup inv

TraceInit == Init /\ i = 1
TraceNext == i < N /\ i' = i + 1 /\ UNCHANGED vars
TraceSpec == TraceInit /\ [][TraceNext]_tvars

Emit == PrintT(<<"CASE", ToJson([i |-> i, id |-> Log[i].id, fails |-> Verdict(i)])>>)
=============================================================================
