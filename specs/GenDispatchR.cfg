\* C20, quick+thorough: design check and export; real osmium::io::Reader.  Deadlock checking stays on: every behaviour must reach phase "done".
SPECIFICATION Spec
CONSTANTS
  Alphabet <- AlphaFile
  MaxLen = 3
  HandlerLists <- Singles
  Containers <- ContReader
  MaxChunks = 1
INVARIANTS TypeOK Refines NoThrow Export
