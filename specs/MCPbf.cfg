SPECIFICATION Spec
CONSTANTS
  DSNames = {"empty", "tiny", "tiny2", "basic", "wrap", "long", "role250", "meta", "hist", "delta"}
  Grans = {100, 1000, 1}
  Offs = {0, 300}
  DGrans = {1000, 1, 60000}
  Sizes = {"normal"}
  Full = FALSE
  ExportHist = FALSE
INVARIANTS DecodedOK
CHECK_DEADLOCK FALSE
