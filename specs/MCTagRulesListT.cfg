\* C20 ext (specs/TagRules.tla), thorough: design check only; TagsFilter, the larger alphabet of: list matchers (from a vector, filled with add_string, empty list, list holding the empty string); rule lists <= 3 x every single tag of all 49, and the shapes of the export configuration.  Deadlock checking stays on: every behaviour must reach phase "done".
SPECIFICATION Spec
CONSTANTS
  Fams <- OnlyTF
  Alpha <- AlphaList5
  Shapes <- ShapeCrossT
INVARIANTS TypeOK RefinesRules RefinesIter RefinesRest
