------------------------- MODULE ContainersExtStash -------------------------
(* C15 extension (5/5).  osmium::ItemStash with the REAL should_gc() thresholds, buffer growth, clear() and
   used_memory().

   ItemStash.tla checks single items with the automatic collection threshold lowered by a hook.  Here an entry
   of the buffer is a BLOCK of k consecutive add_item() calls (k = 1: one item of `size` units; k = 1000 or 999:
   k small items that together fill exactly one unit), so that histories with more than 10000 removed items -
   the real threshold [check 1] of should_gc() - stay short.  Counters (nitems, nremoved, nh) count REAL items.
   One unit = 64 KiB; the initial buffer has 16 units; "less than 10 KiB free" [check 4] is "no unit free" at the
   start of a block.  Inside a block of small items the free space falls below 10 KiB after JStar items when
   exactly one unit was free at its start, and should_gc() is evaluated before every single item, so a
   collection can start in the middle of a block: [check 3] is then evaluated with nitems + JStar.  A collection in
   the middle of a block leaves the same buffer as one before it (the items already added slide down with the
   rest), so the block stays one entry.  [check 2] (more than 5 000 000 removed) is out of reach and not modelled.

   A-layer: partial map handle -> content (M: first handle of a live block -> [k, size]).
   I-layer: buffer entries with removed flags, m_index as one entry per block (offset in units or REMOVED) in
   handle order, the counters, the capacity with Buffer::reserve_space's doubling, garbage_collect() =
   Buffer::purge_removed with cleanup_helper's cursor walk.  clear() empties buffer and index (handles start
   again at 1, the capacity stays).
   FillFirst / RemovableTo only restrict which behaviours a generator configuration explores (fill the buffer to
   64 units first, then remove among the first blocks): that is where [check 3], the ratio of removed to live
   items, decides alone whether the next add_item() collects or doubles the buffer. *)
EXTENDS Integers, Sequences, FiniteSets, TLC, Json
CONSTANTS Cap0, Kinds,     \* Kinds: set of [k |-> items in the block, size |-> units of the whole block]
          GCMin,           \* [check 1]: 10000 in the code
          JStar,           \* items of a small-item block after which less than 10 KiB of one unit are left (865)
          MaxBlocks, MaxSteps, MaxClears, MaxGCs,
          FillFirst,       \* scenario restriction: nothing but add_item() until this many blocks were added (0: none)
          RemovableTo,     \* scenario restriction: only the first RemovableTo blocks are ever removed (0: all)
          ExportHist
REMOVED == -1
(* values for Kinds (cfg files cannot spell records): scaled for the exhaustive check / real geometry *)
KindsMC == {[k |-> 1, size |-> 1], [k |-> 1, size |-> 3], [k |-> 3, size |-> 1]}
KindsReal == {[k |-> 1, size |-> 1], [k |-> 1, size |-> 5], [k |-> 1000, size |-> 1], [k |-> 999, size |-> 1]}
KindsBlocks == {[k |-> 1, size |-> 1], [k |-> 1000, size |-> 1], [k |-> 999, size |-> 1]}
KindsK1000 == {[k |-> 1000, size |-> 1]}

VARIABLES buf,      \* sequence of [h, k, size, removed]
          cap, index,       \* index: sequence of [h, k, off]
          nitems, nremoved,
          M, gcs, clears, xgcs, steps, hist
vars == <<buf, cap, index, nitems, nremoved, M, gcs, clears, xgcs, steps, hist>>

RECURSIVE Sum(_)
Sum(s) == IF s = <<>> THEN 0 ELSE Head(s).size + Sum(Tail(s))
Committed == Sum(buf)
RECURSIVE GrowTo(_, _)
GrowTo(c, need) == IF need <= c THEN c ELSE GrowTo(c * 2, need)
NH == IF index = <<>> THEN 0 ELSE index[Len(index)].h + index[Len(index)].k - 1      \* m_index.size()

Free == cap - Committed
ShouldGC(k) == /\ nremoved >= GCMin
               /\ \/ Free < 1 /\ nremoved * 5 >= nitems
                  \/ Free = 1 /\ k > JStar /\ nremoved * 5 >= nitems + JStar

RECURSIVE Purge(_, _, _, _, _, _)
Purge(items, rd, wr, kept, idx, pos) ==
    IF items = <<>> THEN [buf |-> kept, index |-> idx]
    ELSE LET it == Head(items) IN
         IF it.removed THEN Purge(Tail(items), rd + it.size, wr, kept, idx, pos)
         ELSE IF rd = wr THEN Purge(Tail(items), rd + it.size, wr + it.size, Append(kept, it), idx, pos)
         ELSE LET p == CHOOSE j \in pos..Len(idx) : idx[j].off = rd /\ \A i \in pos..(j - 1) : idx[i].off # rd
              IN Purge(Tail(items), rd + it.size, wr + it.size, Append(kept, it), [idx EXCEPT ![p].off = wr], p + 1)
GC == Purge(buf, 0, 0, <<>>, index, 1)

NoMap == [h \in {} |-> 0]
Init == buf = <<>> /\ cap = Cap0 /\ index = <<>> /\ nitems = 0 /\ nremoved = 0 /\ M = NoMap
        /\ gcs = 0 /\ clears = 0 /\ xgcs = 0 /\ steps = 0 /\ hist = <<>>
Live == DOMAIN M
Rec(a, x, auto) == /\ steps' = steps + 1
             /\ hist' = IF ExportHist
                        THEN Append(hist, [a |-> a, x |-> x, auto |-> auto, size |-> nitems', removed |-> nremoved', cap |-> cap', gcs |-> gcs',
                                           nh |-> IF index' = <<>> THEN 0 ELSE index'[Len(index')].h + index'[Len(index')].k - 1,
                                           live |-> [i \in 1..Len(index') |->
                                                       [h |-> index'[i].h, k |-> index'[i].k,
                                                        size |-> IF index'[i].h \in DOMAIN M' THEN M'[index'[i].h].size ELSE 0]]])
                        ELSE hist
Go == steps < MaxSteps

AddItem(kd) ==
    /\ Go /\ Len(index) < MaxBlocks
    /\ LET g == ShouldGC(kd.k)
           b1 == IF g THEN GC.buf ELSE buf
           i1 == IF g THEN GC.index ELSE index
           h == NH + 1
       IN /\ buf' = Append(b1, [h |-> h, k |-> kd.k, size |-> kd.size, removed |-> FALSE])
          /\ index' = Append(i1, [h |-> h, k |-> kd.k, off |-> Sum(b1)])
          /\ cap' = GrowTo(cap, Sum(b1) + kd.size)
          /\ nremoved' = IF g THEN 0 ELSE nremoved
          /\ gcs' = IF g THEN gcs + 1 ELSE gcs
          /\ M' = M @@ (h :> kd)
    /\ nitems' = nitems + kd.k
    /\ UNCHANGED <<clears, xgcs>>
    /\ Rec("add_item", kd, IF ~ShouldGC(kd.k) THEN "no" ELSE IF Free < 1 THEN "full" ELSE "mid")

RemoveItem(i) ==          \* all items of the i-th block, one remove_item() each
    /\ Go /\ i <= Len(index) /\ index[i].h \in Live
    /\ Len(index) >= FillFirst /\ (RemovableTo = 0 \/ i <= RemovableTo)
    /\ UNCHANGED <<cap, gcs, clears, xgcs>>
    /\ LET h == index[i].h IN
       /\ buf' = [j \in 1..Len(buf) |-> IF buf[j].h = h /\ ~buf[j].removed THEN [buf[j] EXCEPT !.removed = TRUE] ELSE buf[j]]
       /\ index' = [index EXCEPT ![i].off = REMOVED]
       /\ nitems' = nitems - M[h].k /\ nremoved' = nremoved + M[h].k
       /\ M' = [j \in Live \ {h} |-> M[j]]
       /\ Rec("remove_item", h, "no")

GarbageCollect ==
    /\ Go /\ nremoved > 0 /\ xgcs < MaxGCs /\ Len(index) >= FillFirst
    /\ buf' = GC.buf /\ index' = GC.index /\ nremoved' = 0 /\ gcs' = gcs + 1 /\ xgcs' = xgcs + 1
    /\ UNCHANGED <<cap, nitems, M, clears>>
    /\ Rec("garbage_collect", 0, "no")

Clear ==
    /\ Go /\ index # <<>> /\ clears < MaxClears /\ Len(index) >= FillFirst
    /\ buf' = <<>> /\ index' = <<>> /\ nitems' = 0 /\ nremoved' = 0 /\ M' = NoMap /\ clears' = clears + 1
    /\ UNCHANGED <<cap, gcs, xgcs>>
    /\ Rec("clear", 0, "no")

(* the three ways an add_item() block can go, as separate actions so that coverage names them *)
AddPlain(kd) == ~ShouldGC(kd.k) /\ AddItem(kd)
AddAfterGC(kd) == ShouldGC(kd.k) /\ Free < 1 /\ AddItem(kd)      \* collection before the first item of the block
AddMidGC(kd) == ShouldGC(kd.k) /\ Free = 1 /\ AddItem(kd)        \* collection after JStar items of the block

Next == \/ \E kd \in Kinds : AddPlain(kd) \/ AddAfterGC(kd) \/ AddMidGC(kd)
        \/ \E i \in 1..MaxBlocks : RemoveItem(i)
        \/ GarbageCollect \/ Clear
Spec == Init /\ [][Next]_vars

RECURSIVE OffsetOf(_, _, _)
OffsetOf(items, h, off) == IF items = <<>> THEN -2
                           ELSE IF Head(items).h = h /\ ~Head(items).removed THEN off
                           ELSE OffsetOf(Tail(items), h, off + Head(items).size)
IndexOf(h) == CHOOSE i \in 1..Len(index) : index[i].h = h
RECURSIVE SumK(_)
SumK(s) == IF s = <<>> THEN 0 ELSE Head(s).k + SumK(Tail(s))
Refines == /\ nitems = SumK([i \in 1..Len(SelectSeq(buf, LAMBDA b : ~b.removed)) |-> SelectSeq(buf, LAMBDA b : ~b.removed)[i]])
           /\ \A h \in Live : \E i \in 1..Len(index) : index[i].h = h
           /\ \A h \in Live : index[IndexOf(h)].off = OffsetOf(buf, h, 0)          \* every live handle resolves to its own block
           /\ \A h \in Live : \E i \in 1..Len(buf) : buf[i].h = h /\ buf[i].k = M[h].k /\ buf[i].size = M[h].size /\ ~buf[i].removed
           /\ \A i \in 1..Len(index) : index[i].h \notin Live => index[i].off = REMOVED
           /\ \A i \in 1..Len(index) - 1 : index[i + 1].h = index[i].h + index[i].k   \* handles are dense and ascending
           /\ nremoved = SumK([i \in 1..Len(SelectSeq(buf, LAMBDA b : b.removed)) |-> SelectSeq(buf, LAMBDA b : b.removed)[i]])
           /\ Committed <= cap
(* a collection reclaims the space of every removed item; the buffer only grows when the live items need it *)
Reclaimed == [][gcs' > gcs => \A i \in 1..Len(buf') : ~buf'[i].removed]_vars
NoNeedlessGrowth == [][cap' > cap => Sum(buf') > cap]_vars
CapNeverShrinks == [][cap' >= cap]_vars

ProbeAutoGC == \A kd \in Kinds : ~ShouldGC(kd.k)
ProbeMidGC == \A kd \in Kinds : ~(ShouldGC(kd.k) /\ Free = 1)
Export == steps = MaxSteps => PrintT(<<"CASE", ToJson([gcmin |-> GCMin, cap0 |-> Cap0, steps |-> hist])>>)
=============================================================================
