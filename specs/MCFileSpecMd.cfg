SPECIFICATION Spec
CONSTANTS
  Strings <- StringsAll
  OpsFrom <- StringsEvery
  Others <- OthersAll
  MaxOps = 2
  ExportHist = FALSE
INVARIANTS TypeOK Refines TextLaw ParseFn Bounded
