--------------------------- MODULE NumTextCoordA ---------------------------
(* C13, A-layer of the coordinate conversions: what a decimal coordinate string MEANS.

   Accepted grammar (libosmium's documented scanner bounds are part of it):
       -? ( D{1,10} ( . D{0,27} )? | . D{1,27} ) ( [eE] -? D{1,5} )?
   A string whose maximal digit run is longer than the bound (11 integer digits, 28 fraction digits,
   6 exponent digits), or that has 'e' without a digit, is rejected as a whole (no back-tracking).
   The value is  I.F * 10^X  rounded half away from zero to 7 decimal places, as an integer number
   of 10^-7 units; it is rejected if that integer is outside int32.  `rest` is the index of the first
   character behind the number (the partial variants return it, set_lon/set_lat demand END there).

   Everything is positional arithmetic on digit sequences: no accumulation, no scaling loops -
   deliberately a different algorithm than the scanner of the I-layer (NumTextCoord.tla). *)
EXTENDS NumDigits

RejectC == [ok |-> FALSE, neg |-> FALSE, mag |-> <<>>, rest |-> 0]

(* D: all mantissa digits; p: how many of them stand before the rounding position (may be <= 0 or
   > Len(D)).  Result: the rounded magnitude n, or big when it has more than 10 digits. *)
RoundAt(D, p) ==
    LET S  == Strip(D)
        q  == p - (Len(D) - Len(S))            \* digits of S before the rounding position
    IN  IF S = <<>> \/ q < 0 THEN [big |-> FALSE, n |-> <<>>]
        ELSE IF q > 10 THEN [big |-> TRUE, n |-> <<>>]
        ELSE LET head == [k \in 1..q |-> IF k <= Len(S) THEN S[k] ELSE 0]
                 up   == q + 1 <= Len(S) /\ S[q + 1] >= 5
             IN  [big |-> FALSE, n |-> Strip(IF up THEN AddSmall(head, 1) ELSE head)]

CoordValue(s) ==
    LET neg  == At(s, 1) = "-"
        i1   == IF neg THEN 2 ELSE 1
        nI   == Run(s, i1)
        pt   == At(s, i1 + nI) = "."
        nF   == IF pt THEN Run(s, i1 + nI + 1) ELSE 0
        i2   == i1 + nI + (IF pt THEN 1 + nF ELSE 0)
        ex   == At(s, i2) \in {"e", "E"}
        eneg == ex /\ At(s, i2 + 1) = "-"
        i3   == i2 + 1 + (IF eneg THEN 1 ELSE 0)
        nX   == IF ex THEN Run(s, i3) ELSE 0
        rest == IF ex THEN i3 + nX ELSE i2
        wellformed == /\ (nI >= 1 \/ (pt /\ nF >= 1))
                      /\ nI <= 10 /\ nF <= 27
                      /\ (ex => (nX >= 1 /\ nX <= 5))
    IN  IF ~wellformed THEN RejectC
        ELSE LET X == IF ex THEN DigitsNat(Digits(s, i3, nX)) * (IF eneg THEN -1 ELSE 1) ELSE 0
                 D == Digits(s, i1, nI) \o (IF pt THEN Digits(s, i1 + nI + 1, nF) ELSE <<>>)
                 R == RoundAt(D, nI + X + 7)
                 N == R.n
             IN  IF R.big THEN RejectC
                 ELSE IF (IF neg THEN Less(I32MINABS, N) ELSE Less(I32MAX, N)) THEN RejectC
                 ELSE [ok |-> TRUE, neg |-> neg /\ N # <<>>, mag |-> N, rest |-> rest]

(* set_lon / set_lat: the whole string must be the number *)
CoordFull(s) == LET r == CoordValue(s) IN IF r.ok /\ r.rest = Len(s) + 1 THEN r ELSE RejectC

(* FormatCoord: shortest fixed notation with at most 7 decimals; mag is a stripped digit sequence of
   the absolute value (<= 2147483648) *)
RECURSIVE DropTrailingZeros(_)
DropTrailingZeros(d) == IF d # <<>> /\ d[Len(d)] = 0 THEN DropTrailingZeros(SubSeq(d, 1, Len(d) - 1)) ELSE d
FormatCoord(neg, mag) ==
    LET P    == IF Len(mag) < 8 THEN Rep(0, 8 - Len(mag)) \o mag ELSE mag
        ip   == SubSeq(P, 1, Len(P) - 7)
        fp   == DropTrailingZeros(SubSeq(P, Len(P) - 6, Len(P)))
    IN  (IF neg THEN <<"-">> ELSE <<>>) \o Chars(ip) \o (IF fp = <<>> THEN <<>> ELSE <<".">> \o Chars(fp))

(* Location::valid(): |x| <= 180 * 10^7, |y| <= 90 * 10^7 *)
ValidLon(mag) == Leq(mag, <<1, 8, 0, 0, 0, 0, 0, 0, 0, 0>>)
ValidLat(mag) == Leq(mag, <<9, 0, 0, 0, 0, 0, 0, 0, 0>>)
=============================================================================
