-------------------------- MODULE NumTextCoordFmt --------------------------
(* C13 (2/4).  osmium::detail::append_location_coordinate_to_string() as a state machine (digit loop into
   the temporary buffer, padding loop, the nested ifs for the integer part, trailing zero loop, copy loop)
   against the A-layer FormatCoord, plus the round-trip theorem of the property on the spec:
       CoordFull(FormatCoord(x)) = x      for every boundary / grid value x of int32
   and Location::as_string()'s validity rule.  A coordinate is [neg, mag] (mag: stripped digit sequence of
   |x|); inside the formatter the code works on int32 which fits TLC's integers (INT32_MIN is the code's
   special case and never becomes a number here). *)
EXTENDS NumTextCoordA, FiniteSets, Json
CONSTANTS Level, DoExport
VARIABLES neg, mag,                 \* the input value
          pc, value, v, temp, t, tn, outp
vars == <<neg, mag, pc, value, v, temp, t, tn, outp>>

Frac7 == {<<0, 0, 0, 0, 0, 0, 0>>, <<0, 0, 0, 0, 0, 0, 1>>, <<0, 0, 0, 0, 0, 1, 0>>, <<0, 0, 0, 0, 1, 0, 0>>, <<0, 0, 0, 1, 0, 0, 0>>,
          <<0, 0, 1, 0, 0, 0, 0>>, <<0, 1, 0, 0, 0, 0, 0>>, <<1, 0, 0, 0, 0, 0, 0>>, <<5, 0, 0, 0, 0, 0, 0>>, <<9, 9, 9, 9, 9, 9, 9>>,
          <<1, 2, 3, 4, 5, 6, 7>>, <<7, 4, 8, 3, 6, 4, 7>>, <<7, 4, 8, 3, 6, 4, 8>>, <<0, 0, 0, 0, 0, 0, 9>>, <<9, 0, 0, 0, 0, 0, 0>>,
          <<1, 2, 3, 0, 0, 0, 0>>, <<0, 9, 0, 9, 0, 9, 0>>}
IntVals == IF Level = 0 THEN {0, 1, 9, 10, 17, 89, 90, 91, 99, 100, 179, 180, 181, 213, 214} ELSE 0..214
Domain == {x \in {[neg |-> n, mag |-> Strip(NatDigits(i) \o f)] : n \in BOOLEAN, i \in IntVals, f \in Frac7} :
              /\ (IF x.neg THEN Leq(x.mag, I32MINABS) ELSE Leq(x.mag, I32MAX))
              /\ ~(x.neg /\ x.mag = <<>>)}

Init == /\ \E x \in Domain : neg = x.neg /\ mag = x.mag
        /\ pc = "start" /\ value = 0 /\ v = 0 /\ temp = <<>> /\ t = 0 /\ tn = 0 /\ outp = <<>>

IsMin == neg /\ mag = I32MINABS
Start == /\ pc = "start"
         /\ IF IsMin THEN /\ outp' = <<"-", "2", "1", "4", ".", "7", "4", "8", "3", "6", "4", "8">>
                          /\ pc' = "done" /\ UNCHANGED <<value, v>>
            ELSE /\ outp' = (IF neg THEN <<"-">> ELSE <<>>)
                 /\ value' = DigitsNat(mag) /\ v' = DigitsNat(mag) /\ pc' = "digits"
         /\ UNCHANGED <<neg, mag, temp, t, tn>>
(* do { *t++ = v % 10 + '0'; v /= 10; } while (v != 0); *)
Digit == /\ pc = "digits"
         /\ temp' = Append(temp, DC[(v % 10) + 1]) /\ t' = t + 1 /\ v' = v \div 10
         /\ pc' = (IF v \div 10 # 0 THEN "digits" ELSE "pad")
         /\ UNCHANGED <<neg, mag, value, tn, outp>>
Pad == /\ pc = "pad" /\ t < 7
       /\ temp' = Append(temp, "0") /\ t' = t + 1 /\ UNCHANGED <<neg, mag, pc, value, v, tn, outp>>
PadExit == /\ pc = "pad" /\ ~(t < 7) /\ pc' = "int" /\ UNCHANGED <<neg, mag, value, v, temp, t, tn, outp>>
(* the three nested ifs: one digit each for >= 10^9, >= 10^8, >= 10^7, or a single '0' *)
IntPart == /\ pc = "int"
           /\ LET k == (IF value >= 1000000000 THEN 1 ELSE 0) + (IF value >= 100000000 THEN 1 ELSE 0)
                       + (IF value >= 10000000 THEN 1 ELSE 0)
              IN  IF k = 0 THEN outp' = Append(outp, "0") /\ UNCHANGED t
                  ELSE outp' = outp \o [j \in 1..k |-> temp[t - j + 1]] /\ t' = t - k
           /\ pc' = "zeros" /\ tn' = 0 /\ UNCHANGED <<neg, mag, value, v, temp>>
(* while (tn < t && *tn == '0') ++tn;   (tn counts from the low end of temp) *)
Zero == /\ pc = "zeros" /\ tn < t /\ temp[tn + 1] = "0"
        /\ tn' = tn + 1 /\ UNCHANGED <<neg, mag, pc, value, v, temp, t, outp>>
ZeroExit == /\ pc = "zeros" /\ ~(tn < t /\ temp[tn + 1] = "0")
            /\ IF t # tn THEN outp' = Append(outp, ".") /\ pc' = "copy" ELSE pc' = "done" /\ UNCHANGED outp
            /\ UNCHANGED <<neg, mag, value, v, temp, t, tn>>
Copy == /\ pc = "copy" /\ t # tn
        /\ outp' = Append(outp, temp[t]) /\ t' = t - 1 /\ UNCHANGED <<neg, mag, pc, value, v, temp, tn>>
CopyExit == /\ pc = "copy" /\ t = tn /\ pc' = "done" /\ UNCHANGED <<neg, mag, value, v, temp, t, tn, outp>>

Next == Start \/ Digit \/ Pad \/ PadExit \/ IntPart \/ Zero \/ ZeroExit \/ Copy \/ CopyExit
Spec == Init /\ [][Next]_vars

BufferOK == Len(temp) <= 10 /\ t <= Len(temp) /\ tn <= t          \* char temp[10] is never overrun
IimpliesA == pc = "done" => outp = FormatCoord(neg, mag)
RoundTrip == pc = "done" => CoordFull(outp) = [ok |-> TRUE, neg |-> neg, mag |-> mag, rest |-> Len(outp) + 1]
Export == (DoExport /\ pc = "done") =>
            PrintT(<<"CASE", ToJson([neg |-> neg, mag |-> mag, str |-> outp, vlon |-> ValidLon(mag), vlat |-> ValidLat(mag)])>>)
=============================================================================
