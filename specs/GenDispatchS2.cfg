\* C20, quick+thorough: design check and export; singles x all containers x sequences <= 2.  Deadlock checking stays on: every behaviour must reach phase "done".
SPECIFICATION Spec
CONSTANTS
  Alphabet <- AlphaSmall
  MaxLen = 2
  HandlerLists <- Singles
  Containers <- ContAll
  MaxChunks = 1
INVARIANTS TypeOK Refines NoThrow Export
