SPECIFICATION Spec
CONSTANTS
  G = 3
  Sizes = {0, 2, 3, 4, 8}
  Slots = {0, 1, 2, 3, 4, 7}
  Backings = {"anon", "tmpfile", "fd"}
  F0s = {0, 2, 4, 6, 99}
  OddFile = 99
  MaxOps = 7
  MaxPush = 4
  ExportHist = FALSE
INVARIANTS Refines NoGarbage CapOK FileCovers
CHECK_DEADLOCK FALSE
