SPECIFICATION Spec
CONSTANTS
  Mode = "parse"
  Level = 0
  DoExport = TRUE
INVARIANTS ParseIimpliesA NoOverread Export
CHECK_DEADLOCK FALSE
