SPECIFICATION Spec
CONSTANTS
  W = 2
  Ids = {0, 1, 3, 4, 5, 7}
  MIds = {3, 4}
  ProbeIds = {2, 6}
  MaxOps = 2
  ExportHist = TRUE
INVARIANTS Refines Export
CHECK_DEADLOCK FALSE
