SPECIFICATION Spec
CONSTANTS
  Threads <- TThreads
  Kind <- TKind
  Script <- TScript
  Max = 2
  Throwing <- NoThrow
INVARIANTS TypeOK FifoWhileInUse OrderAlways Accounted PerConsumerOrder Bound BoundSingle RunAtMostOnce PoolJoined DeadlockFree
CHECK_DEADLOCK FALSE
