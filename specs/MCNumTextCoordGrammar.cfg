SPECIFICATION Spec
CONSTANTS
  Alphabet = {}
  MaxLen = 0
  TailMax = 0
  Mode = "grammar"
  Level = 0
  Guard = TRUE
  Pull = TRUE
  DoExport = TRUE
INVARIANTS IimpliesA NoOverflow NoOverread FullOK Export
CHECK_DEADLOCK FALSE
