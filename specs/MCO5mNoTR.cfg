SPECIFICATION Spec
CONSTANTS
  N = 3
  DSNames = {"empty", "tiny", "tiny2", "basic", "wrap", "long", "kids", "meta", "hist", "delta"}
  MaxExtra = 2
  SkipSet = {"sync", "jump", "unknown", "unknown0", "unknownL", "byte"}
  HdrSet = {"bbox", "filets"}
  RefPolicy = "any"
  MaskSet = {{"n", "w", "r"}, {"n"}, {"w"}, {"r"}, {"n", "w"}, {"n", "r"}, {"w", "r"}}
  TypeResets = FALSE
  SkipUndecoded = FALSE
  FillOnly = FALSE
  BulkN = 5
  RoleLimit = 250
  ExportHist = FALSE
INVARIANTS TypeOK TableAgree RegsAgree DecodedOK
CHECK_DEADLOCK FALSE
