SPECIFICATION Spec
CONSTANTS
  Caps <- CapsAll
  Modes = {"yes"}
  Kinds = {"node", "area"}
  ULens = {0, 6, 60}
  TagLens <- TagLens2
  RoleLens = {0}
  Pres = {0, 1}
  Wraps = {TRUE}
  CbMaxs = {0, 48, 96, 100, 104, 200, 256}
  MaxObjects = 8
  MaxElems = 2
  MaxSubs = 3
  MaxSteps = 30
  Ops <- CbAllOps
  Script <- NoScript
  ExportHist = TRUE
INVARIANT Export
INVARIANT Inv
INVARIANT CbConservation
INVARIANT CbBounded
CHECK_DEADLOCK FALSE
