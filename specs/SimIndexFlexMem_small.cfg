SPECIFICATION Spec
CONSTANTS
  Cand = {0, 1, 2, 3, 4, 5, 7, 8, 65535, 65536, 65537, 1073741825}
  Probes = {0, 1, 2, 3, 4, 5, 6, 7, 8, 9, 10, 65534, 65535, 65536, 65537, 65538, 131072, 1073741824, 1073741825, 1073741826, 1073741827}
  MaxSets = 7
  MaxSorts = 2
  MaxDumps = 1
  ArrayLimit = 4194304
  ExportHist = TRUE
  B = 65536
  MinDense = 3
  Factor = 3
  Dense0 = FALSE
INVARIANTS Refines Link Export
CHECK_DEADLOCK FALSE
