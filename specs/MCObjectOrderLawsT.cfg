SPECIFICATION SpecLaws
CONSTANTS IdMax = 4
  LawIds <- LawIdsAll
  LawTypes = {1, 2}
  NVersions = 3
  SeqLen = 0
  SeqVersions = {1}
INVARIANT LawsInv
CHECK_DEADLOCK FALSE
