SPECIFICATION Spec
CONSTANTS
  Ids = {0, 1, 2, 5, 9}
  MaxSteps = 7
  ExportHist = FALSE
INVARIANT Refines
CHECK_DEADLOCK FALSE
