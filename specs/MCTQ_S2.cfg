SPECIFICATION Spec
CONSTANTS
  Threads <- SThreads
  Kind <- SKind
  Script <- SScript
  Max = 2
  Throwing <- NoThrow
INVARIANTS TypeOK FifoWhileInUse OrderAlways Accounted PerConsumerOrder Bound BoundSingle RunAtMostOnce PoolJoined DeadlockFree
CHECK_DEADLOCK FALSE
