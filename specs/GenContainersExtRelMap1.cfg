SPECIFICATION Spec
CONSTANTS
  W = 2
  Ids = {0, 1, 3, 4, 5, 7}
  MIds = {1, 3, 4}
  ProbeIds = {2, 6}
  MaxOps = 1
  ExportHist = TRUE
INVARIANTS Refines Export
CHECK_DEADLOCK FALSE
