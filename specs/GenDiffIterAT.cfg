\* C20, thorough.  Deadlock checking stays on: every behaviour must reach phase "done".
SPECIFICATION Spec
CONSTANTS
  Keys <- Keys5
  MaxV = 2
  NoisePatterns <- NoiseAll
  Modes <- ApplyModes
  HandlerLists <- DiffLists
  SmallN = 4
  MaxChunks = 3
INVARIANTS Cursors Refines AShape Export
