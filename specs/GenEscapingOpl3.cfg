SPECIFICATION Spec
CONSTANTS
  Mode = "str"
  Alphabet <- AlphaOpl
  ByteReps <- BytesOnePerClass
  MaxLen = 3
  Suffixes = {"", ",", " "}
  DoExport = TRUE
  HexAsShipped = FALSE
INVARIANTS TypeOK NoOverRead ConsumesSequences VerdictMatchesA StrAlwaysOk EscapeMatchesA OplNoStructural OplRoundTrip XmlEscapeMatchesA XmlNoStructural XmlRoundTrip XmlDeviation ExportStr
CHECK_DEADLOCK FALSE
