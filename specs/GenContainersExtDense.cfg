SPECIFICATION Spec
CONSTANTS
  CB = 1
  TBits = 6
  Ids = {0, 1, 7, 8, 15, 16, 31, 32, 47, 48, 62, 63}
  MaxSteps = 14
  ExportHist = TRUE
INVARIANTS Refines Export
CHECK_DEADLOCK FALSE
