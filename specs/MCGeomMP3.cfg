\* design check: every area with 0..3 outer rings x 0..2 inner rings each, rings from CatTwo (a plain ring and one with runs of duplicates)
SPECIFICATION Spec
CONSTANTS
  Toks = {"p"}
  MaxLen = 0
  Kinds = {"multipolygon"}
  RingCat <- CatTwo
  MaxOuter = 3
  MaxInner = 2
  MaxCalls = 1
  ExportHist = FALSE
INVARIANTS TypeOK Refines RegsOK NoEmptyList
CHECK_DEADLOCK FALSE
