SPECIFICATION InitOnly
CONSTANTS
  Configs <- RealPbfConfigs
  Ns = {2, 3}
  NestSets <- NestLive
  Bounds <- BoundsLive
  Pools = {FALSE, TRUE}
  Fds = {TRUE}
  ScriptLen = 0
  LongScripts = FALSE
  FdStop = TRUE
  SkipAll = FALSE
INVARIANT ExportCfg
CHECK_DEADLOCK FALSE
