SPECIFICATION Spec
CONSTANTS
  Fmt = "o5m"
  MaxFaults = 2
  WithTrunc = FALSE
  TruncAfterFault = FALSE
  ExportHist = TRUE
INVARIANTS TypeOK Applicable DistinctPositions TruncOK Export
CHECK_DEADLOCK FALSE
