\* C20, quick+thorough: design check and export; handler lists of length 3 and 4.  Deadlock checking stays on: every behaviour must reach phase "done".
SPECIFICATION Spec
CONSTANTS
  Alphabet <- AlphaSmall
  MaxLen = 2
  HandlerLists <- Multi
  Containers <- ContMulti
  MaxChunks = 1
INVARIANTS TypeOK Refines NoThrow Export
