\* design check: 4 calls in a row on the same factory object (registers and partial buffers of a failed call persist), small input domain
SPECIFICATION Spec
CONSTANTS
  Toks = {"p", "q", "U"}
  MaxLen = 4
  Kinds = {"point", "linestring", "polygon", "multipolygon"}
  RingCat <- CatSeq
  MaxOuter = 2
  MaxInner = 1
  MaxCalls = 4
  ExportHist = FALSE
INVARIANTS TypeOK Refines RegsOK NoEmptyList
CHECK_DEADLOCK FALSE
