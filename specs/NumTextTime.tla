---------------------------- MODULE NumTextTime ----------------------------
(* C13 (3/4).  ISO timestamps: osmium::detail::parse_timestamp() / Timestamp(string) and
   Timestamp::to_iso()/to_iso_all().

   A timestamp is the pair <<days, sod>> (days since 1970-01-01, second of day): 2^32 does not fit TLC's
   integers, the harness computes days * 86400 + sod in 64 bit.

   A-layer (what the text means): the format  DDDD-DD-DDTDD:DD:DD ( Z | [.,] D+ Z )  as a PREFIX of the
   string (Timestamp(string) does not look behind the Z - named deviation of the code, the property
   demands full consumption only "where that is required"); field ranges year >= 1900, month 1..12,
   day 1..length of the month with 29 days for EVERY February (documented table of the code), hour <= 23,
   minute <= 59, second <= 60 (leap second); the value is proleptic-Gregorian day counting (leap years
   counted, no era arithmetic), day 29 of a 28 day February is March 1st and second 60 is second 0 of the
   next minute (timegm's normalisation).  Fractions of a second are cut off.  Dates outside
   1970-01-01T00:00:00Z .. 2106-02-07T06:28:15Z are not representable in the uint32 (rep = FALSE): the
   property does not say what happens then, the replay accepts either outcome there.
   FormatIsoA(t) is defined as the inverse: THE valid calendar date (real month lengths) whose value is t.

   I-layer: the && chain of parse_timestamp as one action per character position (it stops at the first
   mismatch, which is why it never reads behind the NUL), fractional_seconds() with its loop, field
   extraction and range checks, then the C library as environment: timegm()/gmtime_r() modelled by the
   era based civil-date algorithms (a different formulation than the A-layer's counting). *)
EXTENDS NumDigits, FiniteSets, Json
CONSTANTS Mode,      \* "parse" | "format"
          Level, DoExport
VARIABLES s,                          \* parse mode: the input string
          td, ts,                     \* format mode: the timestamp <<td, ts>>
          pc, i, p, out
vars == <<s, td, ts, pc, i, p, out>>

RejectT == [ok |-> FALSE, rep |-> FALSE, days |-> 0, sod |-> 0, rest |-> 0]
D2(n) == <<DC[(n \div 10) + 1], DC[(n % 10) + 1]>>
D4(n) == <<DC[(n \div 1000) + 1], DC[((n \div 100) % 10) + 1], DC[((n \div 10) % 10) + 1], DC[(n % 10) + 1]>>
Num(str, a, n) == DigitsNat(Digits(str, a, n))
MaxDays == 49710            \* 2^32 = 49710 * 86400 + 23296
MaxSod == 23295
Representable(d, sec) == d >= 0 /\ (d < MaxDays \/ (d = MaxDays /\ sec <= MaxSod))

---------------------------------------------------------------------------
(* A-layer *)
IsLeap(y) == (y % 4 = 0 /\ y % 100 # 0) \/ y % 400 = 0
LeapsBefore(y) == ((y - 1) \div 4) - ((y - 1) \div 100) + ((y - 1) \div 400)      \* leap years in 1 .. y-1
MonLenReal(y, m) == CASE m \in {1, 3, 5, 7, 8, 10, 12} -> 31 [] m \in {4, 6, 9, 11} -> 30
                      [] OTHER -> IF IsLeap(y) THEN 29 ELSE 28
MonLenDoc(m) == IF m = 2 THEN 29 ELSE MonLenReal(2000, m)
RECURSIVE DaysBeforeMonth(_, _)
DaysBeforeMonth(y, m) == IF m = 1 THEN 0 ELSE DaysBeforeMonth(y, m - 1) + MonLenReal(y, m - 1)
DaysA(y, m, d) == 365 * (y - 1970) + (LeapsBefore(y) - LeapsBefore(1970)) + DaysBeforeMonth(y, m) + (d - 1)

Pattern == <<"D", "D", "D", "D", "-", "D", "D", "-", "D", "D", "T", "D", "D", ":", "D", "D", ":", "D", "D">>
Matches(c, cls) == IF cls = "D" THEN IsDig(c) ELSE c = cls
ParseIsoA(str) ==
    IF ~(\A k \in 1..19 : Matches(At(str, k), Pattern[k])) THEN RejectT
    ELSE LET nf   == IF At(str, 20) \in {".", ","} THEN Run(str, 21) ELSE 0
             zpos == IF At(str, 20) = "Z" THEN 20 ELSE IF nf >= 1 /\ At(str, 21 + nf) = "Z" THEN 21 + nf ELSE 0
             Y == Num(str, 1, 4)   M == Num(str, 6, 2)   Dy == Num(str, 9, 2)
             h == Num(str, 12, 2)  mi == Num(str, 15, 2)  sc == Num(str, 18, 2)
         IN  IF zpos = 0 \/ Y < 1900 \/ M < 1 \/ M > 12 \/ Dy < 1 \/ Dy > MonLenDoc(M) \/ h > 23 \/ mi > 59 \/ sc > 60
             THEN RejectT
             ELSE LET d0  == DaysA(Y, M, Dy)
                      s0  == h * 3600 + mi * 60 + sc
                      dd  == IF s0 = 86400 THEN d0 + 1 ELSE d0
                      ss  == IF s0 = 86400 THEN 0 ELSE s0
                  IN  [ok |-> TRUE, rep |-> Representable(dd, ss), days |-> dd, sod |-> ss, rest |-> zpos + 1]

FormatIsoA(d, sec) ==
    LET y0 == 1970 + (d \div 366)
        y  == CHOOSE y \in y0..(y0 + 1) : DaysA(y, 1, 1) <= d /\ d < DaysA(y + 1, 1, 1)
        m  == CHOOSE m \in 1..12 : DaysA(y, m, 1) <= d /\ d < DaysA(y, m, 1) + MonLenReal(y, m)
        dy == d - DaysA(y, m, 1) + 1
    IN  D4(y) \o <<"-">> \o D2(m) \o <<"-">> \o D2(dy) \o <<"T">> \o D2(sec \div 3600) \o <<":">>
        \o D2((sec \div 60) % 60) \o <<":">> \o D2(sec % 60) \o <<"Z">>

---------------------------------------------------------------------------
(* environment: the C library *)
Timegm(y, m, d) ==          \* days since 1970-01-01 of a (possibly denormal) civil date, y >= 1900
    LET yy  == IF m <= 2 THEN y - 1 ELSE y
        era == yy \div 400
        yoe == yy - era * 400
        doy == ((153 * (IF m > 2 THEN m - 3 ELSE m + 9) + 2) \div 5) + d - 1
        doe == yoe * 365 + (yoe \div 4) - (yoe \div 100) + doy
    IN  era * 146097 + doe - 719468
Gmtime(d) ==                \* <<year, month, day>> of day number d >= 0
    LET z   == d + 719468
        era == z \div 146097
        doe == z - era * 146097
        yoe == (doe - (doe \div 1460) + (doe \div 36524) - (doe \div 146096)) \div 365
        doy == doe - (365 * yoe + (yoe \div 4) - (yoe \div 100))
        mp  == (5 * doy + 2) \div 153
        dy  == doy - ((153 * mp + 2) \div 5) + 1
        m   == IF mp < 10 THEN mp + 3 ELSE mp - 9
        y   == yoe + era * 400 + (IF m <= 2 THEN 1 ELSE 0)
    IN  <<y, m, dy>>

(* to_iso_str(): gmtime_r + add_4digit_int_to_string / add_2digit_int_to_string *)
Add2(v) == IF v > 9 THEN <<DC[(v \div 10) + 1], DC[(v - (v \div 10) * 10) + 1]>> ELSE <<"0", DC[v + 1]>>
Add4(v) == LET d1 == v \div 1000  r1 == v - d1 * 1000
               d2 == r1 \div 100  r2 == r1 - d2 * 100
               d3 == r2 \div 10   r3 == r2 - d3 * 10
           IN  <<DC[d1 + 1], DC[d2 + 1], DC[d3 + 1], DC[r3 + 1]>>
ToIsoStr(d, sec) == LET c == Gmtime(d)
                    IN  Add4(c[1]) \o <<"-">> \o Add2(c[2]) \o <<"-">> \o Add2(c[3]) \o <<"T">> \o Add2(sec \div 3600)
                        \o <<":">> \o Add2((sec % 3600) \div 60) \o <<":">> \o Add2(sec % 60) \o <<"Z">>

---------------------------------------------------------------------------
(* inputs *)
Years == IF Level = 0 THEN {0, 1899, 1900, 1969, 1970, 1972, 2000, 2001, 2038, 2100, 2106, 2107, 9999}
         ELSE {0, 1, 999, 1000, 1899, 1900, 1901, 1904, 1968, 1969, 1970, 1971, 1972, 1973, 1999, 2000, 2001, 2004, 2016, 2037, 2038, 2039,
               2096, 2099, 2100, 2101, 2104, 2105, 2106, 2107, 2400, 9999}
Months == IF Level = 0 THEN 0..13 ELSE 0..13 \cup {19, 20, 99}     \* every month in both levels: each has its own table entry (C13r7_A)
DaysS == IF Level = 0 THEN {0, 1, 28, 29, 30, 31, 32} ELSE 0..32 \cup {39, 40, 99}
Hours == IF Level = 0 THEN {0, 23, 24} ELSE {0, 1, 9, 10, 19, 20, 23, 24, 99}
Mins == IF Level = 0 THEN {0, 59, 60} ELSE {0, 1, 9, 10, 59, 60, 61, 99}
Secs == IF Level = 0 THEN {0, 59, 60, 61} ELSE {0, 1, 9, 10, 59, 60, 61, 62, 99}
Suffixes == {<<"Z">>, <<>>, <<"z">>, <<".", "5", "Z">>, <<",", "1", "2", "3", "Z">>, <<".", "Z">>, <<",", "Z">>, <<".", "5">>,
             <<".", "5", "x">>, <<"Z", "x">>, <<"+", "0", "0", ":", "0", "0">>, <<".", "5", "x", "Z">>,
             <<".", "1", "2", "3", "4", "5", "6", "7", "8", "9", "0", "1", "2", "3", "4", "5", "6", "7", "8", "9", "Z">>,
             <<"Z", " ">>, <<".", ".", "5", "Z">>, <<";", "5", "Z">>, <<"Z", "Z">>, <<".", "0", "Z", "#">>}
Stamp(y, m, d, h, mi, sc, sx) == D4(y) \o <<"-">> \o D2(m) \o <<"-">> \o D2(d) \o <<"T">> \o D2(h) \o <<":">> \o D2(mi) \o <<":">> \o D2(sc) \o sx
Base == Stamp(2000, 2, 29, 12, 34, 56, <<"Z">>)
WrongCh == {"x", "-", ":", "T", "5", " ", "Z", "t", "."}
Edges == {Stamp(2106, 2, 7, 6, 28, 15, <<"Z">>), Stamp(2106, 2, 7, 6, 28, 16, <<"Z">>), Stamp(2106, 2, 7, 6, 27, 60, <<"Z">>),
          Stamp(2106, 2, 6, 23, 59, 60, <<"Z">>), Stamp(2106, 2, 7, 6, 28, 14, <<",", "9", "Z">>),
          Stamp(2038, 1, 19, 3, 14, 7, <<"Z">>), Stamp(2038, 1, 19, 3, 14, 8, <<"Z">>),
          Stamp(1970, 1, 1, 0, 0, 0, <<"Z">>), Stamp(1970, 1, 1, 0, 0, 1, <<"Z">>), Stamp(1969, 12, 31, 23, 59, 59, <<"Z">>),
          Stamp(1969, 12, 31, 23, 59, 60, <<"Z">>), Stamp(2016, 12, 31, 23, 59, 60, <<"Z">>), Stamp(2001, 2, 29, 0, 0, 0, <<"Z">>),
          Stamp(2100, 2, 29, 23, 59, 60, <<"Z">>), Stamp(2000, 12, 31, 23, 59, 60, <<".", "9", "Z">>)}
TimeStrings ==
    {Stamp(y, m, d, 0, 0, 0, <<"Z">>) : y \in Years, m \in Months, d \in DaysS}
    \cup {Stamp(2016, 3, 31, h, mi, sc, sx) : h \in Hours, mi \in Mins, sc \in Secs, sx \in Suffixes}
    \cup {[Base EXCEPT ![k] = c] : k \in 1..20, c \in WrongCh}
    \cup {SubSeq(Base, 1, k) : k \in 0..20}
    \cup {SubSeq(Base, 1, 19) \o <<".", "1", "2">>, SubSeq(Base, 1, 19) \o <<",">>}
    \cup Edges
    \cup (IF Level = 0 THEN {} ELSE {Stamp(y, m, d, 23, 59, 60, <<".", "5", "Z">>) : y \in Years, m \in {1, 2, 3, 12}, d \in {1, 28, 29, 30, 31}})
DayGrid == IF Level = 0 THEN {0, 1, 30, 31, 58, 59, 60, 364, 365, 366, 730, 789, 790, 1095, 1096, 10956, 10957, 11015, 11016, 11017, 11322, 11323,
                              16891, 24855, 24856, 47481, 47482, 47540, 47541, 47846, 47847, 49709, 49710} \cup {k * 97 : k \in 0..512}
           ELSE {k * 7 : k \in 0..7101} \cup {k * 365 + j : k \in 0..136, j \in 0..2} \cup {49709, 49710}
SodGrid == IF Level = 0 THEN {0, 1, 59, 60, 3599, 3600, 23295, 23296, 43200, 86399} ELSE {0, 59, 3600, 23295, 86399}
TimeGrid == {t \in DayGrid \X SodGrid : Representable(t[1], t[2])}

---------------------------------------------------------------------------
Init == /\ IF Mode = "parse" THEN s \in TimeStrings /\ td = 0 /\ ts = 0 /\ pc = "chk"
           ELSE s = <<>> /\ (\E t \in TimeGrid : td = t[1] /\ ts = t[2]) /\ pc = "fmt"
        /\ i = 1 /\ p = 0 /\ out = RejectT

Throw == pc' = "done" /\ out' = RejectT
(* str[k] checks of the && chain, k = 0..18 (index i = k + 1) *)
Check == /\ pc = "chk" /\ i <= 19
         /\ IF Matches(At(s, i), Pattern[i]) THEN i' = i + 1 /\ UNCHANGED <<pc, out>> ELSE Throw /\ UNCHANGED i
         /\ UNCHANGED <<s, td, ts, p>>
(* str[19] == 'Z' || fractional_seconds(s)      [the pointer was advanced by 19 at the top] *)
Suffix == /\ pc = "chk" /\ i = 20
          /\ IF At(s, 20) = "Z" THEN p' = 20 /\ pc' = "fields" /\ UNCHANGED out
             ELSE IF At(s, 20) \notin {".", ","} THEN Throw /\ UNCHANGED p
             ELSE IF ~IsDig(At(s, 21)) THEN Throw /\ UNCHANGED p
             ELSE p' = 21 /\ pc' = "frac" /\ UNCHANGED out
          /\ UNCHANGED <<s, td, ts, i>>
(* do { ++str; } while (digit) *)
FracLoop == /\ pc = "frac"
            /\ p' = p + 1
            /\ IF IsDig(At(s, p + 1)) THEN UNCHANGED <<pc, out>>
               ELSE IF At(s, p + 1) = "Z" THEN pc' = "fields" /\ UNCHANGED out ELSE Throw
            /\ UNCHANGED <<s, td, ts, i>>
Fields == /\ pc = "fields"
          /\ LET Y == Num(s, 1, 4) - 1900   M == Num(s, 6, 2) - 1   Dy == Num(s, 9, 2)
                 h == Num(s, 12, 2)  mi == Num(s, 15, 2)  sc == Num(s, 18, 2)
             IN  IF Y >= 0 /\ M >= 0 /\ M <= 11 /\ Dy >= 1 /\ Dy <= MonLenDoc(M + 1) /\ h <= 23 /\ mi <= 59 /\ sc <= 60
                 THEN LET d0 == Timegm(Y + 1900, M + 1, Dy)
                          s0 == h * 3600 + mi * 60 + sc
                          dd == d0 + (s0 \div 86400)
                          ss == s0 % 86400
                      IN  out' = [ok |-> TRUE, rep |-> Representable(dd, ss), days |-> dd, sod |-> ss, rest |-> p + 1]
                 ELSE out' = RejectT
          /\ pc' = "done" /\ UNCHANGED <<s, td, ts, i, p>>
Format == /\ pc = "fmt"
          /\ out' = [ok |-> TRUE, rep |-> TRUE, days |-> td, sod |-> ts, rest |-> 0]
          /\ s' = ToIsoStr(td, ts) /\ pc' = "fdone" /\ UNCHANGED <<td, ts, i, p>>
Next == Check \/ Suffix \/ FracLoop \/ Fields \/ Format
Spec == Init /\ [][Next]_vars

---------------------------------------------------------------------------
ParseIimpliesA == pc = "done" => out = ParseIsoA(s)
NoOverread == (pc \in {"chk", "frac"}) => (i <= Len(s) + 1 /\ p <= Len(s))
FormatIimpliesA == pc = "fdone" => s = FormatIsoA(td, ts)
(* the property's round trip, on the spec: parse(iso(t)) = t, and the text is consumed completely *)
RoundTrip == pc = "fdone" => ParseIsoA(s) = [ok |-> TRUE, rep |-> TRUE, days |-> td, sod |-> ts, rest |-> Len(s) + 1]
(* timegm's model and the counting definition agree on every (also denormal) date the parser lets through *)
ASSUME EnvAgrees == \A y \in {1900, 1970, 2000, 2001, 2100, 2106} : \A m \in 1..12 : \A d \in {1, 28, 29, 30, 31} :
                       Timegm(y, m, d) = DaysA(y, m, d)

Export == /\ (DoExport /\ pc = "done") =>
               PrintT(<<"CASE", ToJson([k |-> "parse", s |-> s, ok |-> out.ok, rep |-> out.rep, days |-> out.days, sod |-> out.sod, rest |-> out.rest])>>)
          /\ (DoExport /\ pc = "fdone") =>
               PrintT(<<"CASE", ToJson([k |-> "format", s |-> s, days |-> td, sod |-> ts])>>)
=============================================================================
