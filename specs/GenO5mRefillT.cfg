SPECIFICATION Spec
CONSTANTS
  HdrLen = 7
  MaxVarint = 10
  Shapes <- ShapesGenT
  RepointOnFail = TRUE
  MaxCuts = 3
  TruncCuts = 2
  FixedSizes = {1, 2, 3, 5, 7, 11}
  ExportHist = TRUE
INVARIANTS WindowInv ResultInv Export
