SPECIFICATION Spec
CONSTANTS
  Configs <- TheConfigs
  ScriptLen = 2
  LongScripts = FALSE
  Ops <- AllOps
  Formats = {"xml"}
  Comps = {"plain", "gzip", "bzip2"}
  Pools = {TRUE}
  Bounds = {1}
  Caps = {2}
  MaxAt = 9
  FaultKinds = {}
  FdFix = TRUE
  EmptyFix = FALSE
  GenFormats = {"xml"}
  GenComps = {"plain"}
  GenScriptLen = 0
INVARIANTS CompleteOrThrows
