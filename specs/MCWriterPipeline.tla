------------------------ MODULE MCWriterPipeline ------------------------
(* Configuration families for the exhaustive design check and the behaviour export of WriterPipeline. *)
EXTENDS WriterPipeline, Json
CONSTANTS ScriptLen,      \* all scripts over Ops up to this length ...
          LongScripts,    \* ... plus the hand-picked longer ones
          Ops,
          Formats,        \* subset of {"xml", "opl", "pbf"}: (hdr, trl) = xml (T,T), pbf (T,F), opl (F,F)
          Comps, Pools, Bounds, Caps,
          MaxAt,          \* write faults at unit offsets 0..MaxAt
          FaultKinds,     \* subset of the fault kinds
          FdFix, EmptyFix

Rep(op, k) == [i \in 1..k |-> op]
ShortScripts == UNION {[1..k -> Ops] : k \in 0..ScriptLen}
Long == IF LongScripts
        THEN {<<"item", "item", "item", "close">>,                        \* flush-on-full in the third item
              <<"item", "item", "item", "flush", "close">>,
              <<"buf", "buf", "buf", "close">>,                           \* more buffers than the queue holds
              <<"buf", "flush", "buf", "flush", "close", "close">>,       \* many polls, second close
              <<"item", "buf", "item", "close", "buf">>,                  \* the item buffer is flushed by operator()(Buffer)
              <<"buf", "buf", "big", "flush", "close", "close">>,         \* user-thread exception, then close twice
              <<"buf", "buf", "buf", "buf">>,                             \* never closed: only the destructor
              <<"buf", "nul", "buf", "close">>,                           \* a buffer that is encoded to nothing, data after it
              <<"item", "nul", "item", "item", "flush", "close">>}
        ELSE {}

HdrOf(f) == f \in {"xml", "pbf"}
TrlOf(f) == f = "xml"

Faults(comp, pool, f) ==
   {NoFault}
   \cup (IF "write" \in FaultKinds THEN {[k |-> "write", at |-> o] : o \in 0..MaxAt} ELSE {})
   \cup (IF "fsync" \in FaultKinds THEN {[k |-> "fsync", at |-> 0]} ELSE {})
   \cup (IF "close" \in FaultKinds THEN {[k |-> "close", at |-> n] : n \in 1..(IF comp = "gzip" THEN 2 ELSE 1)} ELSE {})
   \cup (IF "cwrite" \in FaultKinds /\ comp = "plain" THEN {[k |-> "cwrite", at |-> n] : n \in 1..3} ELSE {})
   \cup (IF "cclose" \in FaultKinds /\ comp = "plain" THEN {[k |-> "cclose", at |-> 0]} ELSE {})
   \cup (IF "epool" \in FaultKinds /\ pool /\ f # "pbf" THEN {[k |-> "epool", at |-> n] : n \in 1..2} ELSE {})
   \cup (IF "ehdr" \in FaultKinds THEN {[k |-> "ehdr", at |-> 0]} ELSE {})
   \cup (IF "ebuf" \in FaultKinds /\ f # "pbf" THEN {[k |-> "ebuf", at |-> n] : n \in 1..2} ELSE {})
   \cup (IF "eend" \in FaultKinds THEN {[k |-> "eend", at |-> 0]} ELSE {})

Mk(s, f, comp, sync, fl, pool, b, cap) ==
   [script |-> s, hdr |-> HdrOf(f), trl |-> TrlOf(f), comp |-> comp, fsync |-> sync, fault |-> fl, pool |-> pool,
    maxQ |-> b, cap |-> cap, fdfix |-> FdFix, emptyfix |-> EmptyFix, defer |-> (f = "pbf")]

TheConfigs ==
  UNION {
   {Mk(s, f, comp, (fl.k = "fsync"), fl, pool, b, cap) : s \in ShortScripts \cup Long, fl \in Faults(comp, pool, f)}
   : f \in Formats, comp \in Comps, pool \in Pools, b \in Bounds, cap \in Caps}

AllKinds == {"write", "fsync", "close", "cwrite", "cclose", "epool", "ehdr", "ebuf", "eend"}
AllOps == {"buf", "nul", "item", "big", "flush", "close"}

-----------------------------------------------------------------------------
(* ---- families for the behaviour export (spec -> code) ---- *)
CONSTANTS GenFormats, GenComps, GenScriptLen

GenShort == UNION {[1..k -> AllOps] : k \in 0..GenScriptLen}
GenScripts == GenShort \cup Long
(* write faults by offset class: first unit, last unit of the would-be output, exactly its size (no fault is reached) *)
GenWriteFaults(c0) == LET t == Total(c0) IN
    {[k |-> "write", at |-> 0]} \cup (IF t > 0 THEN {[k |-> "write", at |-> t - 1], [k |-> "write", at |-> t]} ELSE {})
(* real formats and compressors: the kernel refuses a write, fsync or close; an unencodable object on a pool worker *)
GenRealFaults(c0) == {NoFault} \cup GenWriteFaults(c0) \cup {[k |-> "fsync", at |-> 0]}
                     \cup {[k |-> "close", at |-> n] : n \in 1..(IF c0.comp = "gzip" THEN 2 ELSE 1)}
                     \cup (IF c0.defer THEN {} ELSE {[k |-> "epool", at |-> n] : n \in 1..2})
(* mock encoder / mock compressor through the factory seams *)
GenMockFaults == {[k |-> "cwrite", at |-> n] : n \in 1..3} \cup {[k |-> "cclose", at |-> 0]}
                 \cup {[k |-> "ehdr", at |-> 0], [k |-> "eend", at |-> 0]} \cup {[k |-> "ebuf", at |-> n] : n \in 1..2}
                 \cup {[k |-> "epool", at |-> n] : n \in 1..2}

RealConfigs ==
  UNION {
   {Mk(s, f, comp, sync \/ fl.k = "fsync", fl, TRUE, 2, 2) : fl \in GenRealFaults(Mk(s, f, comp, FALSE, NoFault, TRUE, 2, 2))}
   : s \in GenScripts, f \in GenFormats, comp \in GenComps, sync \in BOOLEAN}
MockConfigs ==
  UNION {
   {Mk(s, "xml", "plain", FALSE, fl, pool, 2, 2) : fl \in {f \in GenMockFaults : f.k = "epool" => pool}}
   : s \in GenScripts, pool \in BOOLEAN}

InitOnly == Init /\ [][FALSE]_vars

(* behaviour export: one line per configuration with the allowed logs, the content of a complete file and the
   size of the would-be output in units (evaluated in the initial states) *)
ExportCfg == (us.pc = "idle" /\ us.i = 1 /\ clog = <<>> /\ wt.pc = "loop" /\ futs = <<>>)
             => PrintT(<<"CASE", ToJson([cfg |-> cfg, allowed |-> allowed, content |-> Content(cfg), total |-> Total(cfg), blocks |-> Blocks(cfg)])>>)
(* tightness of the A-layer (development aid and vacuity guard): every terminal state prints its log *)
ExportTerminal == AllDone => PrintT(<<"CASE", ToJson([cfg |-> cfg, allowed |-> allowed, log |-> clog])>>)
=============================================================================
