----------------------------- MODULE IndexDense -----------------------------
(* C12, dense family: VectorBasedDenseMap<TVector, TId, TValue> (index/detail/vector_map.hpp:52-154) over
   std::vector (dense_mem_array), mmap_vector_anon (dense_mmap_array) and mmap_vector_file (dense_file_array)
   (index/detail/mmap_vector_base.hpp, mmap_vector_file.hpp).

   I-layer state: m_size, capacity() of the mapping, the slots written by set(), and `init`: slots [0, init) were
   initialised with the empty value (constructor fill, reserve() fill, std::vector::resize value-initialisation).
   A slot that was neither written nor initialised reads as Garbage (-1): fresh mmap pages are zero bytes, and
   Location{0, 0} is a VALID location, not the empty value.  Loops over untouched slots (fill, shrink_to_fit) are
   in closed form so that the real increments (G = 2^20 elements) can be used in the Gen configs. *)
EXTENDS IndexMap

CONSTANTS G,            \* osmium::detail::mmap_vector_size_increment (initial capacity and growth slack)
          Backings,     \* subset of {"vector", "mmap", "file"}: the index types a history may start with
          ReserveSizes, \* arguments of Map::reserve() tried
          ForeignInit   \* TRUE: histories may also start from an array file of an arbitrary small map

VARIABLES backing, size, cap, mem, init, file
ivars == <<backing, size, cap, mem, init, file>>
vars == <<amap, ins, afile, nsorts, ndumps, done, hist, backing, size, cap, mem, init, file>>

Garbage == -1
Slot(i) == IF i \in DOMAIN mem THEN mem[i] ELSE IF i < init THEN 0 ELSE Garbage     \* data()[i]
(* get(): `id >= m_vector.size()` -> not_found; value == empty_value -> not_found.  get_noexcept(): the raw slot. *)
IGet(id) == IF id >= size THEN 0 ELSE Slot(id)

(* shrink_to_fit(): while (m_size > 0 && data()[m_size - 1] == empty) --m_size; *)
Shrink(n, m, ini) == LET keep == {i \in DOMAIN m : i < n /\ m[i] # 0}
                         junk == IF ini < n THEN {n - 1} ELSE {}                      \* an uninitialised tail stops the loop at once
                     IN IF keep \cup junk = {} THEN 0 ELSE Max(keep \cup junk) + 1
Below(m, n) == LET d == {i \in DOMAIN m : i < n} IN [i \in d |-> m[i]]

(* mmap_vector_file(fd): capacity = max(increment, filesize), size = filesize, fill [size, capacity), shrink_to_fit *)
Load(n, m) == /\ backing' = "file"
              /\ cap' = IF n > G THEN n ELSE G
              /\ mem' = Below(m, n)
              /\ init' = cap'
              /\ size' = Shrink(n, m, n)

DInit == /\ backing \in Backings /\ size = 0 /\ mem = <<>> /\ file = NoFile
         /\ cap = IF backing = "vector" THEN 0 ELSE G          \* mmap_vector_base(capacity = increment): fill_n(data(), capacity, empty)
         /\ init = cap
(* a dense_file_array opened on an array file that something else wrote (e.g. a sparse index' dump_as_array) *)
RECURSIVE Number(_, _, _)
Number(ids, k, acc) == IF k > Len(ids) THEN acc ELSE Number(ids, k + 1, (ids[k] :> k) @@ acc)
FInit == \E S \in SUBSET Cand :
            /\ Cardinality(S) \in 1..2 /\ \A id \in S : id < ArrayLimit
            /\ amap = Number(Asc(S, <<>>), 1, <<>>) /\ ins = Asc(S, <<>>)
            /\ afile = AArrayFile(amap) /\ file = afile
            /\ nsorts = 0 /\ ndumps = 0 /\ done = FALSE /\ hist = <<>>
            /\ backing = "file" /\ cap = (IF afile.n > G THEN afile.n ELSE G) /\ mem = amap /\ init = cap
            /\ size = Shrink(afile.n, amap, afile.n)
Init == (AInit /\ DInit) \/ (ForeignInit /\ FInit)

(* set(): if (size() <= id) m_vector.resize(id + 1); m_vector[id] = value;
   mmap resize(): if (new_size > capacity()) reserve(new_size + increment); m_size = new_size;
   mmap reserve(): m_mapping.resize(new_capacity); fill(data() + old_capacity, data() + new_capacity, empty) *)
Set(id) == /\ ASet(id)
           /\ LET grow == size <= id
                  ncap == IF backing = "vector" THEN (IF grow THEN id + 1 ELSE cap)
                          ELSE IF grow /\ id + 1 > cap THEN id + 1 + G ELSE cap
              IN /\ size' = IF grow THEN id + 1 ELSE size
                 /\ cap' = ncap
                 /\ init' = IF backing = "vector" THEN (IF grow /\ init >= size THEN id + 1 ELSE init)
                            ELSE IF ncap > cap /\ init >= cap THEN ncap ELSE init
           /\ mem' = (id :> NextVal) @@ mem
           /\ UNCHANGED <<backing, file>>
           /\ Rec("set", id, 0, FALSE)

Reserve(n) == /\ AKeep
              /\ IF backing # "vector" /\ n > cap
                 THEN cap' = n /\ init' = (IF init >= cap THEN n ELSE init)
                 ELSE UNCHANGED <<cap, init>>
              /\ UNCHANGED <<backing, size, mem, file>>
              /\ Rec("reserve", n, 0, FALSE)

(* sort() is the empty default implementation for the dense maps *)
Sort == ASort /\ UNCHANGED ivars /\ Rec("sort", 0, 0, FALSE)

(* dump_as_array(fd): reliable_write(data(), size() * sizeof(TValue)); then a dense_file_array is created on the
   file and the history continues on that object *)
Reload == /\ ADumpArray
          /\ file' = [kind |-> "array", n |-> size,
                      vals |-> LET m == Below(mem, size) IN
                               IF init >= size THEN PairsOf(m) ELSE Append(PairsOf(m), <<init, Garbage>>)]
          /\ Load(size, mem)
          /\ Rec("reload", 0, 0, TRUE)

(* file backed index: the object is destroyed and a new one opened on the same file (all `capacity` slots) *)
Reopen == /\ backing = "file" /\ AKeep
          /\ backing' = "file" /\ cap' = cap /\ mem' = mem
          /\ init' = init
          /\ size' = Shrink(cap, mem, init)
          /\ UNCHANGED file
          /\ Rec("reopen", 0, 0, FALSE)

Finish == AFinish /\ UNCHANGED ivars /\ UNCHANGED hist

Next == \/ \E id \in Cand : Set(id)
        \/ \E n \in ReserveSizes : Reserve(n)
        \/ Sort \/ Reload \/ Reopen \/ Finish
Spec == Init /\ [][Next]_vars

\* ---------------------------------------------------------------- I => A
Refines == \A p \in Probes : IGet(p) = ALookup(p)               \* dense indexes never need sort()
NoGarbage == init >= cap /\ size <= cap                         \* every slot below the capacity reads as empty unless set
FileOK == file = afile
=============================================================================
