----------------------------- MODULE O5mRefill ------------------------------
(* C06 (3/4).  O5mParser (io/detail/o5m_input_format.hpp): m_input, the window pointers m_data / m_end
   into it, ensure_bytes_available(n) with its erase / append / re-point order, and decode_data()'s use
   of it - including the max_varint_length request whose result is ignored.

   Stream description: ds = <<d1, d2, ...>>, a dataset is <<lb, pl>>: lb = 0 is a one byte dataset
   (reset 0xff / end marker 0xfe), otherwise 1 type byte + lb bytes of length varint + pl payload
   bytes (pl >= 2: a node, pl < 2: a dataset type the parser ignores).  The file is the HdrLen byte
   header followed by the datasets, cut to its first n bytes.  HdrLen and MaxVarint are the real
   numbers (7, 10); one model byte is one file byte.  Decoding is positional: a type byte / length
   / payload can be decoded only from the bytes that are that field; anything else is "garbage".

   A-layer: OTok(ds, n) = the complete datasets that produce an object, and ok / short / premature.
   I-layer: m_input as a byte sequence, m_data and m_end as OFFSETS into the string's storage (they are
   raw pointers in the code and do not move when the string content does).

   RepointOnFail = TRUE is the code after the fix (pointers are set again before every return of
   ensure_bytes_available); FALSE is the code as found (defect F4): TLC then reports the stale window
   (MCO5mRefillDefect.cfg, expected to fail). *)
EXTENDS Chunking
CONSTANTS HdrLen, MaxVarint, Shapes, TruncCuts, RepointOnFail

VARIABLES ds, n,
          pc,          \* "H" "T" "V" "P": about to call ensure(need) for header / type / varint / payload;
                       \* "F": inside ensure's refill loop; "R": ensure returned rv to caller `ret`;
                       \* "done" | "error"
          ret, rv, need,
          inp,         \* m_input
          dataOff, endOff,
          cur,         \* dataset whose type byte was read last
          cons,        \* ghost: bytes consumed by the parser so far
          out, verdict
vars == <<ds, n, pc, ret, rv, need, inp, dataOff, endOff, cur, cons, out, verdict, fed, eof, mode, ncuts, pieces>>

DsSize(d) == IF d[1] = 0 THEN 1 ELSE 1 + d[1] + d[2]
RECURSIVE DsEnd(_, _)
DsEnd(s, k) == IF k = 0 THEN HdrLen ELSE DsEnd(s, k - 1) + DsSize(s[k])
DsStart(k) == DsEnd(ds, k - 1) + 1
Total(s) == DsEnd(s, Len(s))
IsNode(d) == d[1] > 0 /\ d[2] >= 2

(* ---------------------------------------------------------------- A-layer *)
OTok(s, m) == IF m < HdrLen THEN [out |-> <<>>, verdict |-> "short"]
              ELSE LET C == {k \in 0..Len(s) : DsEnd(s, k) <= m}
                       K == CHOOSE k \in C : \A j \in C : j <= k
                   IN [out |-> SelectSeq([k \in 1..K |-> k], LAMBDA k : IsNode(s[k])),
                       verdict |-> IF m = DsEnd(s, K) THEN "ok" ELSE "premature"]

(* ---------------------------------------------------------------- I-layer *)
\* dataset layouts (TLC's cfg syntax has no tuples):  Shapes <- ...
Sized(LB, PL) == {<<lb, pl>> : lb \in LB, pl \in PL}
Simple == <<0, 0>>
SeqsUpTo(D, m) == UNION {[1..k -> D] : k \in 0..m}
ShapesMC  == SeqsUpTo({Simple} \cup Sized({1, 2}, {1, 8, 10}), 1)
               \cup {<<d, e>> : d \in Sized({1}, {1, 8}), e \in {Simple, <<1, 1>>, <<2, 8>>}}
ShapesMCT == SeqsUpTo({Simple} \cup Sized({1, 2}, {0, 2, 7, 8, 9, 12}), 2)
               \cup {<<d, Simple, e>> : d, e \in Sized({1}, {3, 8})}
ShapesDefect == SeqsUpTo(Sized({1}, {1, 8}), 1)
ShapesGenQ == {<< <<1, 2>> >>, << <<1, 7>> >>, << <<1, 8>>, Simple >>, << <<2, 9>>, <<1, 3>> >>, << Simple, <<1, 12>>, <<1, 1>> >>}
ShapesGenT == ShapesGenQ \cup {<< <<2, 7>>, <<1, 8>> >>, << <<1, 10>>, Simple, <<2, 2>> >>, << <<1, 0>>, <<1, 9>> >>}

Init == /\ ds \in Shapes
        /\ n \in 0..Total(ds)
        /\ QInitB(IF n = Total(ds) \/ MaxCuts <= TruncCuts THEN 0 ELSE MaxCuts - TruncCuts)
        /\ pc = "H" /\ ret = "H" /\ rv = TRUE /\ need = HdrLen
        /\ inp = <<>> /\ dataOff = 0 /\ endOff = 0 /\ cur = 0 /\ cons = 0 /\ out = <<>> /\ verdict = "none"

Valid == dataOff <= endOff /\ endOff <= Len(inp)
Win == IF Valid THEN SubSeq(inp, dataOff + 1, endOff) ELSE <<>>        \* the bytes in [m_data, m_end)
Sub(w, a, b) == IF b <= Len(w) THEN SubSeq(w, a, b) ELSE <<>>

\* entry of ensure_bytes_available(need) up to and including m_input.erase()
Ensure == /\ pc \in {"H", "T", "V", "P"}
          /\ ret' = pc
          /\ IF endOff - dataOff >= need THEN pc' = "R" /\ rv' = TRUE /\ UNCHANGED inp
             ELSE IF eof /\ Len(inp) < need THEN pc' = "R" /\ rv' = FALSE /\ UNCHANGED inp
             ELSE /\ inp' = (IF dataOff <= Len(inp) THEN SubSeq(inp, dataOff + 1, Len(inp)) ELSE <<>>)   \* erase(0, m_data - begin)
                  /\ pc' = "F" /\ UNCHANGED rv
          /\ UNCHANGED <<ds, n, need, dataOff, endOff, cur, cons, out, verdict, qvars>>

\* one iteration of  while (m_input.size() < need) { data = get_input(); if (input_done()) ...; m_input.append(data); }
Fill == /\ pc = "F" /\ Len(inp) < need
        /\ \E k \in 0..n :
             /\ Pop(n, k)
             /\ IF eof'
                THEN /\ pc' = "R" /\ rv' = FALSE /\ UNCHANGED inp
                     /\ IF RepointOnFail THEN dataOff' = 0 /\ endOff' = Len(inp)
                                         ELSE UNCHANGED <<dataOff, endOff>>          \* F4: early return
                ELSE inp' = inp \o Range(fed + 1, fed + k) /\ UNCHANGED <<pc, rv, dataOff, endOff>>
        /\ UNCHANGED <<ds, n, ret, need, cur, cons, out, verdict>>
\* loop exit: m_data = m_input.data(); m_end = m_data + size; return true
FillDone == /\ pc = "F" /\ Len(inp) >= need
            /\ dataOff' = 0 /\ endOff' = Len(inp) /\ pc' = "R" /\ rv' = TRUE
            /\ UNCHANGED <<ds, n, ret, need, inp, cur, cons, out, verdict, qvars>>

Consume(k) == dataOff' = dataOff + k /\ cons' = cons + k
Garbage == pc' = "error" /\ verdict' = "garbage" /\ UNCHANGED <<need, cur, out, dataOff, cons>>
Fail(v) == pc' = "error" /\ verdict' = v /\ UNCHANGED <<need, cur, out, dataOff, cons>>

\* the caller continues after ensure_bytes_available() returned rv
Cont == /\ pc = "R"
        /\ CASE ret = "H" ->            \* decode_header(): magic, file type, version
                  IF ~rv THEN Fail("short")
                  ELSE IF Sub(Win, 1, HdrLen) # Range(1, HdrLen) THEN Garbage
                  ELSE Consume(HdrLen) /\ pc' = "T" /\ need' = 1 /\ UNCHANGED <<cur, out, verdict>>
             [] ret = "T" ->            \* while (ensure_bytes_available(1)) { ds_type = *m_data++; ...
                  IF ~rv THEN pc' = "done" /\ verdict' = "ok" /\ UNCHANGED <<need, cur, out, dataOff, cons>>
                  ELSE LET K == {k \in 1..Len(ds) : Win # <<>> /\ DsStart(k) = Win[1]} IN
                       IF K = {} THEN Garbage
                       ELSE LET k == CHOOSE k \in K : TRUE IN
                            /\ Consume(1) /\ cur' = k /\ UNCHANGED <<out, verdict>>
                            /\ IF ds[k][1] = 0 THEN pc' = "T" /\ need' = 1
                                               ELSE pc' = "V" /\ need' = MaxVarint
             [] ret = "V" ->            \* result ignored; length = decode_varint(&m_data, m_end)
                  LET lb == ds[cur][1] IN
                  IF ~Valid THEN Garbage
                  ELSE IF Len(Win) < lb
                       THEN (IF Win = Range(DsStart(cur) + 1, DsStart(cur) + Len(Win)) THEN Fail("premature") ELSE Garbage)
                  ELSE IF Sub(Win, 1, lb) # Range(DsStart(cur) + 1, DsStart(cur) + lb) THEN Garbage
                  ELSE Consume(lb) /\ pc' = "P" /\ need' = ds[cur][2] /\ UNCHANGED <<cur, out, verdict>>
             [] ret = "P" ->            \* if (!ensure_bytes_available(length)) throw; decode; m_data += length
                  LET pl == ds[cur][2]  s == DsStart(cur) + 1 + ds[cur][1] IN
                  IF ~rv THEN Fail("premature")
                  ELSE IF Sub(Win, 1, pl) # Range(s, s + pl - 1) THEN Garbage
                  ELSE /\ Consume(pl) /\ pc' = "T" /\ need' = 1 /\ UNCHANGED <<cur, verdict>>
                       /\ out' = IF IsNode(ds[cur]) THEN Append(out, cur) ELSE out
        /\ UNCHANGED <<ds, n, ret, rv, inp, endOff, qvars>>

Terminal == pc \in {"done", "error"}
Stutter == Terminal /\ UNCHANGED vars
Next == Ensure \/ Fill \/ FillDone \/ Cont \/ Stutter
Spec == Init /\ [][Next]_vars

(* ---------------------------------------------------------------- I => A *)
(* the bytes in [m_data, m_end) are always exactly the received and not yet consumed bytes *)
WindowInv == /\ pc \in {"H", "T", "V", "P", "R"} => Valid /\ endOff = Len(inp) /\ Win = Range(cons + 1, fed)
             /\ pc = "F" => inp = Range(cons + 1, fed)
             /\ ~Terminal => IsPrefix(out, OTok(ds, n).out)
ResultInv == Terminal => OTok(ds, n) = [out |-> out, verdict |-> verdict]
Export == (ExportHist /\ Terminal) =>
          PrintT(<<"CASE", ToJson([mod |-> "o5m", ds |-> ds, n |-> n, pieces |-> pieces, mode |-> mode,
                                   out |-> out, verdict |-> verdict])>>)
=============================================================================
