SPECIFICATION Spec
CONSTANTS
  Fmt = "o5m"
  MaxFaults = 2
  WithTrunc = TRUE
  TruncAfterFault = TRUE
  ExportHist = FALSE
INVARIANTS TypeOK Applicable DistinctPositions TruncOK
CHECK_DEADLOCK FALSE
