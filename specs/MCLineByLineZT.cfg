SPECIFICATION Spec
CONSTANTS
  Alphabet = {"n", "r", "x", "b", "z"}
  L = 6
  RestSkipsNul = TRUE
  MaxCuts = 99
  FixedSizes = {}
  ExportHist = FALSE
INVARIANTS WindowInv ResultInv
