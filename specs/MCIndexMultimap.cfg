SPECIFICATION Spec
CONSTANTS
  Ids = {0, 3}
  Vals = {1, 2}
  Probes = {0, 1, 2, 3, 4}
  Backings = {"vector", "mmap", "stdmm", "hybrid"}
  MaxSets = 3
  MaxRemoves = 2
  MaxOther = 2
  ExportHist = FALSE
INVARIANTS NoLoss Link Refines FileOK
CHECK_DEADLOCK FALSE
