SPECIFICATION Spec
CONSTANTS
  Caps <- CapsAll
  Modes = {"no", "yes", "internal"}
  Kinds = {"node", "area"}
  ULens = {0, 6, 60}
  TagLens <- TagLens2
  RoleLens = {0}
  Pres = {0, 1}
  Wraps = {FALSE}
  CbMaxs = {0}
  MaxObjects = 6
  MaxElems = 2
  MaxSubs = 3
  MaxSteps = 24
  Ops <- AllOps
  Script <- NoScript
  ExportHist = TRUE
INVARIANT Export
INVARIANT Inv
CHECK_DEADLOCK FALSE
