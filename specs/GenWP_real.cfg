SPECIFICATION InitOnly
CONSTANTS
  Configs <- RealConfigs
  ScriptLen = 0
  LongScripts = TRUE
  Ops <- AllOps
  Formats = {"xml"}
  Comps = {"plain"}
  Pools = {TRUE}
  Bounds = {2}
  Caps = {2}
  MaxAt = 0
  FaultKinds = {}
  FdFix = TRUE
  EmptyFix = TRUE
  GenFormats = {"xml", "opl", "pbf"}
  GenComps = {"plain", "gzip", "bzip2"}
  GenScriptLen = 2
INVARIANT ExportCfg
CHECK_DEADLOCK FALSE
