SPECIFICATION Spec
CONSTANTS
  MaxElems = 3
  MaxDepth = 6
  Fixed = TRUE
  ReadTypes = {"c"}
  ExportHist = TRUE
  Vocab = {"osm", "osmChange", "create", "modify", "delete", "node", "way", "relation", "changeset", "tag", "nd", "member", "discussion", "comment", "text", "bounds", "bbox", "foo"}
INVARIANTS TypeOK WellFormedCommitted BuilderDiscipline NoStaleBuilders ObjectMatchesStack Export
CHECK_DEADLOCK FALSE
