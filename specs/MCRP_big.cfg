SPECIFICATION Spec
CONSTANTS
  Configs <- TheConfigs
  Ns = {6}
  NestSets <- NestBig1
  Bounds <- BoundsBig
  Pools = {FALSE}
  Fds = {FALSE}
  ScriptLen = 1
  LongScripts = FALSE
  FdStop = TRUE
  SkipAll = FALSE
INVARIANTS LogIsExpected NoReadAfterClose HeaderOnce NoThreadLeft NoFdLeft QueueBounds
