\* behaviour export: every node list of length 0..6 over {p,q,r} x {unique,all} x {fwd,bwd} as linestring and as polygon
SPECIFICATION Spec
CONSTANTS
  Toks = {"p", "q", "r"}
  MaxLen = 6
  Kinds = {"linestring", "polygon"}
  RingCat <- CatTwo
  MaxOuter = 0
  MaxInner = 0
  MaxCalls = 1
  ExportHist = TRUE
INVARIANTS TypeOK Refines RegsOK NoEmptyList Export
CHECK_DEADLOCK FALSE
