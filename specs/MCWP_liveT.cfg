SPECIFICATION FairSpec
CONSTANTS
  Configs <- TheConfigs
  ScriptLen = 1
  LongScripts = TRUE
  Ops <- AllOps
  Formats = {"xml", "opl"}
  Comps = {"plain", "gzip", "bzip2"}
  Pools = {TRUE}
  Bounds = {1}
  Caps = {2}
  MaxAt = 9
  FaultKinds <- AllKinds
  FdFix = TRUE
  EmptyFix = TRUE
  GenFormats = {"xml", "opl"}
  GenComps = {"plain"}
  GenScriptLen = 1
PROPERTY Termination
