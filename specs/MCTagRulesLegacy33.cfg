\* C20 ext (specs/TagRules.tla), thorough: design check only; the complete product rule lists <= 3 (3 templates x 2 results) x tag lists <= 3 over 4 tags for the three legacy filters.  Deadlock checking stays on: every behaviour must reach phase "done".
SPECIFICATION Spec
CONSTANTS
  Fams <- Legacy
  Alpha <- AlphaLegacy
  Shapes <- ShapeTiny33
INVARIANTS TypeOK RefinesRules RefinesIter RefinesRest
