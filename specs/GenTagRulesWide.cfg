\* C20 ext (specs/TagRules.tla), quick+thorough: design check and export (vacuity guard: -coverage); TagsFilter with all 29 TagMatcher templates, one rule x every single tag of 49 and x tag lists <= 2 over 6 tags.  Deadlock checking stays on: every behaviour must reach phase "done".
SPECIFICATION Spec
CONSTANTS
  Fams <- OnlyTF
  Alpha <- AlphaAll5
  Shapes <- ShapeWide
INVARIANTS TypeOK RefinesRules RefinesIter RefinesRest Export
