SPECIFICATION Spec
CONSTANTS
  Shapes <- ShapesMC
  MaxCuts = 99
  TruncCuts = 99
  FixedSizes = {}
  ExportHist = FALSE
INVARIANTS WindowInv ResultInv
