---------------------------- MODULE Decompress ----------------------------
(***************************************************************************)
(* C09 - compressed input is decompressed completely and truncation is     *)
(* detected.                                                               *)
(*                                                                         *)
(* A-layer: a compressed file is a sequence of streams, each with a        *)
(* payload; the reference result is the concatenation of all payloads, or  *)
(* "error" when the file is a truncated / corrupted sequence of streams.   *)
(*                                                                         *)
(* Environment modules (the contracts libosmium relies on, scaled down):   *)
(*   StreamDecoder : one bz_stream / z_stream decoding one stream          *)
(*                   (BZ2_bzDecompress, inflate): consumes input, produces *)
(*                   output, reports STREAM_END, leaves avail_in behind.   *)
(*   Bz2File       : BZ2_bzRead on a FILE* - pulls R byte blocks, returns  *)
(*                   (n, OK | STREAM_END | error); BZ2_bzReadGetUnused;    *)
(*                   stdio position / EOF indicator.                       *)
(*   GzFile        : zlib's gzread/gzclose_r - continues over members,     *)
(*                   premature EOF = short count + Z_BUF_ERROR at close,   *)
(*                   no magic = transparent copy / trailing garbage.       *)
(*                                                                         *)
(* I-layer: one action per loop iteration / library return of              *)
(*   Bzip2Decompressor::read, GzipDecompressor::read/close,                *)
(*   Bzip2BufferDecompressor::read, GzipBufferDecompressor::read           *)
(* and of ReadThreadManager::run_in_thread ("an empty string ends the      *)
(* input").  Algo = "fixed" is the code after the F2/F3 repairs, "legacy"  *)
(* the code before them (kept so that TLC can show what was wrong).        *)
(***************************************************************************)
EXTENDS Integers, Sequences, FiniteSets, TLC, Json

CONSTANTS
    Kind,        \* "bz2fd" | "gzfd" | "bz2buf" | "gzbuf"
    Algo,        \* "fixed" | "legacy"
    R,           \* block size of libbz2's file layer (BZ_MAX_UNUSED = 5000 in reality)
    B,           \* piece size: Decompressor::input_buffer_size (fd) / 10240 (buffers)
    MaxStreams,  \* 1..MaxStreams concatenated streams
    CLens,       \* compressed lengths of a stream (>= 3: 2 magic bytes, body, 1 check byte)
    ULens,       \* payload lengths of a stream
    Faults,      \* subset of {"none", "trunc", "corrupt"}
    WChunks,     \* sizes of Compressor::write() calls for the round trip ({} = no round trip)
    MaxWrites,
    ExportHist   \* TRUE: keep the piece history and export finished behaviours

VARIABLES
    file,        \* the compressed file: streams, fault, environment choices
    pc,          \* control point
    wlog,        \* round trip: chunk sizes written so far
    \* --- environment state
    ipos,        \* absolute offset of the next byte the decoder will consume
    fpos,        \* bz2fd: stdio position (bytes fread so far); buffered = fpos - ipos
    eofInd,      \* bz2fd: stdio EOF indicator (feof)
    cur,         \* stream the current handle / stream object decodes
    din, dout,   \* bytes consumed / produced by the current stream object
    gzerr,       \* gzfd: "none" | "buf" | "data" | "blind" (premature EOF overlooked, see GzHead)
    direct,      \* gzfd: transparent mode
    got,         \* bytes produced so far by the running library call
    ret,         \* result of the last library call [n, st]
    \* --- implementation state
    iend,        \* m_stream_end / (m_buffer == nullptr)
    iter,        \* iterations of the loop in read() done in this call
    piece,       \* the string read() is building
    offset,      \* value passed to set_offset()
    delivered,   \* what ReadThread has put on the queue so far
    hist,        \* piece lengths (only when ExportHist)
    steps        \* number of steps taken (termination measure)

vars == <<file, pc, wlog, ipos, fpos, eofInd, cur, din, dout, gzerr, direct, got, ret,
          iend, iter, piece, offset, delivered, hist, steps>>

Min(a, b) == IF a < b THEN a ELSE b
H == 2                                   \* magic bytes at the start of every stream

IsFd  == Kind \in {"bz2fd", "gzfd"}
IsGz  == Kind \in {"gzfd", "gzbuf"}

-----------------------------------------------------------------------------
(* File model                                                              *)

Streams == [c : CLens, u : ULens]

RECURSIVE SumC(_, _)
SumC(ss, k) == IF k = 0 THEN 0 ELSE SumC(ss, k - 1) + ss[k].c

NS        == Len(file.streams)
End(k)    == SumC(file.streams, k)           \* End(0) = 0
Start(k)  == End(k - 1)
FullLen   == End(NS)
FLen      == IF file.fault.k = "trunc" THEN file.fault.at ELSE FullLen

\* absolute position of the corrupted byte (or -1)
CorruptAt == IF file.fault.k = "corrupt" THEN file.fault.at ELSE -1

FaultSet(ss) ==
    LET full == SumC(ss, Len(ss)) IN
      (IF "none" \in Faults THEN {[k |-> "none"]} ELSE {})
      \cup (IF "trunc" \in Faults THEN {[k |-> "trunc", at |-> t] : t \in 1..(full - 1)} ELSE {})
      \cup (IF "corrupt" \in Faults
              THEN {[k |-> "corrupt", at |-> p, late |-> FALSE] : p \in 0..(full - 1)}
                   \cup {[k |-> "corrupt", at |-> p, late |-> TRUE] :
                            p \in {q \in 0..(full - 1) : \A j \in 1..Len(ss) : q - SumC(ss, j - 1) \notin 0..(H - 1)}}
              ELSE {})

StreamSeqs == UNION {[1..n -> Streams] : n \in 1..MaxStreams}

\* environment choices that the contracts leave open:
\*  lazy : STREAM_END is reported by a later call when the last payload byte exactly filled the output
\*  eager: the decoder swallows all available input even when the output is already full (libbz2)
\*  blind: (gzread only, see GzHead) a call that starts with the input used up does not look for more

-----------------------------------------------------------------------------
(* A-layer: the reference decompressor                                     *)

RECURSIVE PayloadTo(_, _)
PayloadTo(ss, k) == IF k = 0 THEN <<>>
                    ELSE PayloadTo(ss, k - 1) \o [j \in 1..ss[k].u |-> <<k, j>>]

\* a file cut exactly between two streams is a valid (shorter) file
CutAtBoundary == file.fault.k = "trunc" /\ \E k \in 1..NS : End(k) = file.fault.at
BoundaryK     == CHOOSE k \in 1..NS : End(k) = file.fault.at

AVerdict == CASE file.fault.k = "none"    -> "ok"
              [] file.fault.k = "trunc"   -> IF CutAtBoundary THEN "ok" ELSE "error"
              [] file.fault.k = "corrupt" -> "error"

APayload == CASE file.fault.k = "trunc" /\ CutAtBoundary -> PayloadTo(file.streams, BoundaryK)
              [] OTHER -> PayloadTo(file.streams, NS)

\* Named deviation (open finding F3c): zlib's gz layer treats data without the gzip magic as
\* "not gzip": at the start of the file it copies it through unchanged, after a complete member
\* it ignores it as trailing garbage.  Faults that destroy a magic (corruption of one of its
\* two bytes, or a cut after its first byte) are therefore not reported by gzread/gzclose_r.
MagicHit(p) == \E k \in 1..NS : p \in Start(k)..(Start(k) + H - 1)
GzMagicLenient ==
    Kind = "gzfd" /\ \/ (file.fault.k = "corrupt" /\ MagicHit(file.fault.at))
                     \/ (file.fault.k = "trunc" /\ \E k \in 1..NS : file.fault.at = Start(k) + 1)

\* Named deviation (open finding F3d): gzread notices a premature end of the file only in a call that wants
\* more output than can be decoded.  If a call is filled exactly by the last byte that inflate hands out and
\* all input is used up, the next call returns 0 (see GzHead, environment choice "blind") and gzclose_r
\* reports Z_OK: the truncated file is accepted - complete when only check bytes are missing, shorter otherwise.
GzEofBlind == Kind = "gzfd" /\ gzerr = "blind"

GzLayerLenient == GzMagicLenient \/ GzEofBlind

-----------------------------------------------------------------------------
(* Environment: StreamDecoder (BZ2_bzDecompress / inflate on one stream)   *)

\* payload bytes that are decodable once i bytes of stream k have been consumed: nothing from the
\* magic, everything once only the check byte is missing, proportional in between
OutCap(k, i) ==
    LET c == file.streams[k].c
        u == file.streams[k].u
    IN IF i >= c - 1 THEN u
       ELSE IF i <= H THEN 0
       ELSE (u * (i - H)) \div (c - 1 - H)

\* One call.  k: stream, di/do: consumed/produced so far, ain: input bytes available to the call
\* (all of them belong to the file), aout: room in the output.  Result: consumed, produced, status.
Decode(k, di, do, ain, aout) ==
    IF k > NS THEN [ci |-> 0, po |-> 0, st |-> IF ain > 0 THEN "ERR" ELSE "OK"]   \* nothing / garbage
    ELSE
    LET c      == file.streams[k].c
        u      == file.streams[k].u
        maxIn  == Min(ain, c - di)
        po     == Min(aout, OutCap(k, di + maxIn) - do)
        full   == po = aout
        need   == CHOOSE i \in 0..maxIn : /\ OutCap(k, di + i) >= do + po
                                          /\ \A j \in 0..(i - 1) : OutCap(k, di + j) < do + po
        allOut == do + po = u
        canEnd == di + maxIn = c
        \* output full: stop there (inflate) or swallow the rest of the input (libbz2);
        \* when the payload is complete and the check byte is there both go on to STREAM_END unless lazy
        ci     == IF ~full THEN maxIn
                  ELSE IF allOut /\ canEnd /\ ~file.lazy THEN maxIn
                  ELSE IF file.eager THEN maxIn ELSE need
        \* corruption: noticed when the bad byte is consumed, or (late) when the check byte is
        p      == CorruptAt - Start(k)
        bad    == CorruptAt >= 0 /\ p >= 0 /\ p < c
        early  == bad /\ (p < H \/ ~file.fault.late)
        hitE   == early /\ p >= di /\ p < di + ci
        hitL   == bad /\ ~early /\ di < c /\ di + ci = c
        ended  == di + ci = c /\ allOut /\ (~full \/ ~file.lazy)
    IN IF hitE THEN [ci |-> p - di + 1, po |-> 0, st |-> "ERR"]
       ELSE IF hitL THEN [ci |-> ci, po |-> 0, st |-> "ERR"]
       ELSE [ci |-> ci, po |-> po, st |-> IF ended THEN "END" ELSE "OK"]

Bytes(k, from, n) == [j \in 1..n |-> <<k, from + j>>]

-----------------------------------------------------------------------------
(* Initial states                                                          *)

EnvInit ==
    /\ ipos = 0 /\ fpos = 0 /\ eofInd = FALSE /\ cur = 1 /\ din = 0 /\ dout = 0
    /\ gzerr = "none" /\ direct = FALSE /\ got = 0 /\ ret = [n |-> 0, st |-> "OK"]
    /\ iend = FALSE /\ iter = 0 /\ piece = <<>> /\ offset = 0 /\ delivered = <<>> /\ hist = <<>> /\ steps = 0

NoFile == [streams |-> <<>>, fault |-> [k |-> "none"], lazy |-> FALSE, eager |-> FALSE, blind |-> FALSE]

\* (one initial state + a ChooseFile step instead of |Files| initial states: TLC generates initial
\* states sequentially and slowly; the nested quantifiers avoid building the set of all files)
Init ==
    /\ wlog = <<>>
    /\ file = NoFile
    /\ pc = IF WChunks = {} THEN "choose" ELSE "write"
    /\ EnvInit

ChooseFile ==
    /\ pc = "choose"
    /\ \E ss \in StreamSeqs : \E f \in FaultSet(ss) : \E lz \in BOOLEAN, eg \in BOOLEAN :
         \E bl \in (IF Kind = "gzfd" /\ f.k = "trunc" THEN BOOLEAN ELSE {FALSE}) :
          file' = [streams |-> ss, fault |-> f, lazy |-> lz, eager |-> eg, blind |-> bl]
    /\ pc' = "rt"
    /\ steps' = steps + 1
    /\ UNCHANGED <<wlog, ipos, fpos, eofInd, cur, din, dout, gzerr, direct, got, ret,
                   iend, iter, piece, offset, delivered, hist>>

-----------------------------------------------------------------------------
(* Round trip: the library's own compressor writes one stream              *)

RECURSIVE SumSeq(_)
SumSeq(s) == IF s = <<>> THEN 0 ELSE Head(s) + SumSeq(Tail(s))

CWrite(sz) ==
    /\ pc = "write" /\ Len(wlog) < MaxWrites
    /\ wlog' = Append(wlog, sz)
    /\ steps' = steps + 1
    /\ UNCHANGED <<file, pc, ipos, fpos, eofInd, cur, din, dout, gzerr, direct, got, ret,
                   iend, iter, piece, offset, delivered, hist>>

\* close() finishes the stream: payload = everything written, in order; some compressed length
CClose ==
    /\ pc = "write"
    /\ \E c \in CLens, lz \in BOOLEAN, eg \in BOOLEAN :
          file' = [streams |-> <<[c |-> c, u |-> SumSeq(wlog)]>>, fault |-> [k |-> "none"],
                   lazy |-> lz, eager |-> eg, blind |-> FALSE]
    /\ pc' = "rt"
    /\ steps' = steps + 1
    /\ UNCHANGED <<wlog, ipos, fpos, eofInd, cur, din, dout, gzerr, direct, got, ret,
                   iend, iter, piece, offset, delivered, hist>>

-----------------------------------------------------------------------------
(* ReadThreadManager::run_in_thread                                        *)

RTRead ==
    /\ pc = "rt"
    /\ pc' = "head" /\ piece' = <<>> /\ iter' = 0
    /\ steps' = steps + 1
    /\ UNCHANGED <<file, wlog, ipos, fpos, eofInd, cur, din, dout, gzerr, direct, got, ret,
                   iend, offset, delivered, hist>>

\* read() returned: an empty string ends the input (close() follows), anything else is queued
ReadRet ==
    /\ pc = "ret"
    /\ IF piece = <<>> THEN pc' = "closing" /\ UNCHANGED delivered
                       ELSE pc' = "rt" /\ delivered' = delivered \o piece
    /\ piece' = <<>>
    /\ hist' = IF ExportHist THEN Append(hist, Len(piece)) ELSE hist
    /\ steps' = steps + 1
    /\ UNCHANGED <<file, wlog, ipos, fpos, eofInd, cur, din, dout, gzerr, direct, got, ret,
                   iend, iter, offset>>

\* Decompressor::close(): only gzclose_r reports anything (Z_BUF_ERROR after a premature EOF)
Close ==
    /\ pc = "closing"
    /\ pc' = IF Kind = "gzfd" /\ gzerr = "buf" THEN "error" ELSE "ok"
    /\ steps' = steps + 1
    /\ UNCHANGED <<file, wlog, ipos, fpos, eofInd, cur, din, dout, gzerr, direct, got, ret,
                   iend, iter, piece, offset, delivered, hist>>

-----------------------------------------------------------------------------
(* Bzip2Decompressor::read over Bz2File                                    *)

\* loop head of read(): fixed = while (!m_stream_end && buffer.empty()); legacy = if (!m_stream_end)
Bz2Head ==
    /\ Kind = "bz2fd" /\ pc = "head"
    /\ IF ~iend /\ piece = <<>> /\ (Algo = "fixed" \/ iter = 0)
         THEN pc' = "lib" /\ got' = 0 /\ iter' = iter + 1 /\ UNCHANGED offset
         ELSE pc' = "ret" /\ offset' = fpos /\ UNCHANGED <<got, iter>>          \* set_offset(ftell())
    /\ steps' = steps + 1
    /\ UNCHANGED <<file, wlog, ipos, fpos, eofInd, cur, din, dout, gzerr, direct, ret,
                   iend, piece, delivered, hist>>

\* BZ2_bzRead, top of its loop: if (avail_in == 0 && !myfeof(f)) fread(buf, 1, R, f)
Bz2Fill ==
    /\ Kind = "bz2fd" /\ pc = "lib"
    /\ IF fpos = ipos /\ fpos < FLen
         THEN LET n == Min(R, FLen - fpos) IN
              /\ fpos' = fpos + n
              /\ eofInd' = (eofInd \/ n < R)             \* short fread sets the EOF indicator
         ELSE /\ fpos' = fpos
              /\ eofInd' = (eofInd \/ (fpos = ipos /\ fpos = FLen))   \* the peek of myfeof hit EOF
    /\ pc' = "dec"
    /\ steps' = steps + 1
    /\ UNCHANGED <<file, wlog, ipos, cur, din, dout, gzerr, direct, got, ret,
                   iend, iter, piece, offset, delivered, hist>>

\* ... then BZ2_bzDecompress and the four exits of the loop
Bz2Dec ==
    /\ Kind = "bz2fd" /\ pc = "dec"
    /\ LET r  == Decode(cur, din, dout, fpos - ipos, B - got)
           g2 == got + r.po
           ip == ipos + r.ci
       IN /\ ipos' = ip /\ din' = din + r.ci /\ dout' = dout + r.po /\ got' = g2
          /\ piece' = piece \o Bytes(cur, dout, r.po)
          /\ eofInd' = (eofInd \/ (r.st = "OK" /\ fpos = FLen))       \* myfeof evaluated when ret == BZ_OK
          /\ CASE r.st = "ERR" -> pc' = "after" /\ ret' = [n |-> 0, st |-> "DATA_ERROR"]
               [] r.st = "OK" /\ fpos = FLen /\ fpos = ip /\ g2 < B
                               -> pc' = "after" /\ ret' = [n |-> 0, st |-> "UNEXPECTED_EOF"]
               [] r.st = "END" -> pc' = "after" /\ ret' = [n |-> g2, st |-> "STREAM_END"]
               [] r.st = "OK" /\ g2 = B /\ ~(fpos = FLen /\ fpos = ip /\ g2 < B)
                               -> pc' = "after" /\ ret' = [n |-> g2, st |-> "OK"]
               [] OTHER        -> pc' = "lib" /\ UNCHANGED ret
    /\ steps' = steps + 1
    /\ UNCHANGED <<file, wlog, fpos, cur, gzerr, direct, iend, iter, offset, delivered, hist>>

\* back in read(): the case split on the result of BZ2_bzRead
Bz2After ==
    /\ Kind = "bz2fd" /\ pc = "after"
    /\ IF ret.st \notin {"OK", "STREAM_END"}
         THEN pc' = "error" /\ UNCHANGED <<cur, din, dout, iend, eofInd>>
         ELSE
           /\ pc' = "head"
           /\ IF ret.st = "STREAM_END"
                THEN LET unused == fpos - ipos                       \* BZ2_bzReadGetUnused
                         reopen == IF Algo = "fixed"
                                     THEN unused # 0 \/ fpos < FLen      \* ... || !at_end_of_file()
                                     ELSE ~eofInd /\ unused # 0          \* if (!feof) { if (num_unused != 0)
                     IN /\ IF reopen THEN cur' = cur + 1 /\ din' = 0 /\ dout' = 0 /\ UNCHANGED iend
                                     ELSE iend' = TRUE /\ UNCHANGED <<cur, din, dout>>
                        \* the peek of at_end_of_file() sets the indicator at EOF
                        /\ eofInd' = (eofInd \/ (Algo = "fixed" /\ unused = 0 /\ fpos = FLen))
                ELSE UNCHANGED <<cur, din, dout, iend, eofInd>>
    /\ steps' = steps + 1
    /\ UNCHANGED <<file, wlog, ipos, fpos, gzerr, direct, got, ret, iter, piece, offset, delivered, hist>>

-----------------------------------------------------------------------------
(* GzipDecompressor::read over GzFile                                      *)

GzHead ==
    /\ Kind = "gzfd" /\ pc = "head"
    /\ IF iter = 0
         THEN IF gzerr = "data"
                THEN pc' = "after" /\ ret' = [n |-> -1, st |-> "ERR"] /\ UNCHANGED <<got, gzerr>>   \* gzread: sticky error
                ELSE IF file.blind /\ ipos = FLen /\ din > 0 /\ gzerr = "none"
                \* gz_read: "if (state->eof && strm->avail_in == 0) { past = 1; break; }" - when the previous call
                \* was filled exactly, all input is used up and zlib has already seen the end of the file, gzread
                \* returns 0 without asking inflate again, so the unfinished member goes unnoticed (F3d)
                THEN pc' = "after" /\ ret' = [n |-> 0, st |-> "OK"] /\ got' = 0 /\ gzerr' = "blind"
                ELSE pc' = "lib" /\ got' = 0 /\ UNCHANGED <<ret, gzerr>>
         ELSE pc' = "ret" /\ UNCHANGED <<got, ret, gzerr>>
    /\ iter' = iter + 1
    /\ steps' = steps + 1
    /\ UNCHANGED <<file, wlog, ipos, fpos, eofInd, cur, din, dout, direct,
                   iend, piece, offset, delivered, hist>>

\* gzread at the start of a member (gz_look): end of file, a gzip member, or "not gzip"
GzLook ==
    /\ Kind = "gzfd" /\ pc = "lib" /\ din = 0 /\ ~direct
    /\ LET avail == FLen - ipos
           magic == avail >= H /\ cur <= NS /\ ~(CorruptAt >= ipos /\ CorruptAt < ipos + H)
       IN CASE avail = 0 -> pc' = "after" /\ ret' = [n |-> got, st |-> "OK"] /\ UNCHANGED <<direct, ipos>>
            [] avail > 0 /\ magic -> pc' = "dec" /\ UNCHANGED <<ret, direct, ipos>>
            [] avail > 0 /\ ~magic /\ cur = 1 -> pc' = "dec" /\ direct' = TRUE /\ UNCHANGED <<ret, ipos>>
            [] OTHER -> \* trailing garbage after a complete member is ignored
                        pc' = "after" /\ ret' = [n |-> got, st |-> "OK"] /\ ipos' = FLen /\ UNCHANGED direct
    /\ steps' = steps + 1
    /\ UNCHANGED <<file, wlog, fpos, eofInd, cur, din, dout, gzerr, got, iend, iter, piece,
                   offset, delivered, hist>>

\* gzread inside a member (gz_decomp / transparent copy) until the request is filled
GzMember ==
    /\ Kind = "gzfd" /\ pc \in {"lib", "dec"} /\ (pc = "dec" \/ din > 0 \/ direct)
    /\ IF direct
         THEN LET n == Min(B - got, FLen - ipos) IN
              /\ ipos' = ipos + n /\ got' = got + n
              /\ piece' = piece \o [j \in 1..n |-> <<0, ipos + j>>]       \* raw file bytes
              /\ pc' = "after" /\ ret' = [n |-> got + n, st |-> "OK"]
              /\ UNCHANGED <<din, dout, cur, gzerr>>
         ELSE LET r  == Decode(cur, din, dout, FLen - ipos, B - got)
                  g2 == got + r.po
              IN /\ ipos' = ipos + r.ci /\ got' = g2
                 /\ piece' = piece \o Bytes(cur, dout, r.po)
                 /\ CASE r.st = "ERR" -> /\ gzerr' = "data" /\ pc' = "after"
                                         /\ ret' = IF g2 = 0 THEN [n |-> -1, st |-> "ERR"] ELSE [n |-> g2, st |-> "OK"]
                                         /\ din' = din + r.ci /\ dout' = dout + r.po /\ UNCHANGED cur
                      [] r.st = "END" -> /\ cur' = cur + 1 /\ din' = 0 /\ dout' = 0 /\ UNCHANGED gzerr
                                         /\ IF g2 = B THEN pc' = "after" /\ ret' = [n |-> g2, st |-> "OK"]
                                                      ELSE pc' = "lib" /\ UNCHANGED ret
                      [] r.st = "OK" /\ g2 = B -> /\ pc' = "after" /\ ret' = [n |-> g2, st |-> "OK"]
                                                  /\ din' = din + r.ci /\ dout' = dout + r.po /\ UNCHANGED <<cur, gzerr>>
                      [] OTHER -> \* input exhausted inside a member: "unexpected end of file"
                                  /\ gzerr' = "buf" /\ pc' = "after" /\ ret' = [n |-> g2, st |-> "OK"]
                                  /\ din' = din + r.ci /\ dout' = dout + r.po /\ UNCHANGED cur
    /\ steps' = steps + 1
    /\ UNCHANGED <<file, wlog, fpos, eofInd, direct, iend, iter, offset, delivered, hist>>

GzAfter ==
    /\ Kind = "gzfd" /\ pc = "after"
    /\ IF ret.n < 0 THEN pc' = "error" /\ UNCHANGED offset
                    ELSE pc' = "head" /\ offset' = ipos                   \* set_offset(gzoffset())
    /\ steps' = steps + 1
    /\ UNCHANGED <<file, wlog, ipos, fpos, eofInd, cur, din, dout, gzerr, direct, got, ret,
                   iend, iter, piece, delivered, hist>>

-----------------------------------------------------------------------------
(* Bzip2BufferDecompressor::read / GzipBufferDecompressor::read            *)

BufHead ==
    /\ Kind \in {"bz2buf", "gzbuf"} /\ pc = "head"
    /\ IF ~iend /\ piece = <<>> /\ (Algo = "fixed" \/ iter = 0)
         THEN pc' = "lib" /\ iter' = iter + 1
         ELSE pc' = "ret" /\ UNCHANGED iter
    /\ steps' = steps + 1
    /\ UNCHANGED <<file, wlog, ipos, fpos, eofInd, cur, din, dout, gzerr, direct, got, ret,
                   iend, piece, offset, delivered, hist>>

\* one BZ2_bzDecompress / inflate(Z_SYNC_FLUSH) call on the whole rest of the buffer
BufDec ==
    /\ Kind \in {"bz2buf", "gzbuf"} /\ pc = "lib"
    /\ LET r == Decode(cur, din, dout, FLen - ipos, B)
           \* zlib reports a call without any progress as Z_BUF_ERROR, libbz2 returns BZ_OK
           st == IF IsGz /\ r.st = "OK" /\ r.ci = 0 /\ r.po = 0 THEN "BUF_ERROR" ELSE r.st
       IN /\ ipos' = ipos + r.ci /\ din' = din + r.ci /\ dout' = dout + r.po
          /\ piece' = piece \o Bytes(cur, dout, r.po)
          /\ ret' = [n |-> r.po, st |-> st]
    /\ pc' = "after"
    /\ steps' = steps + 1
    /\ UNCHANGED <<file, wlog, fpos, eofInd, cur, gzerr, direct, got, iend, iter, offset, delivered, hist>>

BufAfter ==
    /\ Kind \in {"bz2buf", "gzbuf"} /\ pc = "after"
    /\ LET availIn  == FLen - ipos
           availOut == B - ret.n
           \* fixed: all input used up before the end of the stream
           st1 == IF Algo = "fixed" /\ ret.st = "OK" /\ availIn = 0 /\ availOut # 0 THEN "TRUNC" ELSE ret.st
           \* fixed: another stream follows -> new stream object on the rest of the input
           again == Algo = "fixed" /\ st1 = "END" /\ availIn # 0
       IN IF again
            THEN /\ cur' = cur + 1 /\ din' = 0 /\ dout' = 0
                 /\ pc' = "head" /\ UNCHANGED iend
            ELSE /\ UNCHANGED <<cur, din, dout>>
                 /\ iend' = (iend \/ st1 # "OK")
                 /\ pc' = IF st1 \in {"OK", "END"} THEN "head" ELSE "error"
    /\ steps' = steps + 1
    /\ UNCHANGED <<file, wlog, ipos, fpos, eofInd, gzerr, direct, got, ret, iter, piece,
                   offset, delivered, hist>>

-----------------------------------------------------------------------------

Final == pc \in {"ok", "error"}

Terminated == Final /\ UNCHANGED vars

Step ==
    \/ ChooseFile
    \/ \E sz \in WChunks : CWrite(sz)
    \/ CClose
    \/ RTRead \/ ReadRet \/ Close
    \/ Bz2Head \/ Bz2Fill \/ Bz2Dec \/ Bz2After
    \/ GzHead \/ GzLook \/ GzMember \/ GzAfter
    \/ BufHead \/ BufDec \/ BufAfter

Next == Step \/ Terminated

Spec     == Init /\ [][Next]_vars
FairSpec == Spec /\ WF_vars(Step)

-----------------------------------------------------------------------------
(* What TLC checks (I => A)                                                *)

TypeOK ==
    /\ pc \in {"choose", "write", "rt", "head", "lib", "dec", "after", "ret", "closing", "ok", "error"}
    /\ ipos >= 0 /\ din >= 0 /\ dout >= 0 /\ got >= 0 /\ got <= B
    /\ Len(piece) <= B

IsPrefix(s, t) == Len(s) <= Len(t) /\ \A i \in 1..Len(s) : s[i] = t[i]

Reading == pc \notin {"choose", "write"}

\* what has been handed on is always the beginning of the reference output
PrefixInv == (Reading /\ file.fault.k # "corrupt" /\ ~GzLayerLenient) => IsPrefix(delivered \o piece, PayloadTo(file.streams, NS))

\* the read offset never exceeds the size of the file
OffsetInv == Reading => (offset <= FLen /\ ipos <= FLen /\ fpos <= FLen)

\* an empty piece (= end of input) only at the true end, complete output, faults are errors
Correct ==
    (Reading /\ ~GzLayerLenient) =>
        /\ (pc = "ok" => AVerdict = "ok" /\ delivered = APayload)
        /\ (pc = "error" => AVerdict = "error")
        /\ (pc = "closing" /\ AVerdict = "ok" => delivered = APayload)

\* whatever the library's own compressor wrote is read back identically
RoundTrip ==
    (WChunks # {} /\ pc = "ok") => delivered = [j \in 1..SumSeq(wlog) |-> <<1, j>>]

\* the named deviation is real: the model of zlib's gz layer accepts those files
LenientOnly == (Reading /\ GzMagicLenient /\ pc = "error") => FALSE

Termination == <>Final

\* Termination without a liveness check: TLC's deadlock check shows that every state that is not Final
\* has a successor, and the number of steps is bounded by a function of the file (so no cycles).
Bounded == steps <= 8 * (FullLen + Len(PayloadTo(file.streams, NS)) + NS + Len(wlog)) + 12

-----------------------------------------------------------------------------
(* Export of finished behaviours for the replay harness                    *)

Export ==
    \* (the expected outcome does not depend on the environment's choices: one line per file and fault)
    (ExportHist /\ Final /\ ~file.lazy /\ ~file.eager /\ ~file.blind /\ (file.fault.k = "corrupt" => ~file.fault.late)) =>
        PrintT(<<"CASE", ToJson([kind    |-> Kind,
                                 streams |-> file.streams,
                                 fault   |-> file.fault,
                                 wlog    |-> wlog,
                                 exp     |-> [verdict |-> AVerdict,
                                              nstreams |-> IF file.fault.k = "trunc" /\ CutAtBoundary THEN BoundaryK ELSE NS,
                                              len |-> Len(APayload)],
                                 model   |-> [verdict |-> pc, pieces |-> hist, lenient |-> GzMagicLenient,
                                              len |-> Len(delivered)]])>>)

=============================================================================
