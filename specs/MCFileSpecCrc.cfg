SPECIFICATION Spec
CONSTANTS
  Contents <- ContentsAll
  MemVariants <- MemAll
  RtOptions <- RtAll
  ExportHist = FALSE
INVARIANTS LayoutIndependent FeedSeesContent HasBlindSpots
