---------------------------- MODULE RoundTrip ----------------------------
(* C01.  Write-then-read round trip through osmium::io::Writer / osmium::io::Reader.

   What is decided here is the STRUCTURAL half: the option matrix, which fields every format/option combination
   carries (A-layer: Project), and the state machines that make objects interact inside a file (I-layer): the PBF
   PrimitiveBlock (type, count, size, can_add gate, per-block string table, per-block dense-node delta registers, the
   size check when the blob is serialized) with the decoder mirroring it, and the attribute-presence rules of the
   XML / XML-change / OPL writers with their parsers.  Values are tokens ("0" = the default, "v" = some non-default
   value; locations "undef" / "valid" / "ext" = defined but outside +-180/+-90); the replay harness instantiates
   them with boundary values.

   An input element is a RUN of n equally shaped objects (n = 7999/8000/8001 for the block-count border; the heavy
   classes "med"/"big"/"str"/"dtag" for the block-size border), sizes are bytes in the Writer's own measure.

   A-layer:  AOutcome / Project / ProjectHeader.     I-layer: the actions below, one per API call or loop iteration:
     Open(o)            Writer::Writer (writes the header)
     Feed(e)            Writer::operator() for the next run of objects
     PbfGate            PBFOutputFormat::switch_primitive_block_type  (can_add, store_primitive_block, new block)
     PbfAdd             PBFOutputFormat::node/way/relation adding the objects the gate admits
     TextWrite          XMLOutputBlock / OPLOutputBlock for the run
     Close              Writer::close -> write_end -> store_primitive_block
     ReadHeader         Reader::header
     ReadBlob           PBFParser::parse_data_blobs + PBFPrimitiveBlockDecoder for one blob
     ReadText           XMLParser / OPLParser for one record run
     Finish             Reader::read returns the end-of-data buffer

   Named deviations (the code knowingly differs from "everything comes back", the spec models the code):
     D1  PBF: a node that comes back invisible carries no location (decoder drops it, pbf_decoder.hpp:365,729).
     D2  OPL: a node location outside the valid range is written but dropped by the parser (opl_parse_node:
         `if (location.valid())`); with locations on ways the OPL writer refuses such a location (invalid_location).
     D3  PBF carries one joined header bounding box; OPL carries no header at all.
     D4  XML: the user name of an anonymous changeset (uid 0) is not written.                                     *)
EXTENDS Integers, Sequences, FiniteSets, TLC, Json

CONSTANTS Options,       \* set of option vectors [fmt, dense, comp, md, hist, low, fcomp]
          Elements,      \* alphabet of input elements
          FixedInputs,   \* set of input sequences to follow; {} = every sequence over Elements up to MaxLen
          MaxLen,
          MaxBlob,       \* max_uncompressed_blob_size            33554432
          GateSize,      \* PrimitiveBlock::max_used_blob_size     31876710  (95 %)
          MaxEntities,   \* max_entities_per_block                8000
          Sizes,         \* [tiny, med, big, str, dtag |-> bytes one object of the class adds to PrimitiveBlock::size()]
          Tolerance,     \* a gate / limit decision closer than this to its threshold is not exported (harness sizes are nominal)
          PostCheck,     \* TRUE: SerializeBlob refuses a block above MaxBlob (the code after the F7 fix); FALSE: it is written
          ExportHist

VARIABLES pc, opt, input, pend,
          blk, blobs,          \* PBF writer: open block, blobs written (header blob is hdr)
          recs,                \* text writers: record runs written
          hdr,                 \* the header as written
          werr,                \* the Writer reported an error
          bi, out, rhdr, rerr, \* Reader: next blob / record, objects delivered, header delivered, Reader error
          robust, steps, hist
vars == <<pc, opt, input, pend, blk, blobs, recs, hdr, werr, bi, out, rhdr, rerr, robust, steps, hist>>

MdFields == {"version", "timestamp", "changeset", "uid", "user"}
NoOpt == [fmt |-> "none"]
NoBlk == [type |-> "none"]
Min(a, b) == IF a < b THEN a ELSE b
VisTok(b) == IF b THEN "true" ELSE "false"
IsPbf(o) == o.fmt = "pbf"
IsXml(o) == o.fmt \in {"xml", "xmlchange"}

(***************************************************************************)
(* A-layer                                                                 *)
(***************************************************************************)
Md(o, f, tok) == IF f \in o.md THEN tok ELSE "0"

\* which visibility comes back
ProjVis(o, e) == CASE o.fmt = "pbf" -> IF o.hist THEN e.vis ELSE TRUE
                   [] o.fmt = "xml" -> IF o.hist THEN e.vis ELSE TRUE
                   [] o.fmt = "xmlchange" -> e.vis                       \* <delete> section
                   [] o.fmt = "opl" -> IF o.md # {} THEN e.vis ELSE TRUE  \* dV/dD is written with any metadata

Project(o, e) ==
    IF e.t = "changeset"
    THEN [e EXCEPT !.disc = IF o.fmt = "xml" THEN e.disc ELSE 0,                                 \* only XML carries discussions
                   !.user = IF o.fmt = "xml" /\ e.uid = "0" THEN "0" ELSE e.user]                \* D4
    ELSE [e EXCEPT !.ver = Md(o, "version", e.ver), !.ts = Md(o, "timestamp", e.ts), !.cs = Md(o, "changeset", e.cs),
                   !.uid = Md(o, "uid", e.uid), !.user = Md(o, "user", e.user),
                   !.vis = ProjVis(o, e),
                   !.loc = CASE o.fmt = "pbf" /\ ~ProjVis(o, e) -> "undef"                       \* D1
                             [] o.fmt = "opl" /\ e.loc = "ext" -> "undef"                        \* D2
                             [] OTHER -> e.loc,
                   !.rloc = IF o.low THEN e.rloc ELSE "undef"]

\* the input is outside what the format can express and the Writer has to say so
MustReject(o, e) == o.fmt = "opl" /\ o.low /\ e.t = "way" /\ e.refs > 0 /\ e.rloc = "ext"       \* D2

\* domain of the property
InDomain(o, e) == /\ (e.t = "changeset" => o.fmt \in {"xml", "opl"})
                  /\ (e.cls # "tiny" => IsPbf(o))                      \* the heavy classes are about PBF blocks
                  /\ (e.t = "changeset" /\ e.uid = "0" => e.user = "0") \* anonymous changesets have no user name

AOutcome(o, in) == IF \E i \in 1..Len(in) : MustReject(o, in[i]) THEN "writer_error" ELSE "ok"

ProjectHeader(o) == [generator |-> IF o.fmt = "opl" THEN "none" ELSE "keep",
                     boxes |-> CASE IsXml(o) -> "all" [] IsPbf(o) -> "joined" [] OTHER -> "none"]   \* D3

\* run-length normal form: adjacent runs of equal objects are one run
RECURSIVE Norm(_)
Norm(s) == IF Len(s) <= 1 THEN s
           ELSE LET r == Norm(Tail(s)) IN
                IF Head(s).obj = Head(r).obj THEN <<[obj |-> Head(s).obj, k |-> Head(s).k + Head(r).k]>> \o Tail(r)
                ELSE <<Head(s)>> \o r
Obj(e) == [e EXCEPT !.n = 1]
AExpected(o, in) == Norm([i \in 1..Len(in) |-> [obj |-> Obj(Project(o, in[i])), k |-> in[i].n]])

(***************************************************************************)
(* I-layer: PBF                                                            *)
(***************************************************************************)
GroupType(o, e) == IF e.t = "node" THEN (IF o.dense THEN "dense" ELSE "nodes") ELSE IF e.t = "way" THEN "ways" ELSE "relations"
SizeOf(e) == Sizes[e.cls]
ZeroRegs == [ts |-> "0", cs |-> "0", uid |-> "0", usid |-> 0, loc |-> "zero"]
NewBlock(ty) == [type |-> ty, count |-> 0, size |-> 0, tbl |-> <<"">>, grp |-> <<>>, regs |-> ZeroRegs]

\* PrimitiveBlock::can_add
CanAdd(b, ty) == b.type = ty /\ b.count < MaxEntities /\ b.size < GateSize

\* StringTable::add: index of s, appended when new
Idx(tbl, s) == IF \E i \in 1..Len(tbl) : tbl[i] = s THEN (CHOOSE i \in 1..Len(tbl) : tbl[i] = s) - 1 ELSE Len(tbl)
Add(tbl, s) == IF \E i \in 1..Len(tbl) : tbl[i] = s THEN tbl ELSE Append(tbl, s)
\* the strings of an object in the order the encoder stores them (the user name only with add_metadata=user)
UserStr(e) == IF e.user = "v" THEN "user" ELSE ""
StrsOf(o, e) == (IF "user" \in o.md THEN <<UserStr(e)>> ELSE <<>>)
                \o (IF e.tags > 0 THEN <<"key", "val">> ELSE <<>>) \o (IF e.mem > 0 THEN <<"role">> ELSE <<>>)
RECURSIVE AddAll(_, _)
AddAll(tbl, ss) == IF ss = <<>> THEN tbl ELSE AddAll(Add(tbl, Head(ss)), Tail(ss))

\* one encoded run of k objects in a primitive group; fields that are not written are "absent"
PbfEncode(o, e, tbl, regs) ==
    LET info == o.md # {} \/ o.hist
        dn == GroupType(o, e) = "dense"
        P(f, tok) == IF f \in o.md THEN tok ELSE "absent" IN
    [t |-> e.t, cls |-> e.cls, dense |-> dn, info |-> info,
     ver |-> P("version", e.ver),
     ts |-> P("timestamp", e.ts), cs |-> P("changeset", e.cs), uid |-> P("uid", e.uid),
     usid |-> IF "user" \in o.md THEN Idx(tbl, UserStr(e)) ELSE -1,
     vis |-> IF o.hist THEN VisTok(e.vis) ELSE "absent",
     loc |-> e.loc,                                         \* lat/lon are always written, also for invisible nodes
     from |-> IF dn THEN regs ELSE ZeroRegs,                \* dense nodes: the values the deltas are taken against
     tags |-> e.tags, ksid |-> IF e.tags > 0 THEN Idx(tbl, "key") ELSE -1, vsid |-> IF e.tags > 0 THEN Idx(tbl, "val") ELSE -1,
     refs |-> e.refs, rloc |-> IF o.low /\ e.t = "way" THEN e.rloc ELSE "absent",
     mem |-> e.mem, rsid |-> IF e.mem > 0 THEN Idx(tbl, "role") ELSE -1]

RegsAfter(o, e, tbl, regs) ==
    IF GroupType(o, e) # "dense" THEN regs
    ELSE [ts |-> IF "timestamp" \in o.md THEN e.ts ELSE regs.ts, cs |-> IF "changeset" \in o.md THEN e.cs ELSE regs.cs,
          uid |-> IF "uid" \in o.md THEN e.uid ELSE regs.uid,
          usid |-> IF "user" \in o.md THEN Idx(tbl, UserStr(e)) ELSE regs.usid, loc |-> e.loc]

\* the decoder knows the blob only: string table, group type, entries; its own delta registers
At(tbl, i) == IF i >= 0 /\ i < Len(tbl) THEN tbl[i + 1] ELSE "OUT-OF-RANGE"
Delta(reg, from, to) == IF reg = from THEN to ELSE "GARBAGE"
Dflt(x) == IF x = "absent" THEN "0" ELSE x
PbfDecode(enc, tbl, dregs) ==
    LET vis == IF enc.info /\ enc.vis = "false" THEN FALSE ELSE TRUE
        ts == IF enc.ts = "absent" THEN "0" ELSE IF enc.dense THEN Delta(dregs.ts, enc.from.ts, enc.ts) ELSE enc.ts
        cs == IF enc.cs = "absent" THEN "0" ELSE IF enc.dense THEN Delta(dregs.cs, enc.from.cs, enc.cs) ELSE enc.cs
        uid == IF enc.uid = "absent" THEN "0" ELSE IF enc.dense THEN Delta(dregs.uid, enc.from.uid, enc.uid) ELSE enc.uid
        usid == IF enc.usid = -1 THEN 0 ELSE IF enc.dense THEN (IF dregs.usid = enc.from.usid THEN enc.usid ELSE -7) ELSE enc.usid
        loc == IF enc.dense THEN Delta(dregs.loc, enc.from.loc, enc.loc) ELSE enc.loc
        user == At(tbl, usid) IN
    [t |-> enc.t, n |-> 1, cls |-> enc.cls,
     ver |-> Dflt(enc.ver), ts |-> ts, cs |-> cs, uid |-> uid,
     user |-> IF user = "" THEN "0" ELSE IF user = "user" THEN "v" ELSE user,
     vis |-> vis,
     loc |-> IF enc.t # "node" THEN "undef" ELSE IF vis THEN loc ELSE "undef",           \* D1
     refs |-> enc.refs, rloc |-> IF enc.rloc = "absent" THEN "undef" ELSE enc.rloc,
     mem |-> enc.mem, tags |-> enc.tags,
     closed |-> "0", bounds |-> "undef", nch |-> "0", ncm |-> "0", disc |-> 0]
DRegsAfter(enc, dregs) ==
    IF ~enc.dense THEN dregs
    ELSE [ts |-> IF enc.ts = "absent" THEN dregs.ts ELSE Delta(dregs.ts, enc.from.ts, enc.ts),
          cs |-> IF enc.cs = "absent" THEN dregs.cs ELSE Delta(dregs.cs, enc.from.cs, enc.cs),
          uid |-> IF enc.uid = "absent" THEN dregs.uid ELSE Delta(dregs.uid, enc.from.uid, enc.uid),
          usid |-> IF enc.usid = -1 THEN dregs.usid ELSE IF dregs.usid = enc.from.usid THEN enc.usid ELSE -7,
          loc |-> Delta(dregs.loc, enc.from.loc, enc.loc)]
\* indices an entry refers to are inside the table of its own block and resolve to the strings that were meant
RefsOk(enc, tbl) == /\ (enc.ksid # -1 => At(tbl, enc.ksid) = "key" /\ At(tbl, enc.vsid) = "val")
                    /\ (enc.rsid # -1 => At(tbl, enc.rsid) = "role")

RECURSIVE DecodeGroup(_, _, _, _)
DecodeGroup(grp, tbl, dregs, acc) ==
    IF grp = <<>> THEN acc
    ELSE LET g == Head(grp) IN
         DecodeGroup(Tail(grp), tbl, DRegsAfter(g.enc, dregs),
                     Append(acc, [obj |-> PbfDecode(g.enc, tbl, dregs), k |-> g.k, ok |-> RefsOk(g.enc, tbl)]))

(***************************************************************************)
(* I-layer: XML, XML change files, OPL                                     *)
(***************************************************************************)
Pres(c, tok) == IF c THEN tok ELSE "absent"
XmlEncode(o, e) ==
    IF e.t = "changeset"
    THEN [t |-> e.t, ts |-> Pres(e.ts # "0", e.ts), closed |-> Pres(e.closed # "0", e.closed),
          uid |-> Pres(e.uid # "0", e.uid), user |-> Pres(e.uid # "0", e.user),                 \* user_is_anonymous()
          bounds |-> Pres(e.bounds # "undef", e.bounds), nch |-> e.nch, ncm |-> e.ncm, tags |-> e.tags, disc |-> e.disc]
    ELSE [t |-> e.t, cls |-> e.cls,
          sect |-> IF o.fmt = "xmlchange" THEN (IF e.vis THEN "change" ELSE "delete") ELSE "none",
          ver |-> Pres("version" \in o.md /\ e.ver # "0", e.ver), ts |-> Pres("timestamp" \in o.md /\ e.ts # "0", e.ts),
          cs |-> Pres("changeset" \in o.md /\ e.cs # "0", e.cs), uid |-> Pres("uid" \in o.md /\ e.uid # "0", e.uid),
          user |-> Pres("user" \in o.md /\ e.user # "0", e.user),
          vis |-> Pres(o.hist /\ o.fmt = "xml", VisTok(e.vis)),            \* add_visible_flag is off for change files
          loc |-> Pres(e.t = "node" /\ e.loc # "undef", e.loc),            \* if (node.location())
          refs |-> e.refs, rloc |-> Pres(o.low /\ e.t = "way", e.rloc), mem |-> e.mem, tags |-> e.tags]
XmlDecode(r) ==
    IF r.t = "changeset"
    THEN [t |-> r.t, n |-> 1, cls |-> "tiny", ver |-> "0", ts |-> Dflt(r.ts), cs |-> "0", uid |-> Dflt(r.uid), user |-> Dflt(r.user), vis |-> TRUE,
          loc |-> "undef", refs |-> 0, rloc |-> "undef", mem |-> 0, tags |-> r.tags,
          closed |-> Dflt(r.closed), bounds |-> IF r.bounds = "absent" THEN "undef" ELSE r.bounds, nch |-> r.nch, ncm |-> r.ncm, disc |-> r.disc]
    ELSE [t |-> r.t, n |-> 1, cls |-> r.cls, ver |-> Dflt(r.ver), ts |-> Dflt(r.ts), cs |-> Dflt(r.cs), uid |-> Dflt(r.uid), user |-> Dflt(r.user),
          vis |-> IF r.sect = "delete" THEN FALSE ELSE IF r.vis = "false" THEN FALSE ELSE TRUE,
          loc |-> IF r.loc = "absent" THEN "undef" ELSE r.loc,
          refs |-> r.refs, rloc |-> IF r.rloc = "absent" THEN "undef" ELSE r.rloc, mem |-> r.mem, tags |-> r.tags,
          closed |-> "0", bounds |-> "undef", nch |-> "0", ncm |-> "0", disc |-> 0]

OplEncode(o, e) ==
    IF e.t = "changeset"
    THEN [t |-> e.t, ts |-> e.ts, closed |-> e.closed, uid |-> e.uid, user |-> e.user, bounds |-> e.bounds, nch |-> e.nch, ncm |-> e.ncm, tags |-> e.tags]
    ELSE [t |-> e.t, cls |-> e.cls,
          ver |-> Pres("version" \in o.md, e.ver), ts |-> Pres("timestamp" \in o.md, e.ts), cs |-> Pres("changeset" \in o.md, e.cs),
          uid |-> Pres("uid" \in o.md, e.uid), user |-> Pres("user" \in o.md, e.user),
          vis |-> Pres(o.md # {}, VisTok(e.vis)),
          loc |-> IF e.t = "node" THEN e.loc ELSE "absent",        \* x / y are written empty for an undefined location
          refs |-> e.refs, rloc |-> Pres(o.low /\ e.t = "way", e.rloc), mem |-> e.mem, tags |-> e.tags]
OplDecode(r) ==
    IF r.t = "changeset"
    THEN [t |-> r.t, n |-> 1, cls |-> "tiny", ver |-> "0", ts |-> r.ts, cs |-> "0", uid |-> r.uid, user |-> r.user, vis |-> TRUE,
          loc |-> "undef", refs |-> 0, rloc |-> "undef", mem |-> 0, tags |-> r.tags,
          closed |-> r.closed, bounds |-> r.bounds, nch |-> r.nch, ncm |-> r.ncm, disc |-> 0]
    ELSE [t |-> r.t, n |-> 1, cls |-> r.cls, ver |-> Dflt(r.ver), ts |-> Dflt(r.ts), cs |-> Dflt(r.cs), uid |-> Dflt(r.uid), user |-> Dflt(r.user),
          vis |-> IF r.vis = "false" THEN FALSE ELSE TRUE,
          loc |-> IF r.loc = "valid" THEN "valid" ELSE "undef",                                  \* D2: if (location.valid())
          refs |-> r.refs, rloc |-> IF r.rloc = "absent" THEN "undef" ELSE r.rloc, mem |-> r.mem, tags |-> r.tags,
          closed |-> "0", bounds |-> "undef", nch |-> "0", ncm |-> "0", disc |-> 0]
\* OPLOutputBlock::write_field_ref -> Location::as_string throws for a defined location outside the valid range
OplWriterThrows(o, e) == o.low /\ e.t = "way" /\ e.refs > 0 /\ e.rloc = "ext"

(***************************************************************************)
(* Behaviour                                                               *)
(***************************************************************************)
Init == /\ pc = "open" /\ opt = NoOpt /\ input = <<>> /\ pend = 0 /\ blk = NoBlk /\ blobs = <<>> /\ recs = <<>>
        /\ hdr = [fmt |-> "none"] /\ werr = FALSE /\ bi = 1 /\ out = <<>> /\ rhdr = [generator |-> "none", boxes |-> "none"] /\ rerr = FALSE
        /\ robust = TRUE /\ steps = 0 /\ hist = <<>>

Tick == steps' = steps + 1
Log(a) == hist' = IF ExportHist THEN Append(hist, a) ELSE hist

Open(o) == /\ pc = "open" /\ opt' = o /\ pc' = "feed"
           /\ hdr' = [fmt |-> o.fmt,
                      generator |-> IF o.fmt = "opl" THEN "none" ELSE "keep",
                      boxes |-> CASE IsXml(o) -> "all" [] IsPbf(o) -> "joined" [] OTHER -> "none",
                      required |-> IF IsPbf(o) THEN {"OsmSchema-V0.6"} \cup (IF o.dense THEN {"DenseNodes"} ELSE {})
                                                    \cup (IF o.hist THEN {"HistoricalInformation"} ELSE {}) ELSE {},
                      optional |-> IF IsPbf(o) /\ o.low THEN {"LocationsOnWays"} ELSE {}]
           /\ UNCHANGED <<input, pend, blk, blobs, recs, werr, bi, out, rhdr, rerr, robust>> /\ Tick /\ Log("Open")

CanFeed(e) == IF FixedInputs = {} THEN Len(input) < MaxLen
              ELSE \E s \in FixedInputs : Len(s) > Len(input) /\ SubSeq(s, 1, Len(input) + 1) = Append(input, e)
CanClose == IF FixedInputs = {} THEN Len(input) >= 1 ELSE input \in FixedInputs

Feed(e) == /\ pc = "feed" /\ ~werr /\ CanFeed(e) /\ InDomain(opt, e)
           /\ input' = Append(input, e) /\ pend' = e.n /\ pc' = "obj"
           /\ UNCHANGED <<opt, blk, blobs, recs, hdr, werr, bi, out, rhdr, rerr, robust>> /\ Tick /\ Log("Feed")

Cur == input[Len(input)]
Near(x, limit) == x > limit - Tolerance /\ x < limit + Tolerance

\* SerializeBlob: a block above the format limit is refused (PostCheck) - the Writer reports the error
Store(b, nb) == IF b.type = "none" \/ b.count = 0 THEN /\ blobs' = blobs /\ werr' = werr /\ blk' = nb /\ robust' = robust
                ELSE /\ robust' = (robust /\ ~Near(b.size, MaxBlob))
                     /\ IF PostCheck /\ b.size > MaxBlob
                        THEN werr' = TRUE /\ blobs' = blobs /\ blk' = NoBlk
                        ELSE werr' = werr /\ blobs' = Append(blobs, b) /\ blk' = nb

PbfGate == /\ pc = "obj" /\ IsPbf(opt) /\ pend > 0
           /\ LET ty == GroupType(opt, Cur) IN
              IF blk.type # "none" /\ CanAdd(blk, ty)
              THEN UNCHANGED <<blk, blobs, werr, robust>> /\ pc' = "add"
              ELSE Store(blk, NewBlock(ty)) /\ pc' = IF werr' THEN "done" ELSE "add"
           /\ UNCHANGED <<opt, input, pend, recs, hdr, bi, out, rhdr, rerr>> /\ Tick /\ Log("PbfGate")

\* the objects of the run the gate admits one after the other: as long as count < MaxEntities and size < GateSize
PbfAdd == /\ pc = "add"
          /\ LET e == Cur
                 sz == SizeOf(e)
                 kgate == IF blk.size >= GateSize THEN 0 ELSE IF sz = 0 THEN pend ELSE (GateSize - blk.size + sz - 1) \div sz
                 k == Min(pend, Min(MaxEntities - blk.count, kgate))
                 enc == PbfEncode(opt, e, AddAll(blk.tbl, StrsOf(opt, e)), blk.regs)
                 tbl2 == AddAll(blk.tbl, StrsOf(opt, e)) IN
             /\ k > 0
             /\ blk' = [blk EXCEPT !.count = @ + k, !.size = @ + k * sz, !.tbl = tbl2,
                                   !.grp = Append(@, [enc |-> enc, k |-> k]), !.regs = RegsAfter(opt, e, tbl2, @)]
             /\ pend' = pend - k
             /\ pc' = IF pend - k > 0 THEN "obj" ELSE "feed"
             \* Was the decision to stop (or not to stop) adding close to the gate?  It only matters for objects that are large
             \* enough to lift a block from the gate over the limit: a flipped decision changes the block by one object.
             /\ robust' = (robust /\ (sz > MaxBlob - GateSize - Tolerance =>
                                        ~Near(blk.size + k * sz, GateSize) /\ (k > 1 => ~Near(blk.size + (k - 1) * sz, GateSize))))
          /\ UNCHANGED <<opt, input, blobs, recs, hdr, werr, bi, out, rhdr, rerr>> /\ Tick /\ Log("PbfAdd")

TextWrite == /\ pc = "obj" /\ ~IsPbf(opt)
             /\ IF opt.fmt = "opl" /\ OplWriterThrows(opt, Cur)
                THEN werr' = TRUE /\ recs' = recs /\ pc' = "done"
                ELSE /\ werr' = werr /\ pc' = "feed"
                     /\ recs' = Append(recs, [enc |-> IF IsXml(opt) THEN XmlEncode(opt, Cur) ELSE OplEncode(opt, Cur), k |-> pend])
             /\ pend' = 0
             /\ UNCHANGED <<opt, input, blk, blobs, hdr, bi, out, rhdr, rerr, robust>> /\ Tick /\ Log("TextWrite")

Close == /\ pc = "feed" /\ ~werr /\ CanClose
         /\ IF IsPbf(opt) THEN Store(blk, NoBlk) ELSE UNCHANGED <<blk, blobs, werr, robust>>
         /\ pc' = IF werr' THEN "done" ELSE "header"
         /\ UNCHANGED <<opt, input, pend, recs, hdr, bi, out, rhdr, rerr>> /\ Tick /\ Log("Close")

ReadHeader == /\ pc = "header"
              /\ rhdr' = [generator |-> hdr.generator, boxes |-> hdr.boxes]
              /\ pc' = "data"
              /\ UNCHANGED <<opt, input, pend, blk, blobs, recs, hdr, werr, bi, out, rerr, robust>> /\ Tick /\ Log("ReadHeader")

\* PBFParser::read_from_input_queue_with_check / decode_blob refuse a blob above MaxBlob
ReadBlob == /\ pc = "data" /\ IsPbf(opt) /\ bi <= Len(blobs)
            /\ LET b == blobs[bi] IN
               IF b.size > MaxBlob THEN /\ rerr' = TRUE /\ pc' = "done" /\ out' = out /\ bi' = bi
               ELSE /\ out' = out \o DecodeGroup(b.grp, b.tbl, ZeroRegs, <<>>)      \* fresh delta registers for every block
                    /\ bi' = bi + 1 /\ rerr' = rerr /\ pc' = pc
            /\ UNCHANGED <<opt, input, pend, blk, blobs, recs, hdr, werr, rhdr, robust>> /\ Tick /\ Log("ReadBlob")

ReadText == /\ pc = "data" /\ ~IsPbf(opt) /\ bi <= Len(recs)
            /\ out' = Append(out, [obj |-> IF IsXml(opt) THEN XmlDecode(recs[bi].enc) ELSE OplDecode(recs[bi].enc), k |-> recs[bi].k, ok |-> TRUE])
            /\ bi' = bi + 1
            /\ UNCHANGED <<pc, opt, input, pend, blk, blobs, recs, hdr, werr, rhdr, rerr, robust>> /\ Tick /\ Log("ReadText")

Finish == /\ pc = "data" /\ bi > (IF IsPbf(opt) THEN Len(blobs) ELSE Len(recs))
          /\ pc' = "done"
          /\ UNCHANGED <<opt, input, pend, blk, blobs, recs, hdr, werr, bi, out, rhdr, rerr, robust>> /\ Tick /\ Log("Finish")

Done == pc = "done" /\ UNCHANGED vars       \* terminal state (keeps deadlock checking meaningful everywhere else)

Next == \/ \E o \in Options : Open(o)
        \/ \E e \in Elements : Feed(e)
        \/ PbfGate \/ PbfAdd \/ TextWrite \/ Close \/ ReadHeader \/ ReadBlob \/ ReadText \/ Finish \/ Done
Spec == Init /\ [][Next]_vars

(***************************************************************************)
(* Properties                                                              *)
(***************************************************************************)
IOutcome == IF werr THEN "writer_error" ELSE IF rerr THEN "reader_error" ELSE "ok"
Got == Norm([i \in 1..Len(out) |-> [obj |-> out[i].obj, k |-> out[i].k]])

\* decoder o encoder = Project, in order, with nothing lost or duplicated; the header comes back as projected
RoundTrip == pc = "done" /\ IOutcome = "ok" => /\ Got = AExpected(opt, input)
                                               /\ \A i \in 1..Len(out) : out[i].ok
                                               /\ rhdr = ProjectHeader(opt)
\* the outcome is the one the A-layer demands: "ok" unless the format cannot express the input
OutcomeAgrees == pc = "done" => IOutcome = AOutcome(opt, input)
\* a file the Writer produced without reporting an error is accepted by the Reader
NoReaderError == ~rerr
\* format limits of every blob that is written
AllBlocks == [i \in 1..Len(blobs) |-> blobs[i]]
BlobLimits == \A i \in 1..Len(blobs) : /\ blobs[i].count >= 1 /\ blobs[i].count <= MaxEntities
                                       /\ (PostCheck => blobs[i].size <= MaxBlob)
SizeLimit == \A i \in 1..Len(blobs) : blobs[i].size <= MaxBlob
\* one group type per block, string table without duplicates, index 0 is the empty string
BlockShape == \A i \in 1..Len(blobs) :
                 LET b == blobs[i] IN
                 /\ b.tbl[1] = ""
                 /\ \A x, y \in 1..Len(b.tbl) : b.tbl[x] = b.tbl[y] => x = y
                 /\ \A g \in 1..Len(b.grp) : (b.grp[g].enc.dense <=> b.type = "dense")
                                              /\ (b.type = "ways" => b.grp[g].enc.t = "way") /\ (b.type = "relations" => b.grp[g].enc.t = "relation")
                 /\ b.count = LET RECURSIVE S(_) S(n) == IF n = 0 THEN 0 ELSE b.grp[n].k + S(n - 1) IN S(Len(b.grp))
\* the dense-node deltas of the first entry of every block are taken against zero: both sides start every block fresh
DeltaReset == \A i \in 1..Len(blobs) : blobs[i].type = "dense" => blobs[i].grp[1].enc.from = ZeroRegs
\* the machine always terminates
Bounded == steps <= 400
TypeOK == /\ pc \in {"open", "feed", "obj", "add", "header", "data", "done"}
          /\ pend >= 0 /\ bi >= 1

\* the projection plus the location token without the named deviations D1/D2: an implementation that keeps the location
\* satisfies the property as stated and is accepted by the replay as well
WithAlt(p, e) == [f \in DOMAIN p \cup {"locAlt"} |-> IF f = "locAlt" THEN e.loc ELSE p[f]]
BlocksOut == [i \in 1..Len(blobs) |-> [type |-> blobs[i].type, count |-> blobs[i].count, size |-> blobs[i].size,
                                        strings |-> Len(blobs[i].tbl)]]
Export == (pc = "done" /\ robust) =>
            PrintT(<<"CASE", ToJson([opt |-> opt, input |-> input,
                                     exp |-> [outcome |-> AOutcome(opt, input), ioutcome |-> IOutcome,
                                              objs |-> [i \in 1..Len(input) |-> WithAlt(Project(opt, input[i]), input[i])],
                                              hdr |-> ProjectHeader(opt),
                                              required |-> hdr.required, optional |-> hdr.optional,
                                              blocks |-> BlocksOut]])>>)
=============================================================================
