------------------------------ MODULE DiffIter ------------------------------
(* C20 (2/2).  osmium::DiffIterator / osmium::apply_diff() / osmium::DiffObject (diff_iterator.hpp,
   diff_visitor.hpp, diff_handler.hpp, osm/diff_object.hpp) over version-sorted data.

   Input: a sorted history: for each key (type, id) of the constant sequence Keys 0..MaxV versions, with
   items that are not OSM objects (changesets) optionally in the gaps, delivered in one buffer or (input
   iterators) cut into several buffers, some of which may be empty or hold no object at all.

   A-layer: every object version exactly once, in order, with prev/next = the neighbouring version if it
   is a version of the same (type, id), else the version itself; first/last true exactly at the
   boundaries between different objects; end_time = timestamp of the next version or "end of time";
   apply_diff(): each handler in argument order gets the callback of the object's type; an area ends the
   iteration with unknown_type.

   I-layer: the three cursors m_prev, m_curr, m_next of DiffIterator (positions in the raw item
   sequence plus the buffer a cursor is in; only m_next ever reads from the source), constructor,
   operator*() = set_diff() (use_curr_for_prev / use_curr_for_next as the code computes them; first()
   and last() are pointer comparisons), operator++(), and the recursion over the handlers.        *)
EXTENDS Integers, Sequences, FiniteSets, TLC, Json
CONSTANTS Keys,          \* sequence of [t |-> type, id |-> id], sorted by type then id
          MaxV,          \* 0..MaxV versions per key
          NoisePatterns, \* subset of {"none", "front", "back", "all"}
          Modes,         \* see ModeInfo
          HandlerLists,  \* apply_diff modes: sequences of diff handler kinds ("DA": node+way+relation, "DN": node+relation only)
          MaxChunks, SmallN
VARIABLES raw, mode, hl, chunks,                     \* the case
          exp,                                       \* A-layer: ExpectedLog of the case, computed once in Init
          phase, prev, curr, next, diff, hidx, log   \* I-layer
vars == <<raw, mode, hl, chunks, exp, phase, prev, curr, next, diff, hidx, log>>

ObjTypes == {"node", "way", "relation", "area"}
RECURSIVE Flat(_)
Flat(ss) == IF ss = <<>> THEN <<>> ELSE Head(ss) \o Flat(Tail(ss))
RECURSIVE Sum(_)
Sum(s) == IF s = <<>> THEN 0 ELSE Head(s) + Sum(Tail(s))
IsPrefix(a, b) == Len(a) <= Len(b) /\ SubSeq(b, 1, Len(a)) = a

\* apply: iterate by hand (FALSE) or through apply_diff() (TRUE); input: InputIterator over a source of buffers
ModeInfo(m) ==
  CASE m = "it_obj"    -> [apply |-> FALSE, input |-> FALSE]   \* DiffIterator over buffer.begin<OSMObject>()
    [] m = "it_cobj"   -> [apply |-> FALSE, input |-> FALSE]   \* ... over buffer.cbegin<OSMObject>()
    [] m = "it_input"  -> [apply |-> FALSE, input |-> TRUE]    \* ... over InputIterator<Source, OSMObject>
    [] m = "ad_buf"    -> [apply |-> TRUE,  input |-> FALSE]   \* apply_diff(Buffer&, handlers...)
    [] m = "ad_cbuf"   -> [apply |-> TRUE,  input |-> FALSE]   \* apply_diff(const Buffer&, handlers...)
    [] m = "ad_iter"   -> [apply |-> TRUE,  input |-> FALSE]   \* apply_diff(it, end, handlers...)
    [] m = "ad_src"    -> [apply |-> TRUE,  input |-> TRUE]    \* apply_diff(source, handlers...)
    [] m = "ad_reader" -> [apply |-> TRUE,  input |-> TRUE]    \* apply_diff(osmium::io::Reader&, handlers...)

Ts(k, v) == 1000 + 100 * k + v                      \* timestamp of version v of key number k
Versions(k, n) == [v \in 1..n |-> [t |-> Keys[k].t, id |-> Keys[k].id, v |-> v, ts |-> Ts(k, v)]]
NoiseItem == [t |-> "changeset", id |-> 0, v |-> 0, ts |-> 0]
Objects(vc) == Flat([k \in 1..Len(Keys) |-> Versions(k, vc[k])])
WithNoise(objs, pat) ==
  CASE pat = "none"  -> objs
    [] pat = "front" -> <<NoiseItem>> \o objs
    [] pat = "back"  -> objs \o <<NoiseItem>>
    [] pat = "all"   -> <<NoiseItem>> \o Flat([j \in 1..Len(objs) |-> <<objs[j], NoiseItem>>])
RawSeqs == {WithNoise(Objects(vc), pat) : vc \in [1..Len(Keys) -> 0..MaxV], pat \in NoisePatterns}
Chunkings(n, m) ==
  IF ~ModeInfo(m).input \/ m = "ad_reader" THEN {<<n>>}
  ELSE IF n <= SmallN THEN {ch \in UNION {[1..k -> 0..n] : k \in 0..MaxChunks} : Sum(ch) = n}
  ELSE {<<n>>} \cup {<<a, n - a>> : a \in 1..n - 1}
ReaderOK(r) == \A j \in 1..Len(r) : r[j].t # "area"           \* a file does not deliver areas

N == Len(raw)
END == N + 1
IsObj(p) == raw[p].t \in ObjTypes
SameObj(a, b) == raw[a].t = raw[b].t /\ raw[a].id = raw[b].id
BufEnd(b) == Sum(SubSeq(chunks, 1, b))
NB == Len(chunks)
Input == ModeInfo(mode).input

(* ---------------------------------------------------------------- A-layer *)
Vis == SelectSeq([p \in 1..N |-> p], IsObj)           \* positions of the object versions, in order
APrev(j) == IF j > 1 /\ SameObj(Vis[j - 1], Vis[j]) THEN Vis[j - 1] ELSE Vis[j]
ANext(j) == IF j < Len(Vis) /\ SameObj(Vis[j + 1], Vis[j]) THEN Vis[j + 1] ELSE Vis[j]
V(h, cb, p, c, n) == [h |-> h, cb |-> cb, p |-> p, c |-> c, n |-> n, first |-> p = c, last |-> c = n,
                      et |-> IF c = n THEN 0 ELSE raw[n].ts]
AVisit(j, h, cb) == V(h, cb, APrev(j), Vis[j], ANext(j))
Sees(kind, t) == kind = "DA" \/ t # "way"             \* "DN" inherits DiffHandler::way(), which does nothing
ExpectedLog ==
  IF ~ModeInfo(mode).apply
  THEN [j \in 1..Len(Vis) |-> AVisit(j, 0, "visit")]
  ELSE LET areas == {j \in 1..Len(Vis) : raw[Vis[j]].t = "area"}
           stop == IF areas = {} THEN Len(Vis) + 1 ELSE CHOOSE j \in areas : \A k \in areas : j <= k
           per(j) == LET t == raw[Vis[j]].t IN
                     Flat([s \in 1..Len(hl) |-> IF Sees(hl[s], t) THEN <<AVisit(j, s, t)>> ELSE <<>>])
       IN Flat([j \in 1..stop - 1 |-> per(j)])
          \o (IF stop <= Len(Vis) THEN <<[h |-> 0, cb |-> "throw", p |-> 0, c |-> 0, n |-> 0,
                                         first |-> FALSE, last |-> FALSE, et |-> 0]>> ELSE <<>>)
\* the A-layer statement itself has the shape the property words: checked as an invariant over all cases
AShape == phase = "new" => \A j \in 1..Len(Vis) :
               /\ (APrev(j) = Vis[j]) = (j = 1 \/ ~SameObj(Vis[j - 1], Vis[j]))
               /\ (ANext(j) = Vis[j]) = (j = Len(Vis) \/ ~SameObj(Vis[j + 1], Vis[j]))
               /\ SameObj(APrev(j), Vis[j]) /\ SameObj(ANext(j), Vis[j])
               /\ APrev(j) <= Vis[j] /\ Vis[j] <= ANext(j)

(* ---------------------------------------------------------------- I-layer *)
\* a cursor = [pos, buf]; pos = END: the end iterator.  First object at or after position p, starting in buffer b;
\* an input iterator that runs off its buffer reads the next one (update_buffer), any other iterator is at its end.
RECURSIVE SeekFrom(_, _)
SeekFrom(p, b) ==
  IF p > BufEnd(b)
  THEN IF Input /\ b < NB THEN SeekFrom(BufEnd(b) + 1, b + 1) ELSE [pos |-> END, buf |-> IF Input THEN NB + 1 ELSE b]
  ELSE IF IsObj(p) THEN [pos |-> p, buf |-> b] ELSE SeekFrom(p + 1, b)
Begin == IF Input THEN (IF NB = 0 THEN [pos |-> END, buf |-> 1] ELSE SeekFrom(1, 1)) ELSE SeekFrom(1, 1)
Incr(c) == SeekFrom(c.pos + 1, c.buf)               \* ++iterator

Init == /\ raw \in RawSeqs /\ mode \in Modes
        /\ (mode = "ad_reader" => ReaderOK(raw))
        /\ hl \in (IF ModeInfo(mode).apply THEN HandlerLists ELSE {<<>>})
        /\ chunks \in Chunkings(Len(raw), mode)
        /\ exp = ExpectedLog
        /\ phase = "new" /\ prev = [pos |-> 0, buf |-> 0] /\ curr = prev /\ next = prev
        /\ diff = <<0, 0, 0>> /\ hidx = 1 /\ log = <<>>
Same == UNCHANGED <<raw, mode, hl, chunks, exp>>

\* DiffIterator(begin, end): m_prev(begin), m_curr(begin), m_next(begin == end ? begin : ++begin)
Construct == /\ phase = "new" /\ Same /\ UNCHANGED <<diff, hidx, log>>
             /\ prev' = Begin /\ curr' = Begin
             /\ next' = IF Begin.pos = END THEN Begin ELSE Incr(Begin)
             /\ phase' = "at"
\* dit != dend; operator*() -> set_diff()
Deref == /\ phase = "at" /\ Same /\ UNCHANGED <<prev, curr, next>>
         /\ IF curr.pos = END
            THEN phase' = "done" /\ UNCHANGED <<diff, hidx, log>>
            ELSE LET ucp == ~SameObj(prev.pos, curr.pos)                               \* use_curr_for_prev
                     ucn == next.pos = END \/ ~SameObj(next.pos, curr.pos)            \* use_curr_for_next
                     p == IF ucp THEN curr.pos ELSE prev.pos
                     n == IF ucn THEN curr.pos ELSE next.pos
                 IN /\ diff' = <<p, curr.pos, n>>
                    /\ IF ModeInfo(mode).apply
                       THEN phase' = "call" /\ hidx' = 1 /\ UNCHANGED log
                       ELSE phase' = "incr" /\ UNCHANGED hidx /\ log' = Append(log, V(0, "visit", p, curr.pos, n))
\* apply_diff_iterator_recurse(): one handler per step; switch (diff.type())
Call == /\ phase = "call" /\ Same /\ UNCHANGED <<prev, curr, next, diff>>
        /\ IF hidx > Len(hl)
           THEN phase' = "incr" /\ UNCHANGED <<hidx, log>>
           ELSE LET t == raw[diff[2]].t IN
                IF t \in {"node", "way", "relation"}
                THEN /\ log' = (IF Sees(hl[hidx], t) THEN Append(log, V(hidx, t, diff[1], diff[2], diff[3])) ELSE log)
                     /\ hidx' = hidx + 1 /\ UNCHANGED phase
                ELSE /\ log' = Append(log, [h |-> 0, cb |-> "throw", p |-> 0, c |-> 0, n |-> 0,
                                            first |-> FALSE, last |-> FALSE, et |-> 0])
                     /\ phase' = "done" /\ UNCHANGED hidx
\* operator++(): m_prev = m_curr; m_curr = m_next; if (m_next != m_end) ++m_next
Advance == /\ phase = "incr" /\ Same /\ UNCHANGED <<diff, hidx, log>>
           /\ prev' = curr /\ curr' = next
           /\ next' = IF next.pos # END THEN Incr(next) ELSE next
           /\ phase' = "at"
Done == phase = "done" /\ UNCHANGED vars

Next == Construct \/ Deref \/ Call \/ Advance \/ Done
Spec == Init /\ [][Next]_vars

Cursors == phase \in {"at", "call", "incr"} =>
           /\ prev.pos <= curr.pos /\ curr.pos <= next.pos
           /\ curr.pos # END => (prev.pos # END /\ IsObj(prev.pos) /\ IsObj(curr.pos))   \* set_diff() may dereference m_prev
           /\ curr.pos # END => next.pos > curr.pos
           /\ prev.buf <= curr.buf /\ curr.buf <= next.buf                              \* only m_next reads from the source
Refines == /\ IsPrefix(log, exp)
           /\ phase = "done" => log = exp
Export == phase = "done" => PrintT(<<"CASE", ToJson([mode |-> mode, hl |-> hl, raw |-> raw, chunks |-> chunks, log |-> log])>>)
=============================================================================
