SPECIFICATION Spec
CONSTANTS
  Level = 1
  DoExport = TRUE
INVARIANTS BufferOK IimpliesA RoundTrip Export
CHECK_DEADLOCK FALSE
