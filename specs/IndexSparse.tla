----------------------------- MODULE IndexSparse ----------------------------
(* C12, sparse family: VectorBasedSparseMap<TId, TValue, TVector> (index/detail/vector_map.hpp:157-289) over
   std::vector (sparse_mem_array), mmap_vector_anon (sparse_mmap_array), mmap_vector_file (sparse_file_array),
   and SparseMemMap (std::map, index/map/sparse_mem_map.hpp).

   I-layer: the vector of <<id, value>> pairs in memory order, capacity and initialised prefix of the mapping
   (see IndexDense), set() = push_back, sort() = std::sort, get() = std::lower_bound (LB in IndexMap, the libstdc++
   loop), dump_as_list, dump_as_array with its window of W values (one call of Windows per iteration of the outer
   loop), reload through a sparse_file_array, re-opening a file backed index. *)
EXTENDS IndexMap

CONSTANTS G,          \* mmap_vector_size_increment
          W,          \* values per output buffer of dump_as_array: (10 * 1024 * 1024) / sizeof(TValue)
          Backings    \* subset of {"vector", "mmap", "file", "stdmap"}: the index types a history may start with

VARIABLES backing, vec, cap, init, file
ivars == <<backing, vec, cap, init, file>>
vars == <<amap, ins, afile, nsorts, ndumps, done, hist, backing, vec, cap, init, file>>

Garbage == -1
MapLookup(v, id) == IF \E k \in 1..Len(v) : v[k][1] = id THEN (CHOOSE p \in SeqSet(v) : p[1] = id)[2] ELSE 0   \* std::map::find
IGet(id) == IF backing = "stdmap" THEN MapLookup(vec, id) ELSE VecLookup(vec, id)
Answers == backing = "stdmap" \/ PairsSorted(vec)         \* precondition of std::lower_bound

Init == /\ AInit /\ backing \in Backings /\ vec = <<>> /\ file = NoFile
        /\ cap = IF backing \in {"mmap", "file"} THEN G ELSE 0
        /\ init = cap

(* push_back(): resize(m_size + 1) [if (new_size > capacity()) reserve(new_size + increment)]; data()[m_size - 1] = value *)
Set(id) == /\ ASet(id)
           /\ IF backing = "stdmap"
              THEN vec' = SortPairs(Append(vec, <<id, NextVal>>)) /\ UNCHANGED <<cap, init>>
              ELSE /\ vec' = Append(vec, <<id, NextVal>>)
                   /\ LET n == Len(vec) + 1
                          ncap == IF backing = "vector" THEN n ELSE IF n > cap THEN n + G ELSE cap
                      IN /\ cap' = ncap
                         /\ init' = IF backing = "vector" THEN n ELSE IF ncap > cap /\ init >= cap THEN ncap ELSE init
           /\ UNCHANGED <<backing, file>>
           /\ Rec("set", id, 0, FALSE)

Sort == /\ ASort
        /\ vec' = SortPairs(vec)                               \* std::sort(begin, end); Map::sort() is empty for std::map
        /\ UNCHANGED <<backing, cap, init, file>>
        /\ Rec("sort", 0, 0, FALSE)

RECURSIVE Strip(_)
Strip(v) == IF v # <<>> /\ v[Len(v)] = <<0, 0>> THEN Strip(SubSeq(v, 1, Len(v) - 1)) ELSE v    \* shrink_to_fit()

(* dump_as_list(fd) writes the vector as it is (the std::map in key order); the file is then opened as a
   sparse_file_array (mmap_vector_file(fd): size = filesize, fill, shrink_to_fit) and the history continues there *)
Reload == /\ AReloadList(backing = "stdmap")
          /\ file' = [kind |-> "list", n |-> Len(vec), vals |-> vec]
          /\ backing' = "file"
          /\ cap' = IF Len(vec) > G THEN Len(vec) ELSE G
          /\ init' = cap'
          /\ vec' = Strip(vec)
          /\ Rec("reload", 0, 0, TRUE)

Reopen == /\ backing = "file" /\ AKeep
          /\ vec' = IF init >= cap THEN Strip(vec) ELSE Append(vec, <<Garbage, Garbage>>)
          /\ UNCHANGED <<backing, cap, init, file>>
          /\ Rec("reopen", 0, 0, FALSE)

(* dump_as_array(fd):  buffer_start_id = 0;
     for (it = cbegin(); it != cend();) { fill buffer with empty; offset = 0;
        for (; offset < buffer_size && it != end(); ++offset) if (buffer_start_id + offset == it->first) { buffer[offset] = it->second; ++it; }
        write(offset values); buffer_start_id += buffer_size; }
   On sorted distinct ids every element of the window [start, start + W) is met at offset id - start; the inner loop
   ends at W, or right behind the last element of the vector.  Returns the number of slots written in total. *)
RECURSIVE Windows(_, _, _, _)
Windows(v, it, start, n) ==
    IF it > Len(v) THEN n
    ELSE LET inwin == {k \in it..Len(v) : v[k][1] < start + W}
             nit == it + Cardinality(inwin)
             written == IF nit > Len(v) THEN v[Len(v)][1] - start + 1 ELSE W
         IN Windows(v, nit, start + W, n + written)

DumpArray == /\ backing # "stdmap" /\ PairsSorted(vec) /\ ADumpArray
             /\ file' = [kind |-> "array", n |-> Windows(vec, 1, 0, 0), vals |-> vec]
             /\ UNCHANGED <<backing, vec, cap, init>>
             /\ Rec("dump_array", 0, 0, TRUE)

Finish == AFinish /\ UNCHANGED ivars /\ UNCHANGED hist

Next == \/ \E id \in Cand : Set(id)
        \/ Sort \/ Reload \/ Reopen \/ DumpArray \/ Finish
Spec == Init /\ [][Next]_vars

\* ---------------------------------------------------------------- I => A
Refines == Answers => \A p \in Probes : IGet(p) = ALookup(p)
Link == /\ (backing # "stdmap" => IdsOf(vec) = ins)          \* lookups are defined exactly when lower_bound's precondition holds
        /\ (Defined => Answers)
        /\ SeqSet(vec) = SeqSet(PairsOf(amap))                \* no pair lost or invented by sort / reload / reopen
NoGarbage == backing \in {"mmap", "file"} => (init >= cap /\ Len(vec) <= cap)
FileOK == file = afile
=============================================================================
