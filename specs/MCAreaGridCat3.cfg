SPECIFICATION Spec
CONSTANTS
  G = 3
  MaxRings = 2
  Drawings = 1
  Kinds = {"rectS", "trap", "trapT"}
  MutSeq <- MutNone
  ModeSeq <- ModeSame
  MaxSegs = 26
  Styles = {}
  RolePats <- TwoRolePats
  Theorems = TRUE
  Tiles = FALSE
INVARIANTS RayIndependent FillIsXor CancelSound CatalogueValid JudgeAcceptsReference JudgeRejectsSpoiled
CHECK_DEADLOCK FALSE
