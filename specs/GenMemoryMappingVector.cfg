SPECIFICATION Spec
CONSTANTS
  G = 1048576
  Sizes = {0, 1048577, 2097154}
  Slots = {0, 1048576}
  Backings = {"anon", "tmpfile", "fd"}
  F0s = {0, 5, 1048580, 77}
  OddFile = 77
  MaxOps = 4
  MaxPush = 2
  ExportHist = TRUE
INVARIANTS Refines NoGarbage CapOK FileCovers Export
CHECK_DEADLOCK FALSE
