SPECIFICATION Spec
CONSTANTS
  Configs <- TheConfigs
  ScriptLen = 3
  LongScripts = TRUE
  Ops <- AllOps
  Formats = {"xml"}
  Comps = {"plain", "gzip", "bzip2"}
  Pools = {TRUE}
  Bounds = {1}
  Caps = {2}
  MaxAt = 9
  FaultKinds <- AllKinds
  FdFix = TRUE
  EmptyFix = TRUE
  GenFormats = {"xml"}
  GenComps = {"plain"}
  GenScriptLen = 0
INVARIANTS TypeOK LogAllowed CompleteOrThrows NeverLost NoSpuriousException RefusesAfterException FutureReadOnce NoThreadLeft NoFdLeft QueueBound
