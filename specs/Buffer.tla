------------------------------ MODULE Buffer ------------------------------
(* C04.  osmium::memory::Buffer (memory/buffer.hpp) and the builder classes
   (builder/builder.hpp, builder/osm_object_builder.hpp).

   I-layer: the bookkeeping the code does - capacity, written, committed, the chain of frozen
   ("nested") memory blocks created by auto_grow::internal, per open builder its item offset RELATIVE
   TO THE COMMITTED MARK (Builder::m_item_offset) and the byte size stored in the item header, which
   every add_size() propagates to all parents; reserve_space() with its outcomes (fits / grow_internal =
   freeze the committed part and carry the uncommitted tail over / doubling / buffer_is_full).
   A-layer: the content that was passed in - per item its type, id, user length, and its sub-items
   (tags with key/value lengths, node refs, members with role length and optional full member,
   discussion comments with user and text length).  Sizes follow the real layout arithmetic
   (sizeof constants are reported by the harness and compared with the CONSTANTS below).

   Strings are represented by their lengths; the harness materialises and re-checks their bytes. *)
EXTENDS Integers, Sequences, FiniteSets, TLC, Json

CONSTANTS Caps,        \* initial capacities to explore
          Modes,       \* subset of {"no", "yes", "internal"}
          Kinds,       \* subset of {"node", "way", "relation", "changeset"}
          ULens,       \* user name lengths
          TagLens,     \* set of <<keyLen, valueLen>>
          RoleLens,    \* role lengths
          CommentLens, \* set of <<userLen, textLen>>
          MaxObjects,  \* bound on objects built per history
          MaxElems,    \* bound on elements per sub-item list
          MaxSteps,    \* bound on history length (export / BFS)
          Ops,         \* names of the API calls enabled in this configuration
          ExportHist   \* TRUE: keep the history (behaviour export); FALSE: design check, states merge

ObjSize == [node |-> 40, way |-> 32, relation |-> 32, changeset |-> 56]
UserAvail(k) == IF k = "changeset" THEN 7 ELSE 5     \* bytes of user name that fit into the minimal 8 byte user field
SubHdr == 8         \* sizeof(TagList) = sizeof(WayNodeList) = sizeof(RelationMemberList) = sizeof(ChangesetDiscussion)
NodeRefSize == 16
MemberSize == 16
CommentSize == 16
Pad(n) == ((n + 7) \div 8) * 8
PadOf(n) == Pad(n) - n
SubKinds(k) == CASE k = "node" -> {"taglist"}
                 [] k = "way" -> {"taglist", "nodes"}
                 [] k = "relation" -> {"taglist", "members"}
                 [] k = "changeset" -> {"taglist", "disc"}

VARIABLES b,         \* the buffer under test: [mode, cap, written, committed, blk, pend, nested]
          oth,       \* a second buffer (source of add_buffer / push_back / full members, partner of swap)
          open,      \* stack of open builders (1 = object builder, 2 = its open sub-builder)
          nextId,    \* ids handed to new objects
          nobj,      \* objects built so far
          outcome,   \* "ok" | "full" (buffer_is_full thrown by the last action)
          purgeLog,  \* <<old, new>> offsets reported by the last purge_removed
          commitRet, \* value returned by the last commit()
          hist,      \* export: [a, args, exp] per step
          steps,     \* number of API calls so far
          last,      \* name of the last API call
          cfg0       \* initial [mode, cap] of the buffer under test
vars == <<b, oth, open, nextId, nobj, outcome, purgeLog, commitRet, hist, steps, last, cfg0>>

------------------------------------------------------------------------
(* A-layer: layout size of a finished item from its content *)
RECURSIVE SumSeq(_)
SumSeq(s) == IF s = <<>> THEN 0 ELSE Head(s) + SumSeq(Tail(s))
MapSeq(s, Op(_)) == [i \in 1..Len(s) |-> Op(s[i])]

TagBytes(tg) == tg[1] + 1 + tg[2] + 1
MemberBytes(m) == Pad(MemberSize + m.rl + 1) + m.full          \* m.full = padded size of the full member or 0
CommentBytes(c) == Pad(CommentSize + c[1] + 1 + c[2] + 1)
SubContentSize(s) ==       \* byte_size() of a finished sub-item (not padded)
    SubHdr + CASE s.t = "taglist" -> SumSeq(MapSeq(s.e, TagBytes))
               [] s.t = "nodes"   -> NodeRefSize * Len(s.e)
               [] s.t = "members" -> SumSeq(MapSeq(s.e, MemberBytes))
               [] s.t = "disc"    -> SumSeq(MapSeq(s.e, CommentBytes))
UserExtra(k, ul) == IF ul > UserAvail(k) THEN Pad(ul - UserAvail(k)) ELSE 0
PaddedSub(s) == Pad(SubContentSize(s))
ItemContentSize(it) == ObjSize[it.t] + 8 + UserExtra(it.t, it.ul) + SumSeq(MapSeq(it.subs, PaddedSub))

PSize(it) == Pad(it.size)
BlockBytes(items) == SumSeq(MapSeq(items, PSize))
Content(it) == [t |-> it.t, id |-> it.id, ul |-> it.ul, subs |-> it.subs, removed |-> it.removed]

------------------------------------------------------------------------
(* reserve_space(n) applied to a buffer record; several reservations of one API call are folded *)
RECURSIVE GrowTo(_, _)
GrowTo(c, need) == IF need <= c THEN c ELSE GrowTo(c * 2, need)

Reserve1(r, n) ==      \* r = [buf, full]
    IF r.full THEN r
    ELSE LET u == r.buf IN
    IF u.written + n <= u.cap THEN [r EXCEPT !.buf.written = u.written + n]
    ELSE IF u.mode = "no" THEN [r EXCEPT !.full = TRUE]
    ELSE LET gi == u.mode = "internal" /\ u.committed # 0        \* grow_internal(): freeze the committed part,
             w1 == IF gi THEN u.written - u.committed ELSE u.written    \* carry the uncommitted tail over
             c1 == IF gi THEN 0 ELSE u.committed
             cap1 == IF w1 + n > u.cap THEN GrowTo(u.cap * 2, w1 + n) ELSE u.cap
         IN [r EXCEPT !.buf = [u EXCEPT !.cap = cap1, !.written = w1 + n, !.committed = c1,
                                        !.nested = IF gi THEN <<u.blk>> \o u.nested ELSE u.nested,
                                        !.blk = IF gi THEN <<>> ELSE u.blk]]

RECURSIVE ReserveAll(_, _)
ReserveAll(r, sizes) == IF sizes = <<>> THEN r ELSE ReserveAll(Reserve1(r, Head(sizes)), Tail(sizes))
NonZero(sizes) == SelectSeq(sizes, LAMBDA x : x > 0)
Reserve(u, sizes) == ReserveAll([buf |-> u, full |-> FALSE], NonZero(sizes))

NewBuf(mode, cap, items) ==
    [mode |-> mode, cap |-> cap, written |-> BlockBytes(items), committed |-> BlockBytes(items),
     blk |-> items, pend |-> <<>>, nested |-> <<>>]

(* the two objects the second buffer starts with *)
OthItems == << [t |-> "node", size |-> 48, id |-> 900, ul |-> 0, subs |-> <<>>, removed |-> FALSE],
               [t |-> "way", size |-> 32 + 8 + 8 + 8 + 32, id |-> 901, ul |-> 6,
                subs |-> <<[t |-> "nodes", size |-> 8 + 32, e |-> <<0, 0>>]>>, removed |-> FALSE] >>

Init == /\ \E m \in Modes, c \in Caps : b = NewBuf(m, c, <<>>) /\ cfg0 = [mode |-> m, cap |-> c]
        /\ steps = 0 /\ last = "Init"
        /\ oth = NewBuf("yes", 256, OthItems)
        /\ open = <<>> /\ nextId = 1 /\ nobj = 0 /\ outcome = "ok" /\ purgeLog = <<>> /\ commitRet = 0
        /\ hist = <<>>

------------------------------------------------------------------------
(* what the replay harness compares after every step (the projection the property names) *)
RECURSIVE FlattenBlocks(_)
FlattenBlocks(bs) == IF bs = <<>> THEN <<>> ELSE FlattenBlocks(Tail(bs)) \o Head(bs)   \* oldest block is last in the chain
AllCommitted(u) == MapSeq(FlattenBlocks(u.nested) \o u.blk, Content)
Obs(u, out) == [pb |-> u.written - u.committed,          \* bytes written but not committed
                all |-> AllCommitted(u),                  \* nested (oldest first) then the current block
                out |-> out]

Rec(a, args) == /\ hist' = IF ExportHist
                           THEN Append(hist, [a |-> a, args |-> args, exp |-> Obs(b', outcome'),
                                              plog |-> purgeLog', cret |-> commitRet'])
                           ELSE hist
                /\ steps' = steps + 1 /\ last' = a /\ UNCHANGED cfg0
Steps == steps < MaxSteps
Idle == open = <<>>

(* apply a reservation list to b; on buffer_is_full nothing else changes (reserve_space throws before modifying) *)
WithReserve(sizes, OnOk(_)) ==
    LET r == Reserve(b, sizes) IN
    IF r.full THEN /\ outcome' = "full" /\ UNCHANGED <<b, oth, open, nextId, nobj, purgeLog, commitRet>>
    ELSE /\ outcome' = "ok" /\ OnOk(r.buf)

AddSize(stack, n) == [i \in 1..Len(stack) |-> [stack[i] EXCEPT !.size = @ + n]]   \* add_size(): self and all parents

------------------------------------------------------------------------
(* builder actions; builders only with growing buffers ("no" mode is exercised by add_buffer/push_back) *)
OpenObject(k) ==
    /\ Steps /\ Idle /\ nobj < MaxObjects /\ b.mode # "no"
    /\ WithReserve(<<ObjSize[k] + 8>>, LAMBDA u :
         /\ b' = u
         /\ open' = <<[t |-> k, off |-> b.written - b.committed, size |-> ObjSize[k] + 8, id |-> nextId,
                       ul |-> 0, subs |-> <<>>, userSet |-> FALSE]>>
         /\ nextId' = nextId + 1 /\ nobj' = nobj + 1
         /\ UNCHANGED <<oth, purgeLog, commitRet>>)
    /\ Rec("OpenObject", [k |-> k, id |-> nextId])

SetUser(ul) ==
    /\ Steps /\ Len(open) = 1 /\ ~open[1].userSet /\ open[1].subs = <<>>
    /\ LET extra == UserExtra(open[1].t, ul) IN
       WithReserve(<<extra>>, LAMBDA u :
         /\ b' = u
         /\ open' = <<[open[1] EXCEPT !.size = @ + extra, !.ul = ul, !.userSet = TRUE]>>
         /\ UNCHANGED <<oth, nextId, nobj, purgeLog, commitRet>>)
    /\ Rec("SetUser", [ul |-> ul])

OpenSub(sk) ==
    /\ Steps /\ Len(open) = 1 /\ sk \in SubKinds(open[1].t)
    /\ \A i \in 1..Len(open[1].subs) : open[1].subs[i].t # sk
    /\ WithReserve(<<SubHdr>>, LAMBDA u :
         /\ b' = u
         /\ open' = AddSize(open, SubHdr) \o
                    <<[t |-> sk, off |-> b.written - b.committed, size |-> SubHdr, e |-> <<>>, pendingComment |-> FALSE]>>
         /\ UNCHANGED <<oth, nextId, nobj, purgeLog, commitRet>>)
    /\ Rec("OpenSub", [k |-> sk])

TopIs(sk) == Len(open) = 2 /\ open[2].t = sk /\ Len(open[2].e) < MaxElems

AppendElem(sizes, elem, act, args) ==
    /\ WithReserve(sizes, LAMBDA u :
         /\ b' = u
         /\ open' = LET st == AddSize(open, SumSeq(sizes)) IN [st EXCEPT ![2].e = Append(@, elem)]
         /\ UNCHANGED <<oth, nextId, nobj, purgeLog, commitRet>>)
    /\ Rec(act, args)

AddTag(tg) == Steps /\ TopIs("taglist") /\ AppendElem(<<tg[1] + 1, tg[2] + 1>>, tg, "AddTag", [k |-> tg[1], v |-> tg[2]])
AddNodeRef == Steps /\ TopIs("nodes") /\ AppendElem(<<NodeRefSize>>, 0, "AddNodeRef", [x |-> 0])

FullMember == IF oth.blk # <<>> THEN oth.blk[1] ELSE [size |-> 0]
AddMember(rl, full) ==
    /\ Steps /\ TopIs("members") /\ (full => (oth.blk # <<>> /\ oth.blk[1].t \in {"node", "way", "relation"}))
    /\ LET fs == IF full THEN PSize(FullMember) ELSE 0 IN
       AppendElem(<<MemberSize, rl + 1, PadOf(MemberSize + rl + 1), fs>>,
                  [rl |-> rl, full |-> fs, fid |-> IF full THEN FullMember.id ELSE 0],
                  "AddMember", [rl |-> rl, full |-> full])

AddComment(ul) ==
    /\ Steps /\ TopIs("disc") /\ ~open[2].pendingComment
    /\ WithReserve(<<CommentSize, ul + 1>>, LAMBDA u :
         /\ b' = u
         /\ open' = [AddSize(open, CommentSize + ul + 1) EXCEPT ![2].pendingComment = TRUE, ![2].e = Append(@, <<ul, -1>>)]
         /\ UNCHANGED <<oth, nextId, nobj, purgeLog, commitRet>>)
    /\ Rec("AddComment", [ul |-> ul])

AddCommentText(tl) ==
    /\ Steps /\ Len(open) = 2 /\ open[2].t = "disc" /\ open[2].pendingComment
    /\ LET n == Len(open[2].e)
           ul == open[2].e[n][1]
           sizes == <<tl + 1, PadOf(open[2].size + tl + 1)>> IN
       WithReserve(sizes, LAMBDA u :
         /\ b' = u
         /\ open' = [AddSize(open, SumSeq(sizes)) EXCEPT ![2].pendingComment = FALSE,
                                                           ![2].e = [open[2].e EXCEPT ![n] = <<ul, tl>>]]
         /\ UNCHANGED <<oth, nextId, nobj, purgeLog, commitRet>>)
    /\ Rec("AddCommentText", [tl |-> tl])

CloseSub ==          \* ~XxxBuilder(): add_padding() pads the memory and adds the padding to the PARENT's size only
    /\ Steps /\ Len(open) = 2 /\ ~open[2].pendingComment
    /\ LET pad == PadOf(open[2].size) IN
       WithReserve(<<pad>>, LAMBDA u :
         /\ b' = u
         /\ open' = <<[open[1] EXCEPT !.size = @ + pad,
                                      !.subs = Append(@, [t |-> open[2].t, size |-> open[2].size, e |-> open[2].e])]>>
         /\ UNCHANGED <<oth, nextId, nobj, purgeLog, commitRet>>)
    /\ Rec("CloseSub", [x |-> 0])

CloseObject ==
    /\ Steps /\ Len(open) = 1
    /\ b' = [b EXCEPT !.pend = Append(@, [t |-> open[1].t, size |-> open[1].size, id |-> open[1].id,
                                          ul |-> open[1].ul, subs |-> open[1].subs, removed |-> FALSE])]
    /\ open' = <<>> /\ outcome' = "ok"
    /\ UNCHANGED <<oth, nextId, nobj, purgeLog, commitRet>>
    /\ Rec("CloseObject", [x |-> 0])

------------------------------------------------------------------------
(* buffer actions *)
Commit ==
    /\ Steps /\ Idle
    /\ b' = [b EXCEPT !.blk = @ \o b.pend, !.pend = <<>>, !.committed = b.written]
    /\ commitRet' = b.committed /\ outcome' = "ok"
    /\ UNCHANGED <<oth, open, nextId, nobj, purgeLog>>
    /\ Rec("Commit", [x |-> 0])

Rollback ==
    /\ Steps /\ Idle /\ b.pend # <<>>
    /\ b' = [b EXCEPT !.pend = <<>>, !.written = b.committed]
    /\ outcome' = "ok"
    /\ UNCHANGED <<oth, open, nextId, nobj, purgeLog, commitRet>>
    /\ Rec("Rollback", [x |-> 0])

Clear ==
    /\ Steps /\ Idle /\ (b.blk # <<>> \/ b.pend # <<>>)
    /\ b' = [b EXCEPT !.blk = <<>>, !.pend = <<>>, !.written = 0, !.committed = 0]
    /\ commitRet' = b.committed /\ outcome' = "ok"
    /\ UNCHANGED <<oth, open, nextId, nobj, purgeLog>>
    /\ Rec("Clear", [x |-> 0])

AddBuffer ==         \* add_buffer(other): appends other's committed bytes, uncommitted
    /\ Steps /\ Idle /\ oth.blk # <<>>
    /\ WithReserve(<<oth.committed>>, LAMBDA u :
         /\ b' = [u EXCEPT !.pend = @ \o oth.blk]
         /\ UNCHANGED <<oth, open, nextId, nobj, purgeLog, commitRet>>)
    /\ Rec("AddBuffer", [x |-> 0])

PushBack ==          \* push_back(item) = add_item + commit (commits everything pending, too)
    /\ Steps /\ Idle /\ oth.blk # <<>>
    /\ LET it == oth.blk[Len(oth.blk)] IN
       WithReserve(<<PSize(it)>>, LAMBDA u :
         /\ b' = [u EXCEPT !.blk = @ \o u.pend \o <<it>>, !.pend = <<>>, !.committed = u.written]
         /\ UNCHANGED <<oth, open, nextId, nobj, purgeLog, commitRet>>)
    /\ Rec("PushBack", [x |-> 0])

SetRemoved(i) ==
    /\ Steps /\ Idle /\ i \in 1..Len(b.blk) /\ ~b.blk[i].removed
    /\ b' = [b EXCEPT !.blk[i].removed = TRUE]
    /\ outcome' = "ok"
    /\ UNCHANGED <<oth, open, nextId, nobj, purgeLog, commitRet>>
    /\ Rec("SetRemoved", [i |-> i])

(* purge_removed(callback): keep exactly the non-removed items in order; report <<old, new>> for each kept
   item that moves *)
RECURSIVE PurgeWalk(_, _, _, _, _)
PurgeWalk(items, rd, wr, kept, log) ==
    IF items = <<>> THEN [kept |-> kept, log |-> log, end |-> wr]
    ELSE LET it == Head(items) IN
         IF it.removed THEN PurgeWalk(Tail(items), rd + PSize(it), wr, kept, log)
         ELSE PurgeWalk(Tail(items), rd + PSize(it), wr + PSize(it), Append(kept, it),
                        IF rd # wr THEN Append(log, <<rd, wr>>) ELSE log)
Purge ==
    /\ Steps /\ Idle /\ b.pend = <<>> /\ b.blk # <<>>
    /\ LET p == PurgeWalk(b.blk, 0, 0, <<>>, <<>>) IN
         /\ b' = [b EXCEPT !.blk = p.kept, !.written = p.end, !.committed = p.end]
         /\ purgeLog' = p.log
    /\ outcome' = "ok"
    /\ UNCHANGED <<oth, open, nextId, nobj, commitRet>>
    /\ Rec("Purge", [x |-> 0])

Swap ==
    /\ Steps /\ Idle
    /\ b' = oth /\ oth' = b /\ outcome' = "ok"
    /\ UNCHANGED <<open, nextId, nobj, purgeLog, commitRet>>
    /\ Rec("Swap", [x |-> 0])

Move ==              \* Buffer tmp{std::move(b)}; b = std::move(tmp);  - the content travels with it
    /\ Steps /\ Idle /\ last # "Move"
    /\ outcome' = "ok"
    /\ UNCHANGED <<b, oth, open, nextId, nobj, purgeLog, commitRet>>
    /\ Rec("Move", [x |-> 0])

On(a) == a \in Ops
Next == \/ On("OpenObject") /\ \E k \in Kinds : OpenObject(k)
        \/ On("SetUser") /\ \E ul \in ULens : SetUser(ul)
        \/ On("OpenSub") /\ \E sk \in {"taglist", "nodes", "members", "disc"} : OpenSub(sk)
        \/ On("AddTag") /\ \E tg \in TagLens : AddTag(tg)
        \/ On("AddNodeRef") /\ AddNodeRef
        \/ On("AddMember") /\ \E rl \in RoleLens, f \in BOOLEAN : AddMember(rl, f)
        \/ On("AddComment") /\ \E c \in CommentLens : AddComment(c[1]) \/ AddCommentText(c[2])
        \/ On("OpenSub") /\ CloseSub
        \/ On("OpenObject") /\ CloseObject
        \/ On("Commit") /\ Commit
        \/ On("Rollback") /\ Rollback
        \/ On("Clear") /\ Clear
        \/ On("AddBuffer") /\ AddBuffer
        \/ On("PushBack") /\ PushBack
        \/ On("SetRemoved") /\ \E i \in 1..3 : SetRemoved(i)
        \/ On("Purge") /\ Purge
        \/ On("Swap") /\ Swap
        \/ On("Move") /\ Move

Spec == Init /\ [][Next]_vars

------------------------------------------------------------------------
(* Invariants *)
BufOK(u) == /\ 0 <= u.committed /\ u.committed <= u.written /\ u.written <= u.cap
            /\ u.committed % 8 = 0 /\ u.cap % 8 = 0 /\ u.cap >= 64
            /\ u.committed = BlockBytes(u.blk)
Bounds == BufOK(b) /\ BufOK(oth)

(* no gaps: with no builder open the uncommitted bytes are exactly the pending items, 8-byte aligned *)
IdleLayout == Idle => /\ b.written = b.committed + BlockBytes(b.pend)
                      /\ b.written % 8 = 0

(* the size every item header holds (accumulated by add_size through all parents) equals the layout size
   of what was passed in *)
SizesMatch(u) == \A i \in 1..Len(u.blk) : u.blk[i].size = ItemContentSize(u.blk[i])
PendSizes == \A i \in 1..Len(b.pend) : b.pend[i].size = ItemContentSize(b.pend[i])
Sizes == SizesMatch(b) /\ PendSizes /\ \A k \in 1..Len(b.nested) :
             \A i \in 1..Len(b.nested[k]) : b.nested[k][i].size = ItemContentSize(b.nested[k][i])
SubSizes(u) == \A i \in 1..Len(u.blk) : \A j \in 1..Len(u.blk[i].subs) :
                   u.blk[i].subs[j].size = SubContentSize(u.blk[i].subs[j])

(* a builder's offset relative to the committed mark still addresses its item, whatever reserve_space did:
   the object starts right after the pending items, the sub-item at the end of what the parent had before it,
   and the written mark is the end of the outermost open item *)
BuilderOffsets ==
    /\ Len(open) >= 1 => /\ open[1].off = BlockBytes(b.pend)
                         /\ b.written = b.committed + open[1].off + open[1].size
    /\ Len(open) = 2 => open[2].off = open[1].off + open[1].size - open[2].size

(* frozen blocks are never empty and the chain keeps the order of commitment *)
NestedOK == \A k \in 1..Len(b.nested) : b.nested[k] # <<>>

(* commit() returns the offset at which the newly committed data starts *)
PurgeLogOK == \A i \in 1..Len(purgeLog) : purgeLog[i][2] < purgeLog[i][1]

Inv == Bounds /\ IdleLayout /\ Sizes /\ SubSizes(b) /\ BuilderOffsets /\ NestedOK /\ PurgeLogOK

(* rollback drops only uncommitted data; commit/rollback/clear never touch the frozen chain *)
CommittedStable == [][(steps' # steps /\ last' \in {"Rollback", "OpenObject", "SetUser", "OpenSub", "AddTag",
                        "AddNodeRef", "AddMember", "AddComment", "AddCommentText", "CloseSub", "CloseObject", "AddBuffer",
                        "Move", "SetRemoved"})
                       => MapSeq(AllCommitted(b'), LAMBDA c : [c EXCEPT !.removed = FALSE])
                          = MapSeq(AllCommitted(b), LAMBDA c : [c EXCEPT !.removed = FALSE])]_vars

------------------------------------------------------------------------
Terminal == steps = MaxSteps
Export == Terminal => PrintT(<<"CASE", ToJson([mode |-> cfg0.mode, cap |-> cfg0.cap, steps |-> hist])>>)
=============================================================================
