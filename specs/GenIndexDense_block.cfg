SPECIFICATION Spec
CONSTANTS
  Cand = {0, 1, 65535, 65536, 65537, 131071, 131072}
  Probes = {0, 1, 2, 65534, 65535, 65536, 65537, 65538, 131070, 131071, 131072, 131073}
  MaxSets = 3
  MaxSorts = 1
  MaxDumps = 1
  ArrayLimit = 4194304
  ExportHist = TRUE
  G = 1048576
  Backings = {"mmap"}
  ReserveSizes = {1048577}
  ForeignInit = FALSE
INVARIANTS Refines NoGarbage FileOK Export
CHECK_DEADLOCK FALSE
