SPECIFICATION Spec
CONSTANTS
  Options <- OptsBulk
  Elements <- ElemsF7
  FixedInputs <- NoInputs
  MaxLen = 3
  MaxBlob = 33554432
  GateSize = 31876710
  MaxEntities = 8000
  Sizes <- SizesMC
  Tolerance = 0
  PostCheck = FALSE
  ExportHist = FALSE
INVARIANTS TypeOK RoundTrip BlobLimits BlockShape DeltaReset SizeLimit
