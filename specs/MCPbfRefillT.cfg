SPECIFICATION Spec
CONSTANTS
  SizeLen = 4
  MaxFrames = 3
  HdrLens = {1, 2, 3}
  BlobLens = {1, 3}
  Shapes <- NoShapes
  MaxCuts = 99
  FixedSizes = {}
  ExportHist = FALSE
INVARIANTS WindowInv ResultInv
