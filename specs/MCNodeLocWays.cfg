SPECIFICATION Spec
CONSTANTS
  PosCand = {0, 1, 2, 5}
  NegCand = {1, 2, 7}
  PosRefs = {0, 1, 2, 3, 4, 5}
  NegRefs = {1, 2, 3, 7, 8}
  MaxNodes = 4
  MaxWays = 2
  MaxU = 1000
  ExportHist = FALSE
INVARIANTS Refines SortLogic Stores
CHECK_DEADLOCK FALSE
