----------------------------- MODULE NodeLocWays ----------------------------
(* C12, osmium::handler::NodeLocationsForWays<TStoragePosIDs, TStorageNegIDs> (handler/node_locations_for_ways.hpp).

   A-layer: a partial function from SIGNED node ids to locations; a way receives for every node reference the
   location of the node with that id (0 = undefined location when there is no such node; the handler then throws
   osmium::not_found after having set all locations, unless ignore_errors() was called).

   I-layer: m_last_id, m_must_sort and the two stores.  The stores are modelled as the most demanding
   implementation the handler can be given - an append-only vector that answers lookups by std::lower_bound and
   therefore only when its ids are ascending (sparse_*_array, flex_mem in sparse mode).  node(): the m_must_sort
   logic on positive_id(); way(): conditional sort of both stores, m_last_id = max, then one lookup per reference. *)
EXTENDS Integers, Sequences, FiniteSets, TLC, Json

CONSTANTS PosCand, NegCand,   \* candidate node ids: PosCand \cup {-x : x \in NegCand}  (TLC cfg files have no negative literals)
          PosRefs, NegRefs,   \* node references put into the "all" way: every candidate plus never-inserted ids
          MaxNodes, MaxWays,
          MaxU,               \* std::numeric_limits<unsigned_object_id_type>::max() (any number above every |id|)
          ExportHist
Cand == PosCand \cup {-x : x \in NegCand}
Refs == PosRefs \cup {-x : x \in NegRefs}

VARIABLES amap,                 \* A-layer
          pos, neg,             \* the stores: sequences of <<unsigned id, value>>
          lastId, mustSort,     \* m_last_id, m_must_sort
          nways, sinceWay, done, hist
vars == <<amap, pos, neg, lastId, mustSort, nways, sinceWay, done, hist>>

Abs(x) == IF x < 0 THEN -x ELSE x
RECURSIVE Asc(_, _)
Asc(T, acc) == IF T = {} THEN acc ELSE LET m == CHOOSE x \in T : \A y \in T : x <= y IN Asc(T \ {m}, Append(acc, m))
SeqSet(s) == {s[i] : i \in 1..Len(s)}
IdsOf(v) == [i \in 1..Len(v) |-> v[i][1]]
PairsSorted(v) == \A i \in 1..Len(v) - 1 : v[i][1] < v[i + 1][1]
SortPairs(v) == LET ids == Asc(SeqSet(IdsOf(v)), <<>>) IN [i \in 1..Len(ids) |-> CHOOSE p \in SeqSet(v) : p[1] = ids[i]]
RECURSIVE LB(_, _, _, _)
LB(v, id, first, count) == IF count <= 0 THEN first
                           ELSE LET step == count \div 2
                                    it == first + step
                                IN IF v[it][1] < id THEN LB(v, id, it + 1, count - (step + 1)) ELSE LB(v, id, first, step)
VecLookup(v, id) == LET k == LB(v, id, 1, Len(v)) IN IF k > Len(v) \/ v[k][1] # id THEN 0 ELSE v[k][2]

NextVal == Cardinality(DOMAIN amap) + 1
ALookup(id) == IF id \in DOMAIN amap THEN amap[id] ELSE 0
RefSeq == Asc(Refs, <<>>)
Inserted == Asc(DOMAIN amap, <<>>)

Init == /\ amap = <<>> /\ pos = <<>> /\ neg = <<>> /\ lastId = 0 /\ mustSort = FALSE
        /\ nways = 0 /\ sinceWay = 0 /\ done = FALSE /\ hist = <<>>

(* node(): if (node.positive_id() < m_last_id) m_must_sort = true;  m_last_id = node.positive_id();
           id >= 0 ? m_storage_pos.set(id, loc) : m_storage_neg.set(-id, loc) *)
Node(id) == /\ ~done /\ Cardinality(DOMAIN amap) < MaxNodes /\ id \notin DOMAIN amap
            /\ mustSort' = (mustSort \/ Abs(id) < lastId)
            /\ lastId' = Abs(id)
            /\ IF id >= 0 THEN pos' = Append(pos, <<id, NextVal>>) /\ UNCHANGED neg
                          ELSE neg' = Append(neg, <<-id, NextVal>>) /\ UNCHANGED pos
            /\ amap' = (id :> NextVal) @@ amap
            /\ sinceWay' = sinceWay + 1
            /\ UNCHANGED <<nways, done>>
            /\ hist' = IF ExportHist THEN Append(hist, [a |-> "node", id |-> id, v |-> NextVal, refs |-> <<>>, locs |-> <<>>, irefs |-> <<>>, ilocs |-> <<>>]) ELSE hist

(* way(): if (m_must_sort) { pos.sort(); neg.sort(); m_must_sort = false; m_last_id = max; }  then per reference
          get_node_location(ref) = (ref >= 0 ? pos.get_noexcept(ref) : neg.get_noexcept(-ref)) *)
PosAtWay == IF mustSort THEN SortPairs(pos) ELSE pos
NegAtWay == IF mustSort THEN SortPairs(neg) ELSE neg
WayLoc(r) == IF r >= 0 THEN VecLookup(PosAtWay, r) ELSE VecLookup(NegAtWay, -r)
Way == /\ ~done /\ nways < MaxWays /\ sinceWay > 0
       /\ pos' = PosAtWay /\ neg' = NegAtWay
       /\ mustSort' = FALSE
       /\ lastId' = IF mustSort THEN MaxU ELSE lastId
       /\ nways' = nways + 1 /\ sinceWay' = 0
       /\ UNCHANGED <<amap, done>>
       /\ hist' = IF ExportHist
                  THEN Append(hist, [a |-> "way", id |-> 0, v |-> 0,
                                     refs |-> RefSeq, locs |-> [i \in 1..Len(RefSeq) |-> WayLoc(RefSeq[i])],       \* a way referencing every id of Refs
                                     irefs |-> Inserted, ilocs |-> [i \in 1..Len(Inserted) |-> WayLoc(Inserted[i])]]) \* a way referencing the nodes seen so far
                  ELSE hist

Finish == /\ ~done /\ Cardinality(DOMAIN amap) = MaxNodes /\ sinceWay = 0
          /\ done' = TRUE /\ UNCHANGED <<amap, pos, neg, lastId, mustSort, nways, sinceWay, hist>>

Next == \/ \E id \in Cand : Node(id)
        \/ Way
        \/ Finish
Spec == Init /\ [][Next]_vars

\* ---------------------------------------------------------------- I => A
(* a way handled in ANY reachable state gets the right location for every reference *)
Refines == \A r \in Refs \cup DOMAIN amap : WayLoc(r) = ALookup(r)
(* the m_must_sort logic: whenever the handler would not sort, both stores already satisfy lower_bound's precondition *)
SortLogic == ~mustSort => PairsSorted(pos) /\ PairsSorted(neg)
Stores == /\ SeqSet(pos) = {<<id, amap[id]>> : id \in {i \in DOMAIN amap : i >= 0}}
          /\ SeqSet(neg) = {<<-id, amap[id]>> : id \in {i \in DOMAIN amap : i < 0}}
Export == done => PrintT(<<"CASE", ToJson([steps |-> hist])>>)
=============================================================================
