\* C20 ext (specs/TagRules.tla), thorough: design check and export; the complete product rule lists of length <= 3 x tag lists of length <= 3 for all four families, two templates per family, four tags.  Deadlock checking stays on: every behaviour must reach phase "done".
SPECIFICATION Spec
CONSTANTS
  Fams <- AllFams
  Alpha <- AlphaTiny
  Shapes <- ShapeTiny33
INVARIANTS TypeOK RefinesRules RefinesIter RefinesRest Export
