SPECIFICATION Spec
CONSTANTS
  Cand = {0, 1, 2, 3, 5, 7, 8, 12, 17}
  Probes = {0, 1, 2, 3, 4, 5, 6, 7, 8, 9, 10, 11, 12, 13, 16, 17, 18}
  MaxSets = 4
  MaxSorts = 2
  MaxDumps = 1
  ArrayLimit = 100
  ExportHist = FALSE
  B = 4
  MinDense = 3
  Factor = 3
  Dense0 = FALSE
INVARIANTS Refines Link
CHECK_DEADLOCK FALSE
