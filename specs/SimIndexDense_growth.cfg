SPECIFICATION Spec
CONSTANTS
  Cand = {3, 1048574, 1048575, 1048576, 1048577, 2097152, 2097153, 2097154}
  Probes = {2, 3, 4, 1048573, 1048574, 1048575, 1048576, 1048577, 1048578, 2097151, 2097152, 2097153, 2097154, 2097155, 3145727, 3145728, 3145731}
  MaxSets = 6
  MaxSorts = 2
  MaxDumps = 2
  ArrayLimit = 4194304
  ExportHist = TRUE
  G = 1048576
  Backings = {"mmap"}
  ReserveSizes = {1048581, 3145728}
  ForeignInit = FALSE
INVARIANTS Refines NoGarbage FileOK Export
CHECK_DEADLOCK FALSE
