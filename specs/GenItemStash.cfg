SPECIFICATION Spec
CONSTANTS
  Cap0 = 16
  Sizes = {1, 5}
  GCMin = 2
  MaxItems = 8
  MaxSteps = 14
  ExportHist = TRUE
INVARIANTS Refines Export
CHECK_DEADLOCK FALSE
