\* behaviour export: every area with 0..4 outer rings x 0..1 inner rings each, rings from CatTwo (a plain ring and one with runs of duplicates)
SPECIFICATION Spec
CONSTANTS
  Toks = {"p"}
  MaxLen = 0
  Kinds = {"multipolygon"}
  RingCat <- CatTwo
  MaxOuter = 4
  MaxInner = 1
  MaxCalls = 1
  ExportHist = TRUE
INVARIANTS TypeOK Refines RegsOK NoEmptyList Export
CHECK_DEADLOCK FALSE
