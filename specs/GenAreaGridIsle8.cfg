SPECIFICATION Spec
CONSTANTS
  G = 8
  MaxRings = 4
  Drawings = 3
  Kinds = {"rect", "rectS", "rectD", "trap", "trapT", "tri", "L", "dia"}
  MutSeq <- MutMild
  ModeSeq <- ModeIsle
  MaxSegs = 54
  Styles = {"long", "short", "mixed", "mid"}
  RolePats <- AllRolePats
  Theorems = FALSE
  Tiles = FALSE
INVARIANTS Export
CHECK_DEADLOCK FALSE
