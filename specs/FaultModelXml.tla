---------------------------- MODULE FaultModelXml ----------------------------
(* C03 (2/2).  The XML input handler of libosmium as an implementation-shaped state machine, driven by
   EVERY sequence of start/end/character events over the OSM element vocabulary (= every well-formed
   XML document over that vocabulary, whatever its nesting) within a bound on the number of elements
   and on the depth.

   I-layer: one variable per piece of state of io/detail/xml_input_format.hpp (XMLParser):
     stack      m_context_stack
     obj        the object whose builder is open (m_node_builder / m_way_builder / m_relation_builder /
                m_changeset_builder) with the sub-items written so far, or NoObj
     tl, wnl, rml, disc
                m_tl_builder, m_wnl_builder, m_rml_builder, m_changeset_discussion_builder:
                0 = null, k > 0 = builder of the k-th sub-item of obj
     pend       ChangesetDiscussionBuilder::m_comment_offset # 0 (a comment without text is pending)
     textSeen   XMLParser::m_comment_text_seen (only in the repaired handler)
     txt        m_comment_text is non-empty
   and one action per callback: Start(el) = start_element, End = end_element, Chars = characters.
   Each branch of the callbacks' switch statements is one disjunct below.

   A-layer: "whatever gets committed to the buffer is a well-formed item" (WellFormedCommitted):
   a discussion is a sequence of comments each of which is complete (user AND text written, padded) -
   that is what ChangesetComment::next()/text() rely on - and a builder only ever appends to the LAST
   sub-item of the object (BuilderDiscipline), which is what keeps the item sizes nested correctly.

   Fixed = TRUE  : the handler and the ChangesetDiscussionBuilder as repaired (a pending comment is completed
                   with an empty text by the builder; a second <text> in one <comment> is rejected).
   Fixed = FALSE : as shipped; TLC finds the violations (<comment> without <text>, two <text>) -
                   cfg MCFaultXmlDefect.cfg documents that the model has teeth.

   Export: every terminal history (document complete, or rejected by the handler) with the expected
   outcome and the expected shape of every committed object. *)
EXTENDS Integers, Sequences, FiniteSets, TLC, Json

CONSTANTS MaxElems,     \* number of start events after the root
          MaxDepth,     \* maximal length of the context stack
          Fixed,
          Vocab,        \* the element names fed to the handler
          ReadTypes,    \* the entity types the Reader was asked for (subset of {"n","w","r","c"}): read_types()
          ExportHist

VARIABLES stack, obj, tl, wnl, rml, disc, pend, textSeen, txt, committed, ncommitted, bad, status, nel, hist
vars == <<stack, obj, tl, wnl, rml, disc, pend, textSeen, txt, committed, ncommitted, bad, status, nel, hist>>

AllElems == {"osm", "osmChange", "create", "modify", "delete", "node", "way", "relation", "changeset", "tag", "nd",
             "member", "discussion", "comment", "text", "bounds", "bbox", "foo"}
ASSUME Vocab \subseteq AllElems
ASSUME ReadTypes \subseteq {"n", "w", "r", "c"}

NoObj == [t |-> "-", subs |-> <<>>]
Top == stack[Len(stack)]
Push(c) == stack' = Append(stack, c)
Pop == stack' = SubSeq(stack, 1, Len(stack) - 1)

Init == /\ stack = <<>> /\ obj = NoObj /\ tl = 0 /\ wnl = 0 /\ rml = 0 /\ disc = 0
        /\ pend = FALSE /\ textSeen = FALSE /\ txt = FALSE
        /\ committed = <<>> /\ ncommitted = 0 /\ bad = FALSE
        /\ status = "run" /\ nel = 0 /\ hist = <<>>

Rec(e) == hist' = IF ExportHist THEN Append(hist, e) ELSE hist

Reject(e) == /\ status' = "reject"
             /\ UNCHANGED <<stack, obj, tl, wnl, rml, disc, pend, textSeen, txt, committed, ncommitted, bad>>
             /\ Rec(e)

\* ---- sub-item bookkeeping (what the builders write) -------------------------------------------------
NewSub(k)   == Append(obj.subs, [k |-> k, n |-> 0, cm |-> <<>>, corrupt |-> FALSE])
Bump(S, i)  == [S EXCEPT ![i].n = @ + 1]
\* ChangesetDiscussionBuilder: finish a pending comment with an empty text (repaired builder only)
Finish(S, i) == [S EXCEPT ![i].cm[Len(S[i].cm)] = [complete |-> TRUE, nonempty |-> FALSE]]

\* destructor of the discussion builder (m_changeset_discussion_builder.reset()) applied to sub-item list S
CloseDisc(S) == IF disc # 0 /\ pend /\ Fixed THEN Finish(S, disc) ELSE S

\* get_tag(): open a TagListBuilder if there is none, add one tag
GetTag(S) == IF tl = 0 THEN LET S2 == Append(S, [k |-> "T", n |-> 1, cm |-> <<>>, corrupt |-> FALSE]) IN [s |-> S2, tl |-> Len(S2)]
                       ELSE [s |-> Bump(S, tl), tl |-> tl]

\* ---- start_element ------------------------------------------------------------------------------------
StartTop(el) ==
    /\ stack = <<>>
    /\ IF el \in {"osm", "osmChange"}
         THEN /\ Push(el) /\ status' = "run" /\ Rec("S:" \o el)
              /\ UNCHANGED <<obj, tl, wnl, rml, disc, pend, textSeen, txt, committed, ncommitted, bad>>
         ELSE Reject("S:" \o el)

\* if (read_types() & <type>) { builder = new ...Builder } - otherwise only the context is pushed
OpenObject(el, t) == /\ Push(el) /\ obj' = (IF t \in ReadTypes THEN [t |-> t, subs |-> <<>>] ELSE NoObj) /\ status' = "run" /\ Rec("S:" \o el)
                     /\ UNCHANGED <<tl, wnl, rml, disc, pend, textSeen, txt, committed, ncommitted, bad>>

PushOnly(el, c) == /\ Push(c) /\ status' = "run" /\ Rec("S:" \o el)
                   /\ UNCHANGED <<obj, tl, wnl, rml, disc, pend, textSeen, txt, committed, ncommitted, bad>>
\* the element is accepted but nothing is built (its entity type was not asked for)
Skip(el, c) == PushOnly(el, c)

\* data_level_element(element, attrs, in_change_section)
DataLevel(el, inChange) ==
    CASE el = "node" -> OpenObject(el, "n")
      [] el = "way" -> OpenObject(el, "w")
      [] el = "relation" -> OpenObject(el, "r")
      [] inChange -> Reject("S:" \o el)
      [] el = "changeset" -> OpenObject(el, "c")
      [] el \in {"create", "modify", "delete"} -> IF Top = "osmChange" THEN PushOnly(el, el) ELSE Reject("S:" \o el)
      [] el = "bounds" -> PushOnly(el, "bounds")
      [] OTHER -> PushOnly(el, "other")

InNode(el) ==
    IF el = "tag" /\ "n" \notin ReadTypes THEN Skip(el, "tag") ELSE
    IF el = "tag"
      THEN LET g == GetTag(obj.subs) IN
           /\ Push("tag") /\ obj' = [obj EXCEPT !.subs = g.s] /\ tl' = g.tl /\ status' = "run" /\ Rec("S:tag")
           /\ UNCHANGED <<wnl, rml, disc, pend, textSeen, txt, committed, ncommitted, bad>>
      ELSE Reject("S:" \o el)

InWay(el) ==
    CASE el \in {"nd", "tag"} /\ "w" \notin ReadTypes -> Skip(el, el)
      [] el = "nd" ->       \* m_tl_builder.reset(); if (!m_wnl_builder) new; add_node_ref
            LET S == IF wnl = 0 THEN NewSub("N") ELSE obj.subs
                w == IF wnl = 0 THEN Len(S) ELSE wnl IN
            /\ Push("nd") /\ tl' = 0 /\ wnl' = w /\ obj' = [obj EXCEPT !.subs = Bump(S, w)] /\ status' = "run" /\ Rec("S:nd")
            /\ UNCHANGED <<rml, disc, pend, textSeen, txt, committed, ncommitted, bad>>
      [] el = "tag" ->      \* m_wnl_builder.reset(); get_tag
            LET g == GetTag(obj.subs) IN
            /\ Push("tag") /\ wnl' = 0 /\ obj' = [obj EXCEPT !.subs = g.s] /\ tl' = g.tl /\ status' = "run" /\ Rec("S:tag")
            /\ UNCHANGED <<rml, disc, pend, textSeen, txt, committed, ncommitted, bad>>
      [] el \in {"bbox", "bounds"} -> PushOnly(el, "obj_bbox")
      [] OTHER -> Reject("S:" \o el)

InRelation(el) ==
    CASE el \in {"member", "tag"} /\ "r" \notin ReadTypes -> Skip(el, el)
      [] el = "member" ->
            LET S == IF rml = 0 THEN NewSub("M") ELSE obj.subs
                m == IF rml = 0 THEN Len(S) ELSE rml IN
            /\ Push("member") /\ tl' = 0 /\ rml' = m /\ obj' = [obj EXCEPT !.subs = Bump(S, m)] /\ status' = "run" /\ Rec("S:member")
            /\ UNCHANGED <<wnl, disc, pend, textSeen, txt, committed, ncommitted, bad>>
      [] el = "tag" ->
            LET g == GetTag(obj.subs) IN
            /\ Push("tag") /\ rml' = 0 /\ obj' = [obj EXCEPT !.subs = g.s] /\ tl' = g.tl /\ status' = "run" /\ Rec("S:tag")
            /\ UNCHANGED <<wnl, disc, pend, textSeen, txt, committed, ncommitted, bad>>
      [] el \in {"bbox", "bounds"} -> PushOnly(el, "obj_bbox")
      [] OTHER -> Reject("S:" \o el)

InChangeset(el) ==
    CASE el \in {"discussion", "tag"} /\ "c" \notin ReadTypes -> Skip(el, el)
      [] el = "discussion" ->       \* m_tl_builder.reset(); if (!m_changeset_discussion_builder) new
            LET S == IF disc = 0 THEN NewSub("D") ELSE obj.subs
                d == IF disc = 0 THEN Len(S) ELSE disc IN
            /\ Push("discussion") /\ tl' = 0 /\ disc' = d /\ obj' = [obj EXCEPT !.subs = S] /\ status' = "run" /\ Rec("S:discussion")
            /\ UNCHANGED <<wnl, rml, pend, textSeen, txt, committed, ncommitted, bad>>
      [] el = "tag" ->              \* m_changeset_discussion_builder.reset(); get_tag
            LET g == GetTag(CloseDisc(obj.subs)) IN
            /\ Push("tag") /\ disc' = 0 /\ pend' = FALSE
            \* as shipped the destructor leaves a pending comment incomplete
            /\ obj' = [obj EXCEPT !.subs = g.s] /\ tl' = g.tl /\ status' = "run" /\ Rec("S:tag")
            /\ UNCHANGED <<wnl, rml, textSeen, txt, committed, ncommitted, bad>>
      [] OTHER -> Reject("S:" \o el)

InDiscussion(el) ==
    IF el = "comment" /\ "c" \notin ReadTypes
      THEN /\ Push("comment") /\ textSeen' = FALSE /\ status' = "run" /\ Rec("S:comment")
           /\ UNCHANGED <<obj, tl, wnl, rml, disc, pend, txt, committed, ncommitted, bad>>
    ELSE IF el = "comment"
      THEN  \* add_comment(): (repaired) finish a pending comment first, then append the new one
           LET S1 == IF pend /\ Fixed THEN Finish(obj.subs, disc) ELSE obj.subs
               \* as shipped a comment appended behind an incomplete one lands on an unpadded position
               S2 == [S1 EXCEPT ![disc].cm = Append(@, [complete |-> FALSE, nonempty |-> FALSE]),
                                ![disc].corrupt = @ \/ (pend /\ ~Fixed)] IN
           /\ Push("comment") /\ obj' = [obj EXCEPT !.subs = S2] /\ pend' = TRUE /\ textSeen' = FALSE
           /\ status' = "run" /\ Rec("S:comment")
           /\ UNCHANGED <<tl, wnl, rml, disc, txt, committed, ncommitted, bad>>
      ELSE Reject("S:" \o el)

InComment(el) ==
    IF el = "text" /\ ~(Fixed /\ textSeen)
      THEN /\ Push("text") /\ textSeen' = TRUE /\ status' = "run" /\ Rec("S:text")
           /\ UNCHANGED <<obj, tl, wnl, rml, disc, pend, txt, committed, ncommitted, bad>>
      ELSE Reject("S:" \o el)

Start(el) ==
    /\ status = "run" /\ nel < MaxElems + 1 /\ Len(stack) < MaxDepth
    /\ nel' = nel + 1
    /\ IF stack = <<>> THEN StartTop(el)
       ELSE CASE Top \in {"osm", "osmChange"} -> DataLevel(el, FALSE)
              [] Top \in {"create", "modify", "delete"} -> DataLevel(el, TRUE)
              [] Top = "node" -> InNode(el)
              [] Top = "way" -> InWay(el)
              [] Top = "relation" -> InRelation(el)
              [] Top = "changeset" -> InChangeset(el)
              [] Top = "discussion" -> InDiscussion(el)
              [] Top = "comment" -> InComment(el)
              [] OTHER -> Reject("S:" \o el)      \* tag, nd, member, text, bounds, obj_bbox, other: no element allowed

\* ---- end_element --------------------------------------------------------------------------------------
Shape(o) == IF o.subs = <<>> THEN <<o.t>> ELSE <<o.t>> \o [i \in 1..Len(o.subs) |->
                 IF o.subs[i].k = "D" THEN <<"D", [j \in 1..Len(o.subs[i].cm) |-> IF o.subs[i].cm[j].nonempty THEN 1 ELSE 0]>>
                                     ELSE <<o.subs[i].k, o.subs[i].n>>]

SubWellFormed(s) == /\ ~s.corrupt
                    /\ \A j \in 1..Len(s.cm) : s.cm[j].complete
                    /\ s.k \in {"T", "N", "M"} => s.n >= 1
ObjWellFormed(o) == \A i \in 1..Len(o.subs) : SubWellFormed(o.subs[i])

CommitObject ==     \* m_tl_builder.reset(); sub-builder.reset(); object builder.reset(); buffer().commit()
    LET S == CloseDisc(obj.subs)
        o == [obj EXCEPT !.subs = S] IN
    /\ committed' = IF ExportHist THEN Append(committed, Shape(o)) ELSE committed
    /\ ncommitted' = ncommitted + 1
    /\ bad' = (bad \/ ~ObjWellFormed(o))
    /\ obj' = NoObj /\ tl' = 0 /\ wnl' = 0 /\ rml' = 0 /\ disc' = 0 /\ pend' = FALSE
    /\ UNCHANGED <<textSeen, txt>>

End ==
    /\ status = "run" /\ stack # <<>>
    /\ Pop /\ Rec("E") /\ nel' = nel
    /\ status' = IF Len(stack) = 1 THEN "done" ELSE "run"
    /\ CASE Top \in {"node", "way", "relation", "changeset"} /\ obj # NoObj -> CommitObject
         [] Top = "text" /\ "c" \in ReadTypes ->      \* add_comment_text(m_comment_text); m_comment_text.clear()
              /\ LET S == obj.subs IN
                 obj' = [obj EXCEPT !.subs =
                           IF pend THEN [S EXCEPT ![disc].cm[Len(S[disc].cm)] = [complete |-> TRUE, nonempty |-> txt]]
                                   \* as shipped: no comment is pending, the text size is written through offset 0
                                   \* (the discussion item's own header) and the text is appended as an orphan
                                   ELSE [S EXCEPT ![disc].corrupt = TRUE]]
              /\ pend' = FALSE /\ txt' = FALSE
              /\ UNCHANGED <<tl, wnl, rml, disc, textSeen, committed, ncommitted, bad>>
         [] OTHER -> UNCHANGED <<obj, tl, wnl, rml, disc, pend, textSeen, txt, committed, ncommitted, bad>>

\* characters(): only inside <text> (one event stands for any non-empty run of character data)
Chars ==
    /\ status = "run" /\ stack # <<>> /\ Top = "text" /\ ~txt /\ "c" \in ReadTypes
    /\ txt' = TRUE /\ Rec("C") /\ nel' = nel
    /\ UNCHANGED <<stack, obj, tl, wnl, rml, disc, pend, textSeen, committed, ncommitted, bad, status>>

Next == \/ \E el \in Vocab : Start(el)
        \/ End
        \/ Chars
Spec == Init /\ [][Next]_vars

\* ---- properties ---------------------------------------------------------------------------------------
TypeOK == /\ status \in {"run", "reject", "done"}
          /\ tl \in 0..Len(obj.subs) /\ wnl \in 0..Len(obj.subs) /\ rml \in 0..Len(obj.subs) /\ disc \in 0..Len(obj.subs)
          /\ Len(stack) <= MaxDepth

\* A-layer: every committed item is well-formed
WellFormedCommitted == ~bad

\* a builder only ever appends to the last sub-item; at most one sub-builder is open
OpenBuilders == {b \in {tl, wnl, rml, disc} : b # 0}
BuilderDiscipline == /\ Cardinality(OpenBuilders) <= 1
                     /\ \A b \in OpenBuilders : b = Len(obj.subs)
                     /\ (tl # 0 => obj.subs[tl].k = "T") /\ (wnl # 0 => obj.subs[wnl].k = "N")
                     /\ (rml # 0 => obj.subs[rml].k = "M") /\ (disc # 0 => obj.subs[disc].k = "D")
                     /\ (pend => disc # 0)

\* the object builders are null whenever a data level element starts (the assert()s of data_level_element)
NoStaleBuilders == (stack # <<>> /\ Top \in {"osm", "osmChange", "create", "modify", "delete"} /\ status = "run")
                       => (obj = NoObj /\ OpenBuilders = {} /\ ~pend)

\* an object is open exactly while its element is on the stack
TypeOfCtx(c) == CASE c = "node" -> "n" [] c = "way" -> "w" [] c = "relation" -> "r" [] c = "changeset" -> "c" [] OTHER -> "-"
ObjectMatchesStack == (obj # NoObj) <=> (\E i \in 1..Len(stack) : TypeOfCtx(stack[i]) \in ReadTypes)

Terminal == status \in {"reject", "done"}
Export == Terminal => PrintT(<<"CASE", ToJson([ev |-> hist,
                                                outcome |-> IF status = "done" THEN "data" ELSE "error",
                                                objs |-> committed, n |-> ncommitted])>>)
=============================================================================
