------------------------------ MODULE BufferExt ------------------------------
(* C04, extension of Buffer.tla (same style, stand-alone because Buffer.tla's SubKinds / OpenSub / Obs are
   closed definitions).  Adds what Buffer.tla leaves out:

   (1) osmium::Area built with AreaBuilder + TagListBuilder / OuterRingBuilder / InnerRingBuilder in any
       order and number.  A-layer: the area's ring structure (num_rings, is_multipolygon, outer_rings() and
       inner_rings(outer) = the inner rings between this outer ring and the next one).  I-layer: the byte
       offsets of the sub-items inside the object, which is what Area::inner_rings() really uses.
   (2) osmium::memory::CallbackBuffer around the buffer under test: possibly_flush() hands the buffer to the
       callback exactly when committed() > max_buffer_size and a callback is set, flush() whenever
       something is committed, read() always; the receiver gets exactly the committed items in order and
       the wrapper continues with a fresh empty buffer of the initial size.
   (3) The chain of nested buffers of auto_grow::internal is kept IN PLACE (Buffer.tla's harness drains it
       after every call): get_last_nested() is an action of its own, set_removed()/purge_removed() run in all
       three growth modes and act on the current memory block only (named deviation: removed items that were
       already frozen into a nested buffer stay there until that buffer is taken out and purged itself, which
       the TakeNested(purge) action does); swap/move carry the chain along, clear() leaves it alone.
   (4) add_buffer / push_back / add_member(full member) while a builder is open on the SOURCE buffer (the
       documented preconditions concern the destination only), move-construct + move-assign round trips while
       builders are open on the moved buffer (builders address the Buffer object by reference and their item
       by offset, so they must survive).

   A constant Script can pin the history (directed export: one fixed building sequence over every initial
   capacity, so that each single reserve_space() of each builder call is a growth point in some case). *)
EXTENDS Integers, Sequences, FiniteSets, TLC, Json

CONSTANTS Caps,        \* initial capacities (wrapped: initial_buffer_size of the CallbackBuffer)
          Modes,       \* subset of {"no", "yes", "internal"}
          Kinds,       \* subset of {"node", "way", "relation", "area"}
          ULens,       \* user name lengths
          TagLens,     \* set of <<keyLen, valueLen>>
          RoleLens,    \* role lengths
          Pres,        \* numbers (0..1) of nodes committed before the history starts
          Wraps,       \* subset of BOOLEAN: buffer under test lives inside a CallbackBuffer
          CbMaxs,      \* max_buffer_size values of the CallbackBuffer
          MaxObjects,  \* bound on objects built per history (both buffers)
          MaxElems,    \* bound on elements per sub-item
          MaxSubs,     \* bound on sub-items per object
          MaxSteps,    \* bound on history length
          Ops,         \* names of the API calls enabled in this configuration
          Script,      \* <<>> or the one history to follow: sequence of [a, args]
          ExportHist   \* TRUE: keep the history (behaviour export)

ObjSize == [node |-> 40, way |-> 32, relation |-> 32, area |-> 32]
UserAvail == 5
SubHdr == 8         \* sizeof(TagList) = sizeof(WayNodeList) = sizeof(OuterRing) = sizeof(InnerRing) = sizeof(RelationMemberList)
NodeRefSize == 16
MemberSize == 16
Pad(n) == ((n + 7) \div 8) * 8
PadOf(n) == Pad(n) - n
SubKinds(k) == CASE k = "node" -> {"taglist"}
                 [] k = "way" -> {"taglist", "nodes"}
                 [] k = "relation" -> {"taglist", "members"}
                 [] k = "area" -> {"taglist", "outer", "inner"}
Repeatable(sk) == sk \in {"outer", "inner"}
RefList(sk) == sk \in {"nodes", "outer", "inner"}

VARIABLES b,         \* the buffer under test: [mode, cap, written, committed, blk, pend, nested]
          oth,       \* the second buffer
          open,      \* stack of builders open on b (1 = object builder, 2 = its open sub-builder)
          othOpen,   \* <<>> or <<id>>: a NodeBuilder is open on oth
          nextId, nobj,
          outcome,   \* "ok" | "full" | "thrown" (the callback of the CallbackBuffer threw)
          purgeLog,  \* <<old, new>> offsets reported by the last purge_removed
          commitRet, \* value returned by the last commit() / clear()
          took,      \* <<>> or <<items of the nested buffer returned by this step's get_last_nested (after its purge)>>
          fired,     \* <<>> or <<items handed to the callback during this step>>
          readRet,   \* <<>> or <<items of the buffer returned by this step's read()>>
          cbHas,     \* a callback is set on the CallbackBuffer
          handed,    \* ghost (wrapped only): id lists of all buffers handed out by callback / read(), in order
          everC,     \* ghost (wrapped only): ids in the order they were committed
          hist, steps, last,
          cfg0       \* [mode, cap, pre, wrap, cbmax, cb0]
vars == <<b, oth, open, othOpen, nextId, nobj, outcome, purgeLog, commitRet, took, fired, readRet, cbHas, handed,
          everC, hist, steps, last, cfg0>>

------------------------------------------------------------------------
(* A-layer: layout size of a finished item from its content; ring structure of an area *)
RECURSIVE SumSeq(_)
SumSeq(s) == IF s = <<>> THEN 0 ELSE Head(s) + SumSeq(Tail(s))
MapSeq(s, Op(_)) == [i \in 1..Len(s) |-> Op(s[i])]
RECURSIVE FlatSeq(_)
FlatSeq(ss) == IF ss = <<>> THEN <<>> ELSE Head(ss) \o FlatSeq(Tail(ss))
SetMin(S) == CHOOSE x \in S : \A y \in S : x <= y

TagBytes(tg) == tg[1] + 1 + tg[2] + 1
MemberBytes(m) == Pad(MemberSize + m.rl + 1) + m.full
SubContentSize(s) ==
    SubHdr + CASE s.t = "taglist" -> SumSeq(MapSeq(s.e, TagBytes))
               [] RefList(s.t)    -> NodeRefSize * Len(s.e)
               [] s.t = "members" -> SumSeq(MapSeq(s.e, MemberBytes))
UserExtra(ul) == IF ul > UserAvail THEN Pad(ul - UserAvail) ELSE 0
PaddedSub(s) == Pad(SubContentSize(s))
ItemContentSize(it) == ObjSize[it.t] + 8 + UserExtra(it.ul) + SumSeq(MapSeq(it.subs, PaddedSub))

PSize(it) == Pad(it.size)
BlockBytes(items) == SumSeq(MapSeq(items, PSize))

(* ring structure from the ORDER of the sub-items: per outer ring <<index of the sub-item, #nodes>> and the
   inner rings that follow it before the next outer ring *)
RECURSIVE AreaViewRec(_, _, _)
AreaViewRec(subs, i, acc) ==
    IF i > Len(subs) THEN acc
    ELSE LET s == subs[i] IN
         IF s.t = "outer" THEN AreaViewRec(subs, i + 1, Append(acc, [o |-> <<i, Len(s.e)>>, inn |-> <<>>]))
         ELSE IF s.t = "inner" /\ acc # <<>>
              THEN AreaViewRec(subs, i + 1, [acc EXCEPT ![Len(acc)].inn = Append(@, <<i, Len(s.e)>>)])
              ELSE AreaViewRec(subs, i + 1, acc)
AreaView(subs) == AreaViewRec(subs, 1, <<>>)
CountT(subs, t) == Cardinality({i \in 1..Len(subs) : subs[i].t = t})

Content(it) == IF it.t = "area"
               THEN [t |-> it.t, id |-> it.id, ul |-> it.ul, subs |-> it.subs, removed |-> it.removed,
                     nr |-> <<CountT(it.subs, "outer"), CountT(it.subs, "inner")>>,
                     mp |-> CountT(it.subs, "outer") > 1,
                     rings |-> AreaView(it.subs)]
               ELSE [t |-> it.t, id |-> it.id, ul |-> it.ul, subs |-> it.subs, removed |-> it.removed]
BlockContent(items) == MapSeq(items, Content)

------------------------------------------------------------------------
(* reserve_space(n) on a buffer record *)
RECURSIVE GrowTo(_, _)
GrowTo(c, need) == IF need <= c THEN c ELSE GrowTo(c * 2, need)

Reserve1(r, n) ==
    IF r.full THEN r
    ELSE LET u == r.buf IN
    IF u.written + n <= u.cap THEN [r EXCEPT !.buf.written = u.written + n]
    ELSE IF u.mode = "no" THEN [r EXCEPT !.full = TRUE]
    ELSE LET gi == u.mode = "internal" /\ u.committed # 0
             w1 == IF gi THEN u.written - u.committed ELSE u.written
             c1 == IF gi THEN 0 ELSE u.committed
             cap1 == IF w1 + n > u.cap THEN GrowTo(u.cap * 2, w1 + n) ELSE u.cap
         IN [r EXCEPT !.buf = [u EXCEPT !.cap = cap1, !.written = w1 + n, !.committed = c1,
                                        !.nested = IF gi THEN <<u.blk>> \o u.nested ELSE u.nested,
                                        !.blk = IF gi THEN <<>> ELSE u.blk]]

RECURSIVE ReserveAll(_, _)
ReserveAll(r, sizes) == IF sizes = <<>> THEN r ELSE ReserveAll(Reserve1(r, Head(sizes)), Tail(sizes))
NonZero(sizes) == SelectSeq(sizes, LAMBDA x : x > 0)
Reserve(u, sizes) == ReserveAll([buf |-> u, full |-> FALSE], NonZero(sizes))

NewBuf(mode, cap, items) ==
    [mode |-> mode, cap |-> cap, written |-> BlockBytes(items), committed |-> BlockBytes(items),
     blk |-> items, pend |-> <<>>, nested |-> <<>>]

PlainNode(id) == [t |-> "node", size |-> 48, id |-> id, ul |-> 0, subs |-> <<>>, removed |-> FALSE]
OthItems == << PlainNode(900),
               [t |-> "way", size |-> 32 + 8 + 8 + 8 + 32, id |-> 901, ul |-> 6,
                subs |-> <<[t |-> "nodes", size |-> 8 + 32, e |-> <<0, 0>>]>>, removed |-> FALSE] >>
PreItems(p) == [i \in 1..p |-> PlainNode(800 + i)]

Init == /\ \E m \in Modes, c \in Caps, p \in Pres, w \in Wraps :
             \E mx \in (IF w THEN CbMaxs ELSE {0}), h \in (IF w THEN BOOLEAN ELSE {FALSE}) :
               /\ w => m = "yes"
               /\ b = NewBuf(m, c, PreItems(p))
               /\ cfg0 = [mode |-> m, cap |-> c, pre |-> p, wrap |-> w, cbmax |-> mx, cb0 |-> h]
               /\ cbHas = h
               /\ everC = IF w THEN [i \in 1..p |-> 800 + i] ELSE <<>>
        /\ steps = 0 /\ last = "Init"
        /\ oth = NewBuf("yes", 256, OthItems)
        /\ open = <<>> /\ othOpen = <<>> /\ nextId = 1 /\ nobj = 0 /\ outcome = "ok" /\ purgeLog = <<>> /\ commitRet = 0
        /\ took = <<>> /\ fired = <<>> /\ readRet = <<>> /\ handed = <<>>
        /\ hist = <<>>

------------------------------------------------------------------------
(* what the replay harness compares after every step *)
Obs(u, o, out) == [pb |-> u.written - u.committed,       \* bytes written but not committed
                   cur |-> BlockContent(u.blk),          \* committed items of the current memory block
                   hn |-> u.nested # <<>>,               \* has_nested_buffers()
                   on |-> Len(o.blk),                    \* second buffer: committed items, uncommitted bytes
                   opb |-> o.written - o.committed,
                   out |-> out]

InScript(a, args) == Script = <<>> \/ (steps < Len(Script) /\ Script[steps + 1].a = a /\ Script[steps + 1].args = args)

(* evidence only (not compared): did this call make the memory of b grow?  1 = reallocation (doubling), 2 = grow_internal *)
Grew(a) == IF a \in {"Swap", "CbRead", "CbFlush", "CbPossiblyFlush"} THEN 0
           ELSE IF Len(b'.nested) > Len(b.nested) THEN 2
           ELSE IF b'.cap # b.cap THEN 1 ELSE 0

Rec(a, args) == /\ InScript(a, args)
                /\ hist' = IF ExportHist
                           THEN Append(hist, [a |-> a, args |-> args, exp |-> Obs(b', oth', outcome'),
                                              plog |-> purgeLog', cret |-> commitRet', took |-> took',
                                              fired |-> fired', rd |-> readRet', g |-> Grew(a)])
                           ELSE hist
                /\ steps' = steps + 1 /\ last' = a /\ UNCHANGED cfg0
Steps == steps < MaxSteps
Idle == open = <<>>
NoOut == took' = <<>> /\ fired' = <<>> /\ readRet' = <<>>
KeepCb == UNCHANGED <<cbHas, handed, everC>>

WithReserve(sizes, OnOk(_)) ==
    LET r == Reserve(b, sizes) IN
    IF r.full THEN /\ outcome' = "full" /\ UNCHANGED <<b, oth, open, othOpen, nextId, nobj, purgeLog, commitRet>>
    ELSE /\ outcome' = "ok" /\ OnOk(r.buf)

AddSize(stack, n) == [i \in 1..Len(stack) |-> [stack[i] EXCEPT !.size = @ + n]]

------------------------------------------------------------------------
(* builder actions on b *)
OpenObject(k) ==
    /\ Steps /\ Idle /\ nobj < MaxObjects /\ b.mode # "no"
    /\ WithReserve(<<ObjSize[k] + 8>>, LAMBDA u :
         /\ b' = u
         /\ open' = <<[t |-> k, off |-> b.written - b.committed, size |-> ObjSize[k] + 8, id |-> nextId,
                       ul |-> 0, subs |-> <<>>, userSet |-> FALSE]>>
         /\ nextId' = nextId + 1 /\ nobj' = nobj + 1
         /\ UNCHANGED <<oth, othOpen, purgeLog, commitRet>>)
    /\ NoOut /\ KeepCb
    /\ Rec("OpenObject", [k |-> k, id |-> nextId])

SetUser(ul) ==
    /\ Steps /\ Len(open) = 1 /\ ~open[1].userSet /\ open[1].subs = <<>>
    /\ LET extra == UserExtra(ul) IN
       WithReserve(<<extra>>, LAMBDA u :
         /\ b' = u
         /\ open' = <<[open[1] EXCEPT !.size = @ + extra, !.ul = ul, !.userSet = TRUE]>>
         /\ UNCHANGED <<oth, othOpen, nextId, nobj, purgeLog, commitRet>>)
    /\ NoOut /\ KeepCb
    /\ Rec("SetUser", [ul |-> ul])

OpenSub(sk) ==
    /\ Steps /\ Len(open) = 1 /\ sk \in SubKinds(open[1].t) /\ Len(open[1].subs) < MaxSubs
    /\ (Repeatable(sk) \/ \A i \in 1..Len(open[1].subs) : open[1].subs[i].t # sk)
    /\ WithReserve(<<SubHdr>>, LAMBDA u :
         /\ b' = u
         /\ open' = AddSize(open, SubHdr) \o <<[t |-> sk, off |-> b.written - b.committed, size |-> SubHdr, e |-> <<>>]>>
         /\ UNCHANGED <<oth, othOpen, nextId, nobj, purgeLog, commitRet>>)
    /\ NoOut /\ KeepCb
    /\ Rec("OpenSub", [k |-> sk])

TopIs(sks) == Len(open) = 2 /\ open[2].t \in sks /\ Len(open[2].e) < MaxElems

AppendElem(sizes, elem, act, args) ==
    /\ WithReserve(sizes, LAMBDA u :
         /\ b' = u
         /\ open' = LET st == AddSize(open, SumSeq(sizes)) IN [st EXCEPT ![2].e = Append(@, elem)]
         /\ UNCHANGED <<oth, othOpen, nextId, nobj, purgeLog, commitRet>>)
    /\ NoOut /\ KeepCb
    /\ Rec(act, args)

AddTag(tg) == Steps /\ TopIs({"taglist"}) /\ AppendElem(<<tg[1] + 1, tg[2] + 1>>, tg, "AddTag", [k |-> tg[1], v |-> tg[2]])
AddNodeRef == Steps /\ TopIs({"nodes", "outer", "inner"}) /\ AppendElem(<<NodeRefSize>>, 0, "AddNodeRef", [x |-> 0])

FullMember == IF oth.blk # <<>> THEN oth.blk[1] ELSE [size |-> 0]
AddMember(rl, full) ==
    /\ Steps /\ TopIs({"members"}) /\ (full => (oth.blk # <<>> /\ oth.blk[1].t \in {"node", "way", "relation"}))
    /\ LET fs == IF full THEN PSize(FullMember) ELSE 0 IN
       AppendElem(<<MemberSize, rl + 1, PadOf(MemberSize + rl + 1), fs>>,
                  [rl |-> rl, full |-> fs, fid |-> IF full THEN FullMember.id ELSE 0],
                  "AddMember", [rl |-> rl, full |-> full])

CloseSub ==
    /\ Steps /\ Len(open) = 2
    /\ LET pad == PadOf(open[2].size) IN
       WithReserve(<<pad>>, LAMBDA u :
         /\ b' = u
         /\ open' = <<[open[1] EXCEPT !.size = @ + pad,
                                      !.subs = Append(@, [t |-> open[2].t, size |-> open[2].size, e |-> open[2].e])]>>
         /\ UNCHANGED <<oth, othOpen, nextId, nobj, purgeLog, commitRet>>)
    /\ NoOut /\ KeepCb
    /\ Rec("CloseSub", [x |-> 0])

CloseObject ==
    /\ Steps /\ Len(open) = 1
    /\ b' = [b EXCEPT !.pend = Append(@, [t |-> open[1].t, size |-> open[1].size, id |-> open[1].id,
                                          ul |-> open[1].ul, subs |-> open[1].subs, removed |-> FALSE])]
    /\ open' = <<>> /\ outcome' = "ok"
    /\ UNCHANGED <<oth, othOpen, nextId, nobj, purgeLog, commitRet>>
    /\ NoOut /\ KeepCb
    /\ Rec("CloseObject", [x |-> 0])

(* a NodeBuilder on the second buffer, open across calls that use that buffer as a source *)
OthOpen ==
    /\ Steps /\ othOpen = <<>> /\ nobj < MaxObjects /\ oth.mode # "no" /\ oth.pend = <<>>
    /\ LET r == Reserve(oth, <<48>>) IN
         /\ ~r.full
         /\ oth' = r.buf /\ othOpen' = <<nextId>> /\ nextId' = nextId + 1 /\ nobj' = nobj + 1 /\ outcome' = "ok"
    /\ UNCHANGED <<b, open, purgeLog, commitRet>>
    /\ NoOut /\ KeepCb
    /\ Rec("OthOpen", [id |-> nextId])

OthClose ==          \* ~NodeBuilder(); oth.commit()
    /\ Steps /\ othOpen # <<>>
    /\ oth' = [oth EXCEPT !.blk = Append(@, PlainNode(othOpen[1])), !.committed = oth.written]
    /\ othOpen' = <<>> /\ outcome' = "ok"
    /\ UNCHANGED <<b, open, nextId, nobj, purgeLog, commitRet>>
    /\ NoOut /\ KeepCb
    /\ Rec("OthClose", [x |-> 0])

------------------------------------------------------------------------
(* buffer actions *)
Ids(items) == MapSeq(items, LAMBDA it : it.id)

Commit ==
    /\ Steps /\ Idle
    /\ b' = [b EXCEPT !.blk = @ \o b.pend, !.pend = <<>>, !.committed = b.written]
    /\ commitRet' = b.committed /\ outcome' = "ok"
    /\ everC' = IF cfg0.wrap THEN everC \o Ids(b.pend) ELSE everC
    /\ UNCHANGED <<oth, open, othOpen, nextId, nobj, purgeLog, cbHas, handed>>
    /\ NoOut
    /\ Rec("Commit", [x |-> 0])

Rollback ==
    /\ Steps /\ Idle /\ b.pend # <<>>
    /\ b' = [b EXCEPT !.pend = <<>>, !.written = b.committed]
    /\ outcome' = "ok"
    /\ UNCHANGED <<oth, open, othOpen, nextId, nobj, purgeLog, commitRet>>
    /\ NoOut /\ KeepCb
    /\ Rec("Rollback", [x |-> 0])

Clear ==             \* clear() empties the current memory block; the chain of nested buffers is not touched
    /\ Steps /\ Idle /\ (b.blk # <<>> \/ b.pend # <<>>)
    /\ b' = [b EXCEPT !.blk = <<>>, !.pend = <<>>, !.written = 0, !.committed = 0]
    /\ commitRet' = b.committed /\ outcome' = "ok"
    /\ UNCHANGED <<oth, open, othOpen, nextId, nobj, purgeLog>>
    /\ NoOut /\ KeepCb
    /\ Rec("Clear", [x |-> 0])

AddBuffer ==         \* add_buffer(other): other's committed bytes of its current block, appended uncommitted
    /\ Steps /\ Idle /\ oth.blk # <<>>
    /\ WithReserve(<<oth.committed>>, LAMBDA u :
         /\ b' = [u EXCEPT !.pend = @ \o oth.blk]
         /\ UNCHANGED <<oth, open, othOpen, nextId, nobj, purgeLog, commitRet>>)
    /\ NoOut /\ KeepCb
    /\ Rec("AddBuffer", [x |-> 0])

PushBack ==          \* push_back(item) = add_item + commit
    /\ Steps /\ Idle /\ oth.blk # <<>>
    /\ LET it == oth.blk[Len(oth.blk)] IN
       WithReserve(<<PSize(it)>>, LAMBDA u :
         /\ b' = [u EXCEPT !.blk = @ \o u.pend \o <<it>>, !.pend = <<>>, !.committed = u.written]
         /\ UNCHANGED <<oth, open, othOpen, nextId, nobj, purgeLog, commitRet>>)
    /\ NoOut /\ KeepCb
    /\ Rec("PushBack", [x |-> 0])

SetRemoved(i) ==
    /\ Steps /\ Idle /\ i \in 1..Len(b.blk) /\ ~b.blk[i].removed
    /\ b' = [b EXCEPT !.blk[i].removed = TRUE]
    /\ outcome' = "ok"
    /\ UNCHANGED <<oth, open, othOpen, nextId, nobj, purgeLog, commitRet>>
    /\ NoOut /\ KeepCb
    /\ Rec("SetRemoved", [i |-> i, id |-> b.blk[i].id])

RECURSIVE PurgeWalk(_, _, _, _, _)
PurgeWalk(items, rd, wr, kept, log) ==
    IF items = <<>> THEN [kept |-> kept, log |-> log, end |-> wr]
    ELSE LET it == Head(items) IN
         IF it.removed THEN PurgeWalk(Tail(items), rd + PSize(it), wr, kept, log)
         ELSE PurgeWalk(Tail(items), rd + PSize(it), wr + PSize(it), Append(kept, it),
                        IF rd # wr THEN Append(log, <<rd, wr>>) ELSE log)
Purge ==             \* acts on the current memory block only, in every growth mode
    /\ Steps /\ Idle /\ b.pend = <<>> /\ b.blk # <<>>
    /\ LET p == PurgeWalk(b.blk, 0, 0, <<>>, <<>>) IN
         /\ b' = [b EXCEPT !.blk = p.kept, !.written = p.end, !.committed = p.end]
         /\ purgeLog' = p.log
    /\ outcome' = "ok"
    /\ UNCHANGED <<oth, open, othOpen, nextId, nobj, commitRet>>
    /\ NoOut /\ KeepCb
    /\ Rec("Purge", [x |-> 0])

TakeNested(purge) == \* get_last_nested(): the OLDEST frozen block leaves the chain; optionally it is purged itself
    /\ Steps /\ b.nested # <<>>
    /\ LET n == Len(b.nested)
           blkN == b.nested[n]
           p == PurgeWalk(blkN, 0, 0, <<>>, <<>>) IN
         /\ b' = [b EXCEPT !.nested = SubSeq(@, 1, n - 1)]
         /\ took' = <<BlockContent(IF purge THEN p.kept ELSE blkN)>>
         /\ purgeLog' = IF purge THEN p.log ELSE purgeLog
    /\ fired' = <<>> /\ readRet' = <<>> /\ outcome' = "ok"
    /\ UNCHANGED <<oth, open, othOpen, nextId, nobj, commitRet>>
    /\ KeepCb
    /\ Rec("TakeNested", [purge |-> purge])

Swap ==
    /\ Steps /\ Idle /\ othOpen = <<>> /\ ~cfg0.wrap
    /\ b' = oth /\ oth' = b /\ outcome' = "ok"
    /\ UNCHANGED <<open, othOpen, nextId, nobj, purgeLog, commitRet>>
    /\ NoOut /\ KeepCb
    /\ Rec("Swap", [x |-> 0])

Move ==              \* Buffer tmp{std::move(b)}; b = std::move(tmp);  - also while builders are open on b
    /\ Steps /\ last # "Move"
    /\ outcome' = "ok"
    /\ UNCHANGED <<b, oth, open, othOpen, nextId, nobj, purgeLog, commitRet>>
    /\ NoOut /\ KeepCb
    /\ Rec("Move", [x |-> 0])

------------------------------------------------------------------------
(* CallbackBuffer actions (the buffer under test is CallbackBuffer::buffer()) *)
Fresh == NewBuf("yes", cfg0.cap, <<>>)

HandOver(viaCallback) ==       \* read(): swap in a fresh buffer of the initial size; everything else leaves with the old one
    /\ b' = Fresh
    /\ IF viaCallback THEN fired' = <<BlockContent(b.blk)>> /\ readRet' = <<>>
                      ELSE readRet' = <<BlockContent(b.blk)>> /\ fired' = <<>>
    /\ handed' = Append(handed, Ids(b.blk))
    /\ took' = <<>>

NoHandOver == UNCHANGED <<b, handed>> /\ NoOut

(* th: what the callback does with the buffer it is handed: 0 takes it and returns, 1 looks at it and throws, 2 takes it
   and throws.  flush() is `m_callback(read())`: the fresh buffer is swapped in BEFORE the callback runs, so a callback
   that fails leaves the same state behind as one that returns; the caller just sees the exception ("thrown"). *)
CbPossiblyFlush(th) ==
    /\ Steps /\ Idle /\ cfg0.wrap
    /\ IF b.committed > cfg0.cbmax /\ cbHas /\ b.committed > 0 THEN HandOver(TRUE) ELSE th = 0 /\ NoHandOver
    /\ outcome' = IF th = 0 THEN "ok" ELSE "thrown"
    /\ UNCHANGED <<oth, open, othOpen, nextId, nobj, purgeLog, commitRet, cbHas, everC>>
    /\ Rec("CbPossiblyFlush", [th |-> th])

CbFlush(th) ==
    /\ Steps /\ Idle /\ cfg0.wrap
    /\ IF cbHas /\ b.committed > 0 THEN HandOver(TRUE) ELSE th = 0 /\ NoHandOver
    /\ outcome' = IF th = 0 THEN "ok" ELSE "thrown"
    /\ UNCHANGED <<oth, open, othOpen, nextId, nobj, purgeLog, commitRet, cbHas, everC>>
    /\ Rec("CbFlush", [th |-> th])

CbRead ==
    /\ Steps /\ Idle /\ cfg0.wrap
    /\ HandOver(FALSE)
    /\ outcome' = "ok"
    /\ UNCHANGED <<oth, open, othOpen, nextId, nobj, purgeLog, commitRet, cbHas, everC>>
    /\ Rec("CbRead", [x |-> 0])

CbSetCallback(on) ==
    /\ Steps /\ cfg0.wrap /\ cbHas # on
    /\ cbHas' = on /\ outcome' = "ok"
    /\ UNCHANGED <<b, oth, open, othOpen, nextId, nobj, purgeLog, commitRet, handed, everC>>
    /\ NoOut
    /\ Rec("CbSetCallback", [on |-> on])

On(a) == a \in Ops
Next == \/ On("OpenObject") /\ \E k \in Kinds : OpenObject(k)
        \/ On("SetUser") /\ \E ul \in ULens : SetUser(ul)
        \/ On("OpenSub") /\ \E sk \in {"taglist", "nodes", "members", "outer", "inner"} : OpenSub(sk)
        \/ On("AddTag") /\ \E tg \in TagLens : AddTag(tg)
        \/ On("AddNodeRef") /\ AddNodeRef
        \/ On("AddMember") /\ \E rl \in RoleLens, f \in BOOLEAN : AddMember(rl, f)
        \/ On("OpenSub") /\ CloseSub
        \/ On("OpenObject") /\ CloseObject
        \/ On("OthBuild") /\ (OthOpen \/ OthClose)
        \/ On("Commit") /\ Commit
        \/ On("Rollback") /\ Rollback
        \/ On("Clear") /\ Clear
        \/ On("AddBuffer") /\ AddBuffer
        \/ On("PushBack") /\ PushBack
        \/ On("SetRemoved") /\ \E i \in 1..4 : SetRemoved(i)
        \/ On("Purge") /\ Purge
        \/ On("TakeNested") /\ \E p \in BOOLEAN : TakeNested(p)
        \/ On("Swap") /\ Swap
        \/ On("Move") /\ Move
        \/ On("CbPossiblyFlush") /\ \E th \in 0..2 : CbPossiblyFlush(th)
        \/ On("CbFlush") /\ \E th \in 0..2 : CbFlush(th)
        \/ On("CbRead") /\ CbRead
        \/ On("CbSetCallback") /\ \E o \in BOOLEAN : CbSetCallback(o)

Spec == Init /\ [][Next]_vars

------------------------------------------------------------------------
(* Invariants *)
BufOK(u) == /\ 0 <= u.committed /\ u.committed <= u.written /\ u.written <= u.cap
            /\ u.committed % 8 = 0 /\ u.cap % 8 = 0 /\ u.cap >= 64
            /\ u.committed = BlockBytes(u.blk)
Bounds == BufOK(b) /\ BufOK(oth)

IdleLayout == /\ Idle => /\ b.written = b.committed + BlockBytes(b.pend)
                         /\ b.written % 8 = 0
              /\ othOpen = <<>> => oth.written = oth.committed + BlockBytes(oth.pend)
              /\ othOpen # <<>> => oth.written = oth.committed + 48

AllBlocks(u) == <<u.blk, u.pend>> \o u.nested
SizesOf(u) == \A k \in 1..Len(AllBlocks(u)) : \A i \in 1..Len(AllBlocks(u)[k]) :
                  LET it == AllBlocks(u)[k][i] IN
                    /\ it.size = ItemContentSize(it)
                    /\ \A j \in 1..Len(it.subs) : it.subs[j].size = SubContentSize(it.subs[j])
Sizes == SizesOf(b) /\ SizesOf(oth)

BuilderOffsets ==
    /\ Len(open) >= 1 => /\ open[1].off = BlockBytes(b.pend)
                         /\ b.written = b.committed + open[1].off + open[1].size
    /\ Len(open) = 2 => open[2].off = open[1].off + open[1].size - open[2].size

NestedOK == \A k \in 1..Len(b.nested) : b.nested[k] # <<>>
PurgeLogOK == \A i \in 1..Len(purgeLog) : purgeLog[i][2] < purgeLog[i][1]

(* Area::inner_rings(outer) selects by BYTE RANGE [outer.data(), next outer ring or end of the area); that must be
   the ring structure given by the order in which the rings were built *)
SubOff(it, j) == ObjSize[it.t] + 8 + UserExtra(it.ul) + SumSeq(MapSeq(SubSeq(it.subs, 1, j - 1), PaddedSub))
NextOuterOff(it, j) == LET later == {k \in (j + 1)..Len(it.subs) : it.subs[k].t = "outer"} IN
                       IF later = {} THEN Pad(it.size) ELSE SubOff(it, SetMin(later))
InnerByRange(it, j) == {k \in 1..Len(it.subs) : /\ it.subs[k].t = "inner"
                                                /\ SubOff(it, k) >= SubOff(it, j)
                                                /\ SubOff(it, k) < NextOuterOff(it, j)}
AreaOK(it) == it.t = "area" =>
    LET v == AreaView(it.subs) IN
      /\ Len(v) = CountT(it.subs, "outer")
      /\ \A r \in 1..Len(v) : /\ it.subs[v[r].o[1]].t = "outer"
                              /\ {v[r].inn[q][1] : q \in 1..Len(v[r].inn)} = InnerByRange(it, v[r].o[1])
      /\ SubOff(it, Len(it.subs) + 1) = it.size
RingRanges == \A k \in 1..Len(AllBlocks(b)) : \A i \in 1..Len(AllBlocks(b)[k]) : AreaOK(AllBlocks(b)[k][i])

Inv == Bounds /\ IdleLayout /\ Sizes /\ BuilderOffsets /\ NestedOK /\ PurgeLogOK /\ RingRanges

(* CallbackBuffer: nothing committed through the wrapper is lost or duplicated and the order is kept (configs without
   clear/purge/add_buffer/push_back); a set callback never leaves more than max_buffer_size committed bytes behind *)
CbConservation == cfg0.wrap => FlatSeq(handed) \o Ids(b.blk) = everC
CbBounded == (cfg0.wrap /\ last = "CbPossiblyFlush" /\ cbHas) => b.committed <= cfg0.cbmax
CbHandedNonEmpty == \A i \in 1..Len(fired) : fired[i] # <<>>

(* the callback fires exactly when possibly_flush() sees committed > max (or flush() sees anything committed) and a
   callback is set; it receives exactly the committed items and the wrapper continues with an empty buffer *)
CbFireRule == [][steps' # steps =>
                   /\ (fired' # <<>>) = (/\ cfg0.wrap /\ cbHas /\ b.committed > 0
                                         /\ \/ last' = "CbFlush"
                                            \/ last' = "CbPossiblyFlush" /\ b.committed > cfg0.cbmax)
                   /\ fired' # <<>> => /\ fired'[1] = BlockContent(b.blk)
                                       /\ b'.blk = <<>> /\ b'.written = 0 /\ b'.cap = cfg0.cap]_vars

(* committed data is stable under everything that is not documented to change it *)
RECURSIVE FlattenBlocks(_)
FlattenBlocks(bs) == IF bs = <<>> THEN <<>> ELSE FlattenBlocks(Tail(bs)) \o Head(bs)
AllCommitted(u) == MapSeq(FlattenBlocks(u.nested) \o u.blk, LAMBDA it : [Content(it) EXCEPT !.removed = FALSE])
CommittedStable == [][(steps' # steps /\ last' \in {"Rollback", "OpenObject", "SetUser", "OpenSub", "AddTag",
                        "AddNodeRef", "AddMember", "CloseSub", "CloseObject", "AddBuffer", "Move", "SetRemoved",
                        "OthOpen", "OthClose", "CbSetCallback"})
                       => AllCommitted(b') = AllCommitted(b)]_vars

(* purge keeps precisely the non-removed items of the block in their order, and nothing else changes *)
PurgeExact == [][(steps' # steps /\ last' = "Purge")
                   => /\ b'.blk = SelectSeq(b.blk, LAMBDA it : ~it.removed)
                      /\ b'.nested = b.nested
                      /\ Len(purgeLog') = Cardinality({i \in 1..Len(b.blk) :
                             ~b.blk[i].removed /\ \E j \in 1..(i - 1) : b.blk[j].removed})]_vars

------------------------------------------------------------------------
Terminal == steps = MaxSteps
RECURSIVE RevSeq(_)
RevSeq(s) == IF s = <<>> THEN <<>> ELSE Append(RevSeq(Tail(s)), Head(s))
Export == Terminal => PrintT(<<"CASE", ToJson([mode |-> cfg0.mode, cap |-> cfg0.cap, pre |-> cfg0.pre, wrap |-> cfg0.wrap,
                                               cbmax |-> cfg0.cbmax, cb0 |-> cfg0.cb0, steps |-> hist,
                                               fin |-> MapSeq(RevSeq(b.nested), BlockContent)])>>)
=============================================================================
