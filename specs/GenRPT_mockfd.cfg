SPECIFICATION InitOnly
CONSTANTS
  Configs <- TheConfigs
  Ns = {0, 1, 2, 3}
  NestSets <- NestThorough
  Bounds <- BoundsLive
  Pools = {FALSE, TRUE}
  Fds = {TRUE}
  ScriptLen = 3
  LongScripts = TRUE
  FdStop = TRUE
  SkipAll = FALSE
INVARIANT ExportCfg
CHECK_DEADLOCK FALSE
