SPECIFICATION Spec
CONSTANTS
  Caps = {64, 72, 80, 96, 128}
  Modes = {"no", "yes", "internal"}
  Kinds = {"node", "relation", "changeset"}
  ULens = {0, 6}
  TagLens <- TagLens1
  RoleLens = {0, 7}
  CommentLens <- CommentLens1
  MaxObjects = 2
  MaxElems = 1
  MaxSteps = 9
  ExportHist = FALSE
INVARIANT Inv
PROPERTY CommittedStable
CHECK_DEADLOCK FALSE
