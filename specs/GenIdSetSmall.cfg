SPECIFICATION Spec
CONSTANTS
  Ids = {0, 1, 2, 5, 9}
  MaxSteps = 12
  ExportHist = TRUE
INVARIANTS Refines Export
CHECK_DEADLOCK FALSE
