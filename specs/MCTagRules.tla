----------------------------- MODULE MCTagRules -----------------------------
(* Constants of the C20 rule-list filter configurations (specs/TagRules.tla).  Strings are sequences over "a", "b";
   the alphabets contain the empty string, a key that equals a prefix, a prefix longer than the string, a value equal
   to the key and a substring at the very end of the string. *)
EXTENDS TagRules
E == <<>>
A == <<"a">>
B == <<"b">>
AB == <<"a", "b">>
BA == <<"b", "a">>
AAB == <<"a", "a", "b">>
ABB == <<"a", "b", "b">>
Tg(k, v) == [k |-> k, v |-> v]

Strs7 == {E, A, B, AB, BA, AAB, ABB}
TagsAll == {Tg(k, v) : k \in Strs7, v \in Strs7}                                             \* 49
TagsMid == {Tg(k, v) : k \in {E, A, AB, AAB}, v \in {E, A, AB}} \cup {Tg(B, B), Tg(BA, AB), Tg(ABB, B)}     \* 15
TagsQ == {Tg(E, E), Tg(A, A), Tg(A, E), Tg(AB, A), Tg(AB, B), Tg(B, AB), Tg(AAB, AB), Tg(BA, B), Tg(ABB, E), Tg(E, AB)}   \* 10
TagsSmall == {Tg(E, E), Tg(A, A), Tg(A, E), Tg(AB, A), Tg(AB, B), Tg(B, AB)}                \* 6
TagsTiny == {Tg(E, A), Tg(A, A), Tg(AB, E), Tg(B, AB)}                                      \* 4

\* ---- legacy filters
KF3 == {LK(E), LK(A), LK(AB)}
KPF3 == {LK(E), LK(A), LK(AB)}
KPF4 == KPF3 \cup {LK(B)}
KVF3 == {LK(A), LKV(A, A), LKV(AB, E)}
KVF5 == KVF3 \cup {LKV(E, B), LK(E)}
\* ---- TagsFilter: TagMatcher templates by theme
CE(s) == SM("cstr", "equal", s)
SE(s) == SM("string", "equal", s)
XE(s) == SM("class", "equal", s)
PX(s) == SM("class", "prefix", s)
SUB(s) == SM("class", "substring", s)
TT == SM("bool", "true", E)
FF == SM("bool", "false", E)
XT == SM("class", "true", E)
XF == SM("class", "false", E)
TFeq == {TMKey(CE(A)), TMKV(SE(A), CE(A)), TMKVI(TT, XE(E), TRUE)}
TFeq5 == TFeq \cup {TMDefault, TMKVI(CE(AB), FF, FALSE), TMKey(XF), TMKV(XT, SE(AB))}
TFpre == {TMKey(PX(A)), TMKV(PX(AB), SUB(B)), TMKVI(PX(E), PX(AB), TRUE)}
TFpre5 == TFpre \cup {TMKV(CE(E), SUB(E)), TMKV(SUB(AB), PX(A)), TMKVI(SUB(BA), SUB(AB), FALSE), TMKey(PX(AAB))}
TFlist == {TMKey(SML("vector", <<A, AB>>)), TMKV(TT, SML("vector", <<E>>)), TMKVI(SML("list_add", <<B, A>>), SML("class", <<A>>), TRUE)}
TFlist5 == TFlist \cup {TMKey(SML("vector", <<>>)), TMKV(SML("list_add", <<E, AAB>>), SML("list_add", <<>>)),
                        TMKVI(SML("class", <<AB, AB>>), SML("vector", <<B, AB, E>>), FALSE)}
TFre == {TMKey(SMR("regex", TRUE, A, FALSE)), TMKV(TT, SMR("regex", FALSE, B, TRUE)), TMKVI(SMR("class", FALSE, <<"a", ".">>, FALSE), SMR("regex", TRUE, E, TRUE), TRUE)}
TFre5 == TFre \cup {TMKey(SMR("regex", TRUE, <<".", "b">>, TRUE)), TMKV(SMR("class", FALSE, E, FALSE), SMR("regex", FALSE, AB, FALSE)),
                    TMKVI(SMR("regex", FALSE, <<"b", ".">>, TRUE), SMR("class", TRUE, <<".">>, FALSE), FALSE)}
TFmix == {TMKV(CE(A), SUB(B)), TMKVI(PX(A), SML("vector", <<A, E>>), TRUE), TMKey(SMR("regex", FALSE, B, TRUE))}

AlphaOf(kf, kvf, kpf, tf) == [f \in {"KF", "KVF", "KPF", "TF"} |->
                               CASE f = "KF" -> kf [] f = "KVF" -> kvf [] f = "KPF" -> kpf [] f = "TF" -> tf]
AlphaLegacy == AlphaOf(KF3, KVF3, KPF3, {})
AlphaLegacyBig == AlphaOf(KF3, KVF5, KPF4, {})
AlphaEq == AlphaOf({}, {}, {}, TFeq)
AlphaPre == AlphaOf({}, {}, {}, TFpre)
AlphaList == AlphaOf({}, {}, {}, TFlist)
AlphaRe == AlphaOf({}, {}, {}, TFre)
AlphaMix == AlphaOf({}, {}, {}, TFmix)
AlphaEq5 == AlphaOf({}, {}, {}, TFeq5)
AlphaPre5 == AlphaOf({}, {}, {}, TFpre5)
AlphaList5 == AlphaOf({}, {}, {}, TFlist5)
AlphaRe5 == AlphaOf({}, {}, {}, TFre5)
AlphaAll5 == AlphaOf({}, {}, {}, TFeq5 \cup TFpre5 \cup TFlist5 \cup TFre5 \cup TFmix)
\* two templates per family: the complete product rule lists <= 3 x tag lists <= 3 stays small
AlphaTiny == AlphaOf({LK(A), LK(AB)}, {LK(A), LKV(AB, E)}, {LK(A), LK(AB)}, {TMKV(PX(A), SUB(B)), TMKVI(CE(AB), XE(E), TRUE)})

Legacy == {"KF", "KVF", "KPF"}
AllFams == Legacy \cup {"TF"}
OnlyTF == {"TF"}
Sh(mr, mt, ta) == [mr |-> mr, mt |-> mt, ta |-> ta]
TagsTiny3 == {Tg(A, A), Tg(AB, E), Tg(B, AB)}
ShapeTiny33q == {Sh(3, 3, TagsTiny3)}                                      \* the complete product, three tags
ShapeTiny33 == {Sh(3, 3, TagsTiny)}                                        \* the complete product, four tags
ShapeSmall33 == {Sh(3, 3, TagsSmall)}                                      \* the complete product, six tags
\* long rule lists x one tag, one rule x long tag lists
ShapeCross == {Sh(3, 1, TagsQ), Sh(1, 3, TagsSmall), Sh(2, 2, TagsTiny)}
ShapeCrossM == {Sh(3, 1, TagsQ), Sh(2, 2, TagsSmall), Sh(1, 3, TagsSmall)}
ShapeCrossL == {Sh(3, 1, TagsMid), Sh(2, 2, TagsSmall), Sh(1, 3, TagsSmall)}
ShapeCrossT == {Sh(3, 1, TagsAll), Sh(2, 2, TagsSmall), Sh(1, 3, TagsSmall)}
\* big template alphabets
ShapeWide == {Sh(1, 1, TagsAll), Sh(1, 2, TagsSmall)}
ShapeWideT == {Sh(1, 1, TagsAll), Sh(1, 2, TagsSmall), Sh(2, 1, TagsQ)}
=============================================================================
