SPECIFICATION Spec
CONSTANTS
  Mode = "parse"
  Level = 1
  DoExport = TRUE
INVARIANTS ParseIimpliesA NoOverread Export
CHECK_DEADLOCK FALSE
