---------------------------- MODULE FileSpecCommon ----------------------------
(* C01 extension: operators shared by FileSpec.tla (osmium::io::File), FileSpecMd.tla (osmium::metadata_options) and
   FileSpecHeader.tla (osmium::io::Header).  No variables.

   Strings.  TLC has no character-level string operations, so a string is modelled as the sequence of the tokens it
   is made of, joined by a separator that no token contains ('.' in file names and format parts, '+' in option values,
   ',' between the parts of a format string); the harness joins the tokens.  The empty string is <<>> and <<"">>.

   osmium::Options (base class of File and Header): A-layer = a finite function key -> value.                      *)
EXTENDS Integers, Sequences, FiniteSets, TLC

Last(s) == s[Len(s)]
Front(s) == SubSeq(s, 1, Len(s) - 1)
Range(s) == {s[i] : i \in 1..Len(s)}
MaxOf(S) == CHOOSE x \in S : \A y \in S : y <= x
MinOf(S) == CHOOSE x \in S : \A y \in S : x <= y

IsEmptyStr(s) == s = <<>> \/ s = <<"">>

\* I-layer: osmium::io::detail::split (std::getline on a stringstream): no item for the empty string and no item for
\* the empty rest after a trailing delimiter, i.e. ONE trailing empty token is dropped.
GetlineSplit(s) == IF s = <<>> THEN <<>> ELSE IF Last(s) = "" THEN Front(s) ELSE s

\* ---- option values
VTrue == <<"true">>
VFalse == <<"false">>
NoValue == <<>>                        \* std::string{} : what get() returns for a key that is not set

\* the empty map is the empty function
EmptyOpts == <<>>
OSet(o, k, v) == [x \in DOMAIN o \cup {k} |-> IF x = k THEN v ELSE o[x]]
OGetD(o, k, d) == IF k \in DOMAIN o THEN o[k] ELSE d
OGet(o, k) == OGetD(o, k, NoValue)
OIsTrue(o, k) == OGet(o, k) \in {<<"true">>, <<"yes">>}
OIsFalse(o, k) == OGet(o, k) \in {<<"false">>, <<"no">>}
OIsNotFalse(o, k) == ~OIsFalse(o, k)
\* what the accessors of osmium::Options have to answer for key k (the harness asks the real object all of them)
OProbe(o, k) == [get |-> OGet(o, k), dflt |-> OGetD(o, k, <<"dflt">>), t |-> OIsTrue(o, k), f |-> OIsFalse(o, k), nf |-> OIsNotFalse(o, k)]
OProbes(o, extra) == [k \in DOMAIN o \cup extra |-> OProbe(o, k)]

\* an option part of a format string / the argument of Options::set(data):  key [ '=' value ]
\* [k |-> key token (contains no '='), eq |-> is there a '=', v |-> value (token sequence, tokens may contain '=')]
OSetData(o, p) == OSet(o, p.k, IF p.eq THEN p.v ELSE VTrue)

\* ---- osmium::metadata_options, A-layer: the meaning of an attribute string
MdFields == {"version", "timestamp", "changeset", "uid", "user"}
MdOrder == <<"version", "timestamp", "changeset", "uid", "user">>
MdAllWords == {<<"all">>, <<"true">>, <<"yes">>}
MdNoneWords == {<<"none">>, <<"false">>, <<"no">>}
MdErr == {"error"}                     \* not a field set: the string has no meaning
\* "" / all / true / yes = every field; none / false / no = no field; otherwise a '+' separated list of field names
\* (empty items are skipped); anything else is an error (std::invalid_argument)
MdMeaning(s) == IF IsEmptyStr(s) \/ s \in MdAllWords THEN MdFields
                ELSE IF s \in MdNoneWords THEN {}
                ELSE LET names == Range(s) \ {""} IN IF names \subseteq MdFields THEN names ELSE MdErr
\* canonical text of a field set
MdText(S) == IF S = {} THEN <<"none">> ELSE IF S = MdFields THEN <<"all">> ELSE SelectSeq(MdOrder, LAMBDA f : f \in S)
=============================================================================
