SPECIFICATION Spec
CONSTANTS
  InitLists <- InitAll
  Keys <- KeysAll
  Values <- ValuesFew
  DataParts <- DataAll
  BoxSet <- BoxesFew
  BoxLists <- BoxListsAll
  MaxOps = 2
  ExportHist = TRUE
INVARIANTS OptionsAgree JoinedAgrees JoinedShape Bounded Export
