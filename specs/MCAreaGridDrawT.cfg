SPECIFICATION Spec
CONSTANTS
  G = 1
  MaxRings = 1
  Drawings = 1
  Kinds = {"rect", "tri"}
  MutSeq <- MutDraw
  ModeSeq <- ModeAll
  MaxSegs = 26
  Styles = {"long", "short", "mixed", "mid"}
  RolePats <- TwoRolePats
  Theorems = FALSE
  Tiles = FALSE
INVARIANTS WaysWellFormed SegBagConserved VerdictIsOfTheWays
CHECK_DEADLOCK FALSE
