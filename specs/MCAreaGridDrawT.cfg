SPECIFICATION Spec
CONSTANTS
  G = 1
  MaxRings = 1
  Drawings = 1
  Kinds = {"rect", "tri"}
  MutSeq <- MutDraw
  Styles = {"long", "short", "mixed", "mid"}
  Theorems = FALSE
INVARIANTS WaysWellFormed SegBagConserved VerdictIsOfTheWays
CHECK_DEADLOCK FALSE
