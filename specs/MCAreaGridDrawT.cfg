SPECIFICATION Spec
CONSTANTS
  G = 1
  MaxRings = 1
  Drawings = 1
  Kinds = {"rect", "tri"}
  MutSeq <- MutDraw
  Modes = {"any", "inside", "around", "apart", "same"}
  MaxSegs = 26
  Styles = {"long", "short", "mixed", "mid"}
  Theorems = FALSE
INVARIANTS WaysWellFormed SegBagConserved VerdictIsOfTheWays
CHECK_DEADLOCK FALSE
