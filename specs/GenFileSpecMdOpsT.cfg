SPECIFICATION Spec
CONSTANTS
  Strings <- StringsFew
  Others <- OthersFew
  MaxOps = 3
  ExportHist = TRUE
INVARIANTS TypeOK Refines TextLaw ParseFn Bounded Export
