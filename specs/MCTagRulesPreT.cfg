\* C20 ext (specs/TagRules.tla), thorough: design check only; TagsFilter, the larger alphabet of: prefix and substring matchers (empty prefix, prefix longer than the key, substring at the end); rule lists <= 3 x every single tag of all 49, and the shapes of the export configuration.  Deadlock checking stays on: every behaviour must reach phase "done".
SPECIFICATION Spec
CONSTANTS
  Fams <- OnlyTF
  Alpha <- AlphaPre5
  Shapes <- ShapeCrossT
INVARIANTS TypeOK RefinesRules RefinesIter RefinesRest
