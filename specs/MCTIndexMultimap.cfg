SPECIFICATION Spec
CONSTANTS
  Ids = {0, 1, 3}
  Vals = {1, 2}
  Probes = {0, 1, 2, 3, 4}
  Backings = {"vector", "mmap", "stdmm", "hybrid"}
  MaxSets = 4
  MaxRemoves = 2
  MaxOther = 3
  ExportHist = FALSE
INVARIANTS NoLoss Link Refines FileOK
CHECK_DEADLOCK FALSE
