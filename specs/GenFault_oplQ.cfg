SPECIFICATION Spec
CONSTANTS
  Fmt = "opl"
  MaxFaults = 1
  WithTrunc = TRUE
  TruncAfterFault = FALSE
  ExportHist = TRUE
INVARIANTS TypeOK Applicable DistinctPositions TruncOK Export
CHECK_DEADLOCK FALSE
