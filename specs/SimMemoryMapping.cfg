SPECIFICATION Spec
CONSTANTS
  P = 4096
  Sizes = {0, 1, 511, 512, 513, 4095, 4096, 4097, 8192, 12289}
  Offs = {0, 256, 4096}
  ESizes = {1, 8, 16}
  WPos = {0, 1, 4095, 4096, 4097, 8191, 8192, 12288, 32767, 65535}
  F0s = {0, 1, 4095, 4096, 4097, 10000, 70000}
  FdKinds = {"anon", "rw", "ro", "bad"}
  MaxOps = 12
  MaxWrites = 5
  MaxObjs = 4
  ExportHist = TRUE
INVARIANTS WindowOK ViewOK NoSigbus FileOK ErrOK TypedOK Export
CHECK_DEADLOCK FALSE
