\* behaviour export (simulation): 4 calls in a row on the same factory object , node lists of 0..4 entries over {p,q,r,U}, areas of <= 2 outer x <= 1 inner rings from CatSeq
SPECIFICATION Spec
CONSTANTS
  Toks = {"p", "q", "r", "U"}
  MaxLen = 4
  Kinds = {"point", "linestring", "polygon", "multipolygon"}
  RingCat <- CatSeq
  MaxOuter = 2
  MaxInner = 1
  MaxCalls = 4
  ExportHist = TRUE
INVARIANTS TypeOK Refines RegsOK NoEmptyList Export
CHECK_DEADLOCK FALSE
