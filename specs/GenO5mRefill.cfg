SPECIFICATION Spec
CONSTANTS
  HdrLen = 7
  MaxVarint = 10
  Shapes <- ShapesGenQ
  RepointOnFail = TRUE
  MaxCuts = 2
  TruncCuts = 1
  FixedSizes = {1, 2, 3, 5, 7}
  ExportHist = TRUE
INVARIANTS WindowInv ResultInv Export
