SPECIFICATION Spec
CONSTANTS
  Caps = {64, 96, 144}
  Modes = {"no", "yes", "internal"}
  Kinds = {"node"}
  ULens = {0}
  TagLens <- TagLens1
  RoleLens = {0}
  CommentLens <- CommentLens1
  MaxObjects = 3
  MaxElems = 0
  MaxSteps = 5
  Ops <- BufferOps
  ExportHist = TRUE
INVARIANT Export
CHECK_DEADLOCK FALSE
