SPECIFICATION Spec
CONSTANTS
  Caps = {64, 80, 104}
  Modes = {"yes", "internal"}
  Kinds = {"area"}
  ULens = {6}
  TagLens <- TagLens1
  RoleLens = {0}
  Pres = {1}
  Wraps = {FALSE}
  CbMaxs = {0}
  MaxObjects = 1
  MaxElems = 1
  MaxSubs = 3
  MaxSteps = 10
  Ops <- AreaOps
  Script <- NoScript
  ExportHist = TRUE
INVARIANT Export
CHECK_DEADLOCK FALSE
