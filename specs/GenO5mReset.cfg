SPECIFICATION Spec
CONSTANTS
  N = 3
  DSNames = {"delta", "basic", "hist", "wrap"}
  MaxExtra = 2
  SkipSet = {}
  HdrSet = {}
  RefPolicy = "first"
  FillOnly = FALSE
  BulkN = 5
  RoleLimit = 250
  ExportHist = TRUE
INVARIANTS TableAgree RegsAgree DecodedOK Export
CHECK_DEADLOCK FALSE
