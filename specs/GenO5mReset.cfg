SPECIFICATION Spec
CONSTANTS
  N = 3
  DSNames = {"delta", "basic", "hist", "wrap"}
  MaxExtra = 2
  SkipSet = {}
  HdrSet = {}
  RefPolicy = "first"
  MaskSet = {{"n", "w", "r"}, {"n"}, {"w"}, {"r"}, {"n", "w"}, {"n", "r"}, {"w", "r"}}
  TypeResets = TRUE
  SkipUndecoded = TRUE
  FillOnly = FALSE
  BulkN = 5
  RoleLimit = 250
  ExportHist = TRUE
INVARIANTS TableAgree RegsAgree DecodedOK Export
CHECK_DEADLOCK FALSE
