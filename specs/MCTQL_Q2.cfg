SPECIFICATION FairSpec
CONSTANTS
  Threads <- QThreads
  Kind <- QKind
  Script <- QScript
  Max = 2
  Throwing <- NoThrow
PROPERTY ConsumersFinish
CHECK_DEADLOCK FALSE
