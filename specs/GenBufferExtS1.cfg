SPECIFICATION Spec
CONSTANTS
  Caps <- CapsScript
  Modes = {"yes", "internal"}
  Kinds = {"area"}
  ULens = {14}
  TagLens <- TagLens2
  RoleLens = {0}
  Pres = {0, 1}
  Wraps = {FALSE}
  CbMaxs = {0}
  MaxObjects = 1
  MaxElems = 3
  MaxSubs = 6
  MaxSteps <- S1Len
  Ops <- AllOps
  Script <- ScriptArea1
  ExportHist = TRUE
INVARIANT Export
INVARIANT Inv
CHECK_DEADLOCK FALSE
