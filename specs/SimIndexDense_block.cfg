SPECIFICATION Spec
CONSTANTS
  Cand = {0, 1, 65535, 65536, 65537, 131071, 131072}
  Probes = {0, 1, 2, 65534, 65535, 65536, 65537, 65538, 131070, 131071, 131072, 131073}
  MaxSets = 6
  MaxSorts = 2
  MaxDumps = 2
  ArrayLimit = 4194304
  ExportHist = TRUE
  G = 1048576
  Backings = {"mmap"}
  ReserveSizes = {1048577}
  ForeignInit = FALSE
INVARIANTS Refines NoGarbage FileOK Export
CHECK_DEADLOCK FALSE
