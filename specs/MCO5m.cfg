SPECIFICATION Spec
CONSTANTS
  N = 3
  DSNames = {"empty", "tiny", "tiny2", "basic", "wrap", "long", "role250", "meta", "hist", "delta"}
  MaxExtra = 2
  RoleLimit = 250
  ExportHist = FALSE
INVARIANTS TypeOK TableAgree RegsAgree DecodedOK
CHECK_DEADLOCK FALSE
