------------------------------- MODULE AreaGrid -------------------------------
(* C10 - assembled areas are valid multipolygons that cover exactly the input's region.

   A-layer (declarative, no algorithm): geometry on the integer grid 0..G x 0..G with exact integer
   predicates.
     * a case is a sequence of ways (paths of grid points) with member roles;
     * Segments(ways): the undirected segments of all ways, zero-length ones dropped, counted mod 2
       (two copies of a segment cancel);
     * Crosses / Overlaps by cross products; ValidArrangement = non-empty, every point has even degree,
       no two segments cross, overlap or touch in the interior of one of them;
     * Region = even-odd fill, evaluated by ray casting from 2G x 2G sample points (the centres of the
       half-unit cells, shifted by 1/28 in y so that no sample lies on a line through two grid points:
       inside/outside is then decided by strict integer inequalities only);
     * Judge(case, expected, run): the set of names of the requirements that an observed result of the
       real osmium::area::Assembler violates: verdict (assembled / rejected), validity of every ring
       (closed, >= 4 points, no repeated point, no crossing/overlap/double use among all ring segments),
       orientation (outer counter-clockwise, inner clockwise), every inner ring inside the outer ring it
       is attached to and that ring being the innermost one around it, region of the multipolygon
       (union over outer rings of outer minus its inner rings) = even-odd fill of the input, ring
       segments = input segments, counts of problems (intersections, open ring ends, touching points,
       wrong roles) in area_stats and in the ProblemReporter callbacks.
   The oracle is evaluated by TLC on the rings logged by harness/area_replay.cpp (AreaGridTrace.tla).

   I-layer ("case builder", what is enumerated): a state machine that
     Start    chooses the number of rings (<= MaxRings),
     PickKind / PickShape   draws rings from the catalogue of simple grid polygons defined below
              (rectangles, right triangles, L and T shapes, diamonds, kites; rect/tri/L/dia also with all lattice
              points of their boundary as vertices), each in a chosen relation to an earlier ring (anywhere,
              bounding box within / inside / around / apart, sharing a vertex from outside or inside, snugly
              nested chain, identical copy),
     PickMut / ApplyMut / Expect   optionally damages the segment bag (drop a segment = open ring, extra free
              segment, duplicated segment, duplicated ring, three copies of a segment, spike walked twice) and
              computes the expected verdict of the bag: Expected(BagSegments(bag)),
     Style, StartWay / Extend / Stutter / Finish   re-draws the SAME segment bag as ways: every walk over
              the bag is possible, so member order, way direction and the cutting of rings into ways
              (including ways that run through touching points from one ring into the next) are all
              covered; Stutter repeats a point (duplicate node),
     Roles    assigns member roles (outer / inner / empty / unknown, patterns over the member index),
     Redraw   starts the next drawing of the same bag (cases of one behaviour form a group whose results
              must be identical).
   With Tiles = TRUE only bags that can be repeated along x (TileOK) are exported, together with the number of
   touching points of chains of n copies (up to 100 touching points).
   TLC checks (MC*.cfg, exhaustively for small constants): the drawing conserves the segment bag
   (SegBagConserved), ways are connected paths over grid points (WaysWellFormed), the exported verdict is the
   verdict of the ways as drawn (VerdictIsOfTheWays), and the A-layer is consistent: the even-odd fill does not
   depend on the ray direction when all degrees are even (RayIndependent), it is the XOR of the fills of the rings
   (FillIsXor), cancelling pairs of segments does not change it (CancelSound), every catalogue polygon is a valid
   arrangement (CatalogueValid), the obviously right answer for vertex-disjoint rings (up to hole-in-island
   nesting) is accepted by Judge and spoiled answers are rejected by it (JudgeAcceptsReference,
   JudgeRejectsSpoiled), and a chain of copies of a motif is valid, has the computed number of touching points and
   the motif's fill in every copy (TileTheorem). *)
EXTENDS Integers, Sequences, FiniteSets, TLC, Json

CONSTANTS G,          \* grid 0..G x 0..G
          MaxRings,   \* rings per case
          Drawings,   \* drawings (= exported cases) per chosen bag
          Kinds,      \* catalogue families in use
          MutSeq,     \* sequence of mutation names; repeated names weight the choice in simulation
          ModeSeq,    \* relations of a new ring to an earlier one, sequence over {"any","within","inside","around","apart",
                      \* "touch","touchout","touchin","chain","same"}; repeated names weight the choice in simulation
          MaxSegs,    \* bound on the number of segments of a case
          Styles,     \* drawing styles in use
          RolePats,   \* role patterns <<a, b>>: member i gets role number (a*i + b) mod 4 of <<outer, inner, "", foo>>
          Theorems,   \* TRUE: evaluate the A-layer consistency invariants (design check only)
          Tiles       \* TRUE: export only bags that can be tiled (motifs), with the numbers for the chain

(* ------------------------------------------------------------------ points, segments *)
Lt(p, q) == p[1] < q[1] \/ (p[1] = q[1] /\ p[2] < q[2])
Seg(p, q) == IF Lt(p, q) THEN <<p, q>> ELSE <<q, p>>
Cr(o, a, b) == (a[1] - o[1]) * (b[2] - o[2]) - (a[2] - o[2]) * (b[1] - o[1])
Sgn(n) == IF n > 0 THEN 1 ELSE IF n < 0 THEN -1 ELSE 0
Abs(n) == IF n < 0 THEN -n ELSE n
Min2(a, b) == IF a < b THEN a ELSE b
Max2(a, b) == IF a < b THEN b ELSE a

RECURSIVE GCD(_, _)
GCD(a, b) == IF b = 0 THEN a ELSE GCD(b, a % b)

RECURSIVE SumF(_, _)      \* f[1] + ... + f[n]
SumF(f, n) == IF n = 0 THEN 0 ELSE f[n] + SumF(f, n - 1)

RECURSIVE Flat(_)         \* concatenation of a sequence of sequences
Flat(ss) == IF ss = <<>> THEN <<>> ELSE Head(ss) \o Flat(Tail(ss))

Collinear(s, t) == Cr(s[1], s[2], t[1]) = 0 /\ Cr(s[1], s[2], t[2]) = 0
SharedEnd(s, t) == s[1] = t[1] \/ s[1] = t[2] \/ s[2] = t[1] \/ s[2] = t[2]
Straddle(s, t) == Sgn(Cr(s[1], s[2], t[1])) * Sgn(Cr(s[1], s[2], t[2])) <= 0
(* not on one line, no common end point, but a common point: a proper crossing, or an end point of one
   segment in the interior of the other (there is no node at that place, so the ways do not connect) *)
Crosses(s, t) == ~Collinear(s, t) /\ ~SharedEnd(s, t) /\ Straddle(s, t) /\ Straddle(t, s)
(* on one line and more than one common point (segments are normalised: s[1] before s[2]) *)
Overlaps(s, t) == Collinear(s, t) /\ s # t /\ Lt(s[1], t[2]) /\ Lt(t[1], s[2])
SegLt(s, t) == Lt(s[1], t[1]) \/ (s[1] = t[1] /\ Lt(s[2], t[2]))
BadPairs(S) == {pr \in S \X S : /\ SegLt(pr[1], pr[2])
                                 /\ ~(pr[1][2][1] < pr[2][1][1])      \* x ranges meet (pr[1] starts first)
                                 /\ (Crosses(pr[1], pr[2]) \/ Overlaps(pr[1], pr[2]))}

PointsOf(S) == {s[1] : s \in S} \cup {s[2] : s \in S}
Deg(S, p) == Cardinality({s \in S : s[1] = p \/ s[2] = p})
OddPoints(S) == {p \in PointsOf(S) : Deg(S, p) % 2 = 1}
TouchPoints(S) == {p \in PointsOf(S) : Deg(S, p) >= 4}

ValidArrangement(S) == S # {} /\ OddPoints(S) = {} /\ BadPairs(S) = {}

(* ------------------------------------------------------------------ ways -> segments (mod 2) *)
WayOcc(ways) == {o \in UNION {{<<w, i>> : i \in 1..(Len(ways[w]) - 1)} : w \in 1..Len(ways)} :
                   ways[o[1]][o[2]] # ways[o[1]][o[2] + 1]}
OccSeg(ways, o) == Seg(ways[o[1]][o[2]], ways[o[1]][o[2] + 1])
Segments(ways) == LET occ == WayOcc(ways)
                      all == {OccSeg(ways, o) : o \in occ}
                  IN {s \in all : Cardinality({o \in occ : OccSeg(ways, o) = s}) % 2 = 1}

BagSegments(bag) == LET all == {bag[i] : i \in 1..Len(bag)}
                    IN {s \in all : Cardinality({i \in 1..Len(bag) : bag[i] = s}) % 2 = 1}

(* ------------------------------------------------------------------ even-odd fill on sample points *)
(* Coordinates are scaled by 28.  Sample (i, j), 0 <= i, j, is the point (14i + 7, 14j + 8): the centre of the
   half-unit cell (i, j) moved up by 1/28.  Its x is never a multiple of 28, its y neither, and for a line
   through two grid points with |dx| <= 6:  dy * (14i + 7 - 28 x1) = dx * (14j + 8 - 28 y1) would need
   7 | dx (for dx # 0) or 14i + 7 = 28 x1 (for dx = 0): impossible.  So no sample lies on a segment. *)
SP(I) == <<14 * I[1] + 7, 14 * I[2] + 8>>
Sc(p) == <<28 * p[1], 28 * p[2]>>
(* the ray from P in direction +x meets segment s *)
HitsX(s, P) == LET a == Sc(s[1])  b == Sc(s[2])
               IN /\ (a[2] > P[2]) # (b[2] > P[2])
                  /\ IF a[2] < b[2] THEN Cr(a, b, P) > 0 ELSE Cr(b, a, P) > 0
(* the ray from P in direction +y meets segment s (s[1] is the left end) *)
HitsY(s, P) == LET a == Sc(s[1])  b == Sc(s[2])
               IN /\ (a[1] > P[1]) # (b[1] > P[1])
                  /\ Cr(a, b, P) < 0
SampleIdx(x0, x1) == ((2 * x0)..(2 * x1 - 1)) \X (0..(2 * G - 1))
AllSamples == SampleIdx(0, G)
FillX(S, W) == {I \in W : Cardinality({s \in S : HitsX(s, SP(I))}) % 2 = 1}
FillY(S, W) == {I \in W : Cardinality({s \in S : HitsY(s, SP(I))}) % 2 = 1}
(* fill of a closed point sequence (a ring), counting every occurrence of a segment *)
RingFillY(pts, W) == {I \in W : Cardinality({k \in 1..(Len(pts) - 1) :
                          pts[k] # pts[k + 1] /\ HitsY(Seg(pts[k], pts[k + 1]), SP(I))}) % 2 = 1}
IdxNum(I) == I[1] * 2 * G + I[2]

(* ------------------------------------------------------------------ what is expected of a segment set *)
Expected(S) == LET bad == BadPairs(S)
                   odd == OddPoints(S)
               IN [valid  |-> S # {} /\ odd = {} /\ bad = {},
                   empty  |-> S = {},
                   ncross |-> Cardinality(bad),
                   nodd   |-> Cardinality(odd),
                   ntouch |-> Cardinality(TouchPoints(S)),
                   region |-> IF S # {} /\ odd = {} /\ bad = {} THEN {IdxNum(I) : I \in FillY(S, AllSamples)} ELSE {}]

(* ------------------------------------------------------------------ the oracle for an observed result *)
(* An observation of one case: the rings of the committed area,
     rings: Seq([pts: Seq(point), inn: Seq(Seq(point))])          (outer ring with its inner rings)
   and the runs that produced exactly these rings,
     runs: Seq([entry: "rel" | "way", mgr, pr, ne, ret, area: BOOLEAN, st: [...], rep: [...]])
   (entry point, through the MultipolygonManager or not, ProblemReporter + check_roles configured or not,
   create_empty_areas switched off or not, return value, area committed or not, area_stats, reporter calls). *)
RingIds(rings) == UNION {{<<k, 0>>} \cup {<<k, m>> : m \in 1..Len(rings[k].inn)} : k \in 1..Len(rings)}
RingPts(rings, r) == IF r[2] = 0 THEN rings[r[1]].pts ELSE rings[r[1]].inn[r[2]]
Area2(pts) == SumF([k \in 1..(Len(pts) - 1) |-> pts[k][1] * pts[k + 1][2] - pts[k][2] * pts[k + 1][1]], Len(pts) - 1)
DirSegs(pts) == {<<pts[k], pts[k + 1]>> : k \in 1..(Len(pts) - 1)}
Canon(rings) == {[o |-> DirSegs(rings[k].pts), inn |-> {DirSegs(rings[k].inn[m]) : m \in 1..Len(rings[k].inn)}] : k \in 1..Len(rings)}
(* all ring segments as one sequence of [r |-> ring id, s |-> normalised segment] *)
RingSegSeq(rings) ==
  LET one(r) == LET p == RingPts(rings, r) IN [k \in 1..(Len(p) - 1) |-> [r |-> r, s |-> Seg(p[k], p[k + 1])]]
      outer(k) == one(<<k, 0>>) \o Flat([m \in 1..Len(rings[k].inn) |-> one(<<k, m>>)])
  IN Flat([k \in 1..Len(rings) |-> outer(k)])
XApart(s, t) == s[2][1] < t[1][1] \/ t[2][1] < s[1][1]          \* x ranges disjoint (segments are normalised)
Conflict(s, t) == ~XApart(s, t) /\ (s = t \/ Crosses(s, t) \/ Overlaps(s, t))

WrongRole(role, outer) == role # "" /\ role # (IF outer THEN "outer" ELSE "inner")

(* requirements on the rings alone *)
JudgeRings(ways, exp, rings, W) ==
  LET ids == RingIds(rings)
      rs == RingSegSeq(rings)
      m == Len(rs)
      fill == [r \in ids |-> RingFillY(RingPts(rings, r), W)]
      outers == {r \in ids : r[2] = 0}
      inners == ids \ outers
      mp == UNION {fill[o] \ UNION {fill[r] : r \in {x \in inners : x[1] = o[1]}} : o \in outers}
  IN  {n \in {"closed", "short", "duppoint", "ringcross", "orient", "inside", "attach", "region", "segset"} :
         CASE n = "closed" -> \E r \in ids : LET p == RingPts(rings, r) IN Len(p) < 1 \/ p[1] # p[Len(p)]
           [] n = "short" -> \E r \in ids : Len(RingPts(rings, r)) < 4
           [] n = "duppoint" -> \E r \in ids : LET p == RingPts(rings, r) IN \E k \in 1..(Len(p) - 1) : p[k] = p[k + 1]
           [] n = "ringcross" -> \E i \in 1..m : \E j \in (i + 1)..m : Conflict(rs[i].s, rs[j].s)
           [] n = "orient" -> \E r \in ids : IF r[2] = 0 THEN Area2(RingPts(rings, r)) <= 0
                                                          ELSE Area2(RingPts(rings, r)) >= 0
           [] n = "inside" -> \E r \in inners : ~(fill[r] \subseteq fill[<<r[1], 0>>])
           [] n = "attach" -> \E r \in inners, o2 \in outers :
                                 /\ o2[1] # r[1] /\ fill[r] # {} /\ fill[r] \subseteq fill[o2]
                                 /\ ~(fill[<<r[1], 0>>] \subseteq fill[o2])
           [] n = "region" -> {IdxNum(I) : I \in mp} # exp.region
           [] n = "segset" -> {rs[i].s : i \in 1..m} # Segments(ways)}

(* wrong roles: for every ring segment the roles of the input ways that contain it; which copy of a segment
   survives the cancellation is not determined, hence a range <<lo, hi>> *)
RoleRange(ways, roles, rings) ==
  LET rs == RingSegSeq(rings)
      inocc == WayOcc(ways)
      cand == [i \in 1..Len(rs) |-> {roles[x[1]] : x \in {y \in inocc : OccSeg(ways, y) = rs[i].s}}]
  IN <<Cardinality({i \in 1..Len(rs) : cand[i] # {} /\ \A ro \in cand[i] : WrongRole(ro, rs[i].r[2] = 0)}),
       Cardinality({i \in 1..Len(rs) : \E ro \in cand[i] : WrongRole(ro, rs[i].r[2] = 0)})>>

(* requirements on one run that delivered rings for a valid arrangement (nout / nin rings, role range rr) *)
JudgeRunValid(exp, nout, nin, rr, run) ==
  {n \in {"not_assembled", "count_rings", "count_touch", "count_problems", "count_roles"} :
        CASE n = "not_assembled" -> ~(run.ret /\ run.area)
          [] n = "count_rings" -> run.st.outer_rings # nout \/ run.st.inner_rings # nin
          [] n = "count_touch" -> run.st.touching_rings # exp.ntouch \/ (run.pr /\ run.rep.touching_ring # exp.ntouch)
          [] n = "count_problems" -> \/ run.st.intersections # 0 \/ run.st.open_rings # 0
                                     \/ (run.pr /\ (run.rep.intersection # 0 \/ run.rep.ring_not_closed # 0))
          [] n = "count_roles" -> IF run.pr /\ run.entry = "rel"
                                  THEN \/ run.st.wrong_role < rr[1] \/ run.st.wrong_role > rr[2]
                                       \/ run.rep.role_should_be_outer + run.rep.role_should_be_inner # run.st.wrong_role
                                  ELSE run.st.wrong_role # 0}

(* requirements on one run for an input that is not a valid arrangement *)
JudgeRunInvalid(exp, run) ==
  {n \in {"return_value", "not_reported", "count_intersections", "count_open"} :
     CASE n = "return_value" -> ~run.mgr /\ (IF run.ne THEN run.ret \/ run.area ELSE ~run.ret \/ ~run.area)
       [] n = "not_reported" -> /\ run.pr /\ ~run.mgr
                                /\ \/ (exp.ncross > 0 /\ run.rep.intersection = 0)
                                   \/ (exp.ncross = 0 /\ exp.nodd > 0 /\ run.rep.ring_not_closed = 0)
       [] n = "count_intersections" -> /\ ~(run.mgr /\ ~run.area)
                                       /\ exp.ncross > 0
                                       /\ \/ run.st.intersections # exp.ncross
                                          \/ (run.pr /\ run.rep.intersection # exp.ncross)
       [] n = "count_open" -> /\ ~(run.mgr /\ ~run.area)
                              /\ exp.ncross = 0 /\ exp.nodd > 0
                              /\ \/ run.st.open_rings # exp.nodd
                                 \/ (run.pr /\ run.rep.ring_not_closed # exp.nodd)}

Judge(ways, roles, exp, rings, runs, W) ==
  IF exp.valid
  THEN IF rings = <<>> THEN {"not_assembled"}
       ELSE LET nout == Len(rings)
                nin == Cardinality(RingIds(rings)) - nout
                rr == RoleRange(ways, roles, rings)
            IN JudgeRings(ways, exp, rings, W) \cup UNION {JudgeRunValid(exp, nout, nin, rr, runs[k]) : k \in 1..Len(runs)}
  ELSE (IF rings # <<>> THEN {"wrong_area"} ELSE {}) \cup UNION {JudgeRunInvalid(exp, runs[k]) : k \in 1..Len(runs)}

(* ------------------------------------------------------------------ catalogue of simple grid polygons *)
(* (a family is only built when it is in use: TLC evaluates constant definitions at start-up) *)
R0 == IF Kinds = {} THEN {} ELSE 0..G      \* (no catalogue is built where no ring is drawn: trace validation)
Closed(pts) == pts \o <<pts[1]>>
Rect(x0, y0, x1, y1) == Closed(<< <<x0, y0>>, <<x1, y0>>, <<x1, y1>>, <<x0, y1>> >>)
RectSet == IF "rect" \in Kinds \/ "rectD" \in Kinds THEN
   {Rect(x0, y0, x1, y1) : <<x0, y0, x1, y1>> \in {q \in R0 \X R0 \X R0 \X R0 : q[1] < q[3] /\ q[2] < q[4]}}
   ELSE {}
(* right triangle: the rectangle without corner c *)
Tri(x0, y0, x1, y1, c) == LET v == << <<x0, y0>>, <<x1, y0>>, <<x1, y1>>, <<x0, y1>> >>
                          IN Closed(SelectSeq(v, LAMBDA p : p # v[c]))
TriSet == IF "tri" \in Kinds \/ "triD" \in Kinds THEN
   {Tri(q[1], q[2], q[3], q[4], c) : q \in {q \in R0 \X R0 \X R0 \X R0 : q[1] < q[3] /\ q[2] < q[4]}, c \in 1..4}
   ELSE {}
(* L shape: rectangle with the sub-rectangle at corner c removed; (xm, ym) is the inner corner *)
LSh(x0, y0, x1, y1, xm, ym, c) ==
   Closed(CASE c = 1 -> << <<x0, y0>>, <<x1, y0>>, <<x1, ym>>, <<xm, ym>>, <<xm, y1>>, <<x0, y1>> >>
            [] c = 2 -> << <<x0, y0>>, <<x1, y0>>, <<x1, y1>>, <<xm, y1>>, <<xm, ym>>, <<x0, ym>> >>
            [] c = 3 -> << <<xm, y0>>, <<x1, y0>>, <<x1, y1>>, <<x0, y1>>, <<x0, ym>>, <<xm, ym>> >>
            [] c = 4 -> << <<x0, y0>>, <<xm, y0>>, <<xm, ym>>, <<x1, ym>>, <<x1, y1>>, <<x0, y1>> >>)
LSet == IF "L" \in Kinds \/ "LD" \in Kinds THEN
   {LSh(q[1], q[2], q[3], q[4], q[5], q[6], c) :
              q \in {q \in R0 \X R0 \X R0 \X R0 \X R0 \X R0 : q[1] < q[5] /\ q[5] < q[3] /\ q[2] < q[6] /\ q[6] < q[4]}, c \in 1..4}
   ELSE {}
(* T shape: bar [x0,x1] x [ym,y1] on a stem [xa,xb] x [y0,ym]; the other orientations by reflection/transposition *)
TUp(x0, x1, xa, xb, y0, ym, y1) ==
   << <<x0, ym>>, <<xa, ym>>, <<xa, y0>>, <<xb, y0>>, <<xb, ym>>, <<x1, ym>>, <<x1, y1>>, <<x0, y1>> >>
FlipY(pts) == [k \in 1..Len(pts) |-> <<pts[k][1], G - pts[k][2]>>]
Transp(pts) == [k \in 1..Len(pts) |-> <<pts[k][2], pts[k][1]>>]
TBase == IF "T" \in Kinds THEN
   {TUp(q[1], q[2], q[3], q[4], q[5], q[6], q[7]) :
               q \in {q \in R0 \X R0 \X R0 \X R0 \X R0 \X R0 \X R0 :
                        q[1] < q[3] /\ q[3] < q[4] /\ q[4] < q[2] /\ q[5] < q[6] /\ q[6] < q[7]}}
   ELSE {}
TSet == {Closed(t) : t \in TBase} \cup {Closed(FlipY(t)) : t \in TBase}
        \cup {Closed(Transp(t)) : t \in TBase} \cup {Closed(Transp(FlipY(t))) : t \in TBase}
Dia(cx, cy, r) == Closed(<< <<cx - r, cy>>, <<cx, cy - r>>, <<cx + r, cy>>, <<cx, cy + r>> >>)
DiaSet == IF "dia" \in Kinds \/ "diaD" \in Kinds THEN
   {Dia(q[1], q[2], q[3]) : q \in {q \in R0 \X R0 \X (1..G) : q[1] - q[3] >= 0 /\ q[1] + q[3] <= G /\ q[2] - q[3] >= 0 /\ q[2] + q[3] <= G}}
   ELSE {}
(* kite: a quadrilateral from the left to the right border of the grid with single vertices on the borders at the
   same height (copies shifted by G touch in exactly that point; used as motif of the tiled cases) *)
KiteSet == IF "kite" \in Kinds THEN
   {Closed(<< <<0, q[1]>>, <<q[2], q[3]>>, <<G, q[1]>>, <<q[4], q[5]>> >>) :
                 q \in {q \in R0 \X (1..(G - 1)) \X R0 \X (1..(G - 1)) \X R0 : q[3] < q[1] /\ q[1] < q[5]}}
   ELSE {}
(* the same polygon with every lattice point of its boundary as a vertex *)
EdgePts(a, b) == LET dx == b[1] - a[1]  dy == b[2] - a[2]  g == GCD(Abs(dx), Abs(dy))
                 IN [k \in 1..g |-> <<a[1] + k * (dx \div g), a[2] + k * (dy \div g)>>]
Dense(pts) == <<pts[1]>> \o Flat([k \in 1..(Len(pts) - 1) |-> EdgePts(pts[k], pts[k + 1])])

(* rectangle with one extra node in its bottom edge (at x = xb) and one in its top edge (at x = xt): the same polygon,
   its horizontal edges subdivided at intermediate positions *)
RectS(x0, y0, x1, y1, xb, xt) == Closed(<< <<x0, y0>>, <<xb, y0>>, <<x1, y0>>, <<x1, y1>>, <<xt, y1>>, <<x0, y1>> >>)
RectSSet == IF "rectS" \in Kinds THEN
   {RectS(q[1], q[2], q[3], q[4], q[5], q[6]) :
      q \in {q \in R0 \X R0 \X R0 \X R0 \X R0 \X R0 : q[1] < q[5] /\ q[5] < q[3] /\ q[1] < q[6] /\ q[6] < q[3] /\ q[2] < q[4]}}
   ELSE {}
(* trapezoid with horizontal parallel sides: bottom side [a, b] at height y0, top side [d, c] at height y1; the other two
   sides may slant either way (parallelograms, slanted quadrilaterals); c = d: triangle with a horizontal base and its
   apex anywhere above (y0 < y1) or below (y0 > y1) it.  Left and right side never meet: at every height the right one is right of the left one.
   "trapT": the same with vertical parallel sides. *)
Trap(y0, y1, a, b, d, c) == Closed(IF c = d THEN << <<a, y0>>, <<b, y0>>, <<c, y1>> >>
                                            ELSE << <<a, y0>>, <<b, y0>>, <<c, y1>>, <<d, y1>> >>)
TrapBase == IF "trap" \in Kinds \/ "trapT" \in Kinds THEN
   {Trap(q[1], q[2], q[3], q[4], q[5], q[6]) :
      q \in {q \in R0 \X R0 \X R0 \X R0 \X R0 \X R0 : q[1] # q[2] /\ q[3] < q[4] /\ q[5] <= q[6]}}
   ELSE {}
TrapSet == IF "trap" \in Kinds THEN TrapBase ELSE {}
TrapTSet == IF "trapT" \in Kinds THEN {Transp(t) : t \in TrapBase} ELSE {}

RectDSet == {Dense(s) : s \in RectSet}
TriDSet == {Dense(s) : s \in TriSet}
LDSet == {Dense(s) : s \in LSet}
DiaDSet == {Dense(s) : s \in DiaSet}
KindSet(k) == CASE k = "rect" -> RectSet
                [] k = "tri" -> TriSet
                [] k = "L" -> LSet
                [] k = "T" -> TSet
                [] k = "dia" -> DiaSet
                [] k = "kite" -> KiteSet
                [] k = "rectD" -> RectDSet
                [] k = "triD" -> TriDSet
                [] k = "LD" -> LDSet
                [] k = "diaD" -> DiaDSet
                [] k = "rectS" -> RectSSet
                [] k = "trap" -> TrapSet
                [] k = "trapT" -> TrapTSet
CatalogueOf(ks) == UNION {KindSet(k) : k \in ks}      \* (an operator with a parameter: not evaluated at start-up)

ShapeSegs(pts) == [k \in 1..(Len(pts) - 1) |-> Seg(pts[k], pts[k + 1])]
Bbox(pts) == LET xs == {pts[k][1] : k \in 1..Len(pts)}  ys == {pts[k][2] : k \in 1..Len(pts)}
             IN [x0 |-> CHOOSE v \in xs : \A u \in xs : v <= u, x1 |-> CHOOSE v \in xs : \A u \in xs : v >= u,
                 y0 |-> CHOOSE v \in ys : \A u \in ys : v <= u, y1 |-> CHOOSE v \in ys : \A u \in ys : v >= u]
BInside(a, b) == a.x0 >= b.x0 /\ a.x1 <= b.x1 /\ a.y0 >= b.y0 /\ a.y1 <= b.y1
BWithin(a, b) == a.x0 > b.x0 /\ a.x1 < b.x1 /\ a.y0 > b.y0 /\ a.y1 < b.y1
BSnug(a, b) == a.x0 = b.x0 + 1 /\ a.x1 = b.x1 - 1 /\ a.y0 = b.y0 + 1 /\ a.y1 = b.y1 - 1
BApart(a, b) == a.x0 >= b.x1 \/ a.x1 <= b.x0 \/ a.y0 >= b.y1 \/ a.y1 <= b.y0
Candidates(k, mode, ref) ==
   LET all == KindSet(k)
       rb == Bbox(ref)
       c == CASE mode = "any" -> all
              [] mode = "within" -> {s \in all : BWithin(Bbox(s), rb)}
              [] mode = "chain" -> {s \in all : BWithin(Bbox(s), rb) /\ BSnug(Bbox(s), rb)}      \* leaves room for the next one
              [] mode = "inside" -> {s \in all : BInside(Bbox(s), rb) /\ Bbox(s) # rb}
              [] mode = "around" -> {s \in all : BWithin(rb, Bbox(s))}
              [] mode = "apart" -> {s \in all : BApart(Bbox(s), rb)}
              [] mode = "touch" -> {s \in all : {s[j] : j \in 1..Len(s)} \cap {ref[j] : j \in 1..Len(ref)} # {}}
              [] mode = "touchout" -> {s \in all : BApart(Bbox(s), rb) /\ {s[j] : j \in 1..Len(s)} \cap {ref[j] : j \in 1..Len(ref)} # {}}
              [] mode = "touchin" -> {s \in all : BInside(Bbox(s), rb) /\ Bbox(s) # rb /\ {s[j] : j \in 1..Len(s)} \cap {ref[j] : j \in 1..Len(ref)} # {}}
              [] mode = "same" -> {ref}
   IN IF c = {} /\ mode # "chain" THEN all ELSE c      \* (a chain simply ends when nothing fits)

CountSeq == <<1, 2, 2, 2, 3, 3, 4, 4, 4>>      \* weights of the number of rings in simulation
(* first ring of a case with several rings: "big" = at least 3 x 3, so that there is room for a ring within *)
FirstCandidates(k, md) ==
   LET all == KindSet(k)
       c == IF md \in {"big", "within"} THEN {s \in all : Bbox(s).x1 - Bbox(s).x0 >= 3 /\ Bbox(s).y1 - Bbox(s).y0 >= 3}
            ELSE IF md = "chain" THEN {s \in all : Bbox(s).x1 - Bbox(s).x0 = G /\ Bbox(s).y1 - Bbox(s).y0 = G}
            ELSE all
   IN IF c = {} THEN all ELSE c

(* ------------------------------------------------------------------ scripted family "hole over island" *)
(* ModeSeq = <<"isle">>: four rings in fixed relations, all vertex-disjoint (so the bag is a valid arrangement):
     ring 1  outer ring over the whole grid, its edges subdivided by extra collinear nodes ("rectS": one extra node in
             the bottom and one in the top edge; "rectD": every lattice point),
     ring 2  a hole strictly within ring 1, at least 4 wide and 3 high, leaving room above it,
     ring 3  an island strictly within the hole; not only rectangles: trapezoids / parallelograms / slanted
             quadrilaterals / triangles with the apex anywhere ("trap", "trapT"), L shapes, diamonds
             (rectangular islands: family "chain"),
     ring 4  a second hole of ring 1 above the first hole, over the island (its x range within the island's if there is
             such a shape, else overlapping it): a vertical line through it passes through the island - twice - and
             through the first hole before it reaches ring 1.
   With the last ring the whole figure is mapped by one of the 8 symmetries of the grid square (SymSeq, weighted),
   so the second hole also comes below, left and right of the first one. *)
IsleScript == Len(ModeSeq) > 0 /\ ModeSeq[1] = "isle"
IsleKinds(n) == LET want == CASE n = 1 -> {"rectS", "rectD"}
                              [] n = 2 -> {"rect", "rectS"}
                              [] n = 3 -> {"trap", "trapT", "L", "dia"}
                              [] OTHER -> {"rect", "tri", "dia", "trap"}
                IN IF want \cap Kinds = {} THEN Kinds ELSE want \cap Kinds
IsleCandidates(k, rs) ==
   LET all == KindSet(k)
       n == Len(rs) + 1
   IN CASE n = 1 -> {s \in all : LET sb == Bbox(s) IN sb.x0 = 0 /\ sb.y0 = 0 /\ sb.x1 = G /\ sb.y1 = G}
        [] n = 2 -> LET b1 == Bbox(rs[1])
                    IN {s \in all : LET sb == Bbox(s) IN /\ BWithin(sb, b1) /\ sb.x1 - sb.x0 >= 4 /\ sb.y1 - sb.y0 >= 3
                                                        /\ sb.y1 <= b1.y1 - 3}
        [] n = 3 -> LET b2 == Bbox(rs[2]) IN {s \in all : BWithin(Bbox(s), b2)}
        [] OTHER -> LET b1 == Bbox(rs[1])  b2 == Bbox(rs[2])  b3 == Bbox(rs[3])
                        over == {s \in all : LET sb == Bbox(s) IN /\ BWithin(sb, b1) /\ sb.y0 > b2.y1
                                                                 /\ sb.x0 < b3.x1 /\ b3.x0 < sb.x1}
                        right == {s \in over : Bbox(s).x0 >= b3.x0 /\ Bbox(s).x1 <= b3.x1}
                    IN IF right # {} THEN right ELSE over      \* preferably all of it over the island
(* the symmetries of the grid square: g = 0..7, bit 0: mirror x, bit 1: mirror y, bit 2: transpose first *)
SymPt(g, p) == LET q == IF g >= 4 THEN <<p[2], p[1]>> ELSE p
               IN <<IF g % 2 = 1 THEN G - q[1] ELSE q[1], IF (g \div 2) % 2 = 1 THEN G - q[2] ELSE q[2]>>
SymRings(g, rs) == [i \in 1..Len(rs) |-> [k \in 1..Len(rs[i]) |-> SymPt(g, rs[i][k])]]
SymSeq == <<0, 0, 0, 0, 0, 1, 1, 1, 1, 1, 2, 3, 4, 5, 6, 7>>

(* ------------------------------------------------------------------ the case builder *)
VARIABLES stage, nrings, rings, kind, mode, refi, mut, bag, exp, style, rpat, rem, ways, cur, stut, roles, nd
vars == <<stage, nrings, rings, kind, mode, refi, mut, bag, exp, style, rpat, rem, ways, cur, stut, roles, nd>>

NoExp == [valid |-> FALSE, empty |-> TRUE, ncross |-> 0, nodd |-> 0, ntouch |-> 0, region |-> {}]
RoleNames == <<"outer", "inner", "", "foo">>
GridPts == R0 \X R0

Init == /\ stage = "start" /\ nrings = 0 /\ rings = <<>> /\ kind = "" /\ mode = "any" /\ refi = 0 /\ mut = ""
        /\ bag = <<>> /\ exp = NoExp /\ style = "" /\ rpat = <<0, 0>> /\ rem = {} /\ ways = <<>> /\ cur = <<>> /\ stut = FALSE
        /\ roles = <<>> /\ nd = 0

Start == /\ stage = "start"
         /\ IF IsleScript THEN nrings' = 4
            ELSE \E c \in 1..Len(CountSeq) : CountSeq[c] <= MaxRings /\ nrings' = CountSeq[c]
         /\ stage' = "kind"
         /\ UNCHANGED <<rings, kind, mode, refi, mut, bag, exp, style, rpat, rem, ways, cur, stut, roles, nd>>

PickKind == /\ stage = "kind"
            /\ kind' \in (IF IsleScript THEN IsleKinds(Len(rings) + 1) ELSE Kinds)
            /\ IF IsleScript THEN mode' = "isle" /\ refi' = 0
               ELSE IF rings = <<>> THEN mode' \in (IF nrings > 1 THEN {ModeSeq[1], "big"} ELSE {"any"}) /\ refi' = 0
               ELSE \E i \in 1..Len(ModeSeq), j \in 1..Len(rings) :
                      mode' = ModeSeq[i] /\ refi' = IF ModeSeq[i] = "chain" THEN Len(rings) ELSE j
            /\ stage' = "shape"
            /\ UNCHANGED <<nrings, rings, mut, bag, exp, style, rpat, rem, ways, cur, stut, roles, nd>>

RingBag == Flat([k \in 1..Len(rings) |-> ShapeSegs(rings[k])])
PickShape == /\ stage = "shape"
             /\ LET c == {s \in (IF IsleScript THEN IsleCandidates(kind, rings)
                                  ELSE IF rings = <<>> THEN FirstCandidates(kind, mode) ELSE Candidates(kind, mode, rings[refi])) :
                           Len(RingBag) + Len(s) - 1 <= MaxSegs}
                IN IF c = {} THEN rings # <<>> /\ rings' = rings /\ stage' = "mut"     \* no room for another ring
                   ELSE /\ \E s \in c :
                             IF IsleScript /\ Len(rings) + 1 = nrings
                             THEN \E g \in 1..Len(SymSeq) : rings' = SymRings(SymSeq[g], Append(rings, s))
                             ELSE rings' = Append(rings, s)
                        /\ stage' = IF Len(rings) + 1 < nrings THEN "kind" ELSE "mut"
             /\ UNCHANGED <<nrings, kind, mode, refi, mut, bag, exp, style, rpat, rem, ways, cur, stut, roles, nd>>

PickMut == /\ stage = "mut"
           /\ \E i \in 1..Len(MutSeq) : mut' = MutSeq[i]
           /\ stage' = "mutarg"
           /\ UNCHANGED <<nrings, rings, kind, mode, refi, bag, exp, style, rpat, rem, ways, cur, stut, roles, nd>>

DropAt(s, i) == SubSeq(s, 1, i - 1) \o SubSeq(s, i + 1, Len(s))
MutBags == LET b == RingBag
           IN CASE mut = "drop" -> {DropAt(b, i) : i \in 1..Len(b)}                        \* open ring
                [] mut = "extra" -> {Append(b, Seg(p, q)) : <<p, q>> \in {pq \in GridPts \X GridPts : Lt(pq[1], pq[2])}}
                [] mut = "dupseg" -> {Append(b, b[i]) : i \in 1..Len(b)}                  \* cancels: open ring
                [] mut = "dupring" -> {b \o ShapeSegs(rings[k]) : k \in 1..Len(rings)}     \* the ring disappears
                [] mut = "tripseg" -> {b \o <<b[i], b[i]>> : i \in 1..Len(b)}             \* three copies = one
                [] mut = "spike" -> {b \o <<Seg(p, q), Seg(p, q)>> : <<p, q>> \in {pq \in GridPts \X GridPts : Lt(pq[1], pq[2])}}
                [] OTHER -> {b}                                                          \* "none", "dupnode"

ApplyMut == /\ stage = "mutarg"
            /\ bag' \in MutBags
            /\ stage' = "expect"
            /\ UNCHANGED <<nrings, rings, kind, mode, refi, mut, exp, style, rpat, rem, ways, cur, stut, roles, nd>>

(* the expected verdict is a function of the segment bag alone (its own step: in simulation TLC evaluates the
   primed expressions of every successor of a step, not only of the chosen one) *)
Expect == /\ stage = "expect"
          /\ exp' = Expected(BagSegments(bag))
          /\ stage' = "style"
          /\ UNCHANGED <<nrings, rings, kind, mode, refi, mut, bag, style, rpat, rem, ways, cur, stut, roles, nd>>

Style == /\ stage = "style"
         /\ style' \in Styles
         /\ rpat' \in RolePats
         /\ rem' = 1..Len(bag) /\ ways' = <<>> /\ cur' = <<>> /\ stut' = FALSE /\ roles' = <<>>
         /\ stage' = "draw"
         /\ UNCHANGED <<nrings, rings, kind, mode, refi, mut, bag, exp, nd>>

Last(s) == s[Len(s)]
Other(s, p) == IF s[1] = p THEN s[2] ELSE s[1]
CanExtend == {i \in rem : bag[i][1] = Last(cur) \/ bag[i][2] = Last(cur)}
NSegs(w) == Len(w) - 1

StartWay == /\ stage = "draw" /\ cur = <<>> /\ rem # {}
            /\ \E i \in rem, d \in {1, 2} :
                 /\ cur' = <<bag[i][d], bag[i][3 - d]>>
                 /\ rem' = rem \ {i}
            /\ UNCHANGED <<stage, nrings, rings, kind, mode, refi, mut, bag, exp, style, rpat, ways, stut, roles, nd>>

Extend == /\ stage = "draw" /\ cur # <<>> /\ style # "short"
          /\ \E i \in CanExtend :
               /\ cur' = Append(cur, Other(bag[i], Last(cur)))
               /\ rem' = rem \ {i}
          /\ UNCHANGED <<stage, nrings, rings, kind, mode, refi, mut, bag, exp, style, rpat, ways, stut, roles, nd>>

(* a way with the same node twice in a row (only in "dupnode" cases, once per drawing) *)
Stutter == /\ stage = "draw" /\ cur # <<>> /\ mut = "dupnode" /\ ~stut
           /\ cur' = Append(cur, Last(cur))
           /\ stut' = TRUE
           /\ UNCHANGED <<stage, nrings, rings, kind, mode, refi, mut, bag, exp, style, rpat, rem, ways, roles, nd>>

Finish == /\ stage = "draw" /\ cur # <<>>
          /\ CASE style = "long" -> CanExtend = {}
               [] style = "mid" -> CanExtend = {} \/ NSegs(cur) % 3 = 0
               [] OTHER -> TRUE
          /\ ways' = Append(ways, cur)
          /\ cur' = <<>>
          /\ stage' = IF rem = {} THEN "roles" ELSE "draw"
          /\ UNCHANGED <<nrings, rings, kind, mode, refi, mut, bag, exp, style, rpat, rem, stut, roles, nd>>

Roles == /\ stage = "roles"
         /\ roles' = [i \in 1..Len(ways) |-> RoleNames[((rpat[1] * i + rpat[2]) % 4) + 1]]
         /\ stage' = "done"
         /\ nd' = nd + 1
         /\ UNCHANGED <<nrings, rings, kind, mode, refi, mut, bag, exp, style, rpat, rem, ways, cur, stut>>

Redraw == /\ stage = "done" /\ nd < Drawings
          /\ stage' = "style"
          /\ UNCHANGED <<nrings, rings, kind, mode, refi, mut, bag, exp, style, rpat, rem, ways, cur, stut, roles, nd>>

Next == Start \/ PickKind \/ PickShape \/ PickMut \/ ApplyMut \/ Expect \/ Style \/ StartWay \/ Extend \/ Stutter \/ Finish
        \/ Roles \/ Redraw
Spec == Init /\ [][Next]_vars

(* values for the constant MutSeq (a cfg file cannot contain a tuple) *)
MutGen == <<"none", "none", "none", "none", "none", "none", "dupnode", "drop", "extra", "dupseg", "dupring", "tripseg", "spike">>
MutDraw == <<"none", "drop", "dupseg", "dupnode">>
MutThm == <<"none", "drop", "dupseg", "dupring", "tripseg">>
MutNone == <<"none">>
(* values for the constant ModeSeq *)
ModeGen == <<"any", "within", "within", "within", "within", "within", "inside", "around", "around", "apart", "apart", "touch", "touch", "same">>
ModeNest == <<"within", "within", "within", "around", "inside", "touch", "apart">>
ModeTouch == <<"touchout", "touchout", "touchout", "touchin", "touchin", "touchin", "touch", "apart", "same">>
MutMild == <<"none", "none", "none", "none", "none", "none", "none", "dupnode", "spike", "tripseg", "drop", "extra", "dupring">>
ModeTile == <<"within", "touchin", "inside">>
AllRolePats == (0..3) \X (0..3)
TwoRolePats == {<<0, 0>>, <<1, 1>>}
ModeDeep == <<"chain", "chain", "chain", "chain", "chain", "chain", "chain", "within", "apart">>
ModeChain == <<"chain">>
ModeAny == <<"any">>
ModeWithin == <<"within">>
ModeSame == <<"same">>
ModeIsle == <<"isle">>
ModeAll == <<"any", "within", "inside", "around", "apart", "touch", "touchout", "touchin", "same">>
MutThmQ == <<"none", "drop", "dupring">>

(* ------------------------------------------------------------------ tiled cases *)
(* A motif S can be repeated along x with period G when it is a valid arrangement, no segment lies on the left or
   right border and some border point (G, y) of it meets a border point (0, y): the copies then have only such points
   in common, all degrees stay even, nothing crosses, and the even-odd fill of the chain is the fill of the motif in
   every copy.  NTouch(S, n) is the number of touching points (degree >= 4) of a chain of n copies. *)
ShiftSeg(s, d) == << <<s[1][1] + d, s[1][2]>>, <<s[2][1] + d, s[2][2]>> >>
Chain(S, n) == UNION {{ShiftSeg(s, k * G) : s \in S} : k \in 0..(n - 1)}
OnBorder(s) == s[1][1] = s[2][1] /\ s[1][1] \in {0, G}
JoinPts(S) == {y \in 0..G : Deg(S, <<G, y>>) > 0 /\ Deg(S, <<0, y>>) > 0}
TileOK(S) == ValidArrangement(S) /\ (\A s \in S : ~OnBorder(s)) /\ JoinPts(S) # {}
TIn(S) == Cardinality({p \in TouchPoints(S) : 0 < p[1] /\ p[1] < G})
TJoin(S) == Cardinality({y \in 0..G : Deg(S, <<G, y>>) + Deg(S, <<0, y>>) >= 4})
TEnds(S) == Cardinality({p \in TouchPoints(S) : p[1] = 0 \/ p[1] = G})
NTouch(S, n) == n * TIn(S) + (n - 1) * TJoin(S) + TEnds(S)
NMax(S) == (100 - TEnds(S) + TJoin(S)) \div (TIn(S) + TJoin(S))       \* longest chain with <= 100 touching points
TileNs(S) == {n \in {2, 3, 8, 20, 21, 22, 40, NMax(S) - 1, NMax(S)} : n >= 2 /\ n <= NMax(S)}

(* ------------------------------------------------------------------ export *)
ExportRec == [G |-> G, rings |-> rings, mut |-> mut, style |-> style, nd |-> nd,
              segs |-> BagSegments(bag), ways |-> ways, roles |-> roles, exp |-> exp]
Export == stage = "done" =>
            IF Tiles
            THEN LET S == BagSegments(bag)
                 IN TileOK(S) => PrintT(<<"CASE", ToJson(ExportRec @@ [tiles |-> {[n |-> n, dx |-> G, ntouch |-> NTouch(S, n)] : n \in TileNs(S)}])>>)
            ELSE PrintT(<<"CASE", ToJson(ExportRec)>>)

(* ------------------------------------------------------------------ design-check invariants *)
WaysWellFormed == \A w \in 1..Len(ways) : /\ Len(ways[w]) >= 2
                                          /\ \A k \in 1..Len(ways[w]) : ways[w][k] \in GridPts
(* the drawing uses every segment of the bag exactly once: at the end the ways carry the same segments mod 2,
   and while drawing ways + current way + remainder always add up to the bag *)
OccBag(ws) == {OccSeg(ws, o) : o \in WayOcc(ws)}
SegBagConserved ==
   /\ stage \in {"roles", "done"} => Segments(ways) = BagSegments(bag)
   /\ stage = "draw" =>
        LET ws == IF cur = <<>> THEN ways ELSE Append(ways, cur)
        IN \A s \in OccBag(ws) \cup {bag[i] : i \in rem} :
             Cardinality({o \in WayOcc(ws) : OccSeg(ws, o) = s}) + Cardinality({i \in rem : bag[i] = s})
               = Cardinality({i \in 1..Len(bag) : bag[i] = s})
VerdictIsOfTheWays == stage = "done" => exp = Expected(Segments(ways))

XorSets(a, b) == (a \ b) \cup (b \ a)
RECURSIVE XorAll(_)
XorAll(ss) == IF ss = <<>> THEN {} ELSE XorSets(Head(ss), XorAll(Tail(ss)))
AtBag == Theorems /\ stage = "style" /\ nd = 0
RayIndependent == AtBag => LET S == BagSegments(bag)
                           IN OddPoints(S) = {} => FillX(S, AllSamples) = FillY(S, AllSamples)
FillIsXor == AtBag /\ mut = "none" =>
               FillY(BagSegments(bag), AllSamples) = XorAll([k \in 1..Len(rings) |-> RingFillY(rings[k], AllSamples)])
CancelSound == AtBag => FillY(BagSegments(bag), AllSamples)
                          = {I \in AllSamples : Cardinality({i \in 1..Len(bag) : HitsY(bag[i], SP(I))}) % 2 = 1}
(* the tiling argument, checked on chains of 2 and 3 copies (coordinates up to 3G) *)
TileTheorem == AtBag /\ TileOK(BagSegments(bag)) =>
                 LET S == BagSegments(bag)
                 IN \A n \in {2, 3} :
                      LET C == Chain(S, n)
                      IN /\ ValidArrangement(C)
                         /\ Cardinality(C) = n * Cardinality(S)
                         /\ Cardinality(TouchPoints(C)) = NTouch(S, n)
                         /\ \A k \in 0..(n - 1) : {<<I[1] - 2 * k * G, I[2]>> : I \in FillY(C, SampleIdx(k * G, (k + 1) * G))} = FillY(S, AllSamples)
(* every catalogue polygon is a valid arrangement by itself *)
CatalogueValid == Theorems /\ stage = "kind" /\ Len(rings) = 1 => ValidArrangement(BagSegments(ShapeSegs(rings[1])))

(* Reference answer for rings that have no point in common: the rings themselves, outer iff an even number of
   other rings is around them, attached to the smallest ring around them, oriented as required. *)
VertexDisjoint == \A a \in 1..Len(rings), b \in 1..Len(rings) :
                     a < b => {rings[a][k] : k \in 1..Len(rings[a])} \cap {rings[b][k] : k \in 1..Len(rings[b])} = {}
RevSeq(s) == [k \in 1..Len(s) |-> s[Len(s) + 1 - k]]
Orient(pts, ccw) == IF (Area2(pts) > 0) = ccw THEN pts ELSE RevSeq(pts)
RefRun(spoil) ==
   LET n == Len(rings)
       f == [k \in 1..n |-> RingFillY(rings[k], AllSamples)]
       around(k) == {j \in 1..n : j # k /\ f[k] \subseteq f[j]}
       isOuter(k) == Cardinality(around(k)) % 2 = 0
       parent(k) == CHOOSE j \in around(k) : \A j2 \in around(k) : f[j] \subseteq f[j2]
       outs == {k \in 1..n : isOuter(k)}
       oseq == CHOOSE q \in [1..Cardinality(outs) -> outs] : \A a, b \in 1..Cardinality(outs) : a # b => q[a] # q[b]
       innOf(o) == {k \in 1..n : ~isOuter(k) /\ parent(k) = o}
       iseq(o) == CHOOSE q \in [1..Cardinality(innOf(o)) -> innOf(o)] : \A a, b \in 1..Cardinality(innOf(o)) : a # b => q[a] # q[b]
       rs == [a \in 1..Cardinality(outs) |->
                [pts |-> Orient(rings[oseq[a]], spoil # "orient"),
                 inn |-> [m \in 1..Cardinality(innOf(oseq[a])) |-> Orient(rings[iseq(oseq[a])[m]], FALSE)]]]
       rs2 == IF spoil = "drop" THEN Tail(rs) ELSE rs
       nin == Cardinality({k \in 1..n : ~isOuter(k)})
   IN [rings |-> rs2,
       run |-> [entry |-> "rel", mgr |-> FALSE, pr |-> FALSE, ne |-> FALSE, ret |-> TRUE, area |-> TRUE,
                st |-> [outer_rings |-> Len(rs2), inner_rings |-> IF spoil = "drop" THEN SumF([a \in 1..Len(rs2) |-> Len(rs2[a].inn)], Len(rs2)) ELSE nin,
                        touching_rings |-> 0, intersections |-> 0, open_rings |-> 0, wrong_role |-> 0],
                rep |-> [touching_ring |-> 0, intersection |-> 0, ring_not_closed |-> 0, role_should_be_outer |-> 0, role_should_be_inner |-> 0]]]
RefCase == Theorems /\ stage = "style" /\ nd = 0 /\ mut = "none" /\ exp.valid /\ VertexDisjoint
RefWays == rings
RefRoles == [k \in 1..Len(rings) |-> ""]
RefJudge(spoil) == LET rr == RefRun(spoil) IN Judge(RefWays, RefRoles, exp, rr.rings, <<rr.run>>, AllSamples)
JudgeAcceptsReference == RefCase => RefJudge("none") = {}
JudgeRejectsSpoiled == RefCase => /\ "orient" \in RefJudge("orient")
                                  /\ LET j == RefJudge("drop") IN "region" \in j \/ "not_assembled" \in j
=============================================================================
