SPECIFICATION FairSpec
CONSTANTS
  Configs <- TheConfigs
  Ns = {0, 1}
  NestSets <- NestLive
  Bounds <- BoundsLive
  Pools = {FALSE, TRUE}
  Fds = {FALSE, TRUE}
  ScriptLen = 1
  LongScripts = TRUE
  FdStop = TRUE
  SkipAll = FALSE
PROPERTY Termination
