SPECIFICATION Spec
CONSTANTS
  Strings <- StringsAll
  Others <- OthersFew
  MaxOps = 1
  ExportHist = TRUE
INVARIANTS TypeOK Refines TextLaw ParseFn Bounded Export
