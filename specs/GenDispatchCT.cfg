\* C20, thorough.  Deadlock checking stays on: every behaviour must reach phase "done".
SPECIFICATION Spec
CONSTANTS
  Alphabet <- AlphaSmall
  MaxLen = 3
  HandlerLists <- ChunkLists
  Containers <- ContInput
  MaxChunks = 3
INVARIANTS TypeOK Refines NoThrow Export
