SPECIFICATION Spec
CONSTANTS
  W = 2
  Ids = {1, 3, 4, 7}
  MIds = {3, 4}
  ProbeIds = {2, 5}
  MaxOps = 3
  ExportHist = FALSE
INVARIANT Refines
CHECK_DEADLOCK FALSE
