SPECIFICATION Spec
CONSTANTS
  Mode = "out"
  Alphabet = {}
  MaxLen = 0
  Level = 0
  FixMin = FALSE
  DoExport = FALSE
INVARIANTS NoOverflow BufferOK OutIimpliesA OutRoundTrip Export
CHECK_DEADLOCK FALSE
