---------------------------- MODULE FileSpec ----------------------------
(* C01 extension (1/4): osmium::io::File - what sits upstream of the option vector of RoundTrip.tla: the meaning of
   a (file name, format string) pair.

   A file name is the sequence of its '.'-separated tokens, a format string the sequence of its ','-separated parts;
   a part is a format part [t |-> "fmt", sfx |-> tokens] ("osm.pbf") or an option part [t |-> "opt", k, eq, v]
   ("add_metadata=version+timestamp", values are '+'-separated token sequences).  See FileSpecCommon.tla.

   A-layer (AMeaning): the documented scheme.  The suffixes of a name (everything after the stem) resp. the format part
   of the format string are read as  [TYPE.][FORMAT.][COMPRESSION]  with TYPE in osm/osh/osc, FORMAT in
   pbf/xml/opl/json/o5m/o5c/debug/blackhole/ids, COMPRESSION in gz/bz2: the LONGEST tail of that form counts.  A non-empty
   format string replaces the suffix detection altogether.  http:/https: names default to XML.  osh, osc and o5c mean
   "multiple object versions", osc and o5c additionally set xml_change_format / o5c_change_format.  Options are a map,
   a later part overrides an earlier one and the suffix's; history=true/false overrides the flag.  "-" and "" are
   stdin/stdout.  check() fails (osmium::io_error) iff the format is unknown.
   The result is the record [filename, format, compression, history, options]; WView derives from it the option
   vector of RoundTrip.tla the way the output formats read it.

   I-layer: File as written - one action per constructor section / parser block / loop iteration:
     Choose        the caller picks the constructor and its arguments
     Ctor          File::File: "-", URL protocol (substr up to the first ':'), choice between suffix and format string
     Parse         parse_format: split at ',', first item without '=' is handed to detect_format_from_suffix
     DComp/DFmt/DType   the three if-blocks of detect_format_from_suffix, working on the suffix vector from the back
     Opt           one iteration of the option loop of parse_format
     Hist          the trailing get("history") of parse_format
     Constructed   the constructor returns
     Setter        set_format / set_compression / set_has_multiple_object_versions / filename / Options::set (3 overloads)
     Check         File::check

   Named deviations (I differs from A; TLC checks I => A on the domain ADom only, the replay binds the I-layer
   everywhere, so that the real class is compared on these inputs too):
     N1  the stem itself is read as a suffix: a file called "pbf" or "osm.gz" is detected as PBF / gzipped XML.
     N2  a trailing '.' is ignored ("x.osm." is XML), other empty tokens are ordinary unknown tokens.
     N3  a name that is exactly "http" or "https" counts as a URL.
     F1  unknown tokens in front of a known tail of the format part are ignored ("foo.pbf" is PBF).
     F2  an empty part at the end of the format string is dropped, an empty part elsewhere sets the option "" = true. *)
EXTENDS FileSpecCommon, Json

CONSTANTS Ctors,        \* subset of {"name", "buffer"}: File(filename, format) / File(buffer, size, format)
          NameTokens, MaxName, FixedNames,    \* names: FixedNames, or if that is {} every token sequence up to MaxName
          FmtTokens, MaxFmt,                  \* format parts: every token sequence up to MaxFmt (-1: no format part)
          Heads,                              \* further choices for the first part: format parts given explicitly, option parts with '=' 
          OptParts, MaxOpts,                  \* further parts
          AllowNoFs,                          \* the empty format string is among the choices
          Setters, MaxSetters,
          ExportHist

VARIABLES pc, arg,
          fname, fmt, comp, multi, opts,      \* m_filename m_file_format m_file_compression m_has_multiple_object_versions Options
          sfx, ret, optq,                     \* locals: suffix vector, where detect_format_from_suffix returns to, options still to do
          nset, verdict,
          abs,                                \* A-layer
          steps, hist
vars == <<pc, arg, fname, fmt, comp, multi, opts, sfx, ret, optq, nset, verdict, abs, steps, hist>>

TypeTok == {"osm", "osh", "osc"}
FormatTok == {"pbf", "xml", "opl", "json", "o5m", "o5c", "debug", "blackhole", "ids"}
CompTok == {"gz", "bz2"}
Keywords == TypeTok \cup FormatTok \cup CompTok
Formats == {"unknown", "xml", "pbf", "opl", "json", "o5m", "debug", "blackhole", "ids"}
Comps == {"none", "gzip", "bzip2"}
None == "_"

\* the text before the first ':' of the tokens that contain one ("-": the token has no ':')
SchemeOf(t) == CASE t = "http://h/api" -> "http" [] t = "https://h/x" -> "https" [] t = "ftp://h/c" -> "ftp" [] t = "http:x" -> "http"
                 [] OTHER -> "-"

\* ---- format strings
PartEmpty(p) == IF p.t = "fmt" THEN IsEmptyStr(p.sfx) ELSE (p.k = "" /\ ~p.eq)
FsEmpty(fs) == fs = <<>> \/ (Len(fs) = 1 /\ PartEmpty(fs[1]))
HasEq(p) == p.t = "opt" /\ p.eq
\* detail::split(format, ','): like GetlineSplit, an item is empty when its text is
SplitComma(fs) == IF fs = <<>> THEN <<>> ELSE IF PartEmpty(Last(fs)) THEN Front(fs) ELSE fs
KeyOnly(k) == [t |-> "opt", k |-> k, eq |-> FALSE, v |-> <<>>]
KV(k, v) == [t |-> "opt", k |-> k, eq |-> TRUE, v |-> v]
Fmt(s) == [t |-> "fmt", sfx |-> s]

(***************************************************************************)
(* A-layer                                                                 *)
(***************************************************************************)
ShapeSeqs == {SelectSeq(<<t, f, c>>, LAMBDA x : x # None) : t \in TypeTok \cup {None}, f \in FormatTok \cup {None}, c \in CompTok \cup {None}}
Tails(s) == {SubSeq(s, Len(s) - k + 1, Len(s)) : k \in 0..(IF Len(s) < 3 THEN Len(s) ELSE 3)}
LongestShapeTail(s) == LET M == Tails(s) \cap ShapeSeqs IN CHOOSE t \in M : \A o \in M : Len(o) <= Len(t)
Pick(t, S) == IF Range(t) \cap S = {} THEN None ELSE CHOOSE x \in Range(t) \cap S : TRUE

IsUrlA(n) == n # <<>> /\ SchemeOf(n[1]) \in {"http", "https"}

AOptions(sopts, parts) ==
    LET keys == DOMAIN sopts \cup {parts[i].k : i \in 1..Len(parts)} IN
    [k \in keys |-> LET I == {i \in 1..Len(parts) : parts[i].k = k} IN
                    IF I = {} THEN sopts[k] ELSE LET p == parts[MaxOf(I)] IN IF p.eq THEN p.v ELSE VTrue]

ADom(c, n, fs) ==
    LET usefs == ~FsEmpty(fs) IN
    /\ c = "name" => /\ ~(Len(n) = 1 /\ n[1] \in {"http", "https"})                                          \* N3
                     /\ (usefs \/ IsEmptyStr(n) \/ (n[1] \notin Keywords /\ "" \notin Range(n)))               \* N1 N2
    /\ usefs => /\ fs[1].t = "fmt" => /\ "" \notin Range(fs[1].sfx)
                                      /\ (fs[1].sfx = <<>> \/ fs[1].sfx \in ShapeSeqs \/ Last(fs[1].sfx) \notin Keywords)   \* F1
                /\ \A i \in 1..Len(fs) : fs[i].t = "opt" => fs[i].k # ""                                      \* F2

AMeaning(c, n, fs) ==
    LET usefs == ~FsEmpty(fs)
        hasfmt == usefs /\ fs[1].t = "fmt"
        stdio == c = "buffer" \/ IsEmptyStr(n) \/ n = <<"-">>
        sl == IF usefs THEN (IF hasfmt THEN fs[1].sfx ELSE <<>>) ELSE IF stdio THEN <<>> ELSE Tail(n)
        tl == LongestShapeTail(sl)
        ty == Pick(tl, TypeTok)
        fm == Pick(tl, FormatTok)
        co == Pick(tl, CompTok)
        dflt == IF c = "name" /\ IsUrlA(n) THEN "xml" ELSE "unknown"
        sopts == [k \in (IF ty = "osc" THEN {"xml_change_format"} ELSE {}) \cup (IF fm = "o5c" THEN {"o5c_change_format"} ELSE {}) |-> VTrue]
        oparts == IF ~usefs THEN <<>> ELSE IF hasfmt THEN Tail(fs) ELSE fs
        o == AOptions(sopts, oparts)
        h == ty \in {"osh", "osc"} \/ fm = "o5c"
    IN [dom |-> ADom(c, n, fs),
        filename |-> IF c = "buffer" \/ n = <<"-">> THEN <<>> ELSE n,
        format |-> IF fm # None THEN (IF fm = "o5c" THEN "o5m" ELSE fm) ELSE IF ty # None THEN "xml" ELSE dflt,
        compression |-> IF co = "gz" THEN "gzip" ELSE IF co = "bz2" THEN "bzip2" ELSE "none",
        history |-> IF usefs /\ OGet(o, "history") = VTrue THEN TRUE ELSE IF usefs /\ OGet(o, "history") = VFalse THEN FALSE ELSE h,
        options |-> o,
        withfs |-> usefs]

\* the record after a setter call
ASet(a, s) == CASE s.op = "set_format" -> [a EXCEPT !.format = s.f]
                [] s.op = "set_compression" -> [a EXCEPT !.compression = s.f]
                [] s.op = "set_multi" -> [a EXCEPT !.history = s.b]
                [] s.op = "filename" -> [a EXCEPT !.filename = IF s.n = <<"-">> THEN <<>> ELSE s.n]
                [] s.op = "set" -> [a EXCEPT !.options = OSet(@, s.k, s.v)]
                [] s.op = "set_bool" -> [a EXCEPT !.options = OSet(@, s.k, IF s.b THEN VTrue ELSE VFalse)]
                [] s.op = "set_data" -> [a EXCEPT !.options = OSetData(@, s.p)]

\* the option vector of RoundTrip.tla as the output formats derive it (blob compression is not File's business)
WView(f, c, m, o) == [fmt |-> IF f = "xml" /\ OIsTrue(o, "xml_change_format") THEN "xmlchange" ELSE f,
                      dense |-> OIsNotFalse(o, "pbf_dense_nodes"),
                      low |-> OIsTrue(o, "locations_on_ways"),
                      md |-> MdMeaning(OGet(o, "add_metadata")),
                      hist |-> m, fcomp |-> c]

(***************************************************************************)
(* I-layer                                                                 *)
(***************************************************************************)
NoArg == [ctor |-> "none"]
NoVerdict == [ok |-> "none"]
NoAbs == [dom |-> FALSE]

\* File::File: protocol = m_filename.substr(0, m_filename.find_first_of(':')), the whole name when there is no ':'
IsUrlI(n) == IF n = <<>> THEN FALSE
             ELSE LET C == {i \in 1..Len(n) : SchemeOf(n[i]) # "-"} IN
                  IF C = {} THEN Len(n) = 1 /\ n[1] \in {"http", "https"}
                  ELSE MinOf(C) = 1 /\ SchemeOf(n[1]) \in {"http", "https"}     \* a prefix that spans a '.' is neither

Obs == [filename |-> fname, format |-> fmt, compression |-> comp, multi |-> multi, opts |-> opts,
        probes |-> OProbes(opts, {"zz"}), view |-> WView(fmt, comp, multi, opts)]
Rec(a, x, e) == /\ steps' = steps + 1
                /\ hist' = IF ExportHist THEN Append(hist, [a |-> a, x |-> x, exp |-> e]) ELSE hist
Quiet == steps' = steps + 1 /\ hist' = hist

NameChoices == IF FixedNames # {} THEN FixedNames ELSE UNION {[1..l -> NameTokens] : l \in 0..MaxName}
HeadChoices == {Fmt(s) : s \in UNION {[1..l -> FmtTokens] : l \in 0..MaxFmt}} \cup Heads

Choose == /\ pc = "init"
          /\ \E c \in Ctors, n \in NameChoices :
             \/ /\ AllowNoFs
                /\ arg' = [ctor |-> c, name |-> (IF c = "buffer" THEN <<>> ELSE n), fs |-> <<>>]
                /\ abs' = AMeaning(c, arg'.name, <<>>)
             \/ \E h \in HeadChoices, lo \in 0..MaxOpts : \E ops \in [1..lo -> OptParts] :
                /\ arg' = [ctor |-> c, name |-> (IF c = "buffer" THEN <<>> ELSE n), fs |-> <<h>> \o ops]
                /\ abs' = AMeaning(c, arg'.name, arg'.fs)
          /\ pc' = "ctor"
          /\ UNCHANGED <<fname, fmt, comp, multi, opts, sfx, ret, optq, nset, verdict>> /\ Quiet

Ctor == /\ pc = "ctor"
        /\ IF arg.ctor = "name"
           THEN /\ fname' = IF arg.name = <<"-">> THEN <<>> ELSE arg.name
                /\ fmt' = IF IsUrlI(fname') THEN "xml" ELSE "unknown"
                /\ IF FsEmpty(arg.fs)
                   THEN sfx' = GetlineSplit(fname') /\ ret' = "constructed" /\ pc' = "dcomp"
                   ELSE pc' = "parse" /\ UNCHANGED <<sfx, ret>>
           ELSE /\ UNCHANGED <<fname, fmt, sfx, ret>>
                /\ pc' = IF FsEmpty(arg.fs) THEN "constructed" ELSE "parse"
        /\ UNCHANGED <<arg, comp, multi, opts, optq, nset, verdict, abs>> /\ Quiet

\* parse_format
Parse == /\ pc = "parse"
         /\ LET items == SplitComma(arg.fs) IN
            IF items # <<>> /\ ~HasEq(items[1])
            THEN /\ sfx' = GetlineSplit(IF items[1].t = "fmt" THEN items[1].sfx ELSE <<items[1].k>>)
                 /\ optq' = Tail(items) /\ ret' = "opts" /\ pc' = "dcomp"
            ELSE optq' = items /\ pc' = "opts" /\ UNCHANGED <<sfx, ret>>
         /\ UNCHANGED <<arg, fname, fmt, comp, multi, opts, nset, verdict, abs>> /\ Quiet

\* detect_format_from_suffix, block 1: compression
DComp == /\ pc = "dcomp"
         /\ IF sfx = <<>> THEN pc' = ret /\ UNCHANGED <<comp, sfx>>
            ELSE /\ pc' = "dfmt"
                 /\ CASE Last(sfx) = "gz" -> comp' = "gzip" /\ sfx' = Front(sfx)
                      [] Last(sfx) = "bz2" -> comp' = "bzip2" /\ sfx' = Front(sfx)
                      [] OTHER -> UNCHANGED <<comp, sfx>>
         /\ UNCHANGED <<arg, fname, fmt, multi, opts, ret, optq, nset, verdict, abs>> /\ Quiet

\* block 2: format
DFmt == /\ pc = "dfmt"
        /\ IF sfx = <<>> THEN pc' = ret /\ UNCHANGED <<fmt, multi, opts, sfx>>
           ELSE /\ pc' = "dtype"
                /\ CASE Last(sfx) \in {"pbf", "xml", "opl", "json", "o5m", "debug", "blackhole", "ids"} ->
                            fmt' = Last(sfx) /\ sfx' = Front(sfx) /\ UNCHANGED <<multi, opts>>
                     [] Last(sfx) = "o5c" -> /\ fmt' = "o5m" /\ multi' = TRUE /\ opts' = OSet(opts, "o5c_change_format", VTrue)
                                             /\ sfx' = Front(sfx)
                     [] OTHER -> UNCHANGED <<fmt, multi, opts, sfx>>
        /\ UNCHANGED <<arg, fname, comp, ret, optq, nset, verdict, abs>> /\ Quiet

\* block 3: type
DType == /\ pc = "dtype"
         /\ pc' = ret
         /\ IF sfx = <<>> THEN UNCHANGED <<fmt, multi, opts, sfx>>
            ELSE CASE Last(sfx) = "osm" -> /\ fmt' = IF fmt = "unknown" THEN "xml" ELSE fmt
                                           /\ sfx' = Front(sfx) /\ UNCHANGED <<multi, opts>>
                   [] Last(sfx) = "osh" -> /\ fmt' = IF fmt = "unknown" THEN "xml" ELSE fmt
                                           /\ multi' = TRUE /\ sfx' = Front(sfx) /\ UNCHANGED opts
                   [] Last(sfx) = "osc" -> /\ fmt' = IF fmt = "unknown" THEN "xml" ELSE fmt
                                           /\ multi' = TRUE /\ opts' = OSet(opts, "xml_change_format", VTrue) /\ sfx' = Front(sfx)
                   [] OTHER -> UNCHANGED <<fmt, multi, opts, sfx>>
         /\ UNCHANGED <<arg, fname, comp, ret, optq, nset, verdict, abs>> /\ Quiet

\* one iteration of `for (auto& option : options)`
Opt == /\ pc = "opts" /\ optq # <<>>
       /\ LET p == Head(optq) IN
          opts' = IF HasEq(p) THEN OSet(opts, p.k, p.v) ELSE OSet(opts, p.k, VTrue)
       /\ optq' = Tail(optq)
       /\ UNCHANGED <<pc, arg, fname, fmt, comp, multi, sfx, ret, nset, verdict, abs>> /\ Quiet

Hist == /\ pc = "opts" /\ optq = <<>>
        /\ multi' = IF OGet(opts, "history") = VTrue THEN TRUE ELSE IF OGet(opts, "history") = VFalse THEN FALSE ELSE multi
        /\ pc' = "constructed"
        /\ UNCHANGED <<arg, fname, fmt, comp, opts, sfx, ret, optq, nset, verdict, abs>> /\ Quiet

Constructed == /\ pc = "constructed" /\ pc' = "ready"
               /\ UNCHANGED <<arg, fname, fmt, comp, multi, opts, sfx, ret, optq, nset, verdict, abs>>
               /\ Rec("construct", <<>>, Obs)

Setter == /\ pc = "ready" /\ nset < MaxSetters
          /\ \E s \in Setters :
             /\ CASE s.op = "set_format" -> fmt' = s.f /\ UNCHANGED <<comp, multi, fname, opts>>
                  [] s.op = "set_compression" -> comp' = s.f /\ UNCHANGED <<fmt, multi, fname, opts>>
                  [] s.op = "set_multi" -> multi' = s.b /\ UNCHANGED <<fmt, comp, fname, opts>>
                  [] s.op = "filename" -> fname' = (IF s.n = <<"-">> THEN <<>> ELSE s.n) /\ UNCHANGED <<fmt, comp, multi, opts>>
                  [] s.op = "set" -> opts' = OSet(opts, s.k, s.v) /\ UNCHANGED <<fmt, comp, multi, fname>>
                  [] s.op = "set_bool" -> opts' = OSet(opts, s.k, IF s.b THEN VTrue ELSE VFalse) /\ UNCHANGED <<fmt, comp, multi, fname>>
                  [] s.op = "set_data" -> opts' = OSetData(opts, s.p) /\ UNCHANGED <<fmt, comp, multi, fname>>
             /\ abs' = ASet(abs, s)
             /\ nset' = nset + 1
             /\ UNCHANGED <<pc, arg, sfx, ret, optq, verdict>>
             /\ Rec("setter", s, Obs')

\* File::check: "Could not detect file format [from format string '...'] (for stdin/stdout | for filename '...')."
Check == /\ pc = "ready"
         /\ verdict' = [ok |-> fmt # "unknown", withfs |-> ~FsEmpty(arg.fs), stdio |-> IsEmptyStr(fname)]
         /\ pc' = "done"
         /\ UNCHANGED <<arg, fname, fmt, comp, multi, opts, sfx, ret, optq, nset, abs>>
         /\ Rec("check", <<>>, verdict')

Done == pc = "done" /\ UNCHANGED vars

Init == /\ pc = "init" /\ arg = NoArg /\ fname = <<>> /\ fmt = "unknown" /\ comp = "none" /\ multi = FALSE /\ opts = EmptyOpts
        /\ sfx = <<>> /\ ret = "" /\ optq = <<>> /\ nset = 0 /\ verdict = NoVerdict /\ abs = NoAbs /\ steps = 0 /\ hist = <<>>
Next == Choose \/ Ctor \/ Parse \/ DComp \/ DFmt \/ DType \/ Opt \/ Hist \/ Constructed \/ Setter \/ Check \/ Done
Spec == Init /\ [][Next]_vars

(***************************************************************************)
(* what TLC checks                                                         *)
(***************************************************************************)
TypeOK == /\ fmt \in Formats /\ comp \in Comps /\ multi \in BOOLEAN
          /\ pc \in {"init", "ctor", "parse", "dcomp", "dfmt", "dtype", "opts", "constructed", "ready", "done"}

\* I => A on the domain: once the constructor has returned the members are what the documented scheme says
Agrees == (pc \in {"ready", "done"} /\ abs.dom) =>
              /\ fname = abs.filename /\ fmt = abs.format /\ comp = abs.compression /\ multi = abs.history /\ opts = abs.options
              /\ WView(fmt, comp, multi, opts) = WView(abs.format, abs.compression, abs.history, abs.options)
CheckAgrees == (pc = "done" /\ abs.dom) => /\ verdict.ok = (abs.format # "unknown")
                                           /\ verdict.withfs = abs.withfs
                                           /\ verdict.stdio = IsEmptyStr(abs.filename)
\* outside the domain the parser still ends: every behaviour reaches "done" (deadlock check on, Done stutters) within a bound
Bounded == steps <= 12 + MaxOpts + MaxSetters
\* the parser consumed what it was given
Consumed == pc \in {"ready", "done"} => optq = <<>>
\* the deviations are real: used as vacuity guards (each of these must be VIOLATED in the configuration that contains such inputs)
NoDeviation == (pc = "done") => (fmt = abs.format /\ comp = abs.compression /\ multi = abs.history /\ opts = abs.options)

Export == pc = "done" => PrintT(<<"CASE", ToJson([ctor |-> arg.ctor, name |-> arg.name, fs |-> arg.fs, dom |-> abs.dom, steps |-> hist])>>)

\* ---- constants of the configurations
TokQ == {"test", "http://h/api", "osm", "osh", "osc", "pbf", "opl", "o5c", "gz", "bz2", "foo", ""}
TokT == TokQ \cup {"xml", "json", "o5m", "debug", "blackhole", "ids", "-", "http", "https://h/x", "ftp://h/c", "http:x", "https"}
TokM == TokQ \cup {"xml", "-", "http"}                   \* export, thorough
FTokQ == {"osm", "osc", "pbf", "o5c", "gz", "foo", ""}
FTokT == Keywords \cup {"foo", ""}
NamesForFs == {<<>>, <<"test">>, <<"test", "osh", "pbf", "gz">>, <<"http://h/api">>, <<"-">>, <<"http">>}
NamesForFsFew == {<<>>, <<"test", "osh", "pbf", "gz">>, <<"http://h/api">>, <<"https://h/x">>, <<"-">>}
OptsOne == {KV("history", VFalse)}
OptsTwo == {KV("history", VFalse), KV("xml_change_format", VFalse), KeyOnly("")}
NamesForFsMid == {<<>>, <<"test", "osh", "pbf", "gz">>, <<"http://h/api">>, <<"https://h/x">>, <<"http">>, <<"-">>}
OptsEight == {KV("history", VTrue), KV("history", VFalse), KV("pbf_dense_nodes", <<"no">>), KV("xml_change_format", VFalse),
              KV("add_metadata", <<"version", "timestamp">>), KV("foo", <<"a=b">>), KeyOnly("history"), KeyOnly("")}
NamesForOpts == {<<"test", "osm">>, <<"http://h/api", "osc">>}
OptsFew == {KV("history", VTrue), KV("history", VFalse), KeyOnly("history"), KV("xml_change_format", VFalse), KeyOnly("")}
MdVals == {<<"all">>, <<"none">>, <<"version", "timestamp">>, <<"version", "", "user">>, <<"uid", "foo">>, <<"">>, <<"yes">>, <<"no">>}
OptsRich == {KV("history", VTrue), KV("history", VFalse), KV("history", <<"yes">>), KeyOnly("history"),
             KV("pbf_dense_nodes", VFalse), KV("pbf_dense_nodes", <<"no">>), KeyOnly("pbf_dense_nodes"),
             KV("locations_on_ways", VTrue), KV("locations_on_ways", <<"yes">>), KV("locations_on_ways", <<"1">>),
             KV("xml_change_format", VTrue), KV("xml_change_format", VFalse), KV("o5c_change_format", VFalse),
             KV("foo", <<"a=b">>), KeyOnly("pbf"), KeyOnly("")}
             \cup {KV("add_metadata", v) : v \in MdVals}
OptsMid == {KV("history", VTrue), KV("history", VFalse), KV("pbf_dense_nodes", <<"no">>), KV("locations_on_ways", <<"yes">>),
            KV("xml_change_format", VFalse), KV("add_metadata", <<"version", "timestamp">>), KV("add_metadata", <<"uid", "foo">>),
            KV("add_metadata", <<"none">>), KV("foo", <<"a=b">>), KeyOnly("history"), KeyOnly("pbf"), KeyOnly("")}
HeadsForOpts == {Fmt(<<"pbf">>), Fmt(<<"osc">>), Fmt(<<"osh", "o5c", "bz2">>), Fmt(<<"foo">>), Fmt(<<>>)}
HeadEq == {KV("history", VTrue), KV("bla", <<"foo">>)}
HeadsAndEq == HeadsForOpts \cup HeadEq
SettersAll == {[op |-> "set_format", f |-> "pbf"], [op |-> "set_format", f |-> "unknown"], [op |-> "set_compression", f |-> "bzip2"],
               [op |-> "set_compression", f |-> "none"], [op |-> "set_multi", b |-> TRUE], [op |-> "set_multi", b |-> FALSE],
               [op |-> "filename", n |-> <<"-">>], [op |-> "filename", n |-> <<"x", "osm", "gz">>], [op |-> "filename", n |-> <<>>],
               [op |-> "set", k |-> "add_metadata", v |-> <<"version", "uid">>], [op |-> "set", k |-> "history", v |-> VTrue],
               [op |-> "set_bool", k |-> "pbf_dense_nodes", b |-> FALSE], [op |-> "set_bool", k |-> "locations_on_ways", b |-> TRUE],
               [op |-> "set_data", p |-> KV("xml_change_format", <<"yes">>)], [op |-> "set_data", p |-> KV("k", <<"a=b">>)],
               [op |-> "set_data", p |-> KeyOnly("force_visible_flag")]}
NamesForSet == {<<"-">>, <<"test", "osc", "gz">>, <<"http://h/api">>}
HeadsForSet == {Fmt(<<"osh", "pbf">>), Fmt(<<"foo">>)}
NoneSet == {}
NoFmt == -1
BothCtors == {"name", "buffer"}
NameCtor == {"name"}
=============================================================================
