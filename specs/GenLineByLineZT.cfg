SPECIFICATION Spec
CONSTANTS
  Alphabet = {"n", "r", "x", "b", "z"}
  L = 5
  RestSkipsNul = TRUE
  MaxCuts = 99
  FixedSizes = {}
  ExportHist = TRUE
INVARIANTS WindowInv ResultInv Export
