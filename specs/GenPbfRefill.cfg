SPECIFICATION Spec
CONSTANTS
  SizeLen = 4
  MaxFrames = 3
  HdrLens = {1, 2}
  BlobLens = {1, 2}
  Shapes <- GenShapesQ
  MaxCuts = 2
  FixedSizes = {1, 2, 3, 5, 7}
  ExportHist = TRUE
INVARIANTS WindowInv ResultInv Export
