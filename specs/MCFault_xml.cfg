SPECIFICATION Spec
CONSTANTS
  Fmt = "xml"
  MaxFaults = 1
  WithTrunc = TRUE
  TruncAfterFault = TRUE
  ExportHist = FALSE
INVARIANTS TypeOK Applicable DistinctPositions TruncOK
CHECK_DEADLOCK FALSE
