SPECIFICATION FairSpec
CONSTANTS
  Threads <- P3Threads
  Kind <- P3Kind
  Script <- P3Script
  Max = 2
  Throwing <- NoThrow
PROPERTY Termination
CHECK_DEADLOCK FALSE
