------------------------------ MODULE TagRules ------------------------------
(* C20 (3/3, extension).  Rule-list filters over tags: which tags "get through".
   osmium::tags::Filter<> (KeyFilter, KeyValueFilter, KeyPrefixFilter; tags/filter.hpp), osmium::TagsFilter =
   TagsFilterBase<bool> (tags/tags_filter.hpp), osmium::TagMatcher (tags/matcher.hpp), osmium::StringMatcher
   (util/string_matcher.hpp), the filter iterator osmium::memory::CollectionFilterIterator (memory/collection.hpp)
   and match_any_of / match_all_of / match_none_of (tags/taglist.hpp).

   A-layer (what the documentation says): a rule list is evaluated in order, the first rule whose matcher matches
   the tag decides with its result, otherwise the default result (ADecide).  What "matches" means is written on
   strings as mathematical objects (sequences): equality, prefix, substring, membership, regular expression search;
   a TagMatcher is "key matches and (no value matcher or (value matches # invert))".  A filter iterator over a
   TagList yields exactly the tags for which the filter says true, in order (AFiltered); the three match_*_of
   functions are the quantifiers over that.

   I-layer (the code as written): the for loop over the rule vector with its early return (one RuleStep per
   iteration), CollectionFilterIterator's constructor / advance() loop / operator++ (Construct, Advance, Incr), the
   legacy Filter's rule record (key, value, ignore_value, result) with its comparison functors (strcmp,
   std::string::compare(0, npos, str, 0, n)), TagMatcher's two matchers + m_has_value_matcher + m_result,
   StringMatcher's converting constructors filling a variant and the visitor dispatching on the variant index to
   strcmp / compare / strstr / any_of loops on NUL terminated strings.

   TLC checks I => A on every state: the booleans computed so far, the tags yielded so far, and at the end the
   quantifiers, the count, every TagMatcher on every tag and on the whole list, every StringMatcher on every key and
   value.  Deadlock checking: every behaviour reaches phase "done".                                              *)
EXTENDS Integers, Sequences, FiniteSets, TLC, Json
CONSTANTS Fams,         \* set of filter families: "KF" KeyFilter, "KVF" KeyValueFilter, "KPF" KeyPrefixFilter, "TF" TagsFilter
          Alpha,        \* [family -> set of matcher templates] (a rule = a template + a result)
          Shapes        \* set of [mr |-> max rules, mt |-> max tags, ta |-> set of tags [k |-> string, v |-> string]]: a case
                        \* has Len(rules) <= mr and a tag list of length <= mt over ta for one of them; a string is a
                        \* sequence of the characters "a", "b"
VARIABLES fam, rules, dflt, tags,        \* the case (constant once chosen)
          phase, it, ridx, res, out      \* I-layer: iterator position, rule index, filter results so far, tags yielded so far
vars == <<fam, rules, dflt, tags, phase, it, ridx, res, out>>

Min(a, b) == IF a < b THEN a ELSE b
IsPrefix(a, b) == Len(a) <= Len(b) /\ SubSeq(b, 1, Len(a)) = a
SeqsUpTo(S, n) == UNION {[1..m -> S] : m \in 0..n}
RECURSIVE Str(_)                         \* for the export: the string as text
Str(s) == IF s = <<>> THEN "" ELSE Head(s) \o Str(Tail(s))

(* ------------------------------------------------------------------ matcher templates *)
\* how a StringMatcher is made: c = which constructor, k = what it is documented to be, s / ss / as / ae = arguments
\*   c: "default" StringMatcher{}; "bool" StringMatcher(bool); "cstr" (const char*); "string" (const std::string&);
\*      "vector" (const std::vector<std::string>&); "regex" (const std::regex&); "class" (one of the matcher classes);
\*      "list_add" list{} filled with add_string()
\*   k: "false" "true" "equal" "prefix" "substring" "regex" "list"
\*   regex: the pattern is (as ? "^" : "") s (ae ? "$" : "") where s is over "a", "b" and "." (any character)
SM(c, k, s) == [c |-> c, k |-> k, s |-> s, ss |-> <<>>, as |-> FALSE, ae |-> FALSE]
SML(c, ss) == [c |-> c, k |-> "list", s |-> <<>>, ss |-> ss, as |-> FALSE, ae |-> FALSE]
SMR(c, as, s, ae) == [c |-> c, k |-> "regex", s |-> s, ss |-> <<>>, as |-> as, ae |-> ae]
CtorOK(m) == CASE m.c = "default" -> m.k = "false"
               [] m.c = "bool" -> m.k \in {"false", "true"}
               [] m.c \in {"cstr", "string"} -> m.k = "equal"
               [] m.c \in {"vector", "list_add"} -> m.k = "list"
               [] m.c = "regex" -> m.k = "regex"
               [] m.c = "class" -> TRUE
\* TagMatcher templates: tmc = constructor: "default" TagMatcher{}, "key" (key), "kv" (key, value), "kvi" (key, value, invert)
TMDefault == [tmc |-> "default", km |-> SM("default", "false", <<>>), vm |-> SM("default", "false", <<>>), inv |-> FALSE]
TMKey(km) == [tmc |-> "key", km |-> km, vm |-> SM("bool", "true", <<>>), inv |-> FALSE]
TMKV(km, vm) == [tmc |-> "kv", km |-> km, vm |-> vm, inv |-> FALSE]
TMKVI(km, vm, inv) == [tmc |-> "kvi", km |-> km, vm |-> vm, inv |-> inv]
\* legacy Filter templates: add(result, key) / add(result, key, value)
LK(key) == [key |-> key, ign |-> TRUE, val |-> <<>>]
LKV(key, val) == [key |-> key, ign |-> FALSE, val |-> val]

(* ------------------------------------------------------------------ A-layer *)
ARegex(m, t) == \E i \in 0..Len(t) : /\ i + Len(m.s) <= Len(t)
                                     /\ m.as => i = 0
                                     /\ m.ae => i + Len(m.s) = Len(t)
                                     /\ \A j \in 1..Len(m.s) : m.s[j] = "." \/ m.s[j] = t[i + j]
\* does the string matcher (by its documented meaning) match the string t
SMatch(m, t) == CASE m.k = "false" -> FALSE
                  [] m.k = "true" -> TRUE
                  [] m.k = "equal" -> m.s = t
                  [] m.k = "prefix" -> IsPrefix(m.s, t)
                  [] m.k = "substring" -> \E i \in 0..Len(t) : i + Len(m.s) <= Len(t) /\ SubSeq(t, i + 1, i + Len(m.s)) = m.s
                  [] m.k = "regex" -> ARegex(m, t)
                  [] m.k = "list" -> \E j \in 1..Len(m.ss) : m.ss[j] = t
\* does the rule's matcher match the tag
AMatch(f, m, tag) ==
  CASE f \in {"KF", "KVF"} -> m.key = tag.k /\ (m.ign \/ m.val = tag.v)
    [] f = "KPF" -> IsPrefix(m.key, tag.k)
    [] f = "TF" -> /\ m.tmc # "default"
                   /\ SMatch(m.km, tag.k)
                   /\ m.tmc # "key" => (SMatch(m.vm, tag.v) # m.inv)
\* first matching rule decides, default result otherwise
ADecide(f, rs, d, tag) == LET hit == {j \in 1..Len(rs) : AMatch(f, rs[j].m, tag)} IN
                          IF hit = {} THEN d ELSE rs[CHOOSE j \in hit : \A l \in hit : j <= l].res
ARes(i) == ADecide(fam, rules, dflt, tags[i])
RECURSIVE SelectIdx(_, _)                \* the indexes i >= from whose tag passes the filter, in order
SelectIdx(from, n) == IF from > n THEN <<>> ELSE (IF ARes(from) THEN <<from>> ELSE <<>>) \o SelectIdx(from + 1, n)
AFiltered == SelectIdx(1, Len(tags))

(* ------------------------------------------------------------------ I-layer: strings *)
NUL == "0"
At(s, i) == IF i <= Len(s) THEN s[i] ELSE NUL                  \* s.c_str()[i-1]
RECURSIVE StrcmpFrom(_, _, _)
StrcmpFrom(a, b, i) == IF At(a, i) # At(b, i) THEN FALSE ELSE IF At(a, i) = NUL THEN TRUE ELSE StrcmpFrom(a, b, i + 1)
IStrcmpEq(a, b) == StrcmpFrom(a, b, 1)                          \* !std::strcmp(a.c_str(), b)
RECURSIVE MemEq(_, _, _, _)                                     \* traits_type::compare(a, b, n) == 0
MemEq(a, b, i, n) == IF i > n THEN TRUE ELSE IF a[i] # b[i] THEN FALSE ELSE MemEq(a, b, i + 1, n)
\* a.compare(0, npos, std::string(b), 0, n2) == 0
ICompareEq(a, b, n2) == LET l1 == Len(a)  l2 == Min(n2, Len(b)) IN MemEq(a, b, 1, Min(l1, l2)) /\ l1 = l2
IPrefix(rule, test) == ICompareEq(rule, test, Len(rule))
RECURSIVE StartsAt(_, _, _, _)
StartsAt(hay, needle, i, j) == IF At(needle, j) = NUL THEN TRUE
                               ELSE IF At(hay, i + j - 1) # At(needle, j) THEN FALSE ELSE StartsAt(hay, needle, i, j + 1)
RECURSIVE StrstrFrom(_, _, _)
StrstrFrom(hay, needle, i) == IF StartsAt(hay, needle, i, 1) THEN TRUE
                              ELSE IF At(hay, i) = NUL THEN FALSE ELSE StrstrFrom(hay, needle, i + 1)
IStrstr(hay, needle) == StrstrFrom(hay, needle, 1)              \* std::strstr(hay, needle.c_str()) != nullptr
IStringEqCstr(s, t) == MemEq(s, t, 1, Min(Len(s), Len(t))) /\ Len(s) = Len(t)      \* std::string == const char*
RECURSIVE AnyEqFrom(_, _, _)                                    \* std::any_of over the list's strings
AnyEqFrom(ss, t, j) == IF j > Len(ss) THEN FALSE ELSE IF IStringEqCstr(ss[j], t) THEN TRUE ELSE AnyEqFrom(ss, t, j + 1)
\* std::regex_search for the patterns used here: try every start position in turn
RECURSIVE PatAt(_, _, _, _)
PatAt(m, t, i, j) == IF j > Len(m.s) THEN (m.ae => i + Len(m.s) = Len(t))
                     ELSE IF i + j > Len(t) THEN FALSE
                     ELSE IF m.s[j] # "." /\ m.s[j] # t[i + j] THEN FALSE ELSE PatAt(m, t, i, j + 1)
RECURSIVE SearchFrom(_, _, _)
SearchFrom(m, t, i) == IF PatAt(m, t, i, 1) THEN TRUE ELSE IF m.as \/ i = Len(t) THEN FALSE ELSE SearchFrom(m, t, i + 1)

\* StringMatcher's constructors: which alternative of the variant is stored (index as in matcher_type) and with what
Variant(w, m) == [which |-> w, s |-> m.s, ss |-> m.ss, as |-> m.as, ae |-> m.ae]
KindIdx(k) == CASE k = "false" -> 0 [] k = "true" -> 1 [] k = "equal" -> 2 [] k = "prefix" -> 3
                [] k = "substring" -> 4 [] k = "regex" -> 5 [] k = "list" -> 6
ICons(m) == CASE m.c = "default" -> Variant(0, m)                                   \* m_matcher(always_false{})
              [] m.c = "bool" -> IF m.k = "true" THEN Variant(1, m) ELSE Variant(0, m)   \* always_false, then if (result) = always_true
              [] m.c \in {"cstr", "string"} -> Variant(2, m)                         \* equal{str}
              [] m.c = "regex" -> Variant(5, m)                                      \* regex{aregex}
              [] m.c \in {"vector", "list_add"} -> Variant(6, m)                     \* list{strings}
              [] m.c = "class" -> Variant(KindIdx(m.k), m)                           \* the forwarding template constructor
\* match_visitor: t.match(m_str) of the stored alternative
IVisit(var, t) == CASE var.which = 0 -> FALSE
                    [] var.which = 1 -> TRUE
                    [] var.which = 2 -> IStrcmpEq(var.s, t)
                    [] var.which = 3 -> IPrefix(var.s, t)
                    [] var.which = 4 -> IStrstr(t, var.s)
                    [] var.which = 5 -> SearchFrom(var, t, 0)
                    [] var.which = 6 -> AnyEqFrom(var.ss, t, 1)
ISMatch(m, t) == IVisit(ICons(m), t)
\* TagMatcher: the members its constructors set, and operator()(key, value)
ITagMatcher(m) == CASE m.tmc = "default" -> [km |-> Variant(0, m.km), vm |-> Variant(0, m.km), hasv |-> FALSE, result |-> TRUE]
                    [] m.tmc = "key" -> [km |-> ICons(m.km), vm |-> Variant(1, m.km), hasv |-> FALSE, result |-> TRUE]
                    [] m.tmc \in {"kv", "kvi"} -> [km |-> ICons(m.km), vm |-> ICons(m.vm), hasv |-> TRUE, result |-> ~m.inv]
ITagMatch(m, tag) == LET tm == ITagMatcher(m) IN IVisit(tm.km, tag.k) /\ (IVisit(tm.vm, tag.v) = tm.result)
\* one rule against one tag, as the body of the rule loop has it
IRuleMatch(f, m, tag) ==
  CASE f = "KF" -> IStrcmpEq(m.key, tag.k) /\ (m.ign \/ TRUE)                        \* match_key<std::string>, match_value<void>
    [] f = "KVF" -> IStrcmpEq(m.key, tag.k) /\ (m.ign \/ IStrcmpEq(m.val, tag.v))    \* match_value<std::string>
    [] f = "KPF" -> IPrefix(m.key, tag.k) /\ (m.ign \/ TRUE)                         \* match_key_prefix
    [] f = "TF" -> ITagMatch(m, tag)
\* std::any_of / all_of / none_of over the results of the filter calls (short circuit loops)
RECURSIVE FindFrom(_, _, _)                                     \* first index >= i with b[index] = want, or Len + 1
FindFrom(b, want, i) == IF i > Len(b) THEN i ELSE IF b[i] = want THEN i ELSE FindFrom(b, want, i + 1)
IAnyOf(b) == FindFrom(b, TRUE, 1) <= Len(b)
IAllOf(b) == FindFrom(b, FALSE, 1) > Len(b)
INoneOf(b) == FindFrom(b, TRUE, 1) > Len(b)

(* ------------------------------------------------------------------ I-layer: state machine *)
N == Len(tags)
MaxRules == CHOOSE n \in {s.mr : s \in Shapes} : \A s \in Shapes : s.mr <= n
RuleSet(f) == [res : BOOLEAN, m : Alpha[f]]

Init == /\ phase = "new" /\ fam = "" /\ rules = <<>> /\ dflt = FALSE /\ tags = <<>>
        /\ it = 0 /\ ridx = 0 /\ res = <<>> /\ out = <<>>
\* Filter f{default}; f.add(...)... / TagsFilter f{default}; f.add_rule(...)...
ChooseFilter == /\ phase = "new"
                /\ \E f \in Fams, d \in BOOLEAN : \E rs \in SeqsUpTo(RuleSet(f), MaxRules) :
                      fam' = f /\ dflt' = d /\ rules' = rs
                /\ phase' = "filter" /\ UNCHANGED <<tags, it, ridx, res, out>>
\* the TagList in the buffer
ChooseTags == /\ phase = "filter"
              /\ \E s \in {x \in Shapes : Len(rules) <= x.mr} : \E ts \in SeqsUpTo(s.ta, s.mt) : tags' = ts
              /\ phase' = "construct" /\ UNCHANGED <<fam, rules, dflt, it, ridx, res, out>>
Same == UNCHANGED <<fam, rules, dflt, tags>>
\* iterator{filter, tags.begin(), tags.end()}: m_it(begin), then advance()
Construct == /\ phase = "construct" /\ Same /\ it' = 1 /\ phase' = "advance" /\ UNCHANGED <<ridx, res, out>>
\* advance(): loop head "while (m_it != m_end)" and the call of m_filter(*m_it)
Advance == /\ phase = "advance" /\ Same /\ UNCHANGED <<it, res, out>>
           /\ IF it = N + 1 THEN phase' = "end" /\ UNCHANGED ridx
                            ELSE phase' = "call" /\ ridx' = 1
\* the filter's operator(): one iteration of "for (rule : m_rules)" or the return after the loop;
\* back in advance(): break if true, else ++m_it
RuleStep == /\ phase = "call" /\ Same /\ UNCHANGED out
            /\ LET return(r) == /\ res' = Append(res, r) /\ UNCHANGED ridx
                                /\ IF r THEN phase' = "at" /\ it' = it
                                        ELSE phase' = "advance" /\ it' = it + 1
               IN IF ridx > Len(rules) THEN return(dflt)
                  ELSE IF IRuleMatch(fam, rules[ridx].m, tags[it]) THEN return(rules[ridx].res)
                  ELSE ridx' = ridx + 1 /\ UNCHANGED <<res, it, phase>>
\* the caller reads *it and then increments: operator++() { ++m_it; advance(); }   (it++ = copy, operator++(), return copy)
Incr == /\ phase = "at" /\ Same /\ UNCHANGED <<ridx, res>>
        /\ out' = Append(out, it) /\ it' = it + 1 /\ phase' = "advance"
\* it == end{filter, tags.end(), tags.end()}
Finish == /\ phase = "end" /\ Same /\ phase' = "done" /\ UNCHANGED <<it, ridx, res, out>>
Done == phase = "done" /\ UNCHANGED vars
Next == ChooseFilter \/ ChooseTags \/ Construct \/ Advance \/ RuleStep \/ Incr \/ Finish \/ Done
Spec == Init /\ [][Next]_vars

(* ------------------------------------------------------------------ what TLC checks *)
Chosen == phase \notin {"new", "filter"}
TypeOK == /\ phase \in {"new", "filter", "construct", "advance", "call", "at", "end", "done"}
          /\ Chosen => /\ it \in 0..N + 1 /\ ridx \in 0..Len(rules) + 1
                       /\ Len(res) <= N /\ Len(out) <= N
                       /\ \A j \in 1..Len(rules) : fam = "TF" => CtorOK(rules[j].m.km) /\ CtorOK(rules[j].m.vm)
\* the rule loop: every boolean the filter returned is what the first matching rule / the default says;
\* while the loop runs, no earlier rule matches the tag
RefinesRules == Chosen =>
  /\ \A i \in 1..Len(res) : res[i] = ARes(i)
  /\ phase = "call" => /\ Len(res) = it - 1
                       /\ \A j \in 1..ridx - 1 : ~AMatch(fam, rules[j].m, tags[it])
\* the filter iterator: yields a prefix of the filtered sequence, stands on a tag that passes, and at the end has yielded all
RefinesIter == Chosen =>
  /\ IsPrefix(out, AFiltered)
  /\ phase = "at" => ARes(it) /\ Len(out) < Len(AFiltered) /\ AFiltered[Len(out) + 1] = it
  /\ phase \in {"end", "done"} => out = AFiltered /\ Len(res) = N /\ it = N + 1
\* at the end: quantifiers, count and the matcher layers below the rule loop
RefinesRest == phase = "done" =>
  /\ IAnyOf(res) = (\E i \in 1..N : ARes(i))
  /\ IAllOf(res) = (\A i \in 1..N : ARes(i))
  /\ INoneOf(res) = (~\E i \in 1..N : ARes(i))
  /\ Len(out) = Cardinality({i \in 1..N : ARes(i)})
  /\ \A j \in 1..Len(rules), i \in 1..N :
        /\ IRuleMatch(fam, rules[j].m, tags[i]) = AMatch(fam, rules[j].m, tags[i])
        /\ fam = "TF" => /\ ISMatch(rules[j].m.km, tags[i].k) = SMatch(rules[j].m.km, tags[i].k)
                         /\ ISMatch(rules[j].m.vm, tags[i].v) = SMatch(rules[j].m.vm, tags[i].v)
                         /\ ISMatch(rules[j].m.km, tags[i].v) = SMatch(rules[j].m.km, tags[i].v)

(* ------------------------------------------------------------------ export *)
XSM(m) == [c |-> m.c, k |-> m.k, s |-> Str(m.s), ss |-> [j \in 1..Len(m.ss) |-> Str(m.ss[j])], as |-> m.as, ae |-> m.ae]
XRule(r) == IF fam = "TF" THEN [res |-> r.res, tmc |-> r.m.tmc, km |-> XSM(r.m.km), vm |-> XSM(r.m.vm), inv |-> r.m.inv]
            ELSE [res |-> r.res, key |-> Str(r.m.key), ign |-> r.m.ign, val |-> Str(r.m.val)]
Matrix(F(_, _)) == [j \in 1..Len(rules) |-> [i \in 1..N |-> F(j, i)]]
XMM(j, i) == IRuleMatch(fam, rules[j].m, tags[i])
XKM(j, i) == ISMatch(rules[j].m.km, tags[i].k)
XVM(j, i) == ISMatch(rules[j].m.vm, tags[i].v)
Export == phase = "done" => PrintT(<<"CASE", ToJson(
  [fam |-> fam, dflt |-> dflt, rules |-> [j \in 1..Len(rules) |-> XRule(rules[j])],
   tags |-> [i \in 1..N |-> [k |-> Str(tags[i].k), v |-> Str(tags[i].v)]],
   res |-> res, out |-> out, cnt |-> Len(out), any |-> IAnyOf(res), all |-> IAllOf(res), none |-> INoneOf(res),
   mm |-> Matrix(XMM), tl |-> [j \in 1..Len(rules) |-> IAnyOf([i \in 1..N |-> XMM(j, i)])],
   km |-> IF fam = "TF" THEN Matrix(XKM) ELSE <<>>, vm |-> IF fam = "TF" THEN Matrix(XVM) ELSE <<>>])>>)
=============================================================================
