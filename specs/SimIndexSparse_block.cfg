SPECIFICATION Spec
CONSTANTS
  Cand = {0, 1, 65535, 65536, 65537, 1048575, 1048576, 1048577}
  Probes = {0, 1, 2, 65534, 65535, 65536, 65537, 65538, 1048574, 1048575, 1048576, 1048577, 1048578}
  MaxSets = 6
  MaxSorts = 2
  MaxDumps = 2
  ArrayLimit = 4194304
  ExportHist = TRUE
  G = 1048576
  W = 1310720
  Backings = {"mmap"}
INVARIANTS Refines Link NoGarbage FileOK Export
CHECK_DEADLOCK FALSE
