---------------------- MODULE ReaderPipelineTrace ----------------------
(* Trace validation for C05 / C07: is an execution of the real osmium::io::Reader, recorded by
   harness/reader_pipeline.cpp, a behaviour of ReaderPipeline?

   Logged events (one JSON object per line):
     Config      first line of every execution: the configuration (TLC-exported cfg record with the real
                 queue bounds), "real" = the real PBF parser was used (no P.Parse / W.Run events)
     RT.Read j   mock decompressor: entry of the j-th read()            -> RTRead
     RT.DClose   mock decompressor: entry of close()                   -> RTDClose
     Enq/Deq/PopEmpty/Drain q n   OSMIUM_VERIF hooks in thread/queue.hpp, under the queue's mutex, for the
                 raw-input ("in") and parser-results ("out") queue    -> *PushEnq, PWait/CRWait, second
                 half of Queue::shutdown
     P.Parse m   mock parser starts on chunk m (before it sets the header, so that a header() call can never
                 return before the event that makes it possible)       -> PParse
     P.FdRead m  fd mode: the parser starts reading blob m (mock parser, or read(2) interposed for the real
                 PBF parser)                                          -> PFdRead
     P.End       mock parser: run() is about to return                 -> PEnd
     W.Run m     mock pool task of block m starts                      -> Worker
     C.Call op   the consumer is about to call op                      (stutter; checks the script position)
     C.Ret res   the call returned res (the spec's log entry); for "destroyed" with the number of leaked
                 descriptors and threads                               -> the consumer step that appends res
   Everything else (reads of m_in_use / m_done, stores of the shutdown flag, future.get() without a result for
   the caller, joins) is unlogged and interleaved as silent steps of the original actions.

   Acceptance: position Len(TraceLog)+1 reachable (INVARIANT NotAccepted violated = accepted). *)
EXTENDS ReaderPipeline, Json, IOUtils, TLCExt

TraceLog == ndJsonDeserialize(IOEnv.TRACE)

CfgOf(j) == [n |-> j.n, nest |-> j.nest, fault |-> j.fault, maxIn |-> j.maxIn, maxOut |-> j.maxOut, pool |-> j.pool,
             fd |-> j.fd, fdstop |-> j.fdstop, hdrblk |-> j.hdrblk, skip |-> {j.skip[i] : i \in 1..Len(j.skip)},
             script |-> j.script]

TraceConfigs == {CfgOf(TraceLog[1].cfg)}

VARIABLES l, real
tvars == <<vars, l, real>>

TraceInit == Init /\ l = 2 /\ real = TraceLog[1].real

Ev == TraceLog[l]
IsEvent(e) == l <= Len(TraceLog) /\ Ev.e = e /\ l' = l + 1 /\ real' = real

TrRTRead == IsEvent("RT.Read") /\ RTRead /\ rt'.j = Ev.j
TrRTDClose == IsEvent("RT.DClose") /\ RTDClose /\ ~cfg.fd
TrEnqIn == IsEvent("Enq") /\ Ev.q = "in" /\ RTPushEnq /\ Len(inQ'.items) = Ev.n
TrEnqOut == IsEvent("Enq") /\ Ev.q = "out" /\ PPushEnq /\ Len(outQ'.items) = Ev.n
TrDeqIn == IsEvent("Deq") /\ Ev.q = "in" /\ inQ.items # <<>> /\ PWait /\ Len(inQ'.items) = Ev.n
TrPopEmptyIn == IsEvent("PopEmpty") /\ Ev.q = "in" /\ inQ.items = <<>> /\ PWait
TrDeqOut == IsEvent("Deq") /\ Ev.q = "out" /\ outQ.items # <<>> /\ CRWait /\ Len(outQ'.items) = Ev.n
TrPopEmptyOut == IsEvent("PopEmpty") /\ Ev.q = "out" /\ outQ.items = <<>> /\ CRWait
TrDrainIn == IsEvent("Drain") /\ Ev.q = "in" /\ PShut1
TrDrainOut == IsEvent("Drain") /\ Ev.q = "out" /\ (CClose2 \/ CEod2 \/ CDtor1)
TrPParse == IsEvent("P.Parse") /\ ~real /\ pa.n = Ev.m /\ PParse
TrPFdRead == IsEvent("P.FdRead") /\ pa.n + 1 = Ev.m /\ PFdRead
TrPEnd == IsEvent("P.End") /\ ~real /\ PEnd
TrWRun == IsEvent("W.Run") /\ ~real /\ Worker
          /\ \E f \in 1..Len(futs) : futs[f].n = Ev.m /\ ~futs[f].ready /\ futs'[f].ready
ScriptOp == IF co.i > Len(cfg.script) THEN "destroy"
            ELSE IF cfg.script[co.i] = "readall" THEN "read" ELSE cfg.script[co.i]
TrCCall == IsEvent("C.Call") /\ co.pc = "idle" /\ Ev.op = ScriptOp /\ UNCHANGED vars
TrCRet == /\ IsEvent("C.Ret") /\ CNext
          /\ Len(clog') = Len(clog) + 1
          /\ IF real /\ Ev.res = "data" THEN IsData(clog'[Len(clog')])        \* real files: buffers are not named
             ELSE clog'[Len(clog')] = Ev.res
          /\ Ev.res = "destroyed" => /\ (Ev.fdleak = 0) = ~obs'.fdOpen      \* descriptors of the process back to the baseline
                                     /\ Ev.thrleak = 0                      \* and so are its threads (NoThreadLeft)

(* next execution: all parties of the previous one are done *)
TrConfig == /\ l <= Len(TraceLog) /\ Ev.e = "Config" /\ l' = l + 1 /\ AllDone
            /\ real' = Ev.real
            /\ cfg' = CfgOf(Ev.cfg)
            /\ expected' = Expected(cfg')
            /\ inQ' = EmptyQ /\ outQ' = EmptyQ /\ futs' = <<>> /\ done' = FALSE
            /\ rt' = [pc |-> "check", j |-> 0, item |-> [k |-> "none", n |-> 0], nxt |-> "none"]
            /\ pa' = [pc |-> IF cfg'.fd THEN "fdread" ELSE "get", n |-> 0, hdr |-> "unset", item |-> 0, nxt |-> "none"]
            /\ co' = [pc |-> "idle", i |-> 1, status |-> "okay", back |-> <<>>, hdrValid |-> TRUE,
                      closeCalled |-> FALSE, closeReturned |-> FALSE, cur |-> 0, ret |-> "none"]
            /\ clog' = <<>>
            /\ obs' = [lateReads |-> 0, afterReturn |-> 0, pLate |-> 0, hdrSets |-> 0, fdOpen |-> TRUE]

Silent == \/ RTCheck \/ RTEod \/ RTPushChk
          \/ (RTDClose /\ cfg.fd)                                   \* DummyDecompressor::close(): no event
          \/ (RTRead /\ cfg.fd)                                     \* DummyDecompressor::read(): no event
          \/ PGet \/ PFail \/ PEod \/ PPushChk \/ PDtor \/ PShut0 \/ PFdNext \/ PQNext
          \/ (real /\ (PParse \/ PEnd \/ Worker))
          \/ ((CStart \/ CHGet \/ CRGet \/ CClose3) /\ clog' = clog)
          \/ CRChk \/ CEod1 \/ CREod \/ CClose0 \/ CClose1 \/ CDJoin \/ CDtor0

TraceNext == \/ TrRTRead \/ TrRTDClose \/ TrEnqIn \/ TrEnqOut \/ TrDeqIn \/ TrPopEmptyIn \/ TrDeqOut \/ TrPopEmptyOut
             \/ TrDrainIn \/ TrDrainOut \/ TrPParse \/ TrPFdRead \/ TrPEnd \/ TrWRun \/ TrCCall \/ TrCRet \/ TrConfig
             \/ (l <= Len(TraceLog) /\ UNCHANGED <<l, real>> /\ Silent)

TraceSpec == TraceInit /\ [][TraceNext]_tvars

NotAccepted == l <= Len(TraceLog)
Progress == IF l > TLCGet(1) THEN TLCSet(1, l) ELSE TRUE
ReportMax == PrintT(<<"MAXL", TLCGet(1), Len(TraceLog)>>)
ASSUME TLCSet(1, 0)
=============================================================================
