--------------------------- MODULE ReaderPipeline ---------------------------
(* C05 / C07.  The four-party protocol behind osmium::io::Reader:

     read thread  --inQ (futures of strings)-->  parser thread  --outQ (futures of buffers)-->  consumer
                                                      |  submit                                    ^
                                                      +--------> pool workers (complete futures) --+

   I-layer: one action per step of the code in io/reader.hpp (Reader::read/header/close/~Reader),
   io/detail/read_thread.hpp (ReadThreadManager::run_in_thread), io/detail/input_format.hpp
   (Parser::parse, set_header_*, send_to_output_queue), io/detail/queue_util.hpp (add_to_queue,
   queue_wrapper::pop/shutdown/~queue_wrapper) on top of the queue interface verified in
   ThreadQueue.tla (C19): bounded FIFO, push = {read m_in_use; wait for space; enqueue}, wait_and_pop
   returns an element or nothing once the queue is shut down, shutdown = {store flag; drain}.

   A-layer: Expected(cfg), the consumer-visible log as a *function* of (file, fault, consumer
   script): blocks in file order with nested buffers oldest first, the first error exactly once
   and nothing after it, end-of-data marker, then failing reads.  The properties say that the
   log does not depend on the schedule, the queue bounds or the use of pool workers.

   A configuration fixes: n data chunks (chunk m is decoded into block m which consists of
   nest[m] nested buffers, 0 = the block is empty), one optional fault, queue bounds, whether
   blocks are decoded by pool workers (futures complete later, in any order) or by the parser
   itself, whether the parser reads the file descriptor itself (PBF, 'fd' mode), and the script
   of API calls of the consumer, always followed by the destructor. *)
EXTENDS Integers, Sequences, FiniteSets, TLC

CONSTANTS Configs            \* set of configuration records, one is chosen in Init

VARIABLES cfg,               \* the configuration (never changes)
          expected,          \* A-layer: Expected(cfg) (never changes)
          inQ, outQ,         \* [items, inUse]
          futs,              \* sequence of futures created by the parser: [k, n, ready, fail]
          done,              \* ReadThreadManager::m_done
          rt, pa, co,        \* read thread, parser thread, consumer (records with pc)
          clog,              \* results of the consumer's completed API calls
          obs                \* observers: [lateReads, afterReturn, pLate, hdrSets, fdOpen]

vars == <<cfg, expected, inQ, outQ, futs, done, rt, pa, co, clog, obs>>

NoFault == [k |-> "none", at |-> 0, pre |-> FALSE]

-----------------------------------------------------------------------------
(* A-layer *)

BufName(m, s) == "b" \o ToString(m) \o "." \o ToString(s)

(* The stream of results the parser stage produces when nobody stops it. *)
Blocks(c, from, to) == [i \in 1..(IF to >= from THEN to - from + 1 ELSE 0) |-> [k |-> "blk", n |-> from + i - 1]]
OutStream(c) ==
  LET f == c.fault IN
  CASE f.k = "none"   -> Blocks(c, 1, c.n) \o <<[k |-> "eod", n |-> 0]>>
    [] f.k = "read"   -> Blocks(c, 1, f.at - 1) \o <<[k |-> "exc", n |-> 0], [k |-> "eod", n |-> 0]>>
    [] f.k = "dclose" -> Blocks(c, 1, c.n) \o <<[k |-> "exc", n |-> 0], [k |-> "eod", n |-> 0]>>
    [] f.k = "end"    -> Blocks(c, 1, c.n) \o <<[k |-> "exc", n |-> 0], [k |-> "eod", n |-> 0]>>   \* the input ends too early for its format
    [] f.k = "parse"  -> Blocks(c, 1, f.at - 1) \o <<[k |-> "exc", n |-> 0], [k |-> "eod", n |-> 0]>>
    [] f.k = "work"   -> Blocks(c, 1, f.at - 1) \o <<[k |-> "exc", n |-> 0]>> \o Blocks(c, f.at + 1, c.n)
                           \o <<[k |-> "eod", n |-> 0]>>

HeaderFails(c) == \/ c.fault.k = "read" /\ c.fault.at = 1
                  \/ c.fault.k = "dclose" /\ c.n = 0 /\ ~c.fd
                  \/ c.fault.k = "end" /\ c.n = 0
                  \/ c.fault.k = "parse" /\ c.fault.at = 1 /\ c.fault.pre

(* blocks whose entity type is not selected come back as empty buffers *)
Nest(c, m) == IF m \in c.skip THEN 0 ELSE c.nest[m]

RECURSIVE SkipEmpty(_, _, _)
SkipEmpty(c, out, pos) == IF out[pos].k = "blk" /\ Nest(c, out[pos].n) = 0 THEN SkipEmpty(c, out, pos + 1) ELSE pos

(* st = [status, pos, back, hdrValid] *)
RECURSIVE Walk(_, _, _, _)
Walk(c, out, i, st) ==
  IF i > Len(c.script) THEN <<"destroyed">>
  ELSE LET op == c.script[i] IN
    IF op = "header" THEN
         IF st.status = "error" THEN <<"exc-state">> \o Walk(c, out, i + 1, st)
         ELSE IF ~st.hdrValid THEN <<"hdr">> \o Walk(c, out, i + 1, st)
         ELSE IF HeaderFails(c) THEN <<"exc-pipe">> \o Walk(c, out, i + 1, TLCEval([st EXCEPT !.status = "error", !.hdrValid = FALSE]))
         ELSE <<"hdr">> \o Walk(c, out, i + 1, TLCEval([st EXCEPT !.hdrValid = FALSE]))
    ELSE IF op \in {"read", "readall"} THEN
         (* "readall" = read() until it returns something else than data: the script position only advances then *)
         LET ni == IF op = "readall" THEN i ELSE i + 1 IN
         IF st.back # <<>> THEN <<Head(st.back)>> \o Walk(c, out, ni, TLCEval([st EXCEPT !.back = Tail(st.back)]))
         ELSE IF st.status # "okay" THEN <<"exc-state">> \o Walk(c, out, i + 1, st)
         ELSE LET p == SkipEmpty(c, out, st.pos)
                  e == out[p] IN
              IF e.k = "blk" THEN <<BufName(e.n, 1)>> \o
                     Walk(c, out, ni, [st EXCEPT !.pos = p + 1,
                                                   !.back = [s \in 1..(Nest(c, e.n) - 1) |-> BufName(e.n, s + 1)]])
              ELSE IF e.k = "exc" THEN <<"exc-pipe">> \o Walk(c, out, i + 1, TLCEval([st EXCEPT !.status = "error", !.pos = p + 1]))
              ELSE <<"eod">> \o Walk(c, out, i + 1, TLCEval([st EXCEPT !.status = "eof", !.pos = p + 1]))
    ELSE (* close *) <<"closed">> \o Walk(c, out, i + 1, TLCEval([st EXCEPT !.status = "closed"]))

Expected(c) == Walk(c, TLCEval(OutStream(c)), 1, [status |-> "okay", pos |-> 1, back |-> <<>>, hdrValid |-> TRUE])

-----------------------------------------------------------------------------
(* I-layer *)

EmptyQ == [items |-> <<>>, inUse |-> TRUE]
ShutQ == [items |-> <<>>, inUse |-> FALSE]

Init == /\ cfg \in Configs
        /\ expected = Expected(cfg)
        /\ inQ = EmptyQ /\ outQ = EmptyQ /\ futs = <<>> /\ done = FALSE
        /\ rt = [pc |-> "check", j |-> 0, item |-> [k |-> "none", n |-> 0], nxt |-> "none"]
        /\ pa = [pc |-> IF cfg.fd THEN "fdread" ELSE "get", n |-> 0, hdr |-> "unset", item |-> 0, nxt |-> "none"]
        /\ co = [pc |-> "idle", i |-> 1, status |-> "okay", back |-> <<>>, hdrValid |-> TRUE,
                 closeCalled |-> FALSE, closeReturned |-> FALSE, cur |-> 0, ret |-> "none"]
        /\ clog = <<>>
        /\ obs = [lateReads |-> 0, afterReturn |-> 0, pLate |-> 0, hdrSets |-> 0, fdOpen |-> TRUE]

(* ---- read thread: ReadThreadManager::run_in_thread ---- *)
RTCheck == /\ rt.pc = "check"
           /\ rt' = [rt EXCEPT !.pc = IF done THEN "dclose" ELSE "read"]
           /\ UNCHANGED <<cfg, expected, inQ, outQ, futs, done, pa, co, clog, obs>>

RTRead == /\ rt.pc = "read"
          /\ LET j == rt.j + 1 IN
             /\ obs' = [obs EXCEPT !.lateReads = @ + (IF co.closeCalled THEN 1 ELSE 0),
                                   !.afterReturn = @ + (IF co.closeReturned THEN 1 ELSE 0)]
             /\ rt' = IF cfg.fd THEN [rt EXCEPT !.pc = "dclose", !.j = j]             \* DummyDecompressor: "" at once
                      ELSE IF cfg.fault.k = "read" /\ cfg.fault.at = j
                           THEN [rt EXCEPT !.pc = "pchk", !.j = j, !.item = [k |-> "exc", n |-> 0], !.nxt = "eod"]
                      ELSE IF j <= cfg.n
                           THEN [rt EXCEPT !.pc = "pchk", !.j = j, !.item = [k |-> "data", n |-> j], !.nxt = "check"]
                      ELSE [rt EXCEPT !.pc = "dclose", !.j = j]
          /\ UNCHANGED <<cfg, expected, inQ, outQ, futs, done, pa, co, clog>>

RTDClose == /\ rt.pc = "dclose"
            /\ rt' = IF cfg.fault.k = "dclose" /\ ~cfg.fd
                     THEN [rt EXCEPT !.pc = "pchk", !.item = [k |-> "exc", n |-> 0], !.nxt = "eod"]
                     ELSE [rt EXCEPT !.pc = "eod"]
            /\ obs' = [obs EXCEPT !.fdOpen = IF cfg.fd THEN @ ELSE FALSE]     \* Decompressor::close() closes the descriptor it owns
            /\ UNCHANGED <<cfg, expected, inQ, outQ, futs, done, pa, co, clog>>

RTEod == /\ rt.pc = "eod"
         /\ rt' = [rt EXCEPT !.pc = "pchk", !.item = [k |-> "eod", n |-> 0], !.nxt = "done"]
         /\ UNCHANGED <<cfg, expected, inQ, outQ, futs, done, pa, co, clog, obs>>

RTPushChk == /\ rt.pc = "pchk"                                   \* Queue::push: if (!m_in_use) return;
             /\ rt' = [rt EXCEPT !.pc = IF inQ.inUse THEN "penq" ELSE rt.nxt]
             /\ UNCHANGED <<cfg, expected, inQ, outQ, futs, done, pa, co, clog, obs>>

RTPushEnq == /\ rt.pc = "penq" /\ Len(inQ.items) < cfg.maxIn     \* wait for space, enqueue (no second look at the flag)
             /\ inQ' = [inQ EXCEPT !.items = Append(@, rt.item)]
             /\ rt' = [rt EXCEPT !.pc = rt.nxt]
             /\ UNCHANGED <<cfg, expected, outQ, futs, done, pa, co, clog, obs>>

RTNext == RTCheck \/ RTRead \/ RTDClose \/ RTEod \/ RTPushChk \/ RTPushEnq

(* ---- parser thread: Parser::parse around a format's run() ---- *)
NewFut(f) == futs' = Append(futs, f)
SetHdrX(v, closefd) == obs' = [obs EXCEPT !.hdrSets = @ + (IF pa.hdr = "unset" THEN 1 ELSE 0),
                                            !.fdOpen = IF closefd THEN FALSE ELSE @]
SetHdr(v) == SetHdrX(v, FALSE)
HdrAfter(v) == IF pa.hdr = "unset" THEN v ELSE pa.hdr

(* end of input: the real PBF parser (hdrblk) fails when the input ends before the OSMHeader blob - that only happens
   when the read thread was stopped before its first read.  Fault "end": the input is incomplete for its format (an XML
   document without its closing tags), which the parser can only find out - and must report - when it is told that the
   input has ended. *)
InputEnd == IF (cfg.hdrblk /\ ~cfg.fd /\ pa.n = 0) \/ cfg.fault.k = "end" THEN "fail" ELSE "end"

PGet == /\ pa.pc = "get"                                         \* input_done() / queue_wrapper::pop: in_use()?
        /\ pa' = [pa EXCEPT !.pc = IF inQ.inUse THEN "wait" ELSE InputEnd]
        /\ UNCHANGED <<cfg, expected, inQ, outQ, futs, done, rt, co, clog, obs>>

PWait == /\ pa.pc = "wait" /\ (inQ.items # <<>> \/ ~inQ.inUse)
         /\ IF inQ.items = <<>> THEN /\ pa' = [pa EXCEPT !.pc = InputEnd] /\ inQ' = inQ
            ELSE LET h == Head(inQ.items) IN
                 CASE h.k = "data" -> /\ inQ' = [inQ EXCEPT !.items = Tail(@)]
                                      /\ pa' = [pa EXCEPT !.pc = "parse", !.n = h.n]
                   [] h.k = "exc"  -> /\ inQ' = [inQ EXCEPT !.items = Tail(@)]
                                      /\ pa' = [pa EXCEPT !.pc = "fail"]
                   [] h.k = "eod"  -> /\ inQ' = [inQ EXCEPT !.items = Tail(@)]    \* pop() shuts the queue down at the end marker
                                      /\ pa' = [pa EXCEPT !.pc = "sd0", !.nxt = InputEnd]
         /\ UNCHANGED <<cfg, expected, outQ, futs, done, rt, co, clog, obs>>

(* 'fd' mode (PBF): the parser reads the next blob from the descriptor itself *)
PFdRead == /\ pa.pc = "fdread"
           /\ LET m == pa.n + 1 IN
              /\ obs' = [obs EXCEPT !.pLate = @ + (IF ~outQ.inUse THEN 1 ELSE 0)]   \* blob reads begun after the output queue was shut down
              /\ pa' = IF cfg.fault.k = "read" /\ cfg.fault.at = m THEN [pa EXCEPT !.pc = "fail"]
                       ELSE IF m <= cfg.n THEN [pa EXCEPT !.pc = "parse", !.n = m]
                       ELSE [pa EXCEPT !.pc = IF cfg.fault.k = "end" THEN "fail" ELSE "end"]
           /\ UNCHANGED <<cfg, expected, inQ, outQ, futs, done, rt, co, clog>>

PParse == /\ pa.pc = "parse"
          /\ LET m == pa.n
                 f == cfg.fault IN
             IF f.k = "parse" /\ f.at = m /\ f.pre
             THEN /\ pa' = [pa EXCEPT !.pc = "fail"] /\ UNCHANGED <<futs, obs>>
             ELSE /\ SetHdr("val")
                  /\ IF f.k = "parse" /\ f.at = m
                     THEN /\ pa' = [pa EXCEPT !.pc = "fail", !.hdr = HdrAfter("val")] /\ futs' = futs
                     ELSE IF cfg.hdrblk /\ m = 1                            \* PBF: the OSMHeader blob yields the header and no data
                     THEN /\ pa' = [pa EXCEPT !.pc = IF cfg.fd THEN "fdread" ELSE "get", !.hdr = HdrAfter("val")] /\ futs' = futs
                     ELSE /\ NewFut([k |-> "blk", n |-> m, ready |-> ~cfg.pool, fail |-> (f.k = "work" /\ f.at = m)])
                          /\ pa' = [pa EXCEPT !.pc = "pchk", !.hdr = HdrAfter("val"), !.item = Len(futs) + 1,
                                              !.nxt = IF cfg.fd THEN "fdnext" ELSE IF cfg.hdrblk THEN "qnext" ELSE "get"]
          /\ UNCHANGED <<cfg, expected, inQ, outQ, done, rt, co, clog>>

(* fd mode after the F6 repair: the blob loop ends when the output queue has been shut down *)
PFdNext == /\ pa.pc = "fdnext"
           /\ pa' = [pa EXCEPT !.pc = IF outQ.inUse \/ ~cfg.fdstop THEN "fdread" ELSE "end"]
           /\ UNCHANGED <<cfg, expected, inQ, outQ, futs, done, rt, co, clog, obs>>

(* the real PBF parser leaves its blob loop when the output queue has been shut down - also when its data arrives
   through the input queue (hdrblk marks the real PBF parser) *)
PQNext == /\ pa.pc = "qnext"
          /\ pa' = [pa EXCEPT !.pc = IF outQ.inUse THEN "get" ELSE "end"]
          /\ UNCHANGED <<cfg, expected, inQ, outQ, futs, done, rt, co, clog, obs>>

PEnd == /\ pa.pc = "end"                                          \* run() returned normally
        /\ SetHdrX("val", cfg.fd)                                    \* PBFParser::run closes the descriptor at its normal end
        /\ pa' = [pa EXCEPT !.pc = "eod", !.hdr = HdrAfter("val")]
        /\ UNCHANGED <<cfg, expected, inQ, outQ, futs, done, rt, co, clog>>

PFail == /\ pa.pc = "fail"                                        \* catch (...) in Parser::parse
         /\ SetHdr("exc")
         /\ NewFut([k |-> "exc", n |-> 0, ready |-> TRUE, fail |-> FALSE])
         /\ pa' = [pa EXCEPT !.pc = "pchk", !.hdr = HdrAfter("exc"), !.item = Len(futs) + 1, !.nxt = "eod"]
         /\ UNCHANGED <<cfg, expected, inQ, outQ, done, rt, co, clog>>

PEod == /\ pa.pc = "eod"
        /\ NewFut([k |-> "eod", n |-> 0, ready |-> TRUE, fail |-> FALSE])
        /\ pa' = [pa EXCEPT !.pc = "pchk", !.item = Len(futs) + 1, !.nxt = "dtor"]
        /\ UNCHANGED <<cfg, expected, inQ, outQ, done, rt, co, clog, obs>>

PPushChk == /\ pa.pc = "pchk"
            /\ pa' = [pa EXCEPT !.pc = IF outQ.inUse THEN "penq" ELSE pa.nxt]
            /\ UNCHANGED <<cfg, expected, inQ, outQ, futs, done, rt, co, clog, obs>>

PPushEnq == /\ pa.pc = "penq" /\ Len(outQ.items) < cfg.maxOut
            /\ outQ' = [outQ EXCEPT !.items = Append(@, pa.item)]
            /\ pa' = [pa EXCEPT !.pc = pa.nxt]
            /\ UNCHANGED <<cfg, expected, inQ, futs, done, rt, co, clog, obs>>

PDtor == /\ pa.pc = "dtor"                                        \* ~Parser -> ~queue_wrapper -> shutdown of the input queue
         /\ pa' = [pa EXCEPT !.pc = "sd0", !.nxt = "done"]
         /\ obs' = [obs EXCEPT !.fdOpen = IF cfg.fd THEN FALSE ELSE @]        \* ~PBFParser closes it if run() left by exception (F11)
         /\ UNCHANGED <<cfg, expected, inQ, outQ, futs, done, rt, co, clog>>

(* Queue::shutdown of the input queue: store the flag, then (under the lock) drain *)
PShut0 == /\ pa.pc = "sd0"
          /\ inQ' = [inQ EXCEPT !.inUse = FALSE]
          /\ pa' = [pa EXCEPT !.pc = "sd1"]
          /\ UNCHANGED <<cfg, expected, outQ, futs, done, rt, co, clog, obs>>
PShut1 == /\ pa.pc = "sd1"
          /\ inQ' = [inQ EXCEPT !.items = <<>>]
          /\ pa' = [pa EXCEPT !.pc = pa.nxt]
          /\ UNCHANGED <<cfg, expected, outQ, futs, done, rt, co, clog, obs>>

PNext == PGet \/ PWait \/ PFdRead \/ PParse \/ PFdNext \/ PQNext \/ PEnd \/ PFail \/ PEod \/ PPushChk \/ PPushEnq \/ PDtor \/ PShut0 \/ PShut1

(* ---- pool workers: complete pending futures in any order ---- *)
Worker == /\ \E f \in 1..Len(futs) :
               /\ ~futs[f].ready
               /\ futs' = [futs EXCEPT ![f] = [@ EXCEPT !.ready = TRUE, !.k = IF futs[f].fail THEN "exc" ELSE futs[f].k]]
          /\ UNCHANGED <<cfg, expected, inQ, outQ, done, rt, pa, co, clog, obs>>

(* ---- consumer: Reader::header / read / close / ~Reader ---- *)
IsData(entry) == entry \notin {"hdr", "exc-state", "exc-pipe", "eod", "closed", "destroyed"}
Ret(entry, co2) == /\ clog' = Append(clog, entry)
                   /\ co' = [co2 EXCEPT !.pc = "idle",
                                        !.i = IF co.i <= Len(cfg.script) /\ cfg.script[co.i] = "readall" /\ IsData(entry)
                                              THEN co.i ELSE co.i + 1]

CStart == /\ co.pc = "idle"
          /\ IF co.i > Len(cfg.script)
             THEN /\ co' = [co EXCEPT !.pc = "c0", !.ret = "djoin"] /\ clog' = clog          \* ~Reader: close() first
             ELSE LET op == cfg.script[co.i] IN
                  CASE op = "header" ->
                         IF co.status = "error" THEN Ret("exc-state", co)
                         ELSE IF ~co.hdrValid THEN Ret("hdr", co)
                         ELSE /\ co' = [co EXCEPT !.pc = "hget"] /\ clog' = clog
                    [] op \in {"read", "readall"} ->
                         IF co.back # <<>> THEN Ret(Head(co.back), [co EXCEPT !.back = Tail(@)])
                         ELSE IF co.status # "okay" THEN Ret("exc-state", co)
                         ELSE /\ co' = [co EXCEPT !.pc = "rchk"] /\ clog' = clog
                    [] op = "close" -> /\ co' = [co EXCEPT !.pc = "c0", !.ret = "closeret"] /\ clog' = clog
          /\ UNCHANGED <<cfg, expected, inQ, outQ, futs, done, rt, pa, obs>>

CHGet == /\ co.pc = "hget" /\ pa.hdr # "unset"                     \* m_header_future.get()
         /\ IF pa.hdr = "val" THEN Ret("hdr", [co EXCEPT !.hdrValid = FALSE])
            ELSE /\ co' = [co EXCEPT !.pc = "c0", !.ret = "herr", !.hdrValid = FALSE] /\ clog' = clog
         /\ UNCHANGED <<cfg, expected, inQ, outQ, futs, done, rt, pa, obs>>

CRChk == /\ co.pc = "rchk"                                         \* queue_wrapper::pop: in_use()?
         /\ co' = [co EXCEPT !.pc = IF outQ.inUse THEN "rwait" ELSE "reod"]
         /\ UNCHANGED <<cfg, expected, inQ, outQ, futs, done, rt, pa, clog, obs>>

CRWait == /\ co.pc = "rwait" /\ (outQ.items # <<>> \/ ~outQ.inUse)  \* wait_and_pop
          /\ IF outQ.items = <<>> THEN /\ co' = [co EXCEPT !.pc = "reod"] /\ outQ' = outQ
             ELSE /\ co' = [co EXCEPT !.pc = "rget", !.cur = Head(outQ.items)]
                  /\ outQ' = [outQ EXCEPT !.items = Tail(@)]
          /\ UNCHANGED <<cfg, expected, inQ, futs, done, rt, pa, clog, obs>>

CRGet == /\ co.pc = "rget" /\ futs[co.cur].ready                    \* future.get()
         /\ LET f == futs[co.cur] IN
            CASE f.k = "blk" ->
                   /\ outQ' = outQ
                   /\ IF Nest(cfg, f.n) = 0 THEN /\ co' = [co EXCEPT !.pc = "rchk"] /\ clog' = clog      \* committed() == 0: next
                      ELSE Ret(BufName(f.n, 1), [co EXCEPT !.back = [s \in 1..(Nest(cfg, f.n) - 1) |-> BufName(f.n, s + 1)]])
              [] f.k = "exc" -> /\ co' = [co EXCEPT !.pc = "c0", !.ret = "rerr"] /\ clog' = clog /\ outQ' = outQ
              [] f.k = "eod" -> /\ outQ' = outQ /\ co' = [co EXCEPT !.pc = "e1"] /\ clog' = clog   \* pop() shuts the queue down
         /\ UNCHANGED <<cfg, expected, inQ, futs, done, rt, pa, obs>>

CEod1 == /\ co.pc = "e1"
         /\ outQ' = [outQ EXCEPT !.inUse = FALSE]
         /\ co' = [co EXCEPT !.pc = "e2"]
         /\ UNCHANGED <<cfg, expected, inQ, futs, done, rt, pa, clog, obs>>
CEod2 == /\ co.pc = "e2"
         /\ outQ' = [outQ EXCEPT !.items = <<>>]
         /\ co' = [co EXCEPT !.pc = "reod"]
         /\ UNCHANGED <<cfg, expected, inQ, futs, done, rt, pa, clog, obs>>

CREod == /\ co.pc = "reod"                                          \* m_status = eof; m_read_thread_manager.close()
         /\ co' = [co EXCEPT !.pc = "rjoin", !.status = "eof"]
         /\ done' = TRUE
         /\ UNCHANGED <<cfg, expected, inQ, outQ, futs, rt, pa, clog, obs>>

CRJoin == /\ co.pc = "rjoin" /\ rt.pc = "done"
          /\ Ret("eod", co)
          /\ UNCHANGED <<cfg, expected, inQ, outQ, futs, done, rt, pa, obs>>

(* close(): m_status = closed; stop(); osmdata queue shutdown (store, drain); join the read thread *)
CClose0 == /\ co.pc = "c0"
           /\ co' = [co EXCEPT !.pc = "c1", !.status = "closed", !.closeCalled = TRUE]
           /\ done' = TRUE
           /\ UNCHANGED <<cfg, expected, inQ, outQ, futs, rt, pa, clog, obs>>
CClose1 == /\ co.pc = "c1"
           /\ outQ' = [outQ EXCEPT !.inUse = FALSE]
           /\ co' = [co EXCEPT !.pc = "c2"]
           /\ UNCHANGED <<cfg, expected, inQ, futs, done, rt, pa, clog, obs>>
CClose2 == /\ co.pc = "c2"
           /\ outQ' = [outQ EXCEPT !.items = <<>>]
           /\ co' = [co EXCEPT !.pc = "c3"]
           /\ UNCHANGED <<cfg, expected, inQ, futs, done, rt, pa, clog, obs>>
CClose3 == /\ co.pc = "c3" /\ rt.pc = "done"
           /\ CASE co.ret = "closeret" -> Ret("closed", [co EXCEPT !.closeReturned = TRUE])
                [] co.ret \in {"herr", "rerr"} -> Ret("exc-pipe", [co EXCEPT !.closeReturned = TRUE, !.status = "error"])
                [] co.ret = "djoin" -> /\ co' = [co EXCEPT !.pc = "djoin", !.closeReturned = TRUE] /\ clog' = clog
           /\ UNCHANGED <<cfg, expected, inQ, outQ, futs, done, rt, pa, obs>>
(* members are destroyed in reverse order: ~thread_handler joins the parser thread, ~queue_wrapper shuts the
   (already shut down) osmdata queue down once more, ~ReadThreadManager joins again, ~Decompressor *)
CDJoin == /\ co.pc = "djoin" /\ pa.pc = "done"
          /\ co' = [co EXCEPT !.pc = "ds0"]
          /\ UNCHANGED <<cfg, expected, inQ, outQ, futs, done, rt, pa, clog, obs>>
CDtor0 == /\ co.pc = "ds0"
          /\ outQ' = [outQ EXCEPT !.inUse = FALSE]
          /\ co' = [co EXCEPT !.pc = "ds1"]
          /\ UNCHANGED <<cfg, expected, inQ, futs, done, rt, pa, clog, obs>>
CDtor1 == /\ co.pc = "ds1"
          /\ outQ' = [outQ EXCEPT !.items = <<>>]
          /\ co' = [co EXCEPT !.pc = "dfin"]
          /\ UNCHANGED <<cfg, expected, inQ, futs, done, rt, pa, clog, obs>>
CDFin == /\ co.pc = "dfin" /\ rt.pc = "done"
         /\ clog' = Append(clog, "destroyed")
         /\ co' = [co EXCEPT !.pc = "gone"]
         /\ obs' = [obs EXCEPT !.fdOpen = IF cfg.fd THEN @ ELSE FALSE]       \* ~Decompressor closes a descriptor still open
         /\ UNCHANGED <<cfg, expected, inQ, outQ, futs, done, rt, pa>>

CNext == CStart \/ CHGet \/ CRChk \/ CRWait \/ CRGet \/ CEod1 \/ CEod2 \/ CREod \/ CRJoin \/ CClose0 \/ CClose1 \/ CClose2 \/ CClose3 \/ CDJoin \/ CDtor0 \/ CDtor1 \/ CDFin

AllDone == co.pc = "gone" /\ rt.pc = "done" /\ pa.pc = "done"
Finished == AllDone /\ \A f \in 1..Len(futs) : futs[f].ready /\ UNCHANGED vars

Next == RTNext \/ PNext \/ Worker \/ CNext \/ Finished
Spec == Init /\ [][Next]_vars
FairSpec == Spec /\ WF_vars(RTNext) /\ WF_vars(PNext) /\ WF_vars(Worker) /\ WF_vars(CNext)

-----------------------------------------------------------------------------
(* Properties *)

IsPrefix(s, t) == Len(s) <= Len(t) /\ \A i \in 1..Len(s) : s[i] = t[i]

(* C05 + C07 safety: what the caller sees is the function of (file, fault, script), under every schedule *)
LogIsExpected == /\ IsPrefix(clog, expected)
                 /\ co.pc = "gone" => clog = expected
(* C07: a closed Reader reads nothing more from its input (at most the read already decided on) *)
NoReadAfterClose == /\ obs.lateReads <= 1 /\ obs.afterReturn = 0
                    /\ (cfg.fdstop => obs.pLate <= IF cfg.hdrblk THEN 2 ELSE 1)    \* PBF: the header blob and the first data blob
                                                                                 \* are read before the first look at the queue
(* header promise satisfied exactly once *)
HeaderOnce == /\ obs.hdrSets <= 1
              /\ pa.pc = "done" => obs.hdrSets = 1
              /\ (pa.hdr = "unset") = (obs.hdrSets = 0)
(* when the Reader is gone all its threads are gone *)
NoThreadLeft == co.pc = "gone" => rt.pc = "done" /\ pa.pc = "done"
NoFdLeft == co.pc = "gone" => ~obs.fdOpen
QueueBounds == Len(inQ.items) <= cfg.maxIn /\ Len(outQ.items) <= cfg.maxOut

Termination == <>AllDone
=============================================================================
