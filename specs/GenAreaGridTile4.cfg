SPECIFICATION Spec
CONSTANTS
  G = 4
  MaxRings = 2
  Drawings = 2
  Kinds = {"kite", "dia", "diaD", "rect", "tri"}
  MutSeq <- MutNone
  ModeSeq <- ModeTile
  MaxSegs = 14
  Styles = {"long", "mixed", "mid"}
  RolePats <- AllRolePats
  Theorems = FALSE
  Tiles = TRUE
INVARIANTS Export
CHECK_DEADLOCK FALSE
