SPECIFICATION Spec
CONSTANTS
  Cap0 = 16
  Kinds <- KindsBlocks
  GCMin = 10000
  JStar = 865
  MaxBlocks = 40
  MaxSteps = 46
  MaxClears = 0
  MaxGCs = 0
  ExportHist = TRUE
INVARIANTS Refines Export
CHECK_DEADLOCK FALSE
