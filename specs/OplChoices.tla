------------------------------ MODULE OplChoices ------------------------------
(* C02, OPL.  I-layer: the choices of a producer as encoder actions, fused with a decoder shaped like
   opl_parse_line() / opl_parse_node|way|relation() (field dispatch by the first letter, every field at
   most once, in any order) and line_by_line() (LF, CRLF and CR end a line, empty lines and '#' lines are
   skipped, the last line needs no line end).

   Semantic choices: for every object which fields that have their default value are written (v0, dV, c0,
   t, i0, u, T, N, M, x y) or left out; empty lines and comment lines anywhere.
   Labels (Full = TRUE): order of the fields of a line, separators (one blank, several, tab, mixed), blank
   at the end of a line, line end, last line end, spelling of %-escapes, number notation.  *)
EXTENDS Encodings
CONSTANTS DSNames, MaxExtra, Full, ExportHist
VARIABLES ds, pc, i, nextra, decoded, hist
vars == <<ds, pc, i, nextra, decoded, hist>>

D == Data(ds)
LabS(S, d) == IF Full THEN S ELSE {d}
Rec(step) == hist' = IF ExportHist THEN Append(hist, step) ELSE hist

\* opl_parse_*: start from a default object, every field that is present overwrites its part
Decode(o, omit) ==
    Obj(o.t, o.id,
        IF "v" \in omit THEN 0 ELSE o.v, IF "d" \in omit THEN TRUE ELSE o.vis,
        IF "c" \in omit THEN 0 ELSE o.cs, IF "t" \in omit THEN 0 ELSE o.ts,
        IF "i" \in omit THEN 0 ELSE o.uid, IF "u" \in omit THEN "" ELSE o.user,
        IF "x" \in omit THEN NoCoord ELSE o.lon, IF "x" \in omit THEN NoCoord ELSE o.lat,
        IF "T" \in omit THEN <<>> ELSE o.tags, IF "N" \in omit THEN <<>> ELSE o.refs, IF "M" \in omit THEN <<>> ELSE o.mems)

Init == /\ ds \in DSNames /\ pc = "style1" /\ i = 1 /\ nextra = 0 /\ decoded = <<>> /\ hist = <<>>

Style1 == /\ pc = "style1"
          /\ \E nl \in LabS({"lf", "crlf", "cr"}, "lf"), sep \in LabS({"sp", "sp2", "tab", "mix"}, "sp"), trail \in LabS(BOOLEAN, FALSE),
                finalnl \in LabS(BOOLEAN, TRUE) :
                Rec([a |-> "style", nl |-> nl, sep |-> sep, trail |-> trail, finalnl |-> finalnl])
          /\ pc' = "style2" /\ UNCHANGED <<ds, i, nextra, decoded>>
Style2 == /\ pc = "style2"
          /\ \E esc \in LabS({"std", "min", "upper", "wide", "over", "overmin"}, "std"), coord \in LabS({"fix", "min", "long"}, "fix") :
                Rec([a |-> "style", esc |-> esc, coord |-> coord])
          /\ pc' = "body" /\ UNCHANGED <<ds, i, nextra, decoded>>

Extra(kind) == /\ pc = "body" /\ nextra < MaxExtra
               /\ nextra' = nextra + 1 /\ Rec([a |-> kind])
               /\ UNCHANGED <<ds, pc, i, decoded>>

Line == /\ pc = "body" /\ i <= Len(D)
        /\ \E omit \in SUBSET DefaultFields(D[i]), order \in LabS({"canon", "rev", "rot", "swap"}, "canon") :
              /\ decoded' = Append(decoded, Decode(D[i], omit))
              /\ Rec([a |-> "obj", i |-> i - 1, omit |-> SetToSeq(omit), order |-> order])
        /\ i' = i + 1 /\ UNCHANGED <<ds, pc, nextra>>

Finish == /\ pc = "body" /\ i > Len(D)
          /\ pc' = "done" /\ UNCHANGED <<ds, i, nextra, decoded, hist>>

Next == Style1 \/ Style2 \/ (\E k \in {"empty", "comment"} : Extra(k)) \/ Line \/ Finish
Spec == Init /\ [][Next]_vars

DecodedOK == /\ IsPrefix(decoded, D)
             /\ pc = "done" => decoded = D
             /\ Len(decoded) = i - 1
Export == pc = "done" => PrintT(<<"CASE", ToJson([fmt |-> "opl", ds |-> ds, steps |-> hist, exp |-> decoded])>>)
=============================================================================
