SPECIFICATION Spec
CONSTANTS
  RelIds <- RelIds2
  Refs <- Refs2
  MaxMembers = 3
  Stream <- Stream2
  TypesWanted <- AllTypes
  ExportHist = FALSE
INVARIANT Inv
CHECK_DEADLOCK FALSE
