SPECIFICATION Spec
CONSTANTS
  Caps = {64, 144}
  Modes = {"yes", "internal"}
  Kinds = {"node"}
  ULens = {0}
  TagLens <- TagLens1
  RoleLens = {0}
  Pres = {0, 1}
  Wraps = {FALSE}
  CbMaxs = {0}
  MaxObjects = 3
  MaxElems = 0
  MaxSubs = 0
  MaxSteps = 6
  Ops <- BufferOps
  Script <- NoScript
  ExportHist = FALSE
INVARIANT Inv
PROPERTY CommittedStable
PROPERTY PurgeExact
CHECK_DEADLOCK FALSE
