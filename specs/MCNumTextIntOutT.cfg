SPECIFICATION Spec
CONSTANTS
  Mode = "out"
  Alphabet = {}
  MaxLen = 0
  Level = 1
  FixMin = TRUE
  DoExport = TRUE
INVARIANTS NoOverflow BufferOK OutIimpliesA OutRoundTrip Export
CHECK_DEADLOCK FALSE
