\* the algorithm BEFORE the F2/F3 repairs: TLC must report a violation of Correct (vacuity guard)
\* constants scaled down: R = libbz2's read block (5000 in reality), B = piece size (input_buffer_size / 10240)
CONSTANTS
  Kind = "gzbuf"
  Algo = "legacy"
  R = 3
  B = 2
  MaxStreams = 2
  CLens = {3,4,5}
  ULens = {0,1,2,3,4}
  Faults = {"none","trunc"}
  WChunks = {}
  MaxWrites = 0
  ExportHist = FALSE
SPECIFICATION Spec
INVARIANTS
  TypeOK
  PrefixInv
  OffsetInv
  Correct
  RoundTrip
  LenientOnly
  Bounded
CHECK_DEADLOCK TRUE
