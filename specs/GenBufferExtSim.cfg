SPECIFICATION Spec
CONSTANTS
  Caps <- CapsAll
  Modes = {"yes", "internal"}
  Kinds = {"node", "way", "relation", "area"}
  ULens = {0, 5, 6, 14, 60}
  TagLens <- TagLens2
  RoleLens = {0, 7, 8}
  Pres = {0, 1}
  Wraps = {FALSE}
  CbMaxs = {0}
  MaxObjects = 6
  MaxElems = 3
  MaxSubs = 5
  MaxSteps = 36
  Ops <- BuilderOps
  Script <- NoScript
  ExportHist = TRUE
INVARIANT Export
INVARIANT Inv
CHECK_DEADLOCK FALSE
