SPECIFICATION FairSpec
CONSTANTS
  Threads <- PThreads
  Kind <- PKind
  Script <- PScript
  Max = 1
  Throwing <- PThrowing
PROPERTY Termination
CHECK_DEADLOCK FALSE
