SPECIFICATION SpecLaws
CONSTANTS IdMax = 4
  LawIds <- LawIdsSmall
  LawTypes = {1, 2}
  NVersions = 2
  SeqLen = 0
  SeqVersions = {1}
INVARIANT LawsInv
CHECK_DEADLOCK FALSE
