------------------------------ MODULE GeomNum ------------------------------
(* C17, textual numbers.  osmium::double2string(iterator, value, precision) as used by
   Coordinates::append_to_string() for WKT and GeoJSON.

   The value domain is the set of doubles with an exact, short decimal expansion: v = +-(ip + f8/8),
   ip a natural number up to 2^28, f8 in 0..7 (TLC has neither reals nor 64 bit integers).  For these
   the result of snprintf("%.*f") is fully determined by IEEE-754/C99 (exact value, round-half-even at a
   tie) and can be written down with integers.

   I-layer: the function as written - snprintf into the buffer (Format), the loop removing '0' characters
   from the end (TrimZero), the removal of a trailing '.' (TrimDot), copy_n (Copy).  The trimming only
   happens when the text contains a decimal point, and the buffer holds the whole text (BufLen unbounded).
   A-layer (Exact): the text is a plain decimal number with at most P digits after the point whose value is
   within half a unit of the P-th digit of v (equal to v when v has at most P digits), with v's sign unless
   the text value is zero. *)
EXTENDS Integers, Sequences, TLC, Json
CONSTANTS IntParts,    \* integer parts of the values
          MaxPrec,     \* precisions 0..MaxPrec
          ExportHist
VARIABLES ph,          \* "start" | "trim" | "copy" | "done"
          v, P,        \* the arguments
          buf, len,    \* char buffer[...] and int len
          out

vars == <<ph, v, P, buf, len, out>>
Dig == <<"0", "1", "2", "3", "4", "5", "6", "7", "8", "9">>
DigitVal(c) == CHOOSE d \in 0..9 : Dig[d + 1] = c
IsDigit(c) == \E d \in 0..9 : Dig[d + 1] = c
RECURSIVE Dec(_)
Dec(n) == IF n < 10 THEN <<Dig[n + 1]>> ELSE Append(Dec(n \div 10), Dig[(n % 10) + 1])
RECURSIVE Pow10(_)
Pow10(n) == IF n = 0 THEN 1 ELSE 10 * Pow10(n - 1)
Zeros(n) == [k \in 1..n |-> "0"]
Pad(s, n) == Zeros(n - Len(s)) \o s

\* snprintf("%.*f", P, v) for v = +-(ip + f8/8)
Raw(val, p) ==
    LET f == val.f8 * 125                               \* fraction in thousandths
        unit == IF p < 3 THEN Pow10(3 - p) ELSE 1
        q == f \div unit
        rem == f % unit
        par == IF p = 0 THEN val.ip ELSE q
        up == p < 3 /\ (2 * rem > unit \/ (2 * rem = unit /\ par % 2 = 1))       \* round half to even
        q2 == IF up THEN q + 1 ELSE q
        carry == p < 3 /\ q2 = Pow10(p)
        ip2 == IF carry THEN val.ip + 1 ELSE val.ip
        q3 == IF carry THEN 0 ELSE q2
        frac == IF p = 0 THEN <<>> ELSE IF p < 3 THEN Pad(Dec(q3), p) ELSE Pad(Dec(f), 3) \o Zeros(p - 3)
    IN (IF val.neg THEN <<"-">> ELSE <<>>) \o Dec(ip2) \o (IF p = 0 THEN <<>> ELSE <<".">> \o frac)

HasDot(s, n) == \E k \in 1..n : s[k] = "."

Init == /\ ph = "start" /\ P \in 0..MaxPrec
        /\ v \in [neg : BOOLEAN, ip : IntParts, f8 : 0..7]
        /\ buf = <<>> /\ len = 0 /\ out = <<>>
Format == /\ ph = "start" /\ buf' = Raw(v, P) /\ len' = Len(Raw(v, P)) /\ ph' = "trim" /\ UNCHANGED <<v, P, out>>
TrimZero == /\ ph = "trim" /\ HasDot(buf, len) /\ buf[len] = "0"
            /\ len' = len - 1 /\ UNCHANGED <<ph, v, P, buf, out>>
TrimDot == /\ ph = "trim" /\ HasDot(buf, len) /\ buf[len] = "."
           /\ len' = len - 1 /\ ph' = "copy" /\ UNCHANGED <<v, P, buf, out>>
NoTrim == /\ ph = "trim" /\ (~HasDot(buf, len) \/ buf[len] \notin {"0", "."})
          /\ ph' = "copy" /\ UNCHANGED <<v, P, buf, len, out>>
Copy == /\ ph = "copy" /\ out' = SubSeq(buf, 1, len) /\ ph' = "done" /\ UNCHANGED <<v, P, buf, len>>
Next == Format \/ TrimZero \/ TrimDot \/ NoTrim \/ Copy
Spec == Init /\ [][Next]_vars

\* ------------------------------------------------------------------ A-layer
Body(s) == IF Len(s) > 0 /\ s[1] = "-" THEN SubSeq(s, 2, Len(s)) ELSE s
DotPos(s) == IF \E k \in 1..Len(s) : s[k] = "." THEN CHOOSE k \in 1..Len(s) : s[k] = "." ELSE Len(s) + 1
IntDigits(s) == SubSeq(Body(s), 1, DotPos(Body(s)) - 1)
FracDigits(s) == SubSeq(Body(s), DotPos(Body(s)) + 1, Len(Body(s)))
RECURSIVE NumVal(_)
NumVal(d) == IF Len(d) = 0 THEN 0 ELSE 10 * NumVal(SubSeq(d, 1, Len(d) - 1)) + DigitVal(d[Len(d)])
WellFormed(s) == LET b == Body(s) ii == IntDigits(s) ff == FracDigits(s)
                 IN /\ Len(ii) >= 1 /\ \A k \in 1..Len(ii) : IsDigit(ii[k])
                    /\ (Len(ii) > 1 => ii[1] # "0")
                    /\ \A k \in 1..Len(ff) : IsDigit(ff[k])
                    /\ (DotPos(b) <= Len(b) => Len(ff) >= 1)               \* no dangling '.'
                    /\ (Len(ff) >= 1 => ff[Len(ff)] # "0")                 \* superfluous zeros removed
IsZeroText(s) == \A k \in 1..Len(Body(s)) : Body(s)[k] \in {"0", "."}
Exact(s, val, p) ==
    LET ii == IntDigits(s) ff == FracDigits(s) nd == Len(ff)
    IN /\ WellFormed(s)
       /\ nd <= p
       /\ ((s[1] = "-") <=> val.neg) \/ IsZeroText(s)
       /\ IF p >= 3 THEN /\ NumVal(ii) = val.ip /\ nd <= 3 /\ NumVal(ff) * Pow10(3 - nd) = val.f8 * 125
          ELSE LET diff == (NumVal(ii) - val.ip) * 1000 + NumVal(ff) * Pow10(3 - nd) - val.f8 * 125
               IN 2 * diff <= Pow10(3 - p) /\ 2 * diff >= -Pow10(3 - p)
Correct == ph = "done" => Exact(out, v, P)
TypeOK == ph \in {"start", "trim", "copy", "done"} /\ len \in 0..Len(buf)
Canon(s) == IF IsZeroText(s) THEN Body(s) ELSE s
Export == (ExportHist /\ ph = "done") =>
          PrintT(<<"CASE", ToJson([neg |-> v.neg, ip |-> v.ip, f8 |-> v.f8, prec |-> P, text |-> Canon(out), rawlen |-> Len(buf)])>>)
=============================================================================
