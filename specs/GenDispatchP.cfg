\* C20, quick+thorough: design check and export; all ordered pairs of PairKinds.  Deadlock checking stays on: every behaviour must reach phase "done".
SPECIFICATION Spec
CONSTANTS
  Alphabet <- AlphaSmall
  MaxLen = 2
  HandlerLists <- Pairs
  Containers <- ContPairs
  MaxChunks = 1
INVARIANTS TypeOK Refines NoThrow Export
