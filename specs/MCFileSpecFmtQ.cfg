SPECIFICATION Spec
CONSTANTS
  Ctors <- BothCtors
  NameTokens <- TokQ
  MaxName = 4
  FixedNames <- NamesForFsMid
  FmtTokens <- FTokQ
  MaxFmt = 3
  Heads <- HeadEq
  OptParts <- OptsTwo
  MaxOpts = 1
  AllowNoFs = TRUE
  Setters <- NoneSet
  MaxSetters = 0
  ExportHist = FALSE
INVARIANTS TypeOK Agrees CheckAgrees Bounded Consumed
