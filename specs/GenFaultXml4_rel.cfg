SPECIFICATION Spec
CONSTANTS
  MaxElems = 4
  MaxDepth = 6
  Fixed = TRUE
  ReadTypes = {"n", "w", "r", "c"}
  ExportHist = TRUE
  Vocab = {"osmChange", "modify", "delete", "relation", "member", "tag"}
INVARIANTS TypeOK WellFormedCommitted BuilderDiscipline NoStaleBuilders ObjectMatchesStack Export
CHECK_DEADLOCK FALSE
