\* C20 ext (specs/TagRules.tla), thorough: design check only; TagsFilter, the larger alphabet of: equal / always_true / always_false matchers, made from const char*, std::string, bool and the matcher classes, with and without value matcher and invert; rule lists <= 3 x every single tag of all 49, and the shapes of the export configuration.  Deadlock checking stays on: every behaviour must reach phase "done".
SPECIFICATION Spec
CONSTANTS
  Fams <- OnlyTF
  Alpha <- AlphaEq5
  Shapes <- ShapeCrossT
INVARIANTS TypeOK RefinesRules RefinesIter RefinesRest
