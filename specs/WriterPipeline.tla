--------------------------- MODULE WriterPipeline ---------------------------
(* C08.  The three-party protocol behind osmium::io::Writer:

     user thread --(futures of strings, bounded queue)--> write thread --> compressor --> kernel (disk)
          |  submit                        ^
          +-----> pool workers (encoders) -+   complete the futures later, in any order

   I-layer: one action per step of the code in io/writer.hpp (operator()(Buffer&&), operator()(Item),
   flush, close, ~Writer, do_flush, do_write, do_close, ensure_cleanup), io/detail/write_thread.hpp
   (WriteThread::operator(), ~WriteThread), io/detail/queue_util.hpp (add_to_queue, queue_wrapper::pop /
   shutdown) on top of the queue interface verified in ThreadQueue.tla (C19), and the three compressors
   of io/compression.hpp (NoCompressor), io/gzip_compression.hpp, io/bzip2_compression.hpp, which differ
   exactly where the code differs:
     plain  write-through: the failing kernel write is the one inside Compressor::write
     gzip   buffered by zlib: a kernel write happens at some later gzwrite or only in gzclose_w
            (modelled as: every write may flush any prefix of the pending bytes), gzclose_w closes the
            dup'ed descriptor, then fstat, fsync, close of the original descriptor
     bzip2  libbz2 -> stdio -> kernel: errors surface in BZ2_bzWrite, BZ2_bzWriteClose64 or fclose
   The kernel is the environment `KW`: the first write reaching unit offset fault.at is cut short and
   fails, as does every later one (RLIMIT_FSIZE semantics); fsync / close fail on request.

   A-layer: the *sequential* specification of the Writer as its caller sees it.  Walk(cfg, p) is the log
   of results of the script's calls when the asynchronous failure (if any) is noticed by the poll in
   do_flush of call p (p = 0: never, so that it surfaces in close()); Positions(cfg) are the p that are
   possible at all.  The properties say: under every interleaving of user, pool workers and write
   thread, every queue bound and every buffering choice of the compressor the log the caller sees is one
   of Walk(cfg, p); a close() that returns a size does so only when no fault occurred, the disk holds
   exactly Encode(everything handed in) and the size is the size of the disk file. *)
EXTENDS Integers, Sequences, FiniteSets, TLC

CONSTANTS Configs            \* set of configuration records, one is chosen in Init

VARIABLES cfg,               \* the configuration (never changes)
          allowed,           \* A-layer: {Walk(cfg, p) : p \in Positions(cfg)} (never changes)
          q,                 \* output queue [items (indexes into futs), inUse]
          futs,              \* futures created by the user thread: [k, units, ready, fail]
          us, wt,            \* user thread, write thread (records with pc)
          cs,                \* compressor + kernel: [disk, pend, fds, live, started, size, nw]
          promise,           \* WriteThread::m_promise / Writer::m_write_future: [k, n]
          notif,             \* Writer::m_notification
          clog,              \* results of the user's completed API calls
          obs                \* observers: [gets, faulted, syncx]

vars == <<cfg, allowed, q, futs, us, wt, cs, promise, notif, clog, obs>>

DataOps == {"buf", "nul", "item", "big", "flush"}
NoFault == [k |-> "none", at |-> 0]

(* a configuration:
   script  sequence of "buf" (operator()(Buffer&&) with one object), "nul" (operator()(Buffer&&) with a buffer the
           format encodes to nothing, e.g. one that holds only an Area), "item" (operator()(Item)), "big" (an item
           that does not fit into the internal buffer), "flush", "close"; the destructor always follows
   hdr,trl the format writes a header string / a trailer string (XML: both, PBF: header, OPL: none)
   defer   the encoder collects the objects and hands over one block in write_end (PBF with less than a block full)
   comp    "plain" | "gzip" | "bzip2";  fsync  BOOLEAN
   fault   [k, at]: none | write@unit offset | fsync | close@(1: first descriptor closed, 2: second, gzip only)
           | cwrite@n (compressor throws in its n-th write) | cclose (compressor throws in close)
           | epool@n (encoder of block n throws on a pool worker)
           | ehdr | ebuf@n | eend (encoder throws in the user thread in write_header / n-th write_buffer / write_end)
   pool    blocks are encoded by pool workers (their futures become ready later)
   maxQ    bound of the output queue;  cap  items the internal buffer holds
   fdfix   TRUE: compressors close the descriptor on every failure path (the repaired code)
   emptyfix TRUE: a block that would be encoded as the empty string is not handed over (the repaired code);
           FALSE: as shipped, the empty string travels through the queue, where it is the end-of-data marker *)

-----------------------------------------------------------------------------
(* bytes on disk, in units: one unit for header / trailer / gzip-bzip2 framing, two per object *)
HDR == 0
TRL == 9
ZH == -1
ZT == -9
ObjUnits(id) == <<10 * id + 1, 10 * id + 2>>
RECURSIVE EncIds(_)
EncIds(ids) == IF ids = <<>> THEN <<>> ELSE ObjUnits(Head(ids)) \o EncIds(Tail(ids))
Framed(c) == c.comp # "plain"
FrameLen(c) == IF Framed(c) THEN 1 ELSE 0
Encode(c, ids) == (IF Framed(c) THEN <<ZH>> ELSE <<>>) \o (IF c.hdr THEN <<HDR>> ELSE <<>>) \o EncIds(ids)
                  \o (IF c.trl THEN <<TRL>> ELSE <<>>) \o (IF Framed(c) THEN <<ZT>> ELSE <<>>)

RECURSIVE FirstClose(_, _)
FirstClose(s, i) == IF i > Len(s) THEN 0 ELSE IF s[i] = "close" THEN i ELSE FirstClose(s, i + 1)
(* the objects handed to the Writer before its first close() *)
RECURSIVE IdsUpTo(_, _, _)
IdsUpTo(s, i, n) == IF i > n THEN <<>> ELSE (IF s[i] \in {"buf", "item"} THEN <<i>> ELSE <<>>) \o IdsUpTo(s, i + 1, n)
Content(c) == IdsUpTo(c.script, 1, IF FirstClose(c.script, 1) = 0 THEN Len(c.script) ELSE FirstClose(c.script, 1))

-----------------------------------------------------------------------------
(* A-layer: sequential specification.  st = [status, fut, ibuf, hdr, nblk, nchunk, pushed, pok] *)

St0 == [status |-> "okay", fut |-> TRUE, ibuf |-> 0, hdr |-> FALSE, nblk |-> 0, nchunk |-> 0, pushed |-> 0, acc |-> 0, pok |-> FALSE]

(* could the asynchronous fault already have happened when `pushed` units in `nchunk` strings / `nblk` blocks are handed over? *)
MayTrigger(c, st) ==
  /\ st.pushed > 0
  /\ CASE c.fault.k = "write"  -> FrameLen(c) + st.pushed > c.fault.at
       [] c.fault.k = "cwrite" -> st.nchunk >= c.fault.at
       [] c.fault.k = "epool"  -> st.nblk >= c.fault.at
       [] OTHER -> FALSE
(* does future.get() in a close() that handed everything over (st.pushed includes the trailer) throw? *)
HappensAtClose(c, st) ==
  CASE c.fault.k = "write"  -> FrameLen(c) + st.pushed + FrameLen(c) > c.fault.at
    [] c.fault.k = "fsync"  -> c.fsync
    [] c.fault.k = "close"  -> c.fault.at <= (IF c.comp = "gzip" THEN 2 ELSE 1)
    [] c.fault.k = "cwrite" -> st.nchunk >= c.fault.at
    [] c.fault.k = "cclose" -> TRUE
    [] c.fault.k = "epool"  -> st.nblk >= c.fault.at
    [] OTHER -> FALSE

HeaderA(c, st) == IF st.hdr THEN [st |-> st, thrown |-> "none"]
                  ELSE IF c.fault.k = "ehdr" THEN [st |-> st, thrown |-> "sync"]
                  ELSE [st |-> [st EXCEPT !.hdr = TRUE, !.pushed = @ + (IF c.hdr THEN 1 ELSE 0), !.nchunk = @ + (IF c.hdr THEN 1 ELSE 0)],
                        thrown |-> "none"]
BlockA(c, st, nobj) == IF c.defer THEN [st |-> [st EXCEPT !.acc = @ + nobj], thrown |-> "none"]
                       ELSE IF c.fault.k = "ebuf" /\ c.fault.at = st.nblk + 1 THEN [st |-> st, thrown |-> "sync"]
                       ELSE [st |-> [st EXCEPT !.nblk = @ + 1, !.nchunk = @ + 1, !.pushed = @ + 2 * nobj], thrown |-> "none"]
IBufA(c, st) == IF st.ibuf = 0 THEN [st |-> st, thrown |-> "none"]
                ELSE BlockA(c, [st EXCEPT !.ibuf = 0], st.ibuf)
(* do_flush in call i *)
FlushA(c, p, i, st) ==
  LET h == HeaderA(c, st) IN
  IF h.thrown # "none" THEN h
  ELSE IF p = i THEN [st |-> [h.st EXCEPT !.pok = MayTrigger(c, h.st)], thrown |-> "pipe"]
  ELSE IBufA(c, h.st)

DataA(c, p, i, op, st) ==
  CASE op = "flush" -> FlushA(c, p, i, st)
    [] op = "nul"   -> FlushA(c, p, i, st)                  \* nothing to write: no block, no string
    [] op = "buf"   -> LET f == FlushA(c, p, i, st) IN IF f.thrown # "none" THEN f ELSE BlockA(c, f.st, 1)
    [] op = "item"  -> IF st.ibuf < c.cap THEN [st |-> [st EXCEPT !.ibuf = @ + 1], thrown |-> "none"]
                       ELSE LET f == FlushA(c, p, i, st) IN
                            IF f.thrown # "none" THEN f ELSE [st |-> [f.st EXCEPT !.ibuf = 1], thrown |-> "none"]
    [] op = "big"   -> LET f == FlushA(c, p, i, st) IN IF f.thrown # "none" THEN f ELSE [st |-> f.st, thrown |-> "sync"]
(* do_close with status okay *)
CloseA(c, st) ==
  LET h == HeaderA(c, st) IN
  IF h.thrown # "none" THEN h
  ELSE LET b == IBufA(c, h.st) IN
       IF b.thrown # "none" THEN b
       ELSE IF c.fault.k = "eend" THEN [st |-> b.st, thrown |-> "sync"]
       ELSE LET d == IF c.defer /\ b.st.acc > 0                                  \* write_end: the collected block
                     THEN [b.st EXCEPT !.nblk = @ + 1, !.nchunk = @ + 1, !.pushed = @ + 2 * b.st.acc, !.acc = 0] ELSE b.st IN
            [st |-> [d EXCEPT !.pushed = @ + (IF c.trl THEN 1 ELSE 0), !.nchunk = @ + (IF c.trl THEN 1 ELSE 0)], thrown |-> "none"]

RECURSIVE Walk(_, _, _, _)
Walk(c, p, i, st) ==
  IF i > Len(c.script) THEN [log |-> <<"destroyed">>, pok |-> st.pok \/ p = 0]
  ELSE LET op == c.script[i]
           Then(x, st2) == LET r == Walk(c, p, i + 1, st2) IN [log |-> <<x>> \o r.log, pok |-> r.pok] IN
    IF op = "close" THEN
         IF st.status = "okay" THEN
              LET r == CloseA(c, st) IN
              IF r.thrown # "none" THEN Then("exc", [r.st EXCEPT !.status = "error"])
              ELSE IF HappensAtClose(c, r.st) THEN Then("exc", [r.st EXCEPT !.status = "closed", !.fut = FALSE])
              ELSE Then("size", [r.st EXCEPT !.status = "closed", !.fut = FALSE])
         ELSE IF st.fut THEN Then("exc", [st EXCEPT !.fut = FALSE])       \* the exception travelled through the queue to the future
         ELSE Then("zero", st)                                               \* named deviation: the future was read before
    ELSE IF st.status # "okay" THEN Then("refused", st)
    ELSE LET r == DataA(c, p, i, op, st) IN
         IF r.thrown = "none" THEN Then("ok", r.st)
         ELSE Then("exc", [r.st EXCEPT !.status = "error", !.fut = IF r.thrown = "pipe" THEN FALSE ELSE @])

(* the blocks (object ids) handed to write_buffer when nothing fails, up to the first close() or user-thread exception *)
RECURSIVE BlocksAt(_, _, _)
BlocksAt(c, i, ibuf) ==
  LET fl == IF ibuf = <<>> THEN <<>> ELSE <<ibuf>> IN
  IF i > Len(c.script) THEN fl
  ELSE LET op == c.script[i] IN
    CASE op = "buf"   -> fl \o <<<<i>>>> \o BlocksAt(c, i + 1, <<>>)
      [] op = "item"  -> IF Len(ibuf) < c.cap THEN BlocksAt(c, i + 1, Append(ibuf, i)) ELSE <<ibuf>> \o BlocksAt(c, i + 1, <<i>>)
      [] op \in {"flush", "nul"} -> fl \o BlocksAt(c, i + 1, <<>>)
      [] OTHER        -> fl
Blocks(c) == IF c.defer THEN <<>> ELSE BlocksAt(c, 1, <<>>)

Positions(c) == {p \in 0..Len(c.script) : Walk(c, p, 1, St0).pok}
Allowed(c) == {Walk(c, p, 1, St0).log : p \in Positions(c)}
(* size of the would-be output (units) when nothing fails; 0 when the fault-free run has no successful close() *)
CleanCfg(c) == [c EXCEPT !.fault = NoFault]
RECURSIVE TotalAt(_, _, _)
TotalAt(c, i, st) ==
  IF i > Len(c.script) THEN 0
  ELSE LET op == c.script[i] IN
    IF op = "close" THEN (IF st.status = "okay" /\ CloseA(c, st).thrown = "none"
                          THEN FrameLen(c) + CloseA(c, st).st.pushed + FrameLen(c) ELSE 0)
    ELSE IF st.status # "okay" THEN TotalAt(c, i + 1, st)
    ELSE LET r == DataA(c, 0, i, op, st) IN
         IF r.thrown = "none" THEN TotalAt(c, i + 1, r.st) ELSE 0
Total(c) == TotalAt(CleanCfg(c), 1, St0)

-----------------------------------------------------------------------------
(* I-layer *)

Init == /\ cfg \in Configs
        /\ allowed = Allowed(cfg)
        /\ q = [items |-> <<>>, inUse |-> TRUE]
        /\ futs = <<>>
        /\ us = [pc |-> "idle", i |-> 1, todo |-> <<>>, status |-> "okay", fut |-> TRUE, ibuf |-> <<>>, hdr |-> FALSE,
                 nblk |-> 0, acc |-> <<>>, push |-> 0, indtor |-> FALSE, size |-> -1]
        /\ wt = [pc |-> "loop", cur |-> 0, nxt |-> "none"]
        /\ cs = [disk |-> <<>>, pend |-> <<>>, fds |-> IF cfg.comp = "gzip" THEN {"fd", "dup"} ELSE {"fd"},
                 live |-> TRUE, started |-> FALSE, size |-> 0, nw |-> 0]
        /\ promise = [k |-> "unset", n |-> 0]
        /\ notif = FALSE
        /\ clog = <<>>
        /\ obs = [gets |-> 0, faulted |-> FALSE, syncx |-> FALSE]

(* ---- user thread ---- *)
FlushOps == (IF ~us.hdr THEN <<"hdr">> ELSE <<>>) \o <<"chk">> \o (IF us.ibuf # <<>> THEN <<"blkI">> ELSE <<>>)
CloseOps == (IF ~us.hdr THEN <<"hdr">> ELSE <<>>) \o (IF us.ibuf # <<>> THEN <<"blkI">> ELSE <<>>) \o <<"end", "closed", "eod">>
Op(x) == us.pc = "run" /\ us.todo # <<>> /\ Head(us.todo) = x
Ret(x, us2) == /\ clog' = Append(clog, x)
               /\ us' = [us2 EXCEPT !.pc = "idle", !.i = us.i + 1, !.todo = <<>>]
Pop(us2) == us' = [us2 EXCEPT !.todo = Tail(us.todo)]
(* an exception inside ensure_cleanup: status = error, the exception and the end marker go into the queue, rethrow *)
Throw(us2) == us' = [us2 EXCEPT !.status = "error",
                                !.todo = <<"xpush", "eod">> \o (IF us.indtor THEN <<"join">> ELSE <<"retexc">>)]
PushNew(f, us2) == /\ futs' = Append(futs, f)
                   /\ us' = [us2 EXCEPT !.pc = "pchk", !.push = Len(futs) + 1]
Fut(k, units, ready, fail) == [k |-> k, units |-> units, ready |-> ready, fail |-> fail]

UCall == /\ us.pc = "idle"
         /\ IF us.i > Len(cfg.script)                                             \* ~Writer: do_close(), exceptions swallowed, join
            THEN /\ us' = [us EXCEPT !.pc = "run", !.indtor = TRUE, !.todo = IF us.status = "okay" THEN CloseOps \o <<"join">> ELSE <<"join">>]
                 /\ clog' = clog
            ELSE LET op == cfg.script[us.i] IN
                 IF op = "close"
                 THEN /\ us' = [us EXCEPT !.pc = "run", !.todo = IF us.status = "okay" THEN CloseOps \o <<"get">> ELSE <<"get">>]
                      /\ clog' = clog
                 ELSE IF us.status # "okay" THEN Ret("refused", us)                  \* ensure_cleanup: io_error
                 ELSE /\ clog' = clog
                      /\ us' = [us EXCEPT !.pc = "run", !.todo =
                                 CASE op = "flush" -> FlushOps \o <<"retok">>
                                   [] op = "nul"   -> FlushOps \o <<"blkN", "retok">>
                                   [] op = "buf"   -> FlushOps \o <<"blkB", "retok">>
                                   [] op = "item"  -> IF Len(us.ibuf) < cfg.cap THEN <<"add", "retok">> ELSE FlushOps \o <<"add", "retok">>
                                   [] op = "big"   -> FlushOps \o <<"throw">>]
         /\ UNCHANGED <<cfg, allowed, q, futs, wt, cs, promise, notif, obs>>

UHdr == /\ Op("hdr")                                                                 \* write_header()
        /\ IF cfg.fault.k = "ehdr" THEN /\ Throw(us) /\ futs' = futs /\ obs' = [obs EXCEPT !.syncx = TRUE]
           ELSE /\ obs' = obs
                /\ IF cfg.hdr THEN PushNew(Fut("data", <<HDR>>, TRUE, FALSE), [us EXCEPT !.hdr = TRUE])
                   ELSE /\ Pop([us EXCEPT !.hdr = TRUE]) /\ futs' = futs
        /\ UNCHANGED <<cfg, allowed, q, wt, cs, promise, notif, clog>>

UChk == /\ Op("chk")                                                                 \* if (m_notification) check_for_exception(m_write_future)
        /\ IF notif /\ us.fut /\ promise.k # "unset"
           THEN /\ Throw([us EXCEPT !.fut = FALSE]) /\ obs' = [obs EXCEPT !.gets = @ + 1]
           ELSE /\ Pop(us) /\ obs' = obs
        /\ UNCHANGED <<cfg, allowed, q, futs, wt, cs, promise, notif, clog>>

Block(ids, us2) ==                                                                   \* m_output->write_buffer(...)
  LET n == us.nblk + 1 IN
  IF cfg.defer THEN /\ Pop([us2 EXCEPT !.acc = @ \o ids]) /\ futs' = futs /\ obs' = obs
  ELSE IF cfg.fault.k = "ebuf" /\ cfg.fault.at = n THEN /\ Throw(us2) /\ futs' = futs /\ obs' = [obs EXCEPT !.syncx = TRUE]
  ELSE /\ PushNew(Fut("data", EncIds(ids), ~cfg.pool, cfg.fault.k = "epool" /\ cfg.fault.at = n), [us2 EXCEPT !.nblk = n])
       /\ obs' = obs
UBlkI == /\ Op("blkI")
         /\ Block(us.ibuf, [us EXCEPT !.ibuf = <<>>])
         /\ UNCHANGED <<cfg, allowed, q, wt, cs, promise, notif, clog>>
UBlkB == /\ Op("blkB")
         /\ Block(<<us.i>>, us)
         /\ UNCHANGED <<cfg, allowed, q, wt, cs, promise, notif, clog>>
(* write_buffer() with a buffer that is encoded as the empty string.  Repaired code: nothing is handed over.  As shipped:
   the pool task's future is pushed like any other block; PBF only collects objects, so nothing happens there. *)
UBlkN == /\ Op("blkN")
         /\ IF cfg.emptyfix \/ cfg.defer THEN /\ Pop(us) /\ futs' = futs
            ELSE PushNew(Fut("data", <<>>, ~cfg.pool, FALSE), [us EXCEPT !.nblk = @ + 1])
         /\ UNCHANGED <<cfg, allowed, q, wt, cs, promise, notif, clog, obs>>
UAdd == /\ Op("add")                                                                 \* m_buffer.push_back(item)
        /\ Pop([us EXCEPT !.ibuf = Append(@, us.i)])
        /\ UNCHANGED <<cfg, allowed, q, futs, wt, cs, promise, notif, clog, obs>>
UThrow == /\ Op("throw")                                                             \* buffer_is_full from the second push_back
          /\ Throw(us)
          /\ obs' = [obs EXCEPT !.syncx = TRUE]
          /\ UNCHANGED <<cfg, allowed, q, futs, wt, cs, promise, notif, clog>>
UEnd == /\ Op("end")                                                                 \* write_end()
        /\ IF cfg.fault.k = "eend" THEN /\ Throw(us) /\ futs' = futs /\ obs' = [obs EXCEPT !.syncx = TRUE]
           ELSE /\ obs' = obs
                /\ IF cfg.defer /\ us.acc # <<>>
                   THEN PushNew(Fut("data", EncIds(us.acc), ~cfg.pool, FALSE), [us EXCEPT !.acc = <<>>, !.nblk = @ + 1])
                   ELSE IF cfg.trl THEN PushNew(Fut("data", <<TRL>>, TRUE, FALSE), us)
                   ELSE /\ Pop(us) /\ futs' = futs
        /\ UNCHANGED <<cfg, allowed, q, wt, cs, promise, notif, clog>>
UClosed == /\ Op("closed")
           /\ Pop([us EXCEPT !.status = "closed"])
           /\ UNCHANGED <<cfg, allowed, q, futs, wt, cs, promise, notif, clog, obs>>
UEod == /\ Op("eod")                                                                 \* add_end_of_data_to_queue
        /\ PushNew(Fut("eod", <<>>, TRUE, FALSE), us)
        /\ UNCHANGED <<cfg, allowed, q, wt, cs, promise, notif, clog, obs>>
UXPush == /\ Op("xpush")                                                             \* add_to_queue(current_exception())
          /\ PushNew(Fut("exc", <<>>, TRUE, FALSE), us)
          /\ UNCHANGED <<cfg, allowed, q, wt, cs, promise, notif, clog, obs>>
UPushChk == /\ us.pc = "pchk"                                                        \* Queue::push: if (!m_in_use) return;
            /\ us' = IF q.inUse THEN [us EXCEPT !.pc = "penq"] ELSE [us EXCEPT !.pc = "run", !.todo = Tail(@)]
            /\ UNCHANGED <<cfg, allowed, q, futs, wt, cs, promise, notif, clog, obs>>
UPushEnq == /\ us.pc = "penq" /\ Len(q.items) < cfg.maxQ                             \* wait for space, enqueue (no second look at the flag)
            /\ q' = [q EXCEPT !.items = Append(@, us.push)]
            /\ us' = [us EXCEPT !.pc = "run", !.todo = Tail(@)]
            /\ UNCHANGED <<cfg, allowed, futs, wt, cs, promise, notif, clog, obs>>
UGet == /\ Op("get") /\ (us.fut => promise.k # "unset")                              \* close(): if (valid()) return get(); return 0;
        /\ IF ~us.fut THEN /\ Ret("zero", us) /\ obs' = obs
           ELSE /\ obs' = [obs EXCEPT !.gets = @ + 1]
                /\ IF promise.k = "val" THEN Ret("size", [us EXCEPT !.fut = FALSE, !.size = promise.n])
                   ELSE Ret("exc", [us EXCEPT !.fut = FALSE])
        /\ UNCHANGED <<cfg, allowed, q, futs, wt, cs, promise, notif>>
URetOk == /\ Op("retok") /\ Ret("ok", us)
          /\ UNCHANGED <<cfg, allowed, q, futs, wt, cs, promise, notif, obs>>
URetExc == /\ Op("retexc") /\ Ret("exc", us)
           /\ UNCHANGED <<cfg, allowed, q, futs, wt, cs, promise, notif, obs>>
UJoin == /\ Op("join") /\ wt.pc = "done"                                             \* ~thread_handler
         /\ clog' = Append(clog, "destroyed")
         /\ us' = [us EXCEPT !.pc = "gone", !.todo = <<>>]
         /\ UNCHANGED <<cfg, allowed, q, futs, wt, cs, promise, notif, obs>>

UNext == UCall \/ UHdr \/ UChk \/ UBlkI \/ UBlkB \/ UBlkN \/ UAdd \/ UThrow \/ UEnd \/ UClosed \/ UEod \/ UXPush \/ UPushChk \/ UPushEnq
         \/ UGet \/ URetOk \/ URetExc \/ UJoin

(* ---- pool workers: complete pending futures in any order ---- *)
Worker == /\ \E f \in 1..Len(futs) :
               /\ ~futs[f].ready
               /\ futs' = [futs EXCEPT ![f] = [@ EXCEPT !.ready = TRUE, !.k = IF futs[f].fail THEN "exc" ELSE @]]
               /\ obs' = [obs EXCEPT !.faulted = @ \/ futs[f].fail]
          /\ UNCHANGED <<cfg, allowed, q, us, wt, cs, promise, notif, clog>>

(* ---- kernel and compressors ---- *)
Room(d) == IF cfg.fault.k = "write" THEN cfg.fault.at - Len(d) ELSE 1000
KW(d, u) == IF Room(d) >= Len(u) THEN [disk |-> d \o u, ok |-> TRUE]
            ELSE [disk |-> d \o SubSeq(u, 1, Room(d)), ok |-> FALSE]                   \* short write, then EFBIG / ENOSPC
Is(k) == cfg.fault.k = k

(* Compressor::write; f = number of pending units zlib / libbz2+stdio hand to the kernel during this call *)
CompWrite(c, units, f) ==
  IF Is("cwrite") /\ cfg.fault.at = c.nw + 1 THEN [cs |-> [c EXCEPT !.nw = @ + 1], ok |-> FALSE]
  ELSE IF cfg.comp = "plain"
       THEN LET r == KW(c.disk, units) IN
            [cs |-> [c EXCEPT !.nw = @ + 1, !.disk = r.disk, !.size = IF r.ok THEN @ + Len(units) ELSE @], ok |-> r.ok]
       ELSE LET p1 == c.pend \o (IF c.started THEN <<>> ELSE <<ZH>>) \o units
                r == KW(c.disk, SubSeq(p1, 1, f)) IN
            [cs |-> [c EXCEPT !.nw = @ + 1, !.started = TRUE, !.disk = r.disk, !.pend = SubSeq(p1, f + 1, Len(p1))], ok |-> r.ok]
FlushChoices(c, units) == IF cfg.comp = "plain" THEN {0} ELSE 0..(Len(c.pend) + (IF c.started THEN 0 ELSE 1) + Len(units))

(* Compressor::close *)
CompClose(c) ==
  IF ~c.live THEN [cs |-> c, ok |-> TRUE]
  ELSE LET c0 == [c EXCEPT !.live = FALSE] IN
   CASE cfg.comp = "plain" ->
          IF Is("cclose") THEN [cs |-> [c0 EXCEPT !.fds = {}], ok |-> FALSE]
          ELSE IF cfg.fsync /\ Is("fsync") THEN [cs |-> [c0 EXCEPT !.fds = IF cfg.fdfix THEN {} ELSE @], ok |-> FALSE]
          ELSE [cs |-> [c0 EXCEPT !.fds = {}], ok |-> ~(Is("close") /\ cfg.fault.at = 1)]
     [] cfg.comp = "gzip" ->
          LET r == KW(c.disk, c.pend \o (IF c.started THEN <<>> ELSE <<ZH>>) \o <<ZT>>)          \* gzclose_w: flush, trailer, close(dup)
              c1 == [c0 EXCEPT !.disk = r.disk, !.pend = <<>>, !.started = TRUE, !.fds = @ \ {"dup"}] IN
          IF ~r.ok \/ (Is("close") /\ cfg.fault.at = 1) THEN [cs |-> [c1 EXCEPT !.fds = IF cfg.fdfix THEN {} ELSE @], ok |-> FALSE]
          ELSE LET c2 == [c1 EXCEPT !.size = Len(r.disk)] IN                                     \* fstat
               IF cfg.fsync /\ Is("fsync") THEN [cs |-> [c2 EXCEPT !.fds = IF cfg.fdfix THEN {} ELSE @], ok |-> FALSE]
               ELSE [cs |-> [c2 EXCEPT !.fds = {}], ok |-> ~(Is("close") /\ cfg.fault.at = 2)]
     [] cfg.comp = "bzip2" ->
          LET r == KW(c.disk, c.pend \o (IF c.started THEN <<>> ELSE <<ZH>>) \o <<ZT>>)          \* BZ2_bzWriteClose64: finish, fwrite, fflush
              c1 == [c0 EXCEPT !.disk = r.disk, !.pend = <<>>, !.started = TRUE] IN
          IF cfg.fsync /\ Is("fsync") THEN [cs |-> c1, ok |-> FALSE]                              \* the FILE* is closed by ~file_wrapper
          ELSE [cs |-> [c1 EXCEPT !.fds = {}, !.size = Len(r.disk)],                              \* fclose; then bzerror is looked at
                ok |-> r.ok /\ ~(Is("close") /\ cfg.fault.at = 1)]
(* ~Compressor: close() with exceptions swallowed; ~file_wrapper closes a FILE* still open *)
CompDtor(c) == LET r == CompClose(c).cs IN
               IF cfg.comp = "bzip2" THEN [r EXCEPT !.fds = {}] ELSE r

(* ---- write thread: WriteThread::operator() and ~WriteThread ---- *)
WPopChk == /\ wt.pc = "loop"                                                         \* queue_wrapper::pop: in_use()?
           /\ wt' = [wt EXCEPT !.pc = IF q.inUse THEN "wait" ELSE "cclose"]
           /\ UNCHANGED <<cfg, allowed, q, futs, us, cs, promise, notif, clog, obs>>
WWait == /\ wt.pc = "wait" /\ (q.items # <<>> \/ ~q.inUse)                           \* wait_and_pop
         /\ IF q.items = <<>> THEN /\ wt' = [wt EXCEPT !.pc = "cclose"] /\ q' = q
            ELSE /\ wt' = [wt EXCEPT !.pc = "get", !.cur = Head(q.items)]
                 /\ q' = [q EXCEPT !.items = Tail(@)]
         /\ UNCHANGED <<cfg, allowed, futs, us, cs, promise, notif, clog, obs>>
WGet == /\ wt.pc = "get" /\ futs[wt.cur].ready                                       \* data_future.get()
        /\ wt' = CASE futs[wt.cur].k = "data" /\ futs[wt.cur].units # <<>> -> [wt EXCEPT !.pc = "write"]
                   [] futs[wt.cur].k = "exc"  -> [wt EXCEPT !.pc = "catch"]
                   [] OTHER -> [wt EXCEPT !.pc = "sd0", !.nxt = "cclose"]   \* pop() shuts the queue down at the end marker = ANY empty string
        /\ UNCHANGED <<cfg, allowed, q, futs, us, cs, promise, notif, clog, obs>>
WWrite == /\ wt.pc = "write"                                                         \* m_compressor->write(data)
          /\ \E f \in FlushChoices(cs, futs[wt.cur].units) :
               LET r == CompWrite(cs, futs[wt.cur].units, f) IN
               /\ cs' = r.cs
               /\ wt' = [wt EXCEPT !.pc = IF r.ok THEN "loop" ELSE "catch"]
               /\ obs' = [obs EXCEPT !.faulted = @ \/ ~r.ok]
          /\ UNCHANGED <<cfg, allowed, q, futs, us, promise, notif, clog>>
WCClose == /\ wt.pc = "cclose"                                                       \* m_compressor->close()
           /\ LET r == CompClose(cs) IN
              /\ cs' = r.cs
              /\ wt' = [wt EXCEPT !.pc = IF r.ok THEN "setval" ELSE "catch"]
              /\ obs' = [obs EXCEPT !.faulted = @ \/ ~r.ok]
           /\ UNCHANGED <<cfg, allowed, q, futs, us, promise, notif, clog>>
WSetVal == /\ wt.pc = "setval"                                                       \* m_promise.set_value(file_size())
           /\ promise' = [k |-> "val", n |-> cs.size]
           /\ wt' = [wt EXCEPT !.pc = "dtor"]
           /\ UNCHANGED <<cfg, allowed, q, futs, us, cs, notif, clog, obs>>
WCatch1 == /\ wt.pc = "catch"                                                        \* m_notification->store(true)
           /\ notif' = TRUE
           /\ wt' = [wt EXCEPT !.pc = "catch2"]
           /\ UNCHANGED <<cfg, allowed, q, futs, us, cs, promise, clog, obs>>
WCatch2 == /\ wt.pc = "catch2"                                                       \* m_promise.set_exception(...); m_queue.shutdown()
           /\ promise' = [k |-> "exc", n |-> 0]
           /\ wt' = [wt EXCEPT !.pc = "sd0", !.nxt = "dtor"]
           /\ UNCHANGED <<cfg, allowed, q, futs, us, cs, notif, clog, obs>>
WShut0 == /\ wt.pc = "sd0"                                                           \* Queue::shutdown: store the flag ...
          /\ q' = [q EXCEPT !.inUse = FALSE]
          /\ wt' = [wt EXCEPT !.pc = "sd1"]
          /\ UNCHANGED <<cfg, allowed, futs, us, cs, promise, notif, clog, obs>>
WShut1 == /\ wt.pc = "sd1"                                                           \* ... then drain under the lock
          /\ q' = [q EXCEPT !.items = <<>>]
          /\ wt' = [wt EXCEPT !.pc = wt.nxt]
          /\ UNCHANGED <<cfg, allowed, futs, us, cs, promise, notif, clog, obs>>
WDtor == /\ wt.pc = "dtor"                                                           \* ~WriteThread: ~Compressor, then ~queue_wrapper
         /\ cs' = CompDtor(cs)
         /\ wt' = [wt EXCEPT !.pc = "sd0", !.nxt = "done"]
         /\ UNCHANGED <<cfg, allowed, q, futs, us, promise, notif, clog, obs>>

WNext == WPopChk \/ WWait \/ WGet \/ WWrite \/ WCClose \/ WSetVal \/ WCatch1 \/ WCatch2 \/ WShut0 \/ WShut1 \/ WDtor

AllDone == us.pc = "gone" /\ wt.pc = "done"
Finished == AllDone /\ (\A f \in 1..Len(futs) : futs[f].ready) /\ UNCHANGED vars

Next == UNext \/ Worker \/ WNext \/ Finished
Spec == Init /\ [][Next]_vars
FairSpec == Spec /\ WF_vars(UNext) /\ WF_vars(Worker) /\ WF_vars(WNext)

-----------------------------------------------------------------------------
(* Properties *)

IsPrefix(s, t) == Len(s) <= Len(t) /\ \A i \in 1..Len(s) : s[i] = t[i]
Has(x) == \E i \in 1..Len(clog) : clog[i] = x

(* what the caller sees is one of the logs of the sequential specification, under every schedule *)
LogAllowed == /\ \E a \in allowed : IsPrefix(clog, a)
              /\ us.pc = "gone" => clog \in allowed
(* close() returned a size: nothing failed, the file is complete and exactly that long *)
CompleteOrThrows == Has("size") => /\ ~obs.faulted /\ ~obs.syncx
                                   /\ cs.disk = Encode(cfg, Content(cfg))
                                   /\ us.size = Len(cs.disk)
(* a fault before close() returned is reported by an exception from operator(), flush() or close() *)
NeverLost == (us.pc \in {"idle", "gone"} /\ (obs.faulted \/ obs.syncx) /\ \E i \in 1..Len(clog) : i <= Len(cfg.script) /\ cfg.script[i] = "close")
             => Has("exc")
(* and only then *)
NoSpuriousException == Has("exc") => obs.faulted \/ obs.syncx
(* a Writer in error state refuses further data *)
RefusesAfterException == \A i \in 1..Len(clog) : \A j \in 1..Len(clog) :
                            (i < j /\ clog[i] = "exc" /\ j <= Len(cfg.script) /\ cfg.script[j] \in DataOps) => clog[j] = "refused"
(* the write future is read at most once; the notification flag is only raised for a failure *)
FutureReadOnce == obs.gets <= 1 /\ (notif => promise.k # "val")
(* when the Writer is gone its thread is gone and no descriptor is left open *)
NoThreadLeft == us.pc = "gone" => wt.pc = "done"
NoFdLeft == us.pc = "gone" => cs.fds = {}
QueueBound == Len(q.items) <= cfg.maxQ
TypeOK == /\ ~(cfg.defer /\ cfg.trl)
          /\ us.status \in {"okay", "error", "closed"} /\ promise.k \in {"unset", "val", "exc"}
          /\ \A i \in 1..Len(q.items) : q.items[i] \in 1..Len(futs)

Termination == <>AllDone
=============================================================================
