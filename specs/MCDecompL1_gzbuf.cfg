\* liveness (termination under weak fairness), one stream, every fault
\* constants scaled down: R = libbz2's read block (5000 in reality), B = piece size (input_buffer_size / 10240)
CONSTANTS
  Kind = "gzbuf"
  Algo = "fixed"
  R = 3
  B = 2
  MaxStreams = 1
  CLens = {3,4,5,6}
  ULens = {0,1,2,3,4,5}
  Faults = {"none","trunc","corrupt"}
  WChunks = {}
  MaxWrites = 0
  ExportHist = FALSE
SPECIFICATION FairSpec
INVARIANTS
  TypeOK
  PrefixInv
  OffsetInv
  Correct
  RoundTrip
  LenientOnly
  Bounded
PROPERTY Termination
CHECK_DEADLOCK TRUE
