SPECIFICATION Spec
CONSTANTS
  Cap0 = 16
  Sizes = {1, 5}
  GCMin = 2
  MaxItems = 6
  MaxSteps = 10
  ExportHist = FALSE
INVARIANT Refines
PROPERTY Reclaimed
CHECK_DEADLOCK FALSE
