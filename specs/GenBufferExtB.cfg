SPECIFICATION Spec
CONSTANTS
  Caps = {64, 144}
  Modes = {"yes", "internal"}
  Kinds = {"node"}
  ULens = {0}
  TagLens <- TagLens1
  RoleLens = {0}
  Pres = {1}
  Wraps = {FALSE}
  CbMaxs = {0}
  MaxObjects = 2
  MaxElems = 0
  MaxSubs = 0
  MaxSteps = 4
  Ops <- BufferOps
  Script <- NoScript
  ExportHist = TRUE
INVARIANT Export
CHECK_DEADLOCK FALSE
