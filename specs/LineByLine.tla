----------------------------- MODULE LineByLine -----------------------------
(* C06 (1/4).  osmium::io::detail::line_by_line() + OPLParser::parse_line()
   (io/detail/opl_input_format.hpp): pieces of an OPL file are cut into lines at LF / CR, the
   remainder of a piece (`rest`) is carried over to the next one.

   Byte alphabet: "n" = LF, "r" = CR, "x" = a content byte, "b" = a content byte that makes the line
   invalid when it is the FIRST byte of the line (OPL: unknown type => opl_error "on line N"), and
   optionally "z" = a NUL byte (lines are handed over as C strings: a NUL ends the line's text, and a
   line whose first byte is NUL is skipped like an empty line).

   A-layer: ATok(stream) - the kept lines (as sequences of byte positions) up to the first invalid one and
   the verdict; N = number of lines parsed before the error = the line number of the message.
   I-layer: one action per loop iteration of line_by_line.

   RestSkipsNul = TRUE is the code after the fix (a line that reaches parse_line through `rest` is
   skipped when it starts with NUL, exactly like in the scan loop).  RestSkipsNul = FALSE is the code as
   found: TLC then shows the chunk dependent line count (MCLineByLineDefect.cfg, expected to fail). *)
EXTENDS Chunking
CONSTANTS Alphabet, L, RestSkipsNul

VARIABLES stream,        \* the whole file, Seq(Alphabet)
          pc,            \* "loop" | "rest" | "scan" | "final" | "done" | "error"
          rest, input,   \* sequences of byte positions
          ppos,          \* as in the code: number of bytes of `input` before the scan position
          out,           \* the arguments of the parse_line() calls that returned (C strings as position seqs)
          count,         \* m_line_count
          seen           \* history: Len(out) at every get_input() call (ExportHist only)
vars == <<stream, pc, rest, input, ppos, out, count, seen, fed, eof, mode, ncuts, pieces>>

N == Len(stream)
Ch(i) == stream[i]
IsTerm(c) == c \in {"n", "r"}

(* ---------------------------------------------------------------- A-layer *)
RECURSIVE Split(_, _, _, _)
Split(s, i, cur, acc) ==
    IF i > Len(s) THEN (IF cur = <<>> THEN acc ELSE Append(acc, cur))
    ELSE IF IsTerm(s[i]) THEN Split(s, i + 1, <<>>, IF cur = <<>> THEN acc ELSE Append(acc, cur))
    ELSE Split(s, i + 1, Append(cur, i), acc)
RawLines(s) == Split(s, 1, <<>>, <<>>)                   \* maximal non-empty runs of non-terminators
CStrOf(s, l) == LET zs == {k \in 1..Len(l) : s[l[k]] = "z"}
                IN IF zs = {} THEN l ELSE SubSeq(l, 1, (CHOOSE k \in zs : \A j \in zs : k <= j) - 1)
ATok(s) == LET K == SelectSeq(RawLines(s), LAMBDA l : s[l[1]] # "z")
               bad == {k \in 1..Len(K) : s[K[k][1]] = "b"}
               first == IF bad = {} THEN Len(K) + 1 ELSE CHOOSE k \in bad : \A j \in bad : k <= j
           IN [lines |-> [k \in 1..(first - 1) |-> CStrOf(s, K[k])],
               verdict |-> IF bad = {} THEN "ok" ELSE "bad",
               line |-> first - 1]

(* ---------------------------------------------------------------- I-layer *)
Streams == UNION {[1..n -> Alphabet] : n \in 0..L}
Init == /\ stream \in Streams /\ QInit
        /\ pc = "loop" /\ rest = <<>> /\ input = <<>> /\ ppos = 0 /\ out = <<>> /\ count = 0 /\ seen = <<>>

FirstTerm(inp, from) == LET T == {q \in (from + 1)..Len(inp) : IsTerm(Ch(inp[q]))}
                        IN IF T = {} THEN 0 ELSE CHOOSE q \in T : \A j \in T : q <= j

(* OPLParser::parse_line(data): data is a C string *)
Parse(line, nextpc) ==
    LET c == CStrOf(stream, line) IN
    IF c # <<>> /\ Ch(c[1]) = "b"
    THEN pc' = "error" /\ UNCHANGED <<out, count>>
    ELSE pc' = nextpc /\ out' = Append(out, c) /\ count' = count + 1
NoParse(nextpc) == pc' = nextpc /\ UNCHANGED <<out, count>>

\* while (!worker.input_done()) { std::string input{worker.get_input()}; ppos = 0; ...
GetInput == /\ pc = "loop" /\ ~eof
            /\ \E k \in 0..N : /\ Pop(N, k)
                               /\ input' = Range(fed + 1, fed + k)
            /\ ppos' = 0
            /\ pc' = IF rest # <<>> THEN "rest" ELSE "scan"
            /\ seen' = IF ExportHist THEN Append(seen, Len(out)) ELSE seen
            /\ UNCHANGED <<stream, rest, out, count>>
LoopExit == /\ pc = "loop" /\ eof /\ pc' = "final"
            /\ UNCHANGED <<stream, rest, input, ppos, out, count, seen, qvars>>

\* if (!rest.empty()) { ppos = input.find_first_of("\n\r"); ... }
RestScan == /\ pc = "rest"
            /\ LET q == FirstTerm(input, 0) IN
               IF q = 0
               THEN rest' = rest \o input /\ NoParse("loop") /\ UNCHANGED ppos          \* continue
               ELSE LET line == rest \o SubSeq(input, 1, q - 1) IN
                    /\ IF RestSkipsNul /\ Ch(line[1]) = "z" THEN NoParse("scan") ELSE Parse(line, "scan")
                    /\ rest' = <<>> /\ ppos' = q
            /\ UNCHANGED <<stream, input, seen, qvars>>

\* one iteration of  for (pos = input.find_first_of("\n\r", ppos); pos != npos; ...)  or its exit
Scan == /\ pc = "scan"
        /\ LET q == FirstTerm(input, ppos) IN
           IF q = 0
           THEN rest' = SubSeq(input, ppos + 1, Len(input)) /\ NoParse("loop") /\ UNCHANGED ppos
           ELSE LET line == SubSeq(input, ppos + 1, q - 1)
                    nxt == IF q >= Len(input) THEN "loop" ELSE "scan"        \* if (ppos >= input.size()) break;
                IN /\ IF line # <<>> /\ Ch(line[1]) # "z" THEN Parse(line, nxt) ELSE NoParse(nxt)
                   /\ ppos' = q
                   /\ rest' = <<>>        \* on break: rest.assign(input, size) = ""; otherwise rest is still empty
        /\ UNCHANGED <<stream, input, seen, qvars>>

\* if (!rest.empty()) worker.parse_line(rest.data());
Final == /\ pc = "final"
         /\ IF rest # <<>> /\ ~(RestSkipsNul /\ Ch(rest[1]) = "z") THEN Parse(rest, "done") ELSE NoParse("done")
         /\ UNCHANGED <<stream, rest, input, ppos, seen, qvars>>

Terminal == pc \in {"done", "error"}
Stutter == Terminal /\ UNCHANGED vars          \* so that TLC's deadlock check finds any stuck non-terminal state
Next == GetInput \/ LoopExit \/ RestScan \/ Scan \/ Final \/ Stutter
Spec == Init /\ [][Next]_vars

(* ---------------------------------------------------------------- I => A *)
Unscanned == IF pc = "rest" THEN input
             ELSE IF pc = "scan" THEN SubSeq(input, ppos + 1, Len(input)) ELSE <<>>
Pending == rest \o Unscanned
(* window: the bytes held are exactly the received part of the line that is still open, and everything
   before it has been tokenised as the A-layer says *)
WindowInv == pc \notin {"done", "error"} =>
             LET a == fed - Len(Pending) + 1
                 A == ATok(SubSeq(stream, 1, a - 1))
             IN /\ Pending = Range(a, fed)
                /\ a = 1 \/ IsTerm(Ch(a - 1))
                /\ A.verdict = "ok" /\ A.lines = out /\ count = Len(out)
ResultInv == /\ pc = "done" => ATok(stream) = [lines |-> out, verdict |-> "ok", line |-> count]
             /\ pc = "error" => ATok(stream) = [lines |-> out, verdict |-> "bad", line |-> count]

Chars(l) == [k \in 1..Len(l) |-> Ch(l[k])]
Export == (ExportHist /\ Terminal) =>
          PrintT(<<"CASE", ToJson([mod |-> "lbl", stream |-> stream, pieces |-> pieces, mode |-> mode,
                                   lines |-> [k \in 1..Len(out) |-> Chars(out[k])],
                                   starts |-> [k \in 1..Len(out) |-> IF out[k] = <<>> THEN 0 ELSE out[k][1]],
                                   seen |-> seen,
                                   verdict |-> IF pc = "done" THEN "ok" ELSE "bad", line |-> count])>>)
=============================================================================
