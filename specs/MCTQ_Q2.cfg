SPECIFICATION Spec
CONSTANTS
  Threads <- QThreads
  Kind <- QKind
  Script <- QScript
  Max = 2
  Throwing <- NoThrow
INVARIANTS TypeOK FifoWhileInUse OrderAlways Accounted PerConsumerOrder Bound BoundSingle RunAtMostOnce PoolJoined DeadlockFree
CHECK_DEADLOCK FALSE
