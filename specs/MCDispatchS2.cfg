\* C20, design check only (no export), small; handy for a manual run: tlc -config MCDispatchS2.cfg MCDispatch.tla.  Deadlock checking stays on: every behaviour must reach phase "done".
SPECIFICATION Spec
CONSTANTS
  Alphabet <- AlphaSmall
  MaxLen = 2
  HandlerLists <- Singles
  Containers <- ContAll
  MaxChunks = 1
INVARIANTS TypeOK Refines NoThrow 
