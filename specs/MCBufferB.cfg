SPECIFICATION Spec
CONSTANTS
  Caps = {64, 96, 144}
  Modes = {"no", "yes", "internal"}
  Kinds = {"node"}
  ULens = {0}
  TagLens <- TagLens1
  RoleLens = {0}
  CommentLens <- CommentLens1
  MaxObjects = 3
  MaxElems = 0
  MaxSteps = 8
  Ops <- BufferOps
  ExportHist = FALSE
INVARIANT Inv
PROPERTY CommittedStable
CHECK_DEADLOCK FALSE
