SPECIFICATION Spec
CONSTANTS
  Level = 0
  DoExport = TRUE
INVARIANTS BufferOK IimpliesA RoundTrip Export
CHECK_DEADLOCK FALSE
