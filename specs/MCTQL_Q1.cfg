SPECIFICATION FairSpec
CONSTANTS
  Threads <- QThreads
  Kind <- QKind
  Script <- QScript
  Max = 1
  Throwing <- NoThrow
PROPERTY ConsumersFinish
CHECK_DEADLOCK FALSE
