SPECIFICATION Spec
CONSTANTS
  MaxElems = 6
  MaxDepth = 6
  Fixed = TRUE
  ExportHist = TRUE
  Vocab = {"osmChange", "modify", "delete", "relation", "member", "tag"}
INVARIANTS TypeOK WellFormedCommitted BuilderDiscipline NoStaleBuilders ObjectMatchesStack Export
CHECK_DEADLOCK FALSE
