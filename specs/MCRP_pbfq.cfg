SPECIFICATION Spec
CONSTANTS
  Configs <- RealPbfQConfigs
  Ns = {2, 3}
  NestSets <- NestLive
  Bounds <- BoundsLive
  Pools = {FALSE, TRUE}
  Fds = {FALSE}
  ScriptLen = 0
  LongScripts = FALSE
  FdStop = TRUE
  SkipAll = FALSE
INVARIANTS LogIsExpected NoReadAfterClose HeaderOnce NoThreadLeft NoFdLeft QueueBounds
