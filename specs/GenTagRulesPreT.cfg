\* C20 ext (specs/TagRules.tla), thorough: design check and export; TagsFilter, the larger alphabet (6-7 TagMatcher templates) of: prefix and substring matchers (empty prefix, prefix longer than the key, substring at the end); rule lists <= 3 x single tags of 10, <= 2 x <= 2 of 6, <= 1 x <= 3 of 6.  Deadlock checking stays on: every behaviour must reach phase "done".
SPECIFICATION Spec
CONSTANTS
  Fams <- OnlyTF
  Alpha <- AlphaPre5
  Shapes <- ShapeCrossM
INVARIANTS TypeOK RefinesRules RefinesIter RefinesRest Export
