--------------------------- MODULE ThreadQueue ---------------------------
(* C19.  osmium::thread::Queue<T> (thread/queue.hpp) and osmium::thread::Pool
   (thread/pool.hpp) as written: one action per critical section of the code.

   Every mutex-protected section of the code is entered and left inside one member
   function without blocking in between, so each is ONE atomic action here and no lock
   variable is needed.  What is NOT protected by the mutex is modelled as separate steps:
     - push():      the unlocked read of m_in_use           (P0)
     - shutdown():  the unlocked store m_in_use = false     (S0) before the locked drain (S1)
     - wait_and_pop()/try_pop(): notify_one(space) after the unlock   (C3 / T1)
   Condition variables are wait sets; notify_one moves one arbitrary waiter out of the set,
   notify_all all of them; a spurious wake-up and the 10 ms timeout of wait_for are separate
   actions (the timeout is guaranteed to happen, a spurious wake-up is not: fairness is only
   assumed for the former).

   Threads run scripts given by constants, so the same module serves the queue model
   (producers/consumers/try-poppers/shutdown thread) and the pool model (submitters,
   workers, destroyer).  Items are integers (tickets / task ids); StopTask marks the pool's
   shutdown marker function_wrapper{0}. *)
EXTENDS Integers, Sequences, FiniteSets, TLC

CONSTANTS Threads,      \* set of thread ids (integers)
          Kind,         \* [Threads -> {"producer","consumer","trypopper","shutdown","worker","submitter","destroyer"}]
          Script,       \* [Threads -> Seq(Int)]  items to push (producer/submitter); <<n>> pops for consumer quota (<<-1>> = until empty return); <<n>> tries for trypopper
          Max,          \* m_max_size (0 = unbounded)
          Throwing      \* set of task ids whose body throws (pool model)

StopTask == -1
NoItem == -2

VARIABLES q,            \* m_queue
          inUse,        \* m_in_use
          waitData,     \* threads blocked in m_data_available.wait
          waitSpace,    \* threads blocked in m_space_available.wait_for
          pc,           \* [Threads -> label]
          cur,          \* [Threads -> item]  argument of the running push / result of the running pop
          todo,         \* [Threads -> Seq]   rest of the script
          enq,          \* ghost: every item ever enqueued, in enqueue order
          deq,          \* ghost: every item ever dequeued by a pop, in dequeue order
          drained,      \* ghost: items removed by shutdown's drain
          dropped,      \* ghost: items whose push returned without enqueuing (queue not in use)
          sdStarted,    \* ghost: some thread has entered shutdown()
          ran,          \* pool ghost: [task id -> how many times its body ran]
          fut,          \* pool ghost: [task id -> "value" | "exception"]
          got           \* ghost: [Threads -> Seq] items each thread's pops returned, in order

vars == <<q, inUse, waitData, waitSpace, pc, cur, todo, enq, deq, drained, dropped, sdStarted, ran, fut, got>>
qvars == <<q, inUse, waitData, waitSpace>>
ghost == <<enq, deq, drained, dropped, sdStarted, ran, fut, got>>

Of(k) == {t \in Threads : Kind[t] = k}
Pushers == Of("producer") \cup Of("submitter") \cup Of("destroyer")

Init == /\ q = <<>> /\ inUse = TRUE /\ waitData = {} /\ waitSpace = {}
        /\ pc = [t \in Threads |-> "idle"]
        /\ cur = [t \in Threads |-> NoItem]
        /\ todo = [t \in Threads |-> Script[t]]
        /\ enq = <<>> /\ deq = <<>> /\ drained = <<>> /\ dropped = <<>> /\ sdStarted = FALSE
        /\ ran = [i \in {} |-> 0] /\ fut = [i \in {} |-> ""]
        /\ got = [t \in Threads |-> <<>>]

Goto(t, l) == pc' = [pc EXCEPT ![t] = l]

------------------------------------------------------------------------
(* push(value) *)

PushCall(t) ==           \* the caller enters push() with the next item of its script
    /\ pc[t] = "idle" /\ Kind[t] \in {"producer", "submitter"} /\ todo[t] # <<>>
    /\ cur' = [cur EXCEPT ![t] = Head(todo[t])]
    /\ todo' = [todo EXCEPT ![t] = Tail(todo[t])]
    /\ Goto(t, "P0")
    /\ UNCHANGED <<qvars, ghost>>

PushReadInUse(t) ==      \* if (!m_in_use) return;
    /\ pc[t] = "P0"
    /\ IF inUse THEN /\ Goto(t, IF Max = 0 THEN "P3" ELSE "P1") /\ UNCHANGED dropped
                ELSE /\ Goto(t, "idle") /\ dropped' = Append(dropped, cur[t])
    /\ UNCHANGED <<qvars, cur, todo, enq, deq, drained, sdStarted, ran, fut, got>>

PushObserve(t) ==        \* while (size() >= m_max_size): size() locks, reads, unlocks
    /\ pc[t] = "P1"
    /\ Goto(t, IF Len(q) >= Max THEN "P2" ELSE "P3")
    /\ UNCHANGED <<qvars, cur, todo, ghost>>

PushWaitSpace(t) ==      \* lock; wait_for(pred): pred true -> leave, else sleep on space_available
    /\ pc[t] = "P2"
    /\ IF Len(q) < Max THEN /\ Goto(t, "P1") /\ UNCHANGED waitSpace
                       ELSE /\ Goto(t, "P2w") /\ waitSpace' = waitSpace \cup {t}
    /\ UNCHANGED <<q, inUse, waitData, cur, todo, ghost>>

PushTimeout(t) ==        \* the 10 ms of wait_for are over (or a spurious wake-up): back to the while test
    /\ pc[t] = "P2w"
    /\ waitSpace' = waitSpace \ {t}
    /\ Goto(t, "P1")
    /\ UNCHANGED <<q, inUse, waitData, cur, todo, ghost>>

(* notify_one on a wait set: wakes one waiter if there is one.  W = woken thread or 0. *)
WakeChoices(S) == IF S = {} THEN {0} ELSE S

PushEnqueue(t) ==        \* lock_guard; m_queue.push(value); m_data_available.notify_one();
    /\ pc[t] = "P3"
    /\ q' = Append(q, cur[t])
    /\ enq' = Append(enq, cur[t])
    /\ \E w \in WakeChoices(waitData) :
         /\ waitData' = waitData \ {w}
         /\ pc' = [u \in Threads |-> IF u = t THEN "idle" ELSE IF u = w THEN "C0" ELSE pc[u]]
    /\ UNCHANGED <<inUse, waitSpace, cur, todo, deq, drained, dropped, sdStarted, ran, fut, got>>

------------------------------------------------------------------------
(* wait_and_pop(value) *)

PopCall(t) ==
    /\ pc[t] = "idle"
    /\ \/ Kind[t] = "consumer" /\ todo[t] # <<>> /\ Head(todo[t]) # 0
       \/ Kind[t] = "worker"
    /\ cur' = [cur EXCEPT ![t] = NoItem]
    /\ Goto(t, "C0")
    /\ UNCHANGED <<qvars, todo, ghost>>

PopWait(t) ==            \* unique_lock; predicate false -> atomically unlock and sleep on data_available
    /\ pc[t] = "C0"
    /\ inUse /\ q = <<>>
    /\ waitData' = waitData \cup {t}
    /\ Goto(t, "Cw")
    /\ UNCHANGED <<q, inUse, waitSpace, cur, todo, ghost>>

PopSpurious(t) ==        \* spurious wake-up: re-acquire the lock and re-evaluate the predicate
    /\ pc[t] = "Cw"
    /\ waitData' = waitData \ {t}
    /\ Goto(t, "C0")
    /\ UNCHANGED <<q, inUse, waitSpace, cur, todo, ghost>>

PopTake(t) ==            \* predicate true (under the lock): take the front element if there is one
    /\ pc[t] = "C0"
    /\ ~inUse \/ q # <<>>
    /\ IF q # <<>>
       THEN /\ cur' = [cur EXCEPT ![t] = Head(q)]
            /\ q' = Tail(q)
            /\ deq' = Append(deq, Head(q))
            /\ got' = [got EXCEPT ![t] = Append(@, Head(q))]
            /\ Goto(t, IF Max = 0 THEN "Cret" ELSE "C3")
       ELSE /\ Goto(t, "Cret")        \* returns without a value: queue was shut down
            /\ UNCHANGED <<q, cur, deq, got>>
    /\ UNCHANGED <<inUse, waitData, waitSpace, todo, enq, drained, dropped, sdStarted, ran, fut>>

PopNotifySpace(t) ==     \* lock.unlock(); m_space_available.notify_one();
    /\ pc[t] \in {"C3", "T1"}
    /\ \E w \in WakeChoices(waitSpace) :
         /\ waitSpace' = waitSpace \ {w}
         /\ pc' = [u \in Threads |-> IF u = t THEN (IF pc[t] = "C3" THEN "Cret" ELSE "Tret")
                                      ELSE IF u = w THEN "P2" ELSE pc[u]]
    /\ UNCHANGED <<q, inUse, waitData, cur, todo, ghost>>

(* what the caller does with the result of wait_and_pop *)
ConsumerReturn(t) ==
    /\ pc[t] = "Cret" /\ Kind[t] = "consumer"
    /\ IF cur[t] = NoItem
       THEN Goto(t, "done") /\ UNCHANGED todo                 \* empty return = shut down: the consumer stops
       ELSE /\ todo' = [todo EXCEPT ![t] = IF Head(@) > 0 THEN <<Head(@) - 1>> ELSE @]
            /\ Goto(t, "idle")
    /\ UNCHANGED <<qvars, cur, ghost>>

ConsumerDone(t) ==
    /\ pc[t] = "idle" /\ Kind[t] \in {"consumer", "trypopper"} /\ todo[t] # <<>> /\ Head(todo[t]) = 0
    /\ Goto(t, "done")
    /\ UNCHANGED <<qvars, cur, todo, ghost>>

PusherDone(t) ==
    /\ pc[t] = "idle" /\ Kind[t] \in {"producer", "submitter"} /\ todo[t] = <<>>
    /\ Goto(t, "done")
    /\ UNCHANGED <<qvars, cur, todo, ghost>>

------------------------------------------------------------------------
(* try_pop(value) *)

TryPop(t) ==             \* lock_guard; empty -> false; else take front
    /\ pc[t] = "idle" /\ Kind[t] = "trypopper" /\ todo[t] # <<>> /\ Head(todo[t]) > 0
    /\ todo' = [todo EXCEPT ![t] = <<Head(@) - 1>>]
    /\ IF q # <<>>
       THEN /\ cur' = [cur EXCEPT ![t] = Head(q)]
            /\ q' = Tail(q)
            /\ deq' = Append(deq, Head(q))
            /\ got' = [got EXCEPT ![t] = Append(@, Head(q))]
            /\ Goto(t, IF Max = 0 THEN "Tret" ELSE "T1")
       ELSE /\ cur' = [cur EXCEPT ![t] = NoItem]
            /\ Goto(t, "Tret")
            /\ UNCHANGED <<q, deq, got>>
    /\ UNCHANGED <<inUse, waitData, waitSpace, enq, drained, dropped, sdStarted, ran, fut>>

TryReturn(t) ==
    /\ pc[t] = "Tret"
    /\ Goto(t, "idle")
    /\ UNCHANGED <<qvars, cur, todo, ghost>>

------------------------------------------------------------------------
(* shutdown() *)

ShutdownCall(t) ==
    /\ pc[t] = "idle" /\ Kind[t] = "shutdown" /\ todo[t] # <<>>
    /\ todo' = [todo EXCEPT ![t] = Tail(@)]
    /\ sdStarted' = TRUE
    /\ Goto(t, "S0")
    /\ UNCHANGED <<qvars, cur, enq, deq, drained, dropped, ran, fut, got>>

ShutdownStore(t) ==      \* m_in_use = false;   (no lock held)
    /\ pc[t] = "S0"
    /\ inUse' = FALSE
    /\ Goto(t, "S1")
    /\ UNCHANGED <<q, waitData, waitSpace, cur, todo, ghost>>

ShutdownDrain(t) ==      \* lock_guard; pop everything; m_data_available.notify_all();
    /\ pc[t] = "S1"
    /\ q' = <<>>
    /\ drained' = drained \o q
    /\ waitData' = {}
    /\ pc' = [u \in Threads |-> IF u = t THEN (IF todo[t] = <<>> THEN "done" ELSE "idle")
                                ELSE IF u \in waitData THEN "C0" ELSE pc[u]]
    /\ UNCHANGED <<inUse, waitSpace, cur, todo, enq, deq, dropped, sdStarted, ran, fut, got>>

------------------------------------------------------------------------
(* Pool: worker_thread(), ~Pool() *)

WorkerRun(t) ==          \* if (task && task()) return;
    /\ pc[t] = "Cret" /\ Kind[t] = "worker"
    /\ IF cur[t] = NoItem THEN Goto(t, "idle") /\ UNCHANGED <<ran, fut>>      \* empty wrapper: loop
       ELSE IF cur[t] = StopTask THEN Goto(t, "done") /\ UNCHANGED <<ran, fut>>
       ELSE /\ ran' = IF cur[t] \in DOMAIN ran THEN [ran EXCEPT ![cur[t]] = @ + 1]
                      ELSE ran @@ (cur[t] :> 1)
            /\ fut' = fut @@ (cur[t] :> IF cur[t] \in Throwing THEN "exception" ELSE "value")
            /\ Goto(t, "idle")
    /\ UNCHANGED <<qvars, cur, todo, enq, deq, drained, dropped, sdStarted, got>>

AllSubmitted == \A s \in Of("submitter") \cup Of("producer") : pc[s] = "done"

DestroyerPush(t) ==      \* ~Pool(): shutdown_all_workers() pushes one stop marker per worker ...
    /\ pc[t] = "idle" /\ Kind[t] = "destroyer" /\ AllSubmitted /\ todo[t] # <<>>
    /\ cur' = [cur EXCEPT ![t] = StopTask]
    /\ todo' = [todo EXCEPT ![t] = Tail(@)]
    /\ Goto(t, "P0")
    /\ UNCHANGED <<qvars, ghost>>

DestroyerJoin(t) ==      \* ... and thread_joiner joins every worker
    /\ pc[t] = "idle" /\ Kind[t] = "destroyer" /\ todo[t] = <<>>
    /\ \A w \in Of("worker") : pc[w] = "done"
    /\ Goto(t, "done")
    /\ UNCHANGED <<qvars, cur, todo, ghost>>

------------------------------------------------------------------------
Step(t) == \/ PushCall(t) \/ PushReadInUse(t) \/ PushObserve(t) \/ PushWaitSpace(t) \/ PushTimeout(t)
           \/ PushEnqueue(t) \/ PopCall(t) \/ PopWait(t) \/ PopTake(t) \/ PopNotifySpace(t)
           \/ ConsumerReturn(t) \/ ConsumerDone(t) \/ PusherDone(t) \/ TryPop(t) \/ TryReturn(t)
           \/ ShutdownCall(t) \/ ShutdownStore(t) \/ ShutdownDrain(t)
           \/ WorkerRun(t) \/ DestroyerPush(t) \/ DestroyerJoin(t)

Next == \E t \in Threads : Step(t) \/ PopSpurious(t)

Spec == Init /\ [][Next]_vars
(* progress of every thread that can take a step; spurious wake-ups are possible but not promised *)
FairSpec == Spec /\ \A t \in Threads : WF_vars(Step(t))

AllDone == \A t \in Threads : pc[t] = "done"

------------------------------------------------------------------------
(* Properties *)

RECURSIVE IsSubSeq(_, _)
IsSubSeq(s, u) ==        \* s is a (not necessarily contiguous) subsequence of u
    IF s = <<>> THEN TRUE
    ELSE IF u = <<>> THEN FALSE
    ELSE IF Head(s) = Head(u) THEN IsSubSeq(Tail(s), Tail(u))
    ELSE IsSubSeq(s, Tail(u))

NoDup(s) == \A i, j \in 1..Len(s) : i # j => s[i] # s[j]

TypeOK == /\ waitData \subseteq Threads /\ waitSpace \subseteq Threads
          /\ \A t \in waitData : pc[t] = "Cw"
          /\ \A t \in waitSpace : pc[t] = "P2w"

(* (a) while the queue is in use nothing is lost, duplicated or reordered *)
FifoWhileInUse == ~sdStarted => deq \o q = enq
(* ... and at all times elements leave in insertion order, each at most once *)
OrderAlways == IsSubSeq(deq, enq) /\ (NoDup(enq) => NoDup(deq \o q \o drained))
(* every element is accounted for: dequeued, still queued, or removed by shutdown *)
Accounted == Len(deq) + Len(q) + Len(drained) = Len(enq)
(* per consumer the items arrive in insertion order as well *)
PerConsumerOrder == \A t \in Threads : IsSubSeq(got[t], enq)

(* (b) the size bound is soft with several producers: each enqueue follows an observation
       "size < Max" by the same producer (true by construction of P1 -> P3), hence *)
Bound == Max > 0 => Len(q) <= Max + Cardinality(Pushers) - 1
BoundSingle == (Max > 0 /\ Cardinality(Pushers) = 1) => Len(q) <= Max

(* (c) is TLC's deadlock check: the only state without successor is AllDone *)
DeadlockFree == (~ENABLED Next) => AllDone

(* (d) shutdown wakes every waiting consumer: after the drain nobody sleeps on data_available
       with the queue out of use unless a notify is still to come - as liveness: *)
ConsumersFinish == <>(\A t \in Of("consumer") : pc[t] = "done")
Termination == <>AllDone

(* (e) pool: every task runs exactly once, its future is satisfied, nothing is lost at join *)
Tasks == {x \in UNION {{Script[s][i] : i \in 1..Len(Script[s])} : s \in Of("submitter")} : TRUE}
RunAtMostOnce == \A i \in DOMAIN ran : ran[i] = 1
PoolJoined == (Of("destroyer") # {} /\ \A d \in Of("destroyer") : pc[d] = "done") =>
                  /\ \A i \in Tasks : i \in DOMAIN ran /\ ran[i] = 1
                  /\ \A i \in Tasks : fut[i] = IF i \in Throwing THEN "exception" ELSE "value"
                  /\ q = <<>>
                  /\ Len(SelectSeq(deq, LAMBDA x : x = StopTask)) = Cardinality(Of("worker"))
=============================================================================
