SPECIFICATION Spec
CONSTANTS
  Ctors <- BothCtors
  NameTokens <- TokQ
  MaxName = 4
  FixedNames <- NamesForSet
  FmtTokens <- FTokQ
  MaxFmt <- NoFmt
  Heads <- HeadsForSet
  OptParts <- OptsFew
  MaxOpts = 1
  AllowNoFs = TRUE
  Setters <- SettersAll
  MaxSetters = 3
  ExportHist = FALSE
INVARIANTS TypeOK Agrees CheckAgrees Bounded Consumed
