SPECIFICATION FairSpec
CONSTANTS
  Threads <- TThreads
  Kind <- TKind
  Script <- TScript
  Max = 1
  Throwing <- NoThrow
PROPERTY ConsumersFinish
CHECK_DEADLOCK FALSE
