\* C20 ext (specs/TagRules.tla), quick+thorough: design check and export; TagsFilter over TagMatchers with regex matchers (anchored at the start, at the end, both, with a wildcard): rule lists of length <= 3 x every single tag of 10, <= 2 rules x <= 2 tags of 4, <= 1 rule x tag lists of length <= 3 over 6 tags.  Deadlock checking stays on: every behaviour must reach phase "done".
SPECIFICATION Spec
CONSTANTS
  Fams <- OnlyTF
  Alpha <- AlphaRe
  Shapes <- ShapeCross
INVARIANTS TypeOK RefinesRules RefinesIter RefinesRest Export
