SPECIFICATION Spec
CONSTANTS
  Ids = {0, 5}
  Vals = {1, 2}
  Probes = {0, 4, 5, 6}
  Backings = {"vector", "mmap", "file", "stdmm", "hybrid"}
  MaxSets = 2
  MaxRemoves = 1
  MaxOther = 1
  ExportHist = TRUE
INVARIANTS NoLoss Link Refines FileOK Export
CHECK_DEADLOCK FALSE
