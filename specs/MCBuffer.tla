------------------------------ MODULE MCBuffer ------------------------------
EXTENDS Buffer
TagLens1 == {<<1, 7>>}
TagLens2 == {<<0, 0>>, <<1, 7>>, <<3, 4>>, <<7, 8>>}
CommentLens1 == {<<3, 0>>}
CommentLens2 == {<<0, 0>>, <<3, 5>>, <<200, 100>>}
BuilderOps == {"OpenObject", "SetUser", "OpenSub", "AddTag", "AddNodeRef", "AddMember", "AddComment", "Commit", "Rollback"}
BufferOps == {"OpenObject", "Commit", "Rollback", "Clear", "AddBuffer", "PushBack", "SetRemoved", "Purge", "Swap", "Move"}
AllOps == BuilderOps \cup BufferOps
CapsAll == {64 + 8 * i : i \in 0..24}
=============================================================================
