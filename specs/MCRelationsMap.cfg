SPECIFICATION Spec
CONSTANTS
  W = 3
  Ids = {1, 2, 5, 9, 13, 21}
  MaxPairs = 3
  ExportHist = FALSE
INVARIANT Refines
CHECK_DEADLOCK FALSE
