----------------------------- MODULE PbfRefill ------------------------------
(* C06 (2/4).  PBFParser reading from the input queue (io/detail/pbf_input_format.hpp, the
   m_fd == -1 path used for everything that is not a plain local file: buffers, compressed input):
   m_input_buffer, ensure_available_in_input_queue(n), pop_from_input_queue(n) and the rule
   "EOF while waiting for the 4-byte BlobHeader length = end of file, EOF later = truncated data".

   Stream description: frames = <<<<h1, b1>>, <<h2, b2>>, ...>>; frame f occupies SizeLen bytes of
   length field, h_f bytes of BlobHeader and b_f bytes of Blob; the file is the first n bytes of the
   concatenation (every truncation).  Frame 1 is the OSMHeader blob, the others OSMData blobs.
   Decoding is modelled positionally: the length field can be decoded only from the SizeLen bytes
   that really are a length field, a BlobHeader only from the bytes that are that header; anything
   else is "garbage" (what a misaligned window would produce).

   A-layer: PTok(frames, n) = the complete frames, and ok / nohdr / truncated.
   I-layer: one action per get_input() iteration of ensure_available and one per consumed field. *)
EXTENDS Chunking
CONSTANTS SizeLen, MaxFrames, HdrLens, BlobLens, Shapes   \* Shapes: explicit set of frame sequences, or {} = all

VARIABLES frames, n,
          pc,          \* "size" | "hdr" | "blob" | "done" | "error"
          buf,         \* m_input_buffer (byte positions)
          need,        \* argument of the pending ensure_available()
          f,           \* frame whose length field was decoded last
          cons,        \* ghost: number of bytes popped from m_input_buffer so far
          out, verdict
vars == <<frames, n, pc, buf, need, f, cons, out, verdict, fed, eof, mode, ncuts, pieces>>

RECURSIVE EndOf(_, _)
EndOf(fr, k) == IF k = 0 THEN 0 ELSE EndOf(fr, k - 1) + SizeLen + fr[k][1] + fr[k][2]
Start(k) == EndOf(frames, k - 1) + 1
Total(fr) == EndOf(fr, Len(fr))

(* ---------------------------------------------------------------- A-layer *)
PTok(fr, m) == LET C == {k \in 0..Len(fr) : EndOf(fr, k) <= m}
                   K == CHOOSE k \in C : \A j \in C : j <= k
                   r == m - EndOf(fr, K)
               IN [out |-> [k \in 1..K |-> k],
                   verdict |-> IF r >= SizeLen THEN "truncated" ELSE IF K = 0 THEN "nohdr" ELSE "ok"]

(* ---------------------------------------------------------------- I-layer *)
\* frame layouts of the export configs (TLC's cfg syntax has no tuples):  Shapes <- GenShapesQ
GenShapesQ == {<< <<2, 2>>, <<2, 2>> >>, << <<1, 1>>, <<2, 1>>, <<1, 2>> >>}
GenShapesT == {<< <<2, 2>>, <<2, 2>> >>, << <<1, 2>>, <<2, 1>> >>}
NoShapes == {}
AllShapes == UNION {[1..k -> HdrLens \X BlobLens] : k \in 1..MaxFrames}
Init == /\ frames \in (IF Shapes = {} THEN AllShapes ELSE Shapes)
        /\ n \in 0..Total(frames)
        /\ QInit
        /\ pc = "size" /\ buf = <<>> /\ need = SizeLen /\ f = 0 /\ cons = 0 /\ out = <<>> /\ verdict = "none"

Contig(s) == \A i \in 1..(Len(s) - 1) : s[i + 1] = s[i] + 1
PopBuf(k) == buf' = SubSeq(buf, k + 1, Len(buf)) /\ cons' = cons + k

\* one iteration of  while (m_input_buffer.size() < size) { new_data = get_input(); if (input_done()) throw ...; buffer += new_data; }
Fill == /\ pc \in {"size", "hdr", "blob"} /\ Len(buf) < need
        /\ \E k \in 0..n :
             /\ Pop(n, k)
             /\ IF eof'
                THEN /\ IF pc = "size"                                   \* caught: return 0 = EOF
                        THEN pc' = "done" /\ verdict' = IF f = 0 THEN "nohdr" ELSE "ok"
                        ELSE pc' = "error" /\ verdict' = "truncated"
                     /\ UNCHANGED buf
                ELSE buf' = buf \o Range(fed + 1, fed + k) /\ UNCHANGED <<pc, verdict>>
        /\ UNCHANGED <<frames, n, need, f, cons, out>>

\* size = get_size_in_network_byte_order(m_input_buffer.data()); pop(4)
TakeSize == /\ pc = "size" /\ Len(buf) >= need
            /\ LET F == {k \in 1..Len(frames) : Start(k) = buf[1]} IN
               IF F # {} /\ Contig(SubSeq(buf, 1, SizeLen))
               THEN LET k == CHOOSE k \in F : TRUE IN
                    f' = k /\ need' = frames[k][1] /\ pc' = "hdr" /\ UNCHANGED verdict
               ELSE pc' = "error" /\ verdict' = "garbage" /\ UNCHANGED <<f, need>>
            /\ PopBuf(SizeLen)
            /\ UNCHANGED <<frames, n, out, qvars>>

\* decode_blob_header(m_input_buffer[0, size)); pop(size)
TakeHdr == /\ pc = "hdr" /\ Len(buf) >= need
           /\ IF SubSeq(buf, 1, need) = Range(Start(f) + SizeLen, Start(f) + SizeLen + need - 1)
              THEN need' = frames[f][2] /\ pc' = "blob" /\ UNCHANGED verdict
              ELSE pc' = "error" /\ verdict' = "garbage" /\ UNCHANGED need
           /\ PopBuf(need)
           /\ UNCHANGED <<frames, n, f, out, qvars>>

\* read_from_input_queue_with_check(size): buffer.append(m_input_buffer, 0, size); pop(size) -> decode / send to output
TakeBlob == /\ pc = "blob" /\ Len(buf) >= need
            /\ LET s == Start(f) + SizeLen + frames[f][1] IN
               IF SubSeq(buf, 1, need) = Range(s, s + need - 1)
               THEN out' = Append(out, f) /\ pc' = "size" /\ need' = SizeLen /\ UNCHANGED verdict
               ELSE pc' = "error" /\ verdict' = "garbage" /\ UNCHANGED <<out, need>>
            /\ PopBuf(need)
            /\ UNCHANGED <<frames, n, f, qvars>>

Terminal == pc \in {"done", "error"}
Stutter == Terminal /\ UNCHANGED vars
Next == Fill \/ TakeSize \/ TakeHdr \/ TakeBlob \/ Stutter
Spec == Init /\ [][Next]_vars

(* ---------------------------------------------------------------- I => A *)
WindowInv == ~Terminal => /\ buf = Range(cons + 1, fed)          \* exactly the received, unconsumed bytes
                          /\ IsPrefix(out, PTok(frames, n).out)
                          /\ cons = (IF pc = "size" THEN EndOf(frames, Len(out))
                                     ELSE IF pc = "hdr" THEN Start(f) + SizeLen - 1
                                     ELSE Start(f) + SizeLen + frames[f][1] - 1)
ResultInv == Terminal => PTok(frames, n) = [out |-> out, verdict |-> verdict]
Export == (ExportHist /\ Terminal) =>
          PrintT(<<"CASE", ToJson([mod |-> "pbf", frames |-> frames, n |-> n, pieces |-> pieces, mode |-> mode,
                                   out |-> out, verdict |-> verdict])>>)
=============================================================================
