SPECIFICATION Spec
CONSTANTS
  Threads <- NThreads
  Kind <- NKind
  Script <- NScript
  Max = 1
  Throwing <- NoThrow
INVARIANTS TypeOK FifoWhileInUse OrderAlways Accounted PerConsumerOrder Bound BoundSingle RunAtMostOnce PoolJoined DeadlockFree
CHECK_DEADLOCK FALSE
