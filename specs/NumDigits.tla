----------------------------- MODULE NumDigits -----------------------------
(* C13 helper.  Exact arithmetic on decimal digit sequences (most significant digit first) and the
   character classes of the number scanners.  TLC integers are 32 bit, every number that can exceed
   31 bits (int64 accumulators, ids, 2^32-1, 10^18 mantissas) is a sequence over 0..9 here.
   A "string" is a sequence of one-character strings; END stands for the terminating NUL. *)
EXTENDS Integers, Sequences, TLC

END == "$"                                     \* the NUL behind the last character
DigitCh == {"0", "1", "2", "3", "4", "5", "6", "7", "8", "9"}
DV == ("0" :> 0) @@ ("1" :> 1) @@ ("2" :> 2) @@ ("3" :> 3) @@ ("4" :> 4) @@
      ("5" :> 5) @@ ("6" :> 6) @@ ("7" :> 7) @@ ("8" :> 8) @@ ("9" :> 9)
DC == <<"0", "1", "2", "3", "4", "5", "6", "7", "8", "9">>     \* DC[d + 1] is the character of digit d
IsDig(c) == c \in DigitCh

At(s, i) == IF i >= 1 /\ i <= Len(s) THEN s[i] ELSE END

(* length of the maximal run of digit characters of s that starts at index i *)
RECURSIVE Run(_, _)
Run(s, i) == IF IsDig(At(s, i)) THEN 1 + Run(s, i + 1) ELSE 0

(* characters s[i .. i+n-1] (all digits) as a digit sequence *)
Digits(s, i, n) == [k \in 1..n |-> DV[s[i + k - 1]]]
Chars(d) == [k \in 1..Len(d) |-> DC[d[k] + 1]]

RECURSIVE Strip(_)
Strip(d) == IF d = <<>> \/ d[1] # 0 THEN d ELSE Strip(Tail(d))
IsZero(d) == Strip(d) = <<>>

(* comparison of two digit sequences as numbers *)
LessS(a, b) == \/ Len(a) < Len(b)
               \/ /\ Len(a) = Len(b)
                  /\ \E i \in 1..Len(a) : a[i] < b[i] /\ \A j \in 1..(i - 1) : a[j] = b[j]
Less(a, b) == LessS(Strip(a), Strip(b))
Leq(a, b) == Strip(a) = Strip(b) \/ Less(a, b)

(* d + k for a small k in 0..9 *)
RECURSIVE AddSmall(_, _)
AddSmall(d, k) == IF k = 0 THEN d
                  ELSE IF d = <<>> THEN <<k>>
                  ELSE LET n == Len(d)
                           l == d[n] + k
                       IN  IF l <= 9 THEN [d EXCEPT ![n] = l]
                           ELSE Append(AddSmall(SubSeq(d, 1, n - 1), 1), l - 10)
(* d - 1 for d > 0 *)
RECURSIVE Dec(_)
Dec(d) == LET n == Len(d) IN IF d[n] > 0 THEN [d EXCEPT ![n] = d[n] - 1]
                             ELSE Append(Dec(SubSeq(d, 1, n - 1)), 9)
Div10(d) == IF d = <<>> THEN <<>> ELSE SubSeq(d, 1, Len(d) - 1)
Mul10(d) == Append(d, 0)

(* a small natural number as digit sequence and back (only used where the value fits TLC's ints) *)
RECURSIVE NatDigits(_)
NatDigits(n) == IF n < 10 THEN <<n>> ELSE Append(NatDigits(n \div 10), n % 10)
RECURSIVE DigitsNat(_)
DigitsNat(d) == IF d = <<>> THEN 0 ELSE 10 * DigitsNat(SubSeq(d, 1, Len(d) - 1)) + d[Len(d)]

Rep(x, n) == [k \in 1..n |-> x]

I32MAX == <<2, 1, 4, 7, 4, 8, 3, 6, 4, 7>>
I32MINABS == <<2, 1, 4, 7, 4, 8, 3, 6, 4, 8>>
U32MAX == <<4, 2, 9, 4, 9, 6, 7, 2, 9, 5>>
I64MAX == <<9, 2, 2, 3, 3, 7, 2, 0, 3, 6, 8, 5, 4, 7, 7, 5, 8, 0, 7>>
I64MINABS == <<9, 2, 2, 3, 3, 7, 2, 0, 3, 6, 8, 5, 4, 7, 7, 5, 8, 0, 8>>
U64MAX == <<1, 8, 4, 4, 6, 7, 4, 4, 0, 7, 3, 7, 0, 9, 5, 5, 1, 6, 1, 5>>
=============================================================================
