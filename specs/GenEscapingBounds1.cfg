SPECIFICATION Spec
CONSTANTS
  Mode = "str"
  Alphabet <- BoundAlphabet
  ByteReps <- BytesOnePerClass
  MaxLen = 1
  Suffixes = {"", ",", "=", " ", "tab"}
  DoExport = TRUE
  HexAsShipped = FALSE
INVARIANTS TypeOK NoOverRead ConsumesSequences VerdictMatchesA StrAlwaysOk EscapeMatchesA OplNoStructural OplRoundTrip XmlEscapeMatchesA XmlNoStructural XmlRoundTrip XmlDeviation ExportStr
CHECK_DEADLOCK FALSE
