SPECIFICATION Spec
CONSTANTS
  DSNames = {"empty", "tiny", "tiny2", "basic", "wrap", "long", "kids", "role250", "meta", "hist", "delta"}
  MaxSec = 4
  KidsModel = "format"
  KidOrders = {"refs_first", "tags_first"}
  Full = TRUE
  ExportHist = TRUE
INVARIANTS DecodedOK Export
CHECK_DEADLOCK FALSE
