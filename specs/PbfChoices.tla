------------------------------ MODULE PbfChoices ------------------------------
(* C02, OSM PBF.  I-layer: the encoding choice space of fileformat.proto / osmformat.proto as encoder
   actions; every closed block is decoded by a decoder shaped like PBFPrimitiveBlockDecoder.

   Choices that change what is on the wire semantically (modelled with their arithmetic):
     - how the object list is cut into PrimitiveBlocks and PrimitiveGroups (one type per group),
       nodes plain or dense
     - granularity, lat_offset, lon_offset, date_granularity of each block (a block may only take
       objects its parameters can represent exactly); the same arithmetic applies to the node locations
       a way may carry (Way.lat / Way.lon, "LocationsOnWays": delta coded raw values, parallel to Way.refs)
     - which optional Info / DenseInfo fields are written: "min" leaves out every field that has its
       default value (and the whole Info / DenseInfo message when nothing is left), "all" writes every
       field, "neg" writes version -1 for "no version"
     - layout of the string table: first-use order, reversed, every string twice plus an unused one
   Choices the decoder must be indifferent to (labels handed to the independent encoder; a singleton
   when Full = FALSE): blob compression raw / zlib (stored, default, best) / lz4 (literals only, with
   matches), raw_size before or after the data, index data and BlobHeader size (127 .. 65535 bytes),
   unknown fields at every message level, field order, packed / unpacked / split repeated scalars,
   lengths written as 5 byte varints (producers that reserve the length and patch it later),
   Blob size (16 MiB, 32 MiB - 1), blobs of an unknown type, an empty group, header block contents.

   Actions: Header/Header2 (labels), BlkOpen (parameters), BlkExtent (string table layout, extent), GrpOpen, AddObj,
   GrpClose (= the group is decoded), BlkClose/BlkClose2 (framing labels), Finish.
   Invariant DecodedOK: decoded is a prefix of Data(ds), equal at the end.  *)
EXTENDS Encodings
CONSTANTS DSNames, Grans, Offs, DGrans, Sizes, Comps, Packs, XBlobs, Full, ExportHist
VARIABLES ds, pc, i, blk, grp, decoded, hist
vars == <<ds, pc, i, blk, grp, decoded, hist>>

D == Data(ds)
OffsX == Offs \cup (IF Full THEN {-700} ELSE {})        \* (a cfg file cannot state a negative number)
LabS(S, d) == IF Full THEN S ELSE {d}                   \* label-only dimension: a singleton in the design check
NoGrp == [kind |-> "-", info |-> "-", objs |-> <<>>]
NoBlk == [gran |-> 100, lato |-> 0, lono |-> 0, dgran |-> 1000, st |-> "canon", first |-> 1, last |-> 0]

\* ------------------------------------------------------------------ helpers
RECURSIVE Deltas(_, _, _)
Deltas(s, k, last) == IF k > Len(s) THEN <<>> ELSE <<s[k] - last>> \o Deltas(s, k + 1, s[k])
RECURSIVE Undelta(_, _, _)
Undelta(s, k, acc) == IF k > Len(s) THEN <<>> ELSE <<acc + s[k]>> \o Undelta(s, k + 1, acc + s[k])
RECURSIVE Flat(_)
Flat(ss) == IF ss = <<>> THEN <<>> ELSE Head(ss) \o Flat(Tail(ss))
RECURSIVE Dedup(_, _)
Dedup(s, seen) == IF s = <<>> THEN <<>>
                  ELSE IF Head(s) \in seen THEN Dedup(Tail(s), seen) ELSE <<Head(s)>> \o Dedup(Tail(s), seen \cup {Head(s)})
Rev(s) == [j \in 1..Len(s) |-> s[Len(s) + 1 - j]]

StringsOf(o) == <<o.user>> \o Flat([j \in 1..Len(o.tags) |-> <<o.tags[j][1], o.tags[j][2]>>]) \o [j \in 1..Len(o.mems) |-> o.mems[j].role]
\* StringTable.s of the block that carries objects first..last: entry 0 is the empty string (delimiter of dense nodes)
Table(style, first, last) ==
    LET used == Dedup(Flat([k \in 1..(last - first + 1) |-> StringsOf(D[first + k - 1])]), {""})
    IN <<"">> \o (CASE style = "rev" -> Rev(used)
                    [] style = "dup" -> Flat([k \in 1..Len(used) |-> <<used[k], used[k]>>]) \o <<"never referenced">>
                    [] OTHER -> used)
Idx(tab, s) == IF s = "" THEN 0 ELSE (CHOOSE p \in 1..Len(tab) : tab[p] = s /\ \A q \in p + 1..Len(tab) : tab[q] # s) - 1
At(tab, idx) == tab[idx + 1]                                        \* m_stringtable.at()

\* a block can carry an object only if its parameters represent the values exactly
Fits(b, o) == /\ (o.t = "n" /\ o.vis) => ((o.lat * 100 - b.lato) % b.gran = 0 /\ (o.lon * 100 - b.lono) % b.gran = 0)
              /\ \A j \in 1..Len(o.locs) : (o.locs[j][2] * 100 - b.lato) % b.gran = 0 /\ (o.locs[j][1] * 100 - b.lono) % b.gran = 0
              /\ (o.ts * 1000) % b.dgran = 0
              /\ PbfCarries(o)
RawLatV(b, lat) == (lat * 100 - b.lato) \div b.gran
RawLonV(b, lon) == (lon * 100 - b.lono) \div b.gran
RawLat(b, o) == RawLatV(b, o.lat)
RawLon(b, o) == RawLonV(b, o.lon)
RawTs(b, o) == (o.ts * 1000) \div b.dgran

\* ------------------------------------------------------------------ encoder: what is on the wire
Written(mode, o) == (IF o.v # 0 \/ mode \in {"all", "neg"} THEN {"v"} ELSE {}) \cup
                    (IF o.ts # 0 \/ mode = "all" THEN {"t"} ELSE {}) \cup (IF o.cs # 0 \/ mode = "all" THEN {"c"} ELSE {}) \cup
                    (IF o.uid # 0 \/ mode = "all" THEN {"i"} ELSE {}) \cup (IF o.user # "" \/ mode = "all" THEN {"u"} ELSE {}) \cup
                    (IF ~o.vis \/ mode = "all" THEN {"d"} ELSE {})
InfoW(b, tab, mode, o) == [has |-> Written(mode, o), v |-> IF o.v = 0 /\ mode = "neg" THEN -1 ELSE o.v, t |-> RawTs(b, o),
                           c |-> o.cs, i |-> o.uid, u |-> Idx(tab, o.user), d |-> o.vis]
PlainW(b, tab, mode, o) ==
    [id |-> o.id, keys |-> [j \in 1..Len(o.tags) |-> Idx(tab, o.tags[j][1])], vals |-> [j \in 1..Len(o.tags) |-> Idx(tab, o.tags[j][2])],
     info |-> InfoW(b, tab, mode, o),
     lat |-> IF o.t = "n" /\ o.vis THEN RawLat(b, o) ELSE 0, lon |-> IF o.t = "n" /\ o.vis THEN RawLon(b, o) ELSE 0,
     refs |-> Deltas(o.refs, 1, 0),
     \* Way.lat (9) / Way.lon (10): raw values in block units, delta coded along the way; absent when the way has no locations
     wlats |-> Deltas([j \in 1..Len(o.locs) |-> RawLatV(b, o.locs[j][2])], 1, 0),
     wlons |-> Deltas([j \in 1..Len(o.locs) |-> RawLonV(b, o.locs[j][1])], 1, 0),
     roles |-> [j \in 1..Len(o.mems) |-> Idx(tab, o.mems[j].role)],
     memids |-> Deltas([j \in 1..Len(o.mems) |-> o.mems[j].ref], 1, 0),
     types |-> [j \in 1..Len(o.mems) |-> o.mems[j].mt]]
\* raw coordinates of a dense group; a deleted node repeats the previous value (delta 0)
RECURSIVE RawCoords(_, _, _, _, _)
RawCoords(b, os, k, prev, which) ==
    IF k > Len(os) THEN <<>>
    ELSE LET c == IF os[k].vis THEN (IF which = "lat" THEN RawLat(b, os[k]) ELSE RawLon(b, os[k])) ELSE prev
         IN <<c>> \o RawCoords(b, os, k + 1, c, which)
SomeObj(os, P(_)) == \E k \in 1..Len(os) : P(os[k])
DenseW(b, tab, mode, os) ==
    LET n == Len(os) IN
    [ids |-> Deltas([k \in 1..n |-> os[k].id], 1, 0),
     lats |-> Deltas(RawCoords(b, os, 1, 0, "lat"), 1, 0), lons |-> Deltas(RawCoords(b, os, 1, 0, "lon"), 1, 0),
     kv |-> IF SomeObj(os, LAMBDA o : o.tags # <<>>)
              THEN Flat([k \in 1..n |-> Flat([j \in 1..Len(os[k].tags) |-> <<Idx(tab, os[k].tags[j][1]), Idx(tab, os[k].tags[j][2])>>]) \o <<0>>])
              ELSE <<>>,
     has |-> (IF mode \in {"all", "neg"} \/ SomeObj(os, LAMBDA o : o.v # 0) THEN {"v"} ELSE {}) \cup
             (IF mode = "all" \/ SomeObj(os, LAMBDA o : o.ts # 0) THEN {"t"} ELSE {}) \cup
             (IF mode = "all" \/ SomeObj(os, LAMBDA o : o.cs # 0) THEN {"c"} ELSE {}) \cup
             (IF mode = "all" \/ SomeObj(os, LAMBDA o : o.uid # 0) THEN {"i"} ELSE {}) \cup
             (IF mode = "all" \/ SomeObj(os, LAMBDA o : o.user # "") THEN {"u"} ELSE {}) \cup
             (IF mode = "all" \/ SomeObj(os, LAMBDA o : ~o.vis) THEN {"d"} ELSE {}),
     vers |-> [k \in 1..n |-> IF os[k].v = 0 /\ mode = "neg" THEN -1 ELSE os[k].v],
     tss |-> Deltas([k \in 1..n |-> RawTs(b, os[k])], 1, 0), css |-> Deltas([k \in 1..n |-> os[k].cs], 1, 0),
     uids |-> Deltas([k \in 1..n |-> os[k].uid], 1, 0), sids |-> Deltas([k \in 1..n |-> Idx(tab, os[k].user)], 1, 0),
     viss |-> [k \in 1..n |-> os[k].vis]]

\* ------------------------------------------------------------------ decoder (pbf_decoder.hpp)
DecInfo(b, tab, w) ==                                  \* decode_info(): fields that are absent keep the object's defaults
    [v |-> IF "v" \in w.has THEN (IF w.v = -1 THEN 0 ELSE w.v) ELSE 0,
     ts |-> IF "t" \in w.has THEN (w.t * b.dgran) \div 1000 ELSE 0,
     cs |-> IF "c" \in w.has THEN w.c ELSE 0, uid |-> IF "i" \in w.has THEN w.i ELSE 0,
     user |-> IF "u" \in w.has THEN At(tab, w.u) ELSE "", vis |-> IF "d" \in w.has THEN w.d ELSE TRUE]
Lon(b, raw) == (raw * b.gran + b.lono) \div 100        \* convert_pbf_lon
Lat(b, raw) == (raw * b.gran + b.lato) \div 100
Min3(x, y, z) == IF x <= y /\ x <= z THEN x ELSE IF y <= z THEN y ELSE z
\* decode_way(): no lat array -> references only; else the three delta registers run in parallel as long as all arrays
\* have elements, the raw running SUMS are converted (the conversion is affine, it does not commute with the sum)
DecWayLocs(b, w) ==
    IF w.wlats = <<>> THEN <<>>
    ELSE LET lats == Undelta(w.wlats, 1, 0)
             lons == Undelta(w.wlons, 1, 0)
         IN [j \in 1..Min3(Len(w.refs), Len(lats), Len(lons)) |-> <<Lon(b, lons[j]), Lat(b, lats[j])>>]
DecPlain(b, tab, t, w) ==
    LET inf == DecInfo(b, tab, w.info)
        refs == Undelta(w.memids, 1, 0)
        locs == IF t = "w" THEN DecWayLocs(b, w) ELSE <<>>
        wrefs == IF t # "w" THEN <<>> ELSE IF w.wlats = <<>> THEN Undelta(w.refs, 1, 0) ELSE SubSeq(Undelta(w.refs, 1, 0), 1, Len(locs))
    IN [
       Obj(t, w.id, inf.v, inf.vis, inf.cs, inf.ts, inf.uid, inf.user,
           IF t = "n" /\ inf.vis THEN Lon(b, w.lon) ELSE NoCoord, IF t = "n" /\ inf.vis THEN Lat(b, w.lat) ELSE NoCoord,
           [j \in 1..Len(w.keys) |-> <<At(tab, w.keys[j]), At(tab, w.vals[j])>>],
           wrefs,
           IF t = "r" THEN [j \in 1..Len(refs) |-> [mt |-> w.types[j], ref |-> refs[j], role |-> At(tab, w.roles[j])]] ELSE <<>>)
       EXCEPT !.locs = locs]
RECURSIVE ParseKV(_, _, _)                             \* build_tag_list_from_dense_nodes: pairs until a 0 KEY
ParseKV(tab, kv, p) == IF p > Len(kv) THEN [tags |-> <<>>, p |-> p]
                       ELSE IF kv[p] = 0 THEN [tags |-> <<>>, p |-> p + 1]
                       ELSE LET r == ParseKV(tab, kv, p + 2) IN [tags |-> <<<<At(tab, kv[p]), At(tab, kv[p + 1])>>>> \o r.tags, p |-> r.p]
RECURSIVE DecDense(_, _, _, _, _, _)                   \* decode_dense_nodes: delta registers start at 0 for every group
DecDense(b, tab, w, k, acc, p) ==
    IF k > Len(w.ids) THEN <<>>
    ELSE LET id  == acc.id + w.ids[k]
             lat == acc.lat + w.lats[k]
             lon == acc.lon + w.lons[k]
             cs  == IF "c" \in w.has THEN acc.cs + w.css[k] ELSE acc.cs
             ts  == IF "t" \in w.has THEN acc.ts + w.tss[k] ELSE acc.ts
             uid == IF "i" \in w.has THEN acc.uid + w.uids[k] ELSE acc.uid
             sid == IF "u" \in w.has THEN acc.sid + w.sids[k] ELSE acc.sid
             vis == IF "d" \in w.has THEN w.viss[k] ELSE TRUE
             kvr == ParseKV(tab, w.kv, p)
         IN << Obj("n", id,
                   IF "v" \in w.has THEN (IF w.vers[k] = -1 THEN 0 ELSE w.vers[k]) ELSE 0, vis,
                   IF "c" \in w.has THEN cs ELSE 0, IF "t" \in w.has THEN (ts * b.dgran) \div 1000 ELSE 0,
                   IF "i" \in w.has THEN uid ELSE 0, IF "u" \in w.has THEN At(tab, sid) ELSE "",
                   IF vis THEN Lon(b, lon) ELSE NoCoord, IF vis THEN Lat(b, lat) ELSE NoCoord,
                   kvr.tags, <<>>, <<>>) >>
            \o DecDense(b, tab, w, k + 1, [id |-> id, lat |-> lat, lon |-> lon, cs |-> cs, ts |-> ts, uid |-> uid, sid |-> sid], kvr.p)
ZeroAcc == [id |-> 0, lat |-> 0, lon |-> 0, cs |-> 0, ts |-> 0, uid |-> 0, sid |-> 0]

KindT(kind) == CASE kind = "ways" -> "w" [] kind = "rels" -> "r" [] OTHER -> "n"
DecodeGroup(b, tab, g) ==
    LET os == [k \in 1..Len(g.objs) |-> D[g.objs[k]]] IN
    IF g.kind = "dense" THEN DecDense(b, tab, DenseW(b, tab, g.info, os), 1, ZeroAcc, 1)
    ELSE [k \in 1..Len(os) |-> DecPlain(b, tab, KindT(g.kind), PlainW(b, tab, g.info, os[k]))]

\* ------------------------------------------------------------------ actions
Idxs == {"none", "small", "h127", "h128", "h255", "h256", "h32k", "hmax"}
Orders == {"canon", "rev", "rot"}

Init == /\ ds \in DSNames /\ \A k \in 1..Len(Data(ds)) : PbfCarries(Data(ds)[k])
        /\ pc = "hdr" /\ i = 1 /\ blk = NoBlk /\ grp = NoGrp /\ decoded = <<>> /\ hist = <<>>
Rec(step) == hist' = IF ExportHist THEN Append(hist, step) ELSE hist

\* (label dimensions are drawn in two actions each so that no state has thousands of successors)
Header == /\ pc = "hdr"
          /\ \E comp \in LabS(Comps, "raw"), idx \in LabS(Idxs, "none"), order \in LabS(Orders, "canon") :
                Rec([a |-> "hdr", comp |-> comp, idx |-> idx, order |-> order])
          /\ pc' = "hdr2" /\ UNCHANGED <<ds, i, blk, grp, decoded>>
Header2 == /\ pc = "hdr2"
           /\ \E unk \in LabS(BOOLEAN, FALSE), bbox \in LabS(BOOLEAN, FALSE), prog \in LabS(BOOLEAN, FALSE),
                 rsfirst \in LabS(BOOLEAN, TRUE), xblobs \in XBlobs :
                 Rec([a |-> "hdr2", unk |-> unk, bbox |-> bbox, prog |-> prog, rsfirst |-> rsfirst, xblobs |-> xblobs])
           /\ pc' = "file" /\ UNCHANGED <<ds, i, blk, grp, decoded>>

\* block parameters; at least the next object must be representable with them
BlkOpen == /\ pc = "file" /\ i <= Len(D)
           /\ \E gran \in Grans, lato \in OffsX, lono \in OffsX, dgran \in DGrans :
                /\ Fits([gran |-> gran, lato |-> lato, lono |-> lono, dgran |-> dgran], D[i])
                /\ blk' = [NoBlk EXCEPT !.gran = gran, !.lato = lato, !.lono = lono, !.dgran = dgran]
                /\ Rec([a |-> "blk", gran |-> gran, lato |-> lato, lono |-> lono, dgran |-> dgran])
           /\ pc' = "blk0" /\ UNCHANGED <<ds, i, grp, decoded>>
\* the block takes the next n objects (all representable) and fixes the layout of its string table
BlkExtent == /\ pc = "blk0"
             /\ \E st \in {"canon", "rev", "dup"}, n \in 1..(Len(D) - i + 1) :
                  /\ \A k \in i..(i + n - 1) : Fits(blk, D[k])
                  /\ blk' = [blk EXCEPT !.st = st, !.first = i, !.last = i + n - 1]
                  /\ Rec([a |-> "blkx", st |-> st, n |-> n])
             /\ pc' = "blk" /\ UNCHANGED <<ds, i, grp, decoded>>

GrpOpen == /\ pc = "blk" /\ i <= blk.last
           /\ \E kind \in (CASE D[i].t = "n" -> {"dense", "nodes"} [] D[i].t = "w" -> {"ways"} [] OTHER -> {"rels"}),
                info \in {"min", "all", "neg"},
                pack \in Packs, order \in LabS(Orders, "canon"), unk \in LabS(BOOLEAN, FALSE), lenpad \in LabS(BOOLEAN, FALSE) :
                /\ grp' = [kind |-> kind, info |-> info, objs |-> <<>>]
                /\ Rec([a |-> "grp", kind |-> kind, info |-> info, pack |-> pack, order |-> order, unk |-> unk, lenpad |-> lenpad])
           /\ pc' = "grp" /\ UNCHANGED <<ds, i, blk, decoded>>

AddObj == /\ pc = "grp" /\ i <= blk.last /\ D[i].t = KindT(grp.kind)
          /\ grp' = [grp EXCEPT !.objs = Append(@, i)]
          /\ i' = i + 1
          /\ Rec([a |-> "obj", i |-> i - 1])
          /\ UNCHANGED <<ds, pc, blk, decoded>>

\* one PrimitiveGroup decoded (decode_primitive_block_data); dense delta registers start at zero in every group
GrpClose == /\ pc = "grp" /\ grp.objs # <<>>
            /\ decoded' = decoded \o DecodeGroup(blk, Table(blk.st, blk.first, blk.last), grp)
            /\ grp' = NoGrp /\ pc' = "blk"
            /\ Rec([a |-> "endgrp"])
            /\ UNCHANGED <<ds, i, blk>>

BlkClose == /\ pc = "blk" /\ i = blk.last + 1
            /\ \E comp \in LabS(Comps, "raw"), idx \in LabS(Idxs, "none"), order \in LabS(Orders, "canon") :
                  Rec([a |-> "endblk", comp |-> comp, idx |-> idx, order |-> order])
            /\ pc' = "blkc" /\ UNCHANGED <<ds, i, blk, grp, decoded>>
BlkClose2 == /\ pc = "blkc"
             /\ \E unk \in LabS(BOOLEAN, FALSE), rsfirst \in LabS(BOOLEAN, TRUE), emptygroup \in LabS(BOOLEAN, FALSE), size \in Sizes :
                   Rec([a |-> "endblk2", unk |-> unk, rsfirst |-> rsfirst, emptygroup |-> emptygroup, size |-> size])
             /\ blk' = NoBlk /\ pc' = "file"
             /\ UNCHANGED <<ds, i, grp, decoded>>

Finish == /\ pc = "file" /\ i > Len(D)
          /\ pc' = "done" /\ UNCHANGED <<ds, i, blk, grp, decoded, hist>>

Next == Header \/ Header2 \/ BlkOpen \/ BlkExtent \/ GrpOpen \/ AddObj \/ GrpClose \/ BlkClose \/ BlkClose2 \/ Finish
Spec == Init /\ [][Next]_vars

DecodedOK == /\ IsPrefix(decoded, D)
             /\ pc = "done" => decoded = D
             /\ pc = "file" => Len(decoded) = i - 1
Export == pc = "done" => PrintT(<<"CASE", ToJson([fmt |-> "pbf", ds |-> ds, steps |-> hist, exp |-> decoded])>>)
=============================================================================
