------------------------ MODULE ContainersExtRelMap ------------------------
(* C15 extension (4/5).  RelationsMapStash / RelationsMapIndex / RelationsMapIndexes (index/relations_map.hpp):
   what RelationsMap.tla leaves out.

   * the representation switch exactly at the border: "32 bit" is scaled down to W bits and the id tokens are
     chosen around it, Small = 2^W - 1 stands for 2^32 - 1 and Small + 1 for 2^32 (the harness maps a token x to
     lo(x mod 2^W) + (x div 2^W) * 2^32 with lo(Small) = 2^32 - 1, so tokens that agree in their low W bits are
     real ids that agree in their low 32 bits);
   * the observers of the stash after every call: size(), empty(), sizes() = <<32 bit entries, 64 bit entries>>;
   * add_members(relation): only the members of type relation are recorded, as <<member, relation>>;
   * the stash as a movable value (move construction + move assignment keep the content);
   * every builder on every stash incl. the EMPTY one; for_each on an empty index; the index as a movable value;
     RelationsMapIndexes::member_to_parent() / parent_to_member(), size() and empty() of both levels;
   * building consumes the stash: after a build no call on the stash is enabled (phase # "stash"), which is
     what the debug-build assertion on m_valid demands; the harness runs the same histories on a build with
     assertions enabled.

   A-layer: a set P of <<member, parent>> pairs.  I-layer: the two flat maps and the builders as written. *)
EXTENDS Integers, Sequences, FiniteSets, TLC, Json
CONSTANTS W, Ids, MIds, ProbeIds, MaxOps, ExportHist
Small == 2 ^ W - 1

VARIABLES map32, map64, P, phase, idxA, idxB, moved, lm, nops, hist
vars == <<map32, map64, P, phase, idxA, idxB, moved, lm, nops, hist>>

PairLess(a, b) == a[1] < b[1] \/ (a[1] = b[1] /\ a[2] < b[2])
RECURSIVE SortPairs(_, _)
SortPairs(T, acc) == IF T = {} THEN acc
                     ELSE LET m == CHOOSE x \in T : \A y \in T : x = y \/ PairLess(x, y) IN SortPairs(T \ {m}, Append(acc, m))
SeqSet(s) == {s[i] : i \in 1..Len(s)}
SortUnique(s) == SortPairs(SeqSet(s), <<>>)
Flip(s) == [i \in 1..Len(s) |-> <<s[i][2], s[i][1]>>]
Append32to64(m32, m64) == SortUnique(SortUnique(m64) \o m32)
Fits(m, r) == m <= Small /\ r <= Small

NoIdx == [small |-> TRUE, m |-> <<>>]
Init == map32 = <<>> /\ map64 = <<>> /\ P = {} /\ phase = "stash" /\ idxA = NoIdx /\ idxB = NoIdx
        /\ moved = FALSE /\ lm = FALSE /\ nops = 0 /\ hist = <<>>

Rec(a, x) == /\ nops' = nops + 1 /\ lm' = (a = "move_stash")
             /\ hist' = IF ExportHist THEN Append(hist, [a |-> a, x |-> x, size |-> Len(map32') + Len(map64'),
                                                         n32 |-> Len(map32'), n64 |-> Len(map64')]) ELSE hist
Go == phase = "stash" /\ nops < MaxOps

(* stash.add(member, relation) *)
AddPairs(m32, m64, ps) ==      \* ps: sequence of <<member, relation>>
    LET F[i \in 0..Len(ps)] == IF i = 0 THEN <<m32, m64>>
                               ELSE IF Fits(ps[i][1], ps[i][2]) THEN <<Append(F[i - 1][1], ps[i]), F[i - 1][2]>>
                                                                 ELSE <<F[i - 1][1], Append(F[i - 1][2], ps[i])>>
    IN F[Len(ps)]
Add(m, r) == /\ Go
             /\ LET n == AddPairs(map32, map64, <<<<m, r>>>>) IN map32' = n[1] /\ map64' = n[2]
             /\ P' = P \cup {<<m, r>>} /\ UNCHANGED <<phase, idxA, idxB, moved>>
             /\ Rec("add", <<m, r>>)

(* stash.add_members(relation): ms = sequence of <<type, ref>>; types "w" (way) and "r" (relation) *)
AddMembers(r, ms) ==
    /\ Go
    /\ LET rs == SelectSeq(ms, LAMBDA e : e[1] = "r")
           ps == [i \in 1..Len(rs) |-> <<rs[i][2], r>>]
           n == AddPairs(map32, map64, ps)
       IN /\ map32' = n[1] /\ map64' = n[2]
          /\ P' = P \cup SeqSet(ps)
    /\ UNCHANGED <<phase, idxA, idxB, moved>>
    /\ Rec("add_members", [rel |-> r, members |-> [i \in 1..Len(ms) |-> [t |-> ms[i][1], ref |-> ms[i][2]]]])

MoveStash == /\ Go /\ ~lm
             /\ UNCHANGED <<map32, map64, P, phase, idxA, idxB, moved>>
             /\ Rec("move_stash", 0)

BuildIdx(m32sorted, m64) == IF m64 = <<>> THEN [small |-> TRUE, m |-> m32sorted]
                            ELSE [small |-> FALSE, m |-> Append32to64(m32sorted, m64)]
BuildM2P(mv) == /\ phase = "stash" /\ phase' = "m2p" /\ moved' = mv
                /\ idxA' = BuildIdx(SortUnique(map32), map64)
                /\ UNCHANGED <<map32, map64, P, idxB, lm, nops, hist>>
BuildP2M(mv) == /\ phase = "stash" /\ phase' = "p2m" /\ moved' = mv
                /\ idxA' = BuildIdx(SortUnique(Flip(map32)), Flip(map64))
                /\ UNCHANGED <<map32, map64, P, idxB, lm, nops, hist>>
BuildBoth(mv) == /\ phase = "stash" /\ phase' = "both" /\ moved' = mv
                 /\ idxA' = BuildIdx(SortUnique(map32), map64)
                 /\ idxB' = BuildIdx(SortUnique(Flip(map32)), Flip(map64))
                 /\ UNCHANGED <<map32, map64, P, lm, nops, hist>>

LookupI(idx, id) == IF idx.small /\ id > Small THEN <<>>
                    ELSE LET s == SelectSeq(idx.m, LAMBDA p : p[1] = id) IN [i \in 1..Len(s) |-> s[i][2]]
RECURSIVE Asc(_, _)
Asc(T, acc) == IF T = {} THEN acc ELSE LET m == CHOOSE x \in T : \A y \in T : x <= y IN Asc(T \ {m}, Append(acc, m))
ParentsA(id) == Asc({p[2] : p \in {q \in P : q[1] = id}}, <<>>)
MembersA(id) == Asc({p[1] : p \in {q \in P : q[2] = id}}, <<>>)

MemberLists == {<<>>} \cup {<<<<t, m>>>> : t \in {"w", "r"}, m \in MIds}
                      \cup {<<<<t1, m1>>, <<t2, m2>>>> : t1 \in {"w", "r"}, t2 \in {"w", "r"}, m1 \in MIds, m2 \in MIds}
Next == \/ \E m, r \in Ids : Add(m, r)
        \/ \E r \in MIds, ms \in MemberLists : AddMembers(r, ms)
        \/ MoveStash
        \/ \E mv \in BOOLEAN : BuildM2P(mv) \/ BuildP2M(mv) \/ BuildBoth(mv)
Spec == Init /\ [][Next]_vars

AllIds == Ids \cup ProbeIds
Refines == /\ phase = "m2p" => \A id \in AllIds : LookupI(idxA, id) = ParentsA(id)
           /\ phase = "p2m" => \A id \in AllIds : LookupI(idxA, id) = MembersA(id)
           /\ phase = "both" => \A id \in AllIds : LookupI(idxA, id) = ParentsA(id) /\ LookupI(idxB, id) = MembersA(id)
           /\ phase # "stash" => Len(idxA.m) = Cardinality(P)
           /\ phase = "both" => Len(idxB.m) = Cardinality(P) /\ idxA.small = idxB.small
           /\ phase = "stash" => SeqSet(map32) \cup SeqSet(map64) = P
           /\ \A i \in 1..Len(map32) : Fits(map32[i][1], map32[i][2])
           /\ \A i \in 1..Len(map64) : ~Fits(map64[i][1], map64[i][2])
           (* the representation is the narrow one exactly when every recorded id fits *)
           /\ phase # "stash" => (idxA.small <=> \A p \in P : Fits(p[1], p[2]))

Export == phase # "stash" =>
    PrintT(<<"CASE", ToJson([w |-> W, steps |-> hist, phase |-> phase, moved |-> moved, size |-> Cardinality(P),
                              probes |-> [i \in 1..Cardinality(AllIds) |->
                                 LET id == Asc(AllIds, <<>>)[i] IN [id |-> id, parents |-> ParentsA(id), members |-> MembersA(id)]]])>>)
=============================================================================
