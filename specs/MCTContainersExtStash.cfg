SPECIFICATION Spec
CONSTANTS
  Cap0 = 4
  Kinds <- KindsMC
  GCMin = 3
  JStar = 1
  MaxBlocks = 7
  MaxSteps = 11
  MaxClears = 1
  MaxGCs = 2
  FillFirst = 0
  RemovableTo = 0
  ExportHist = FALSE
INVARIANT Refines
PROPERTIES Reclaimed NoNeedlessGrowth CapNeverShrinks
CHECK_DEADLOCK FALSE
