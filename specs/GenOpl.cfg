SPECIFICATION Spec
CONSTANTS
  DSNames = {"empty", "tiny", "tiny2", "basic", "wrap", "long", "kids", "role250", "meta", "hist", "delta"}
  MaxExtra = 3
  Full = TRUE
  ExportHist = TRUE
INVARIANTS DecodedOK Export
CHECK_DEADLOCK FALSE
