SPECIFICATION TraceSpec
CONSTANTS
  Threads <- TrThreads
  Kind <- TrKind
  Script <- TrScript
  Max <- TrMax
  Throwing <- TrThrowing
INVARIANTS NotAccepted TypeOK FifoWhileInUse OrderAlways Accounted Bound RunAtMostOnce PoolJoined
CONSTRAINT Progress
POSTCONDITION ReportMax
CHECK_DEADLOCK FALSE
