SPECIFICATION Spec
CONSTANTS
  Shapes <- ShapesGenQ
  MaxCuts = 2
  TruncCuts = 1
  FixedSizes = {1, 2, 3}
  ExportHist = TRUE
INVARIANTS WindowInv ResultInv Export
