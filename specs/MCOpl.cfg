SPECIFICATION Spec
CONSTANTS
  DSNames = {"empty", "tiny", "tiny2", "basic", "wrap", "long", "kids", "role250", "meta", "hist", "delta"}
  MaxExtra = 2
  Full = FALSE
  ExportHist = FALSE
INVARIANTS DecodedOK
CHECK_DEADLOCK FALSE
