---------------------------- MODULE IdSetSmall ----------------------------
(* C15 (2/4).  osmium::index::IdSetSmall<T>: a vector with "same as last" suppression on set(),
   sort_unique(), merge_sorted(), linear and binary search.  A-layer: a set. *)
EXTENDS Integers, Sequences, FiniteSets, TLC, Json
CONSTANTS Ids, MaxSteps, ExportHist
VARIABLES data,    \* m_data
          other,   \* a second set (argument of merge_sorted); sorted and unique when used
          S, SO,   \* A-layer sets of data / other
          ret, steps, hist
vars == <<data, other, S, SO, ret, steps, hist>>

SeqSet(s) == {s[i] : i \in 1..Len(s)}
Sorted(s) == \A i \in 1..Len(s) - 1 : s[i] < s[i + 1]          \* strictly: sorted and unique
RECURSIVE Asc(_, _)
Asc(T, acc) == IF T = {} THEN acc ELSE LET m == CHOOSE x \in T : \A y \in T : x <= y IN Asc(T \ {m}, Append(acc, m))

Init == data = <<>> /\ other = <<>> /\ S = {} /\ SO = {} /\ ret = "none" /\ steps = 0 /\ hist = <<>>
Rec(a, x) == /\ steps' = steps + 1
             /\ hist' = IF ExportHist THEN Append(hist, [a |-> a, x |-> x, ret |-> ret', n |-> Len(data'),
                                                         sorted |-> Sorted(data'), list |-> data']) ELSE hist
Go == steps < MaxSteps

Set(id) == /\ Go
           /\ data' = IF data = <<>> \/ data[Len(data)] # id THEN Append(data, id) ELSE data
           /\ S' = S \cup {id} /\ ret' = "none" /\ UNCHANGED <<other, SO>>
           /\ Rec("set", id)
SetOther(id) == /\ Go /\ (IF other = <<>> THEN TRUE ELSE other[Len(other)] < id)      \* the second set is filled in ascending order
                /\ other' = Append(other, id) /\ SO' = SO \cup {id} /\ ret' = "none" /\ UNCHANGED <<data, S>>
                /\ Rec("set_other", id)
Get(id) == /\ Go /\ ret' = IF id \in SeqSet(data) THEN "true" ELSE "false"
           /\ UNCHANGED <<data, other, S, SO>> /\ Rec("get", id)
GetBin(id) == /\ Go /\ Sorted(data)                                     \* binary search needs sorted data
              /\ ret' = IF id \in SeqSet(data) THEN "true" ELSE "false"
              /\ UNCHANGED <<data, other, S, SO>> /\ Rec("get_binary_search", id)
SortUnique == /\ Go /\ ~Sorted(data)
              /\ data' = Asc(SeqSet(data), <<>>) /\ ret' = "none" /\ UNCHANGED <<other, S, SO>>
              /\ Rec("sort_unique", 0)
MergeSorted == /\ Go /\ Sorted(data) /\ other # <<>>                    \* std::set_union of two sorted ranges
               /\ data' = Asc(SeqSet(data) \cup SeqSet(other), <<>>)
               /\ S' = S \cup SO /\ ret' = "none" /\ UNCHANGED <<other, SO>>
               /\ Rec("merge_sorted", 0)
Clear == /\ Go /\ data # <<>> /\ data' = <<>> /\ S' = {} /\ ret' = "none" /\ UNCHANGED <<other, SO>> /\ Rec("clear", 0)

Next == \/ \E id \in Ids : Set(id) \/ SetOther(id) \/ Get(id) \/ GetBin(id)
        \/ SortUnique \/ MergeSorted \/ Clear
Spec == Init /\ [][Next]_vars

Refines == /\ SeqSet(data) = S /\ SeqSet(other) = SO
           /\ Sorted(data) => (Len(data) = Cardinality(S) /\ data = Asc(S, <<>>))
           /\ \A i \in 1..Len(data) - 1 : data[i] # data[i + 1] \/ ~Sorted(data)
Export == steps = MaxSteps => PrintT(<<"CASE", ToJson([steps |-> hist])>>)
=============================================================================
