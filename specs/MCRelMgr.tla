------------------------------- MODULE MCRelMgr -------------------------------
EXTENDS RelMgr
RelIds2 == <<1, 2>>
RelIds3 == <<1, 2, 5>>
Refs1 == {<<"n", 1>>, <<"n", 2>>, <<"w", 1>>, <<"r", 1>>, <<"r", 2>>, <<"r", 7>>}
Stream1 == << <<"n", 1>>, <<"n", 2>>, <<"n", 3>>, <<"w", 1>>, <<"w", 4>>, <<"r", 1>>, <<"r", 2>>, <<"r", 5>>, <<"r", 7>> >>
Refs2 == {<<"n", 1>>, <<"w", 1>>, <<"r", 2>>}
Stream2 == << <<"n", 1>>, <<"n", 3>>, <<"w", 1>>, <<"r", 1>>, <<"r", 2>> >>
RefsGC == {<<"n", 1>>, <<"n", 2>>, <<"n", 3>>, <<"n", 4>>, <<"w", 1>>, <<"w", 2>>}
StreamGC == << <<"n", 1>>, <<"n", 2>>, <<"n", 3>>, <<"n", 4>>, <<"n", 6>>, <<"w", 1>>, <<"w", 2>>, <<"r", 1>>, <<"r", 2>>, <<"r", 5>> >>
(* A sub-specification (fewer choices, same actions) that steers the simulation towards scenarios with many stored
   members: every relation is of interest, every member is wanted and used by one relation only, every candidate of
   the stream occurs.  SpecGC => Spec, so these are behaviours of the spec. *)
UsedRefs == {<<curMembers[j].t, curMembers[j].ref>> : j \in 1..Len(curMembers)}
            \cup UNION {{<<input[i].members[j].t, input[i].members[j].ref>> : j \in 1..Len(input[i].members)} : i \in 1..Len(input)}
NextGC == \/ OpenRelation(TRUE)
          \/ \E ref \in Refs : ref \notin UsedRefs /\ AddMember(ref, TRUE)
          \/ (Len(curMembers) >= 2 /\ CloseRelation)
          \/ Prepare \/ Feed \/ Finish
SpecGC == Init /\ [][NextGC]_vars
(* negative ids: the file order (0, then negative ids by absolute value, then positive ids) differs from the numeric order
   the members database is sorted by *)
RefsNeg == {<<"n", -1>>, <<"n", -2>>, <<"n", -3>>, <<"n", 1>>, <<"w", -1>>, <<"w", -2>>}
StreamNeg == << <<"n", -1>>, <<"n", -2>>, <<"n", -3>>, <<"n", 1>>, <<"n", 2>>, <<"w", -1>>, <<"w", -2>>, <<"r", 1>>, <<"r", 2>>, <<"r", 5>> >>
AllTypes == {"n", "w", "r"}
TNone == {}
TN == {"n"}
TW == {"w"}
TR == {"r"}
TNW == {"n", "w"}
TNR == {"n", "r"}
TWR == {"w", "r"}
TNWR == {"n", "w", "r"}
=============================================================================
