SPECIFICATION Spec
CONSTANTS
  Alphabet = {"0", "1", "5", "9", ".", "-", "e", "x"}
  MaxLen = 7
  TailMax = 0
  Mode = "feed"
  Level = 0
  Guard = TRUE
  Pull = TRUE
  DoExport = TRUE
INVARIANTS IimpliesA NoOverflow NoOverread FullOK Export
CHECK_DEADLOCK FALSE
