SPECIFICATION Spec
CONSTANTS
  Ids = {0, 9}
  Kind = "small"
  MaxSteps = 5
  ExportHist = FALSE
INVARIANT Refines
PROPERTY Independent
CHECK_DEADLOCK FALSE
