---------------------------- MODULE IdSetDense ----------------------------
(* C15 (1/4).  osmium::index::IdSetDense<T, chunk_bits> (index/id_set.hpp).

   A-layer: a set S of ids.
   I-layer: the vector of optional chunks (alloc), the bits set in them, the counter m_size, and the
   skipping iterator with its three jumps (whole missing chunk / whole zero byte / single bit).
   The model scales the geometry down: a chunk has 2^CB bytes = ChunkIds ids and the id type T holds
   0..TMax.  The harness embeds model ids into the real id space border-preservingly (first/last byte of a
   chunk, first/last chunk of T's range), see harness/containers_replay.cpp. *)
EXTENDS Integers, Sequences, FiniteSets, TLC, Json

CONSTANTS CB,        \* chunk_bits of the model
          TBits,     \* the id type has TBits bits
          Ids,       \* ids used by the histories
          MaxSteps, ExportHist

ChunkBytes == 2 ^ CB
ChunkIds == ChunkBytes * 8
TMax == 2 ^ TBits - 1

VARIABLES alloc,   \* m_data: sequence of BOOLEAN (chunk allocated or nullptr)
          bits,    \* ids whose bit is 1
          msize,   \* m_size
          S,       \* A-layer: the set
          saved,   \* a copy taken earlier: [alloc, bits, msize, S]
          ret,     \* result of the last call
          steps, hist
vars == <<alloc, bits, msize, S, saved, ret, steps, hist>>

ChunkOf(id) == id \div ChunkIds
Max(a, b) == IF a > b THEN a ELSE b

(* get_element(id): resizes the vector and allocates the chunk *)
Touch(al, id) == LET n == Max(Len(al), ChunkOf(id) + 1) IN
                 [i \in 1..n |-> IF i = ChunkOf(id) + 1 THEN TRUE ELSE IF i <= Len(al) THEN al[i] ELSE FALSE]
GetOf(al, bi, id) == /\ ChunkOf(id) < Len(al) /\ al[ChunkOf(id) + 1] /\ id \in bi

(* the iterator; all arithmetic in 64 bit *)
LastOf(al) == Len(al) * ChunkIds
ByteEmpty(bi, v) == \A k \in 0..7 : ((v \div 8) * 8 + k) \notin bi
RECURSIVE Skip(_, _, _)
Skip(al, bi, v) ==       \* IdSetDenseIterator::next()
    IF v = LastOf(al) \/ GetOf(al, bi, v) THEN v
    ELSE LET cid == ChunkOf(v) IN
         IF ~al[cid + 1] THEN Skip(al, bi, (cid + 1) * ChunkIds)          \* whole chunk missing
         ELSE IF ByteEmpty(bi, v) THEN Skip(al, bi, ((v + 8) \div 8) * 8)  \* whole byte zero
         ELSE Skip(al, bi, v + 1)
RECURSIVE Walk(_, _, _, _)
Walk(al, bi, v, acc) == IF v = LastOf(al) THEN acc ELSE Walk(al, bi, Skip(al, bi, v + 1), Append(acc, v))
IterOf(al, bi) == Walk(al, bi, Skip(al, bi, 0), <<>>)

(* A-layer iteration: ascending *)
RECURSIVE Asc(_, _)
Asc(T, acc) == IF T = {} THEN acc ELSE LET m == CHOOSE x \in T : \A y \in T : x <= y IN Asc(T \ {m}, Append(acc, m))

Init == alloc = <<>> /\ bits = {} /\ msize = 0 /\ S = {} /\ ret = "none" /\ steps = 0 /\ hist = <<>>
        /\ saved = [alloc |-> <<>>, bits |-> {}, msize |-> 0, S |-> {}]

Rec(a, x) == /\ steps' = steps + 1
             /\ hist' = IF ExportHist THEN Append(hist, [a |-> a, x |-> x, ret |-> ret', size |-> msize',
                                                         iter |-> IterOf(alloc', bits')]) ELSE hist
Go == steps < MaxSteps

CheckAndSet(id) ==      \* also set(id), which ignores the result
    /\ Go
    /\ alloc' = Touch(alloc, id)
    /\ IF id \in bits THEN ret' = "false" /\ UNCHANGED <<bits, msize>>
                      ELSE ret' = "true" /\ bits' = bits \cup {id} /\ msize' = msize + 1
    /\ S' = S \cup {id} /\ UNCHANGED saved
    /\ Rec("check_and_set", id)

Unset(id) ==            \* allocates the chunk as a side effect (get_element)
    /\ Go
    /\ alloc' = Touch(alloc, id)
    /\ IF id \in bits THEN bits' = bits \ {id} /\ msize' = msize - 1 ELSE UNCHANGED <<bits, msize>>
    /\ S' = S \ {id} /\ ret' = "none" /\ UNCHANGED saved
    /\ Rec("unset", id)

Get(id) ==
    /\ Go
    /\ ret' = IF GetOf(alloc, bits, id) THEN "true" ELSE "false"
    /\ UNCHANGED <<alloc, bits, msize, S, saved>>
    /\ Rec("get", id)

Clear ==
    /\ Go /\ alloc # <<>>
    /\ alloc' = <<>> /\ bits' = {} /\ msize' = 0 /\ S' = {} /\ ret' = "none" /\ UNCHANGED saved
    /\ Rec("clear", 0)

Save ==                 \* copy construction: an independent copy
    /\ Go /\ saved.alloc # alloc
    /\ saved' = [alloc |-> alloc, bits |-> bits, msize |-> msize, S |-> S]
    /\ ret' = "none" /\ UNCHANGED <<alloc, bits, msize, S>>
    /\ Rec("save", 0)

Restore ==              \* copy assignment from the saved copy (copy and swap)
    /\ Go /\ saved.bits # bits
    /\ alloc' = saved.alloc /\ bits' = saved.bits /\ msize' = saved.msize /\ S' = saved.S
    /\ ret' = "none" /\ UNCHANGED saved
    /\ Rec("restore", 0)

Next == \/ \E id \in Ids : CheckAndSet(id) \/ Unset(id) \/ Get(id)
        \/ Clear \/ Save \/ Restore
Spec == Init /\ [][Next]_vars

(* I => A *)
Refines == /\ bits = S
           /\ msize = Cardinality(S)
           /\ \A id \in Ids : GetOf(alloc, bits, id) = (id \in S)
           /\ IterOf(alloc, bits) = Asc(S, <<>>)
           /\ \A id \in bits : ChunkOf(id) < Len(alloc) /\ alloc[ChunkOf(id) + 1]
           /\ \A id \in Ids : id <= TMax
RetOK == ret \in {"none", "true", "false"}

Export == steps = MaxSteps => PrintT(<<"CASE", ToJson([cb |-> CB, tbits |-> TBits, steps |-> hist])>>)
=============================================================================
