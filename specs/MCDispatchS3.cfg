\* C20, thorough: design check only (no export).  Deadlock checking stays on: every behaviour must reach phase "done".
SPECIFICATION Spec
CONSTANTS
  Alphabet <- AlphaAll
  MaxLen = 3
  HandlerLists <- Singles
  Containers <- ContAll
  MaxChunks = 1
INVARIANTS TypeOK Refines NoThrow 
