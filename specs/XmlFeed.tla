------------------------------ MODULE XmlFeed -------------------------------
(* C06 (4/4).  XMLParser::run() (io/detail/xml_input_format.hpp): every piece is handed to expat's
   incremental XML_Parse(data, len, final) with  final = input_done()  evaluated after the pop, so the
   last call is the one that pops the end marker ("" , final = true).

   Stream description: els = <<w1, ..., wm>>, element j occupies w_j bytes (element 1 = prolog and
   opening root tag, element m = closing root tag, the others = one OSM object each); the file is the
   first n bytes.  expat is an environment module with exactly the contract libosmium relies on
   (STATED ASSUMPTION, expat's internals are not modelled): the elements reported and the final verdict
   depend only on the concatenation of the data of all calls, provided the calls are made in order,
   final is passed exactly once and nothing is fed after it.  A call pattern outside that contract is
   reported as verdict "contract".

   A-layer: XTok(els, n) = complete elements, ok iff the document is complete. *)
EXTENDS Chunking
CONSTANTS Shapes, TruncCuts

VARIABLES els, n, pc,
          xfed,        \* what expat has been given so far (byte positions, in call order)
          finalSeen,   \* a call with final = true has been made
          out, verdict
vars == <<els, n, pc, xfed, finalSeen, out, verdict, fed, eof, mode, ncuts, pieces>>

RECURSIVE ElEnd(_, _)
ElEnd(s, k) == IF k = 0 THEN 0 ELSE ElEnd(s, k - 1) + s[k]
Total(s) == ElEnd(s, Len(s))
Complete(s, seq) == LET C == {k \in 0..Len(s) : seq = Range(1, Len(seq)) /\ ElEnd(s, k) <= Len(seq)}
                    IN [k \in 1..(CHOOSE k \in C : \A j \in C : j <= k) |-> k]

XTok(s, m) == [out |-> Complete(s, Range(1, m)), verdict |-> IF m = Total(s) THEN "ok" ELSE "xmlerror"]

ShapesMC == UNION {[1..k -> {1, 2, 3}] : k \in 2..4}
ShapesGenQ == {<<2, 2, 2>>, <<3, 1, 2, 2>>}
ShapesGenT == {<<2, 2, 2>>, <<3, 1, 2, 2>>, <<1, 3, 3, 1>>}

Init == /\ els \in Shapes /\ n \in 0..Total(els)
        /\ QInitB(IF n = Total(els) \/ MaxCuts <= TruncCuts THEN 0 ELSE MaxCuts - TruncCuts)
        /\ pc = "loop" /\ xfed = <<>> /\ finalSeen = FALSE /\ out = <<>> /\ verdict = "none"

\* while (!input_done()) { data = get_input(); parser(data, input_done()); }
Feed == /\ pc = "loop" /\ ~eof
        /\ \E k \in 0..n :
             /\ Pop(n, k)
             /\ xfed' = xfed \o Range(fed + 1, fed + k)
        /\ finalSeen' = eof'
        /\ IF finalSeen THEN pc' = "error" /\ verdict' = "contract" /\ UNCHANGED out        \* fed after final
           ELSE IF xfed' # Range(1, Len(xfed')) THEN pc' = "error" /\ verdict' = "garbage" /\ UNCHANGED out
           ELSE /\ out' = Complete(els, xfed')
                /\ IF eof' /\ Len(xfed') # Total(els) THEN pc' = "error" /\ verdict' = "xmlerror"
                                                      ELSE pc' = "loop" /\ UNCHANGED verdict
        /\ UNCHANGED <<els, n>>
LoopExit == /\ pc = "loop" /\ eof
            /\ pc' = "done" /\ verdict' = IF finalSeen THEN "ok" ELSE "contract"
            /\ UNCHANGED <<els, n, xfed, finalSeen, out, qvars>>

Terminal == pc \in {"done", "error"}
Stutter == Terminal /\ UNCHANGED vars
Next == Feed \/ LoopExit \/ Stutter
Spec == Init /\ [][Next]_vars

WindowInv == /\ xfed = Range(1, fed)                     \* expat has seen exactly the bytes received, in order
             /\ finalSeen => fed = n /\ eof
             /\ ~Terminal => IsPrefix(out, XTok(els, n).out)
ResultInv == Terminal => XTok(els, n) = [out |-> out, verdict |-> verdict]
Export == (ExportHist /\ Terminal) =>
          PrintT(<<"CASE", ToJson([mod |-> "xml", els |-> els, n |-> n, pieces |-> pieces, mode |-> mode,
                                   out |-> out, verdict |-> verdict])>>)
=============================================================================
