\* C20 ext (specs/TagRules.tla), thorough: design check only; the three legacy filters with the larger alphabets (3-5 templates): rule lists <= 3 x every single tag of all 49, <= 2 x <= 2 of 6, <= 1 x <= 3 of 6.  Deadlock checking stays on: every behaviour must reach phase "done".
SPECIFICATION Spec
CONSTANTS
  Fams <- Legacy
  Alpha <- AlphaLegacyBig
  Shapes <- ShapeCrossT
INVARIANTS TypeOK RefinesRules RefinesIter RefinesRest
