SPECIFICATION Spec
CONSTANTS
  DSNames = {"hist"}
  MaxSec = 4
  KidsModel = "format"
  KidOrders = {"refs_first", "tags_first"}
  Full = TRUE
  ExportHist = TRUE
INVARIANTS DecodedOK Export
CHECK_DEADLOCK FALSE
