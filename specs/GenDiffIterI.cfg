\* C20, quick+thorough: design check (I => A) and case export; DiffIterator used by hand.  Deadlock checking stays on: every behaviour must reach phase "done".
SPECIFICATION Spec
CONSTANTS
  Keys <- Keys5
  MaxV = 2
  NoisePatterns <- Noise2
  Modes <- IterModes
  HandlerLists <- DiffLists
  SmallN = 4
  MaxChunks = 3
INVARIANTS Cursors Refines AShape Export
