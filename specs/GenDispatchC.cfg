\* C20, quick+thorough: design check and export; InputIterator over every cut into <= 3 buffers (vacuity guard: -coverage).  Deadlock checking stays on: every behaviour must reach phase "done".
SPECIFICATION Spec
CONSTANTS
  Alphabet <- AlphaSmall
  MaxLen = 2
  HandlerLists <- ChunkLists
  Containers <- ContInput
  MaxChunks = 3
INVARIANTS TypeOK Refines NoThrow Export
