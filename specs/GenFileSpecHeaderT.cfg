SPECIFICATION Spec
CONSTANTS
  InitLists <- InitAll
  Keys <- KeysFew
  Values <- ValuesFew
  DataParts <- DataAll
  BoxSet <- BoxesFew
  BoxLists <- BoxListsAll
  MaxOps = 3
  ExportHist = TRUE
INVARIANTS OptionsAgree JoinedAgrees JoinedShape Bounded Export
