SPECIFICATION Spec
CONSTANTS
  Options <- OptsBulk
  Elements <- ElemsF7
  FixedInputs <- NoInputs
  MaxLen = 3
  MaxBlob = 33554432
  GateSize = 31876710
  MaxEntities = 8000
  Sizes <- SizesMC
  Tolerance = 0
  PostCheck = TRUE
  ExportHist = FALSE
INVARIANTS TypeOK RoundTrip NoReaderError BlobLimits SizeLimit BlockShape DeltaReset OutcomeAgrees
