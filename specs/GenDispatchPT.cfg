\* C20, thorough.  Deadlock checking stays on: every behaviour must reach phase "done".
SPECIFICATION Spec
CONSTANTS
  Alphabet <- AlphaAll
  MaxLen = 2
  HandlerLists <- Pairs
  Containers <- ContPairs
  MaxChunks = 2
INVARIANTS TypeOK Refines NoThrow Export
