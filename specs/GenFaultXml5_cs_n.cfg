SPECIFICATION Spec
CONSTANTS
  MaxElems = 5
  MaxDepth = 6
  Fixed = TRUE
  ReadTypes = {"n"}
  ExportHist = TRUE
  Vocab = {"osm", "changeset", "tag", "discussion", "comment", "text", "foo"}
INVARIANTS TypeOK WellFormedCommitted BuilderDiscipline NoStaleBuilders ObjectMatchesStack Export
CHECK_DEADLOCK FALSE
