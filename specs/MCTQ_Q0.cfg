SPECIFICATION Spec
CONSTANTS
  Threads <- QThreads
  Kind <- QKind
  Script <- QScript
  Max = 0
  Throwing <- NoThrow
INVARIANTS TypeOK FifoWhileInUse OrderAlways Accounted PerConsumerOrder Bound BoundSingle RunAtMostOnce PoolJoined DeadlockFree
CHECK_DEADLOCK FALSE
