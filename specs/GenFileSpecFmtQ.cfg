SPECIFICATION Spec
CONSTANTS
  Ctors <- BothCtors
  NameTokens <- TokQ
  MaxName = 4
  FixedNames <- NamesForFsFew
  FmtTokens <- FTokQ
  MaxFmt = 3
  Heads <- HeadEq
  OptParts <- OptsOne
  MaxOpts = 1
  AllowNoFs = TRUE
  Setters <- NoneSet
  MaxSetters = 0
  ExportHist = TRUE
INVARIANTS TypeOK Agrees CheckAgrees Bounded Consumed Export
