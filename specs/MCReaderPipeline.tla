------------------------ MODULE MCReaderPipeline ------------------------
(* Configuration families for the exhaustive design check and the behaviour export of ReaderPipeline. *)
EXTENDS ReaderPipeline, Json
CONSTANTS Ns, NestSets, Bounds, Pools, Fds, ScriptLen, LongScripts, FdStop, SkipAll

Ops == {"header", "read", "close"}
OkScript(s) == \A i \in 1..Len(s) : \A j \in 1..Len(s) : (i < j /\ s[i] = "close") => s[j] # "header"
ShortScripts == {s \in UNION {[1..k -> Ops] : k \in 0..ScriptLen} : OkScript(s)}
Rep(op, k) == [i \in 1..k |-> op]
(* long scripts: read to the end and beyond, with and without header first, with a close in between *)
Long(n) == IF LongScripts THEN {Rep("read", 2 * n + 3), <<"header", "readall", "read">>, <<"read", "readall", "header", "read", "close">>,
                                 <<"readall", "close", "read">>,
                                 Rep("read", 2 * n + 2) \o <<"header", "close", "read">>,
                                 Rep("read", 3) \o <<"close", "read", "read">>} ELSE {}

Faults(n, pool, fd) ==
   {NoFault}
   \cup {[k |-> "read", at |-> j, pre |-> FALSE] : j \in 1..(n + 1)}
   \cup (IF fd THEN {} ELSE {[k |-> "dclose", at |-> 0, pre |-> FALSE]})
   \cup {[k |-> "end", at |-> 0, pre |-> FALSE]}
   \cup {[k |-> "parse", at |-> j, pre |-> FALSE] : j \in 1..n}
   \cup (IF n >= 1 THEN {[k |-> "parse", at |-> 1, pre |-> TRUE]} ELSE {})
   \cup (IF pool THEN {[k |-> "work", at |-> j, pre |-> FALSE] : j \in 1..n} ELSE {})

Skips(n) == IF SkipAll THEN SUBSET (1..n) ELSE {{}}

TheConfigs ==
  UNION {
   {[n |-> n, nest |-> nest, fault |-> f, maxIn |-> b[1], maxOut |-> b[2], pool |-> p, fd |-> fd, fdstop |-> FdStop, hdrblk |-> FALSE, skip |-> sk, script |-> s] :
      nest \in {x \in NestSets : Len(x) = n}, f \in Faults(n, p, fd), b \in Bounds, sk \in Skips(n), s \in ShortScripts \cup Long(n)}
   : n \in Ns, p \in Pools, fd \in Fds}

NestSmall == {<<>>, <<1>>, <<2>>, <<0>>, <<1, 1>>, <<2, 1>>, <<0, 2>>, <<1, 0>>}
NestAll(k) == UNION {[1..n -> 0..k] : n \in Ns}
NestThorough == NestAll(2) \cup {<<3>>, <<3, 1>>, <<1, 3>>, <<3, 3>>, <<0, 3>>}    \* 3 nested buffers: oldest # newest-but-one
NestLive == {<<>>, <<1>>, <<2, 1>>, <<0, 2>>}
NestLive3 == NestLive \cup {<<1, 2, 1>>, <<2, 0, 1>>}
NestBig1 == {<<1, 1, 1, 1, 1, 1>>}
NestBig == {<<1, 1, 1, 1, 1, 1>>, <<1, 2, 1, 1, 0, 1>>}     \* enough chunks to fill both queues (real bounds are >= 2)
BoundsBig == {<<2, 2>>}
BoundsLive == {<<1, 1>>}
BoundsSmall == {<<1, 1>>, <<2, 2>>}
BoundsAll == {<<1, 1>>, <<1, 2>>, <<2, 1>>, <<2, 2>>, <<3, 3>>}

(* ---- families for the behaviour export (spec -> code) ---- *)
RealScripts == {<<"header", "readall", "read">>, <<"readall", "read", "header">>, <<"read", "close", "read">>, <<"header", "read", "read", "close", "read">>,
                <<"read", "readall", "read", "close">>, <<"readall", "close", "read">>,
                <<"readall">>, <<>>, <<"header">>, <<"read">>, <<"close", "read">>}
(* real PBF file: chunk 1 is the OSMHeader blob, chunks 2..n are OSMData blobs with >= 1 object *)
PbfFaults(n, pool) == {NoFault} \cup {[k |-> "read", at |-> j, pre |-> FALSE] : j \in 1..n}
                      \cup {[k |-> "parse", at |-> 1, pre |-> TRUE]}
                      \cup {[k |-> IF pool THEN "work" ELSE "parse", at |-> j, pre |-> FALSE] : j \in 2..n}
RealPbfConfigs ==
  UNION {
   {[n |-> n, nest |-> <<0>> \o nest, fault |-> f, maxIn |-> 2, maxOut |-> 2, pool |-> p, fd |-> TRUE, fdstop |-> TRUE, hdrblk |-> TRUE,
     skip |-> {1} \cup sk, script |-> s] :
      nest \in [1..(n - 1) -> {1}], f \in PbfFaults(n, p), sk \in SUBSET (2..n), s \in RealScripts}
   : n \in Ns, p \in Pools}
(* real PBF data arriving through the input queue (compressed PBF file / memory buffer): the decompressor delivers one blob
   frame per piece, the real PBF parser reads them from the queue *)
PbfQFaults(n, pool) == {NoFault} \cup {[k |-> "read", at |-> j, pre |-> FALSE] : j \in 1..(n + 1)}
                       \cup {[k |-> "dclose", at |-> 0, pre |-> FALSE]}
                       \cup {[k |-> "parse", at |-> 1, pre |-> TRUE]}
                       \cup {[k |-> "parse", at |-> j, pre |-> FALSE] : j \in 2..n}
                       \cup (IF pool THEN {[k |-> "work", at |-> j, pre |-> FALSE] : j \in 2..n} ELSE {})
RealPbfQConfigs ==
  UNION {
   {[n |-> n, nest |-> <<0>> \o nest, fault |-> f, maxIn |-> 2, maxOut |-> 2, pool |-> p, fd |-> FALSE, fdstop |-> TRUE, hdrblk |-> TRUE,
     skip |-> {1} \cup sk, script |-> s] :
      nest \in [1..(n - 1) -> {1}], f \in PbfQFaults(n, p), sk \in SUBSET (2..n), s \in RealScripts}
   : n \in Ns, p \in Pools}
(* real XML / OPL files: no faults, every entity selection *)
RealTextConfigs ==
  UNION {
   {[n |-> n, nest |-> nest, fault |-> NoFault, maxIn |-> 2, maxOut |-> 2, pool |-> FALSE, fd |-> FALSE, fdstop |-> TRUE, hdrblk |-> FALSE,
     skip |-> sk, script |-> s] :
      nest \in [1..n -> {1, 2}], sk \in SUBSET (1..n), s \in RealScripts}
   : n \in Ns}
(* a real XML document arriving through the input queue in n pieces (piece m holds the objects of block m): read / close
   failures of the decompressor and a document that ends too early; only scripts that read with "readall" (the real
   parser decides itself how many buffers it makes of the data) *)
XmlQScripts == {<<"readall">>, <<"header", "readall", "read">>, <<"readall", "read", "header">>, <<"readall", "close", "read">>,
                <<"header">>, <<"readall", "readall">>, <<"header", "readall", "close", "header">>}
XmlQFaults(n) == {NoFault, [k |-> "dclose", at |-> 0, pre |-> FALSE], [k |-> "end", at |-> 0, pre |-> FALSE]}
                 \cup {[k |-> "read", at |-> j, pre |-> FALSE] : j \in 1..(n + 1)}
RealXmlQConfigs ==
  UNION {
   {[n |-> n, nest |-> nest, fault |-> f, maxIn |-> 2, maxOut |-> 2, pool |-> FALSE, fd |-> FALSE, fdstop |-> TRUE, hdrblk |-> FALSE,
     skip |-> sk, script |-> s] :
      nest \in [1..n -> {1}], f \in XmlQFaults(n), sk \in SUBSET (1..n), s \in XmlQScripts}
   : n \in Ns}
NoConfigs == {}
InitOnly == Init /\ [][FALSE]_vars

(* behaviour export: one line per configuration with the expected consumer log (evaluated in the initial states) *)
ExportCfg == (co.pc = "idle" /\ co.i = 1 /\ clog = <<>> /\ rt.pc = "check" /\ rt.j = 0 /\ pa.n = 0 /\ pa.hdr = "unset"
              /\ pa.pc \in {"get", "fdread"} /\ inQ.items = <<>> /\ futs = <<>> /\ ~done)
             => PrintT(<<"CASE", ToJson([cfg |-> cfg, expected |-> expected])>>)
=============================================================================
