SPECIFICATION Spec
CONSTANTS
  RelIds <- RelIds2
  Refs <- Refs2
  MaxMembers = 2
  Stream <- Stream2
  TypesWanted <- AllTypes
  ExportHist = TRUE
INVARIANTS Inv Export
CHECK_DEADLOCK FALSE
