SPECIFICATION FairSpec
CONSTANTS
  Threads <- QThreads
  Kind <- QKind
  Script <- QScript
  Max = 1
  Throwing <- NoThrow
PROPERTY Termination
CHECK_DEADLOCK FALSE
