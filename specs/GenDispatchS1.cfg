\* C20, quick+thorough: design check (I => A) and case export; every handler kind alone x all containers x every item symbol.  Deadlock checking stays on: every behaviour must reach phase "done".
SPECIFICATION Spec
CONSTANTS
  Alphabet <- AlphaRm
  MaxLen = 1
  HandlerLists <- Singles
  Containers <- ContAll
  MaxChunks = 1
INVARIANTS TypeOK Refines NoThrow Export
