SPECIFICATION Spec
CONSTANTS
  Threads <- PThreads
  Kind <- PKind
  Script <- PScript
  Max = 2
  Throwing <- PThrowing
INVARIANTS TypeOK FifoWhileInUse OrderAlways Accounted PerConsumerOrder Bound BoundSingle RunAtMostOnce PoolJoined DeadlockFree
CHECK_DEADLOCK FALSE
