---------------------------- MODULE FileSpecHeader ----------------------------
(* C01 extension (3/4): osmium::io::Header (and through it osmium::Options and osmium::Box::extend).

   A-layer: a header is (options: a finite map, boxes: a finite sequence of boxes, multiple-versions flag).
   box() is the first box or the undefined box; joined_boxes() is the bounding box of all VALID corner points of all
   boxes (undefined if there is none); the generator is just the option "generator".
   I-layer: the class as written: std::map (the initializer-list constructor keeps the FIRST of duplicate keys, set()
   the last), std::vector::push_back, joined_boxes as the fold of Box::extend(Box) = extend(bottom_left), extend(top_right)
   with Box::extend(Location) as coded (invalid locations are ignored, the first valid one sets both corners,
   later ones move the four coordinates independently).
   One action per API call:  Construct(list) | Set | SetBool | SetData | AddBox | SetBoxes | SetMulti | Finish.

   Coordinates are small integers; the harness maps them order-preservingly to int32 coordinates: -2, -1, 0, 1, 2 ->
   -180/-90 degrees, -1e-7, 0, 1e-7, 180/90 degrees; 9 -> one unit beyond the valid range (defined but invalid);
   99 -> undefined_coordinate.
   Named deviation H1: duplicate keys in the initializer list - first wins (outside the A-domain).                 *)
EXTENDS FileSpecCommon, Json

CONSTANTS InitLists,    \* sequences of <<key, value>> pairs for the initializer-list constructor
          Keys, Values, DataParts, BoxSet, BoxLists, MaxOps, ExportHist

VARIABLES pc, opts, boxes, multi,
          aopts, dom,           \* A-layer options; are we in the A-domain
          nops, steps, hist
vars == <<pc, opts, boxes, multi, aopts, dom, nops, steps, hist>>

Undef == [x |-> 99, y |-> 99]                              \* 99 = Location::undefined_coordinate
UBox == [bl |-> Undef, tr |-> Undef]
Defined(l) == l.x # 99 /\ l.y # 99                         \* Location::operator bool
Valid(l) == l.x \in -2..2 /\ l.y \in -2..2                 \* Location::valid

\* ---- A-layer
Corners(bs) == UNION {{bs[i].bl, bs[i].tr} : i \in 1..Len(bs)}
AJoined(bs) == LET P == {l \in Corners(bs) : Valid(l)} IN
               IF P = {} THEN UBox
               ELSE [bl |-> [x |-> MinOf({l.x : l \in P}), y |-> MinOf({l.y : l \in P})],
                     tr |-> [x |-> MaxOf({l.x : l \in P}), y |-> MaxOf({l.y : l \in P})]]
AFirst(bs) == IF bs = <<>> THEN UBox ELSE bs[1]

\* ---- I-layer: Box::extend(const Location&), Box::extend(const Box&), Header::joined_boxes
IExtendLoc(b, l) ==
    IF ~Valid(l) THEN b
    ELSE IF Defined(b.bl)
         THEN [bl |-> [x |-> IF l.x < b.bl.x THEN l.x ELSE b.bl.x, y |-> IF l.y < b.bl.y THEN l.y ELSE b.bl.y],
               tr |-> [x |-> IF l.x > b.tr.x THEN l.x ELSE b.tr.x, y |-> IF l.y > b.tr.y THEN l.y ELSE b.tr.y]]
         ELSE [bl |-> l, tr |-> l]
IExtendBox(b, o) == IExtendLoc(IExtendLoc(b, o.bl), o.tr)
RECURSIVE IFold(_, _)
IFold(acc, bs) == IF bs = <<>> THEN acc ELSE IFold(IExtendBox(acc, Head(bs)), Tail(bs))
IJoined(bs) == IFold(UBox, bs)
\* std::map(initializer_list): insert, which does not overwrite
RECURSIVE IInit(_, _)
IInit(o, l) == IF l = <<>> THEN o ELSE IInit(IF l[1][1] \in DOMAIN o THEN o ELSE OSet(o, l[1][1], l[1][2]), Tail(l))
NoDup(l) == \A i, j \in 1..Len(l) : i # j => l[i][1] # l[j][1]
AInit(l) == [k \in {l[i][1] : i \in 1..Len(l)} |-> LET i == CHOOSE i \in 1..Len(l) : l[i][1] = k IN l[i][2]]

Obs == [opts |-> opts, probes |-> OProbes(opts, {"zz", "generator"}), size |-> Cardinality(DOMAIN opts), empty |-> DOMAIN opts = {},
        boxes |-> boxes, box |-> (IF boxes = <<>> THEN UBox ELSE boxes[1]), joined |-> IJoined(boxes), multi |-> multi]
Rec(a, x, e) == /\ steps' = steps + 1
                /\ hist' = IF ExportHist THEN Append(hist, [a |-> a, x |-> x, exp |-> e]) ELSE hist

Construct == /\ pc = "init" /\ \E l \in InitLists :
                /\ opts' = IInit(EmptyOpts, l) /\ aopts' = AInit(l) /\ dom' = NoDup(l)
                /\ pc' = "ready" /\ UNCHANGED <<boxes, multi, nops>>
                /\ Rec("construct", l, Obs')
Go == pc = "ready" /\ nops < MaxOps
Set == /\ Go /\ \E k \in Keys, v \in Values :
          /\ opts' = OSet(opts, k, v) /\ aopts' = OSet(aopts, k, v)
          /\ nops' = nops + 1 /\ UNCHANGED <<pc, boxes, multi, dom>> /\ Rec("set", [k |-> k, v |-> v], Obs')
SetBool == /\ Go /\ \E k \in Keys, b \in BOOLEAN :
              /\ opts' = OSet(opts, k, IF b THEN VTrue ELSE VFalse) /\ aopts' = OSet(aopts, k, IF b THEN VTrue ELSE VFalse)
              /\ nops' = nops + 1 /\ UNCHANGED <<pc, boxes, multi, dom>> /\ Rec("set_bool", [k |-> k, b |-> b], Obs')
SetData == /\ Go /\ \E p \in DataParts :
              /\ opts' = OSetData(opts, p) /\ aopts' = OSetData(aopts, p)
              /\ nops' = nops + 1 /\ UNCHANGED <<pc, boxes, multi, dom>> /\ Rec("set_data", p, Obs')
AddBox == /\ Go /\ \E b \in BoxSet :
             /\ boxes' = Append(boxes, b)
             /\ nops' = nops + 1 /\ UNCHANGED <<pc, opts, aopts, multi, dom>> /\ Rec("add_box", b, Obs')
SetBoxes == /\ Go /\ \E bs \in BoxLists :
               /\ boxes' = bs
               /\ nops' = nops + 1 /\ UNCHANGED <<pc, opts, aopts, multi, dom>> /\ Rec("boxes", bs, Obs')
SetMulti == /\ Go /\ \E b \in BOOLEAN :
               /\ multi' = b
               /\ nops' = nops + 1 /\ UNCHANGED <<pc, opts, aopts, boxes, dom>> /\ Rec("set_multi", [b |-> b], Obs')
Finish == /\ pc = "ready" /\ pc' = "done" /\ UNCHANGED <<opts, boxes, multi, aopts, dom, nops, hist>> /\ steps' = steps + 1
Done == pc = "done" /\ UNCHANGED vars

Init == /\ pc = "init" /\ opts = EmptyOpts /\ boxes = <<>> /\ multi = FALSE /\ aopts = EmptyOpts /\ dom = TRUE
        /\ nops = 0 /\ steps = 0 /\ hist = <<>>
Next == Construct \/ Set \/ SetBool \/ SetData \/ AddBox \/ SetBoxes \/ SetMulti \/ Finish \/ Done
Spec == Init /\ [][Next]_vars

OptionsAgree == dom => opts = aopts
JoinedAgrees == IJoined(boxes) = AJoined(boxes)
\* a joined box is undefined or an ordered box of valid corners that contains every valid corner
JoinedShape == LET j == IJoined(boxes) IN
               \/ j = UBox /\ \A l \in Corners(boxes) : ~Valid(l)
               \/ /\ Valid(j.bl) /\ Valid(j.tr) /\ j.bl.x <= j.tr.x /\ j.bl.y <= j.tr.y
                  /\ \A l \in Corners(boxes) : Valid(l) => (j.bl.x <= l.x /\ l.x <= j.tr.x /\ j.bl.y <= l.y /\ l.y <= j.tr.y)
Bounded == steps <= 2 + MaxOps
Export == pc = "done" => PrintT(<<"CASE", ToJson([steps |-> hist])>>)

\* ---- constants
L(x, y) == [x |-> x, y |-> y]
B(a, b) == [bl |-> a, tr |-> b]
BoxesAll == {B(L(-2, -2), L(1, 1)), B(L(0, 0), L(2, 2)), B(L(0, -1), L(9, 1)), UBox, B(Undef, L(1, 0)), B(L(1, 1), L(0, -2)), B(L(-1, 9), L(-1, 9)), B(L(1, 99), L(2, 2))}
BoxesFew == {B(L(-2, -2), L(1, 1)), B(L(0, -1), L(9, 1)), UBox, B(L(1, 1), L(0, -2))}
BoxListsAll == {<<>>, <<B(L(0, 0), L(2, 2))>>, <<UBox, B(L(0, -1), L(9, 1)), B(L(-2, -2), L(1, 1))>>}
KeysAll == {"generator", "a", ""}
KeysFew == {"generator", ""}
ValuesAll == {<<"v">>, VTrue, <<"yes">>, VFalse, <<"no">>, <<>>}
ValuesFew == {<<"v">>, <<"yes">>, <<"no">>}
DataAll == {[k |-> "generator", eq |-> TRUE, v |-> <<"x=y">>], [k |-> "a", eq |-> FALSE, v |-> <<>>], [k |-> "a", eq |-> TRUE, v |-> <<>>],
            [k |-> "", eq |-> TRUE, v |-> <<"b">>]}
InitAll == {<<>>, <<<<"generator", <<"g">>>>>>, <<<<"a", VTrue>>, <<"generator", <<"g">>>>, <<"a", VFalse>>>>}
=============================================================================
