SPECIFICATION Spec
CONSTANTS
  HdrLen = 7
  MaxVarint = 10
  Shapes <- ShapesMCT
  RepointOnFail = TRUE
  MaxCuts = 99
  TruncCuts = 99
  FixedSizes = {}
  ExportHist = FALSE
INVARIANTS WindowInv ResultInv
