SPECIFICATION Spec
CONSTANTS
  P = 4096
  Sizes = {0, 4097, 12289}
  Offs = {0, 4096}
  ESizes = {1, 8}
  WPos = {0, 4096, 8191}
  F0s = {0, 4097}
  FdKinds = {"anon", "rw", "ro", "bad"}
  MaxOps = 3
  MaxWrites = 1
  MaxObjs = 1
  ExportHist = TRUE
INVARIANTS WindowOK ViewOK NoSigbus FileOK ErrOK TypedOK Export
CHECK_DEADLOCK FALSE
