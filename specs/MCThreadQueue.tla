--------------------------- MODULE MCThreadQueue ---------------------------
(* Scenarios (constant bindings) for the exhaustive design check of ThreadQueue. *)
EXTENDS ThreadQueue

(* queue, with a shutdown thread: 2 producers x 2 items, 2 consumers popping until shut down *)
QThreads == 1..5
QKind == [t \in QThreads |-> CASE t \in {1, 2} -> "producer" [] t \in {3, 4} -> "consumer" [] OTHER -> "shutdown"]
QScript == [t \in QThreads |-> CASE t = 1 -> <<11, 12>> [] t = 2 -> <<21, 22>> [] t \in {3, 4} -> <<-1>> [] OTHER -> <<1>>]

(* queue, no shutdown: consumers with quotas that add up to the number of items, one try-popper *)
NThreads == 1..4
NKind == [t \in NThreads |-> CASE t \in {1, 2} -> "producer" [] OTHER -> "consumer"]
NScript == [t \in NThreads |-> CASE t = 1 -> <<11, 12>> [] t = 2 -> <<21, 22>> [] t = 3 -> <<3>> [] OTHER -> <<1>>]

(* try_pop mixed in *)
TThreads == 1..4
TKind == [t \in TThreads |-> CASE t = 1 -> "producer" [] t = 2 -> "consumer" [] t = 3 -> "trypopper" [] OTHER -> "shutdown"]
TScript == [t \in TThreads |-> CASE t = 1 -> <<11, 12, 13>> [] t = 2 -> <<-1>> [] t = 3 -> <<2>> [] OTHER -> <<1>>]

(* single producer (the way libosmium's pipelines use the queue): hard bound *)
SThreads == 1..3
SKind == [t \in SThreads |-> CASE t = 1 -> "producer" [] t = 2 -> "consumer" [] OTHER -> "shutdown"]
SScript == [t \in SThreads |-> CASE t = 1 -> <<11, 12, 13, 14>> [] t = 2 -> <<-1>> [] OTHER -> <<1>>]

(* pool: 2 submitters x 2 tasks (one throws), 2 workers, destroyer *)
PThreads == 1..5
PKind == [t \in PThreads |-> CASE t \in {1, 2} -> "submitter" [] t \in {3, 4} -> "worker" [] OTHER -> "destroyer"]
PScript == [t \in PThreads |-> CASE t = 1 -> <<11, 12>> [] t = 2 -> <<21, 22>> [] t = 5 -> <<0, 0>> [] OTHER -> <<>>]
PThrowing == {12}

(* pool: 1 submitter x 3 tasks, 3 workers *)
P3Threads == 1..5
P3Kind == [t \in P3Threads |-> CASE t = 1 -> "submitter" [] t \in {2, 3, 4} -> "worker" [] OTHER -> "destroyer"]
P3Script == [t \in P3Threads |-> CASE t = 1 -> <<11, 12, 13>> [] t = 5 -> <<0, 0, 0>> [] OTHER -> <<>>]

NoThrow == {}
ProbeStuck == ~(Max > 0 /\ (\A s \in Of("shutdown") : pc[s] = "done") /\ (\A c \in Of("consumer") : pc[c] = "done") /\ Len(q) >= Max /\ \E p \in Of("producer") : pc[p] = "P1")
=============================================================================
