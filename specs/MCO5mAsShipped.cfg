SPECIFICATION Spec
CONSTANTS
  N = 3
  DSNames = {"role250"}
  MaxExtra = 0
  RoleLimit = 251
  ExportHist = FALSE
INVARIANTS TypeOK TableAgree RegsAgree DecodedOK
CHECK_DEADLOCK FALSE
