SPECIFICATION Spec
CONSTANTS
  N = 3
  DSNames = {"role250"}
  MaxExtra = 0
  SkipSet = {"sync", "jump", "unknown", "unknown0", "unknownL", "byte"}
  HdrSet = {"bbox", "filets"}
  RefPolicy = "any"
  MaskSet = {{"n", "w", "r"}}
  TypeResets = TRUE
  SkipUndecoded = TRUE
  FillOnly = FALSE
  BulkN = 5
  RoleLimit = 251
  ExportHist = FALSE
INVARIANTS TypeOK TableAgree RegsAgree DecodedOK
CHECK_DEADLOCK FALSE
