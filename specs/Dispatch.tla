------------------------------ MODULE Dispatch ------------------------------
(* C20 (1/2).  osmium::apply(): handler dispatch (visitor.hpp, handler.hpp, dynamic_handler.hpp,
   handler/chain.hpp, memory/item_iterator.hpp, io/input_iterator.hpp).

   A-layer: the statement of the property as a function of the input: ExpectedLog(items, hl, cont) =
   for every item the container's iterator ranges over, in order, for every handler in argument order,
   what this handler is to see (generic object callback, then exactly the matching callback; a wrapped
   function object: exactly the objects of the types it accepts), then one flush per handler.

   I-layer: the loop nest of apply_impl(): the type-filtering ItemIterator (one Seek step per iteration
   of advance_to_next_item_of_right_type), the InputIterator's update_buffer() loop (one Refill per
   read()), the pack expansion of apply_item() (one ApplyItem step per handler = one call of
   apply_item_impl(): the switch of the overload selected by the iterator's value type), NextItem (++it)
   and the pack expansion of apply_flush() (one Flush step per handler).  What a handler object does
   when one of its member functions is called is React(): static handler = the callback itself,
   DynamicHandler = virtual forwarding of the five entity callbacks, wrapper_handler = operator() with
   the always matching fallback, ChainHandler = the five entity callbacks forwarded to each inner
   handler.

   TLC checks: the log written by the I-layer is always a prefix of, and at the end equal to, the
   A-layer log; every behaviour ends in "done" (deadlock check).                                    *)
EXTENDS Integers, Sequences, FiniteSets, TLC, Json
CONSTANTS Alphabet,       \* set of [t |-> item type, rm |-> removed flag]
          MaxLen,         \* item sequences of length 0..MaxLen
          HandlerLists,   \* set of sequences of handler kind names
          Containers,     \* set of container names (ContInfo)
          MaxChunks       \* input containers: the item sequence arrives in <= MaxChunks buffers (empty ones allowed)
VARIABLES items, hl, cont, chunks,     \* the case (constant along a behaviour)
          exp,                         \* A-layer: ExpectedLog of the case, computed once in Init
          phase, it, buf, hidx, log    \* I-layer: iterator position, buffer number, pack index, callback log
vars == <<items, hl, cont, chunks, exp, phase, it, buf, hidx, log>>

ObjTypes == {"node", "way", "relation", "area"}
EntTypes == ObjTypes \cup {"changeset"}
SubTypes == {"tag_list", "way_node_list", "relation_member_list", "relation_member_list_with_full_members",
             "outer_ring", "inner_ring", "changeset_discussion"}
AllTypes == EntTypes \cup SubTypes \cup {"undefined"}
CbName(t) == IF t = "relation_member_list_with_full_members" THEN "relation_member_list" ELSE t

RECURSIVE Flat(_)
Flat(ss) == IF ss = <<>> THEN <<>> ELSE Head(ss) \o Flat(Tail(ss))
RECURSIVE Sum(_)
Sum(s) == IF s = <<>> THEN 0 ELSE Head(s) + Sum(Tail(s))
IsPrefix(a, b) == Len(a) <= Len(b) /\ SubSeq(b, 1, Len(a)) = a

(* ---------------------------------------------------------------- containers *)
\* elem: value type of the iterator; const: items are seen as const; input: InputIterator over a source of buffers
ContInfo(c) ==
  CASE c = "buf"      -> [elem |-> "entity", const |-> FALSE, input |-> FALSE]   \* apply(Buffer&)
    [] c = "cbuf"     -> [elem |-> "entity", const |-> TRUE,  input |-> FALSE]   \* apply(const Buffer&)
    [] c = "item"     -> [elem |-> "item",   const |-> FALSE, input |-> FALSE]   \* apply(b.begin<Item>(), b.end<Item>())
    [] c = "citem"    -> [elem |-> "item",   const |-> TRUE,  input |-> FALSE]   \* apply(b.cbegin<Item>(), b.cend<Item>())
    [] c = "obj"      -> [elem |-> "object", const |-> FALSE, input |-> FALSE]   \* apply(range = b.select<OSMObject>())
    [] c = "cobj"     -> [elem |-> "object", const |-> TRUE,  input |-> FALSE]   \* apply(const range)
    [] c = "in_item"  -> [elem |-> "item",   const |-> FALSE, input |-> TRUE]    \* apply(InputIterator<Source, Item>)
    [] c = "in_ent"   -> [elem |-> "entity", const |-> FALSE, input |-> TRUE]    \* apply(make_input_iterator_range<OSMEntity>(src))
    [] c = "in_cobj"  -> [elem |-> "object", const |-> TRUE,  input |-> TRUE]    \* apply(InputIterator<Source, const OSMObject>)
    [] c = "reader"   -> [elem |-> "item",   const |-> FALSE, input |-> TRUE]    \* apply(osmium::io::Reader&)
Compatible(elem, t) == CASE elem = "item" -> TRUE
                         [] elem = "entity" -> t \in EntTypes
                         [] elem = "object" -> t \in ObjTypes
ReaderTypes == {"node", "way", "relation", "changeset"}       \* what a file can deliver

(* ---------------------------------------------------------------- handler kinds *)
\* function object = set of call operators [p: parameter class, pq: "c" = const T&, "nc" = T&, cq: const/non-const operator()]
Ov(p, pq, cq) == [p |-> p, pq |-> pq, cq |-> cq]
KindInfo(k) ==
  CASE k = "SC"  -> [fam |-> "static", sig |-> "c"]           \* Handler subclass, callbacks take const T&
    [] k = "SN"  -> [fam |-> "static", sig |-> "nc"]          \* callbacks take T&
    [] k = "SB"  -> [fam |-> "static", sig |-> "both"]        \* both overloads
    [] k = "DY"  -> [fam |-> "dynhandler"]                    \* DynamicHandler.set<static handler>()
    [] k = "DF"  -> [fam |-> "dynfunctor", ov |-> {Ov(p, "c", "c") : p \in {"Node", "Way", "Relation", "Area", "Changeset"}}]
    [] k = "LNc" -> [fam |-> "func", ov |-> {Ov("Node", "c", "c")}]            \* [](const Node&)
    [] k = "LWn" -> [fam |-> "func", ov |-> {Ov("Way", "nc", "c")}]            \* [](Way&)
    [] k = "LO"  -> [fam |-> "func", ov |-> {Ov("OSMObject", "c", "c")}]       \* [](const OSMObject&)
    [] k = "LE"  -> [fam |-> "func", ov |-> {Ov("OSMEntity", "nc", "c")}]      \* [](OSMEntity&)
    [] k = "LI"  -> [fam |-> "func", ov |-> {Ov("Item", "c", "c")}]            \* [](const memory::Item&)
    [] k = "LA"  -> [fam |-> "func", ov |-> {Ov("auto", "c", "c")}]            \* [](const auto&)
    [] k = "LM"  -> [fam |-> "func", ov |-> {Ov("Relation", "c", "nc")}]       \* [](const Relation&) mutable
    [] k = "FO"  -> [fam |-> "func", ov |-> {Ov("Node", "c", "c"), Ov("Area", "nc", "c"), Ov("Changeset", "c", "nc")}]
    [] k = "CH"  -> [fam |-> "chain", inner |-> <<"c", "both">>]               \* ChainHandler<SC', SB'>
AllKinds == {"SC", "SN", "SB", "DY", "DF", "LNc", "LWn", "LO", "LE", "LI", "LA", "LM", "FO", "CH"}

Covers(p, t) == CASE p = "Node" -> t = "node" [] p = "Way" -> t = "way" [] p = "Relation" -> t = "relation"
                  [] p = "Area" -> t = "area" [] p = "Changeset" -> t = "changeset"
                  [] p = "OSMObject" -> t \in ObjTypes
                  [] p \in {"OSMEntity", "Item", "auto"} -> t \in EntTypes
Q(sig, cc) == IF sig = "both" THEN (IF cc THEN "c" ELSE "nc") ELSE sig
E(h, cb, i, q) == [h |-> h, cb |-> cb, i |-> i, q |-> q]

\* can this handler kind be used with this container at all (does the call compile)?
KindValid(k, cc) == LET ki == KindInfo(k) IN
  CASE ki.fam = "static" -> ~(ki.sig = "nc" /\ cc)
    [] ki.fam = "chain"  -> ~cc
    [] OTHER -> TRUE
Valid(h, c, its) == /\ \A s \in 1..Len(h) : KindValid(h[s], ContInfo(c).const)
                    /\ c = "reader" => \A i \in 1..Len(its) : its[i].t \in ReaderTypes /\ ~its[i].rm

(* ---------------------------------------------------------------- A-layer *)
ACallbacks(t) == IF t \in ObjTypes THEN <<"osm_object", t>>
                 ELSE IF t = "undefined" THEN <<>> ELSE <<CbName(t)>>
\* the call operators of a function object that accept an object of type t (const or not)
Accepting(ov, t, cc) == {o \in ov : Covers(o.p, t) /\ (cc => o.pq = "c")}
ACall(ov, h, t, i, cc) == IF t \in EntTypes /\ Accepting(ov, t, cc) # {}
                          THEN LET o == CHOOSE o \in Accepting(ov, t, cc) : TRUE IN <<E(h, "call_" \o o.p, i, o.pq)>>
                          ELSE <<>>
\* what the handler in slot s is to see of item i (type t)
ASees(k, s, t, i, cc) == LET ki == KindInfo(k) IN
  CASE ki.fam = "static"     -> [j \in 1..Len(ACallbacks(t)) |-> E(10 * s, ACallbacks(t)[j], i, Q(ki.sig, cc))]
    [] ki.fam = "dynhandler" -> IF t \in EntTypes THEN <<E(10 * s + 1, t, i, "c")>> ELSE <<>>
    [] ki.fam = "dynfunctor" -> ACall(ki.ov, 10 * s + 1, t, i, TRUE)
    [] ki.fam = "func"       -> ACall(ki.ov, 10 * s, t, i, cc)
    [] ki.fam = "chain"      -> IF t \in EntTypes THEN [j \in 1..Len(ki.inner) |-> E(10 * s + j, t, i, Q(ki.inner[j], FALSE))] ELSE <<>>
AFlush(k, s) == LET ki == KindInfo(k) IN
  CASE ki.fam = "static"     -> <<E(10 * s, "flush", 0, "")>>
    [] ki.fam = "dynhandler" -> <<E(10 * s + 1, "flush", 0, "")>>
    [] ki.fam = "chain"      -> [j \in 1..Len(ki.inner) |-> E(10 * s + j, "flush", 0, "")]
    [] OTHER -> <<>>
ExpectedLog(its, h, c) ==
  LET ci == ContInfo(c)
      perItem(i) == IF Compatible(ci.elem, its[i].t)
                    THEN Flat([s \in 1..Len(h) |-> ASees(h[s], s, its[i].t, i, ci.const)]) ELSE <<>>
  IN Flat([i \in 1..Len(its) |-> perItem(i)]) \o Flat([s \in 1..Len(h) |-> AFlush(h[s], s)])

(* ---------------------------------------------------------------- I-layer *)
\* the switch of the apply_item_impl() overload selected by the iterator's value type: callbacks invoked on the handler
Switch(elem, t) ==
  CASE elem = "item"   -> (CASE t = "undefined" -> <<>>
                             [] t \in ObjTypes -> <<"osm_object", t>>
                             [] t \in {"relation_member_list", "relation_member_list_with_full_members"} -> <<"relation_member_list">>
                             [] OTHER -> <<t>>)
    [] elem = "entity" -> (CASE t \in ObjTypes -> <<"osm_object", t>> [] t = "changeset" -> <<"changeset">> [] OTHER -> <<"throw">>)
    [] elem = "object" -> (CASE t \in ObjTypes -> <<"osm_object", t>> [] OTHER -> <<"throw">>)
\* wrapper_handler::operator(): the wrapped call operators plus the fallback taking const Item&, which always matches
WrapperCall(ov, h, cb, i, cc) == LET viable == {o \in ov : Covers(o.p, cb) /\ (cc => o.pq = "c")} IN
  IF viable = {} THEN <<>> ELSE LET o == CHOOSE o \in viable : TRUE IN <<E(h, "call_" \o o.p, i, o.pq)>>
\* member function cb of the handler object in slot s is called with item i
React(k, s, cb, i, cc) == LET ki == KindInfo(k) IN
  CASE ki.fam = "static"     -> <<E(10 * s, cb, i, Q(ki.sig, cc))>>
    [] ki.fam = "dynhandler" -> IF cb \in EntTypes THEN <<E(10 * s + 1, cb, i, "c")>> ELSE <<>>       \* m_impl->cb(const T&); rest: Handler's no-ops
    [] ki.fam = "dynfunctor" -> IF cb \in EntTypes THEN WrapperCall(ki.ov, 10 * s + 1, cb, i, TRUE) ELSE <<>>
    [] ki.fam = "func"       -> IF cb \in EntTypes THEN WrapperCall(ki.ov, 10 * s, cb, i, cc) ELSE <<>>
    [] ki.fam = "chain"      -> IF cb \in EntTypes THEN [j \in 1..Len(ki.inner) |-> E(10 * s + j, cb, i, Q(ki.inner[j], FALSE))] ELSE <<>>
ReactFlush(k, s) == LET ki == KindInfo(k) IN
  CASE ki.fam = "static"     -> <<E(10 * s, "flush", 0, "")>>
    [] ki.fam = "dynhandler" -> <<E(10 * s + 1, "flush", 0, "")>>      \* flush_dispatch(handler, int)
    [] ki.fam = "dynfunctor" -> <<>>                                   \* flush_dispatch(handler, long)
    [] ki.fam = "func"       -> <<>>                                   \* wrapper_handler::flush()
    [] ki.fam = "chain"      -> [j \in 1..Len(ki.inner) |-> E(10 * s + j, "flush", 0, "")]

CI == ContInfo(cont)
N == Len(items)
BufEnd(b) == Sum(SubSeq(chunks, 1, b))           \* index of the last item of buffer b
ItemSeqs == UNION {[1..n -> Alphabet] : n \in 0..MaxLen}
Chunkings(n, c) == IF ContInfo(c).input /\ c # "reader"
                   THEN {ch \in UNION {[1..m -> 0..n] : m \in 0..MaxChunks} : Sum(ch) = n}
                   ELSE {<<n>>}

Init == /\ items \in ItemSeqs /\ hl \in HandlerLists /\ cont \in Containers
        /\ Valid(hl, cont, items)
        /\ chunks \in Chunkings(Len(items), cont)
        /\ exp = ExpectedLog(items, hl, cont)
        /\ phase = (IF ContInfo(cont).input THEN "refill" ELSE "seek")
        /\ it = 1 /\ buf = (IF ContInfo(cont).input THEN 0 ELSE 1) /\ hidx = 1 /\ log = <<>>
Same == UNCHANGED <<items, hl, cont, chunks, exp>>

\* InputIterator::update_buffer(): one read() of the source
Refill == /\ phase = "refill" /\ Same /\ UNCHANGED <<log>>
          /\ IF buf = Len(chunks)
             THEN phase' = "flush" /\ hidx' = 1 /\ UNCHANGED <<it, buf>>           \* invalid buffer: end of input
             ELSE phase' = "seek" /\ buf' = buf + 1 /\ it' = BufEnd(buf) + 1 /\ UNCHANGED hidx
\* ItemIterator::advance_to_next_item_of_right_type(), one loop iteration
Seek == /\ phase = "seek" /\ Same /\ UNCHANGED <<log, buf>>
        /\ IF it > BufEnd(buf)
           THEN it' = it /\ hidx' = 1 /\ phase' = (IF CI.input THEN "refill" ELSE "flush")
           ELSE IF Compatible(CI.elem, items[it].t)
                THEN phase' = "item" /\ hidx' = 1 /\ it' = it
                ELSE it' = it + 1 /\ UNCHANGED <<phase, hidx>>
\* apply_item(): one element of the pack expansion = one call of apply_item_impl(*it, handler)
ApplyItem == /\ phase = "item" /\ hidx <= Len(hl) /\ Same /\ UNCHANGED <<it, buf, phase>>
             /\ LET cbs == Switch(CI.elem, items[it].t) IN
                log' = log \o Flat([j \in 1..Len(cbs) |-> IF cbs[j] = "throw" THEN <<E(0, "throw", it, "")>>
                                                          ELSE React(hl[hidx], hidx, cbs[j], it, CI.const)])
             /\ hidx' = hidx + 1
NextItem == /\ phase = "item" /\ hidx = Len(hl) + 1 /\ Same /\ UNCHANGED <<log, buf>>
            /\ it' = it + 1 /\ phase' = "seek" /\ hidx' = 1
\* apply_flush(): one element of the pack expansion
Flush == /\ phase = "flush" /\ Same /\ UNCHANGED <<it, buf>>
         /\ IF hidx <= Len(hl)
            THEN log' = log \o ReactFlush(hl[hidx], hidx) /\ hidx' = hidx + 1 /\ UNCHANGED phase
            ELSE phase' = "done" /\ UNCHANGED <<log, hidx>>
Done == phase = "done" /\ UNCHANGED vars

Next == Refill \/ Seek \/ ApplyItem \/ NextItem \/ Flush \/ Done
Spec == Init /\ [][Next]_vars

TypeOK == /\ phase \in {"refill", "seek", "item", "flush", "done"}
          /\ it \in 1..N + 1 /\ buf \in 0..Len(chunks) /\ hidx \in 1..Len(hl) + 1
Refines == /\ IsPrefix(log, exp)
           /\ phase = "done" => log = exp
NoThrow == \A j \in 1..Len(log) : log[j].cb # "throw"       \* the filtering iterators never reach a default: branch
Export == phase = "done" => PrintT(<<"CASE", ToJson([cont |-> cont, hl |-> hl, items |-> items, chunks |-> chunks, log |-> log])>>)
=============================================================================
