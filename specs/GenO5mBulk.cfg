SPECIFICATION Spec
CONSTANTS
  N = 15000
  DSNames = {"bulk"}
  MaxExtra = 0
  SkipSet = {"sync", "jump", "unknown", "unknown0", "unknownL", "byte"}
  HdrSet = {"bbox", "filets"}
  RefPolicy = "first"
  MaskSet = {{"n", "w", "r"}}
  TypeResets = TRUE
  SkipUndecoded = TRUE
  FillOnly = TRUE
  BulkN = 15010
  RoleLimit = 250
  ExportHist = TRUE
INVARIANTS DecodedOK Export
CHECK_DEADLOCK FALSE
