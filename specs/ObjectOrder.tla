--------------------------- MODULE ObjectOrder ---------------------------
(* C16.  Object orderings of libosmium and the CheckOrder handler.

   A-layer: the orderings as DOCUMENTED (type, then id with "0 first, then negative
            ids, then positive ids, both by ascending absolute value", then version,
            then timestamp only if both are valid; newest-first variant).
   I-layer: the orderings as WRITTEN (const_tie(type, id > 0, positive_id, version, ts)
            compared lexicographically; id_order as the if-cascade of the code) and the
            CheckOrder handler as the state machine over its has and max registers.

   Ids are signed ranks -IdMax..IdMax.  The harness owns the rank -> value table
   (1 -> 1, 2 -> 2, 3 -> 2^32, 4 -> INT64_MAX; negative likewise, -4 -> INT64_MIN+1).
   Versions are ranks (0,1,2,3 -> 0,1,2,2^31-1); timestamps 0 = unset, 1,2 = two instants. *)
EXTENDS Integers, Sequences, FiniteSets, TLC, Json

CONSTANTS IdMax,        \* ids are -IdMax..IdMax
          LawIds,       \* subset of ids used for the triple laws
          LawTypes,     \* subset of 1..3 used for the triple laws
          NVersions,    \* versions 0..NVersions-1
          SeqLen,       \* CheckOrder export: sequences of exactly this length
          SeqVersions   \* versions used in exported CheckOrder sequences

Ids      == (-IdMax)..IdMax
Types    == 1..3                      \* node < way < relation
Versions == 0..(NVersions-1)
Stamps   == 0..2                      \* 0 = not set
Obj      == [t: Types, id: Ids, v: Versions, ts: Stamps, vis: BOOLEAN]
LawObj   == [t: LawTypes, id: LawIds, v: Versions, ts: Stamps, vis: BOOLEAN]

Abs(i) == IF i < 0 THEN -i ELSE i
LawIdsSmall == {-IdMax, -1, 0, 1, IdMax}
LawIdsAll == Ids

------------------------------------------------------------------------
(* Lexicographic "less" on equal-length integer tuples. *)
RECURSIVE LexLess(_, _)
LexLess(x, y) ==
    IF x = <<>> THEN FALSE
    ELSE IF Head(x) < Head(y) THEN TRUE
    ELSE IF Head(x) > Head(y) THEN FALSE
    ELSE LexLess(Tail(x), Tail(y))

B(b) == IF b THEN 1 ELSE 0

------------------------------------------------------------------------
(* A-layer: documented. *)
IdClass(i) == IF i = 0 THEN 0 ELSE IF i < 0 THEN 1 ELSE 2
IdLessDoc(i, j) == LexLess(<<IdClass(i), Abs(i)>>, <<IdClass(j), Abs(j)>>)

BothTs(a, b) == a.ts # 0 /\ b.ts # 0
TsA(a, b) == IF BothTs(a, b) THEN a.ts ELSE 0
TsB(a, b) == IF BothTs(a, b) THEN b.ts ELSE 0

LessDoc(a, b) ==
    \/ a.t < b.t
    \/ a.t = b.t /\ IdLessDoc(a.id, b.id)
    \/ a.t = b.t /\ a.id = b.id /\ a.v < b.v
    \/ a.t = b.t /\ a.id = b.id /\ a.v = b.v /\ BothTs(a, b) /\ a.ts < b.ts

LessNoTsDoc(a, b) ==
    \/ a.t < b.t
    \/ a.t = b.t /\ IdLessDoc(a.id, b.id)
    \/ a.t = b.t /\ a.id = b.id /\ a.v < b.v

(* newest first: later versions before earlier ones, later timestamps first, visible first *)
LessRevDoc(a, b) ==
    \/ a.t < b.t
    \/ a.t = b.t /\ IdLessDoc(a.id, b.id)
    \/ a.t = b.t /\ a.id = b.id /\ a.v > b.v
    \/ a.t = b.t /\ a.id = b.id /\ a.v = b.v /\ BothTs(a, b) /\ a.ts > b.ts
    \/ a.t = b.t /\ a.id = b.id /\ a.v = b.v /\ TsA(a, b) = TsB(a, b) /\ a.vis /\ ~b.vis

EqTIV(a, b) == a.t = b.t /\ a.id = b.id /\ a.v = b.v
EqTI(a, b)  == a.t = b.t /\ a.id = b.id

------------------------------------------------------------------------
(* I-layer: as written. *)
IdOrderImpl(l, r) ==
    IF r = 0 THEN FALSE
    ELSE IF l = 0 THEN TRUE
    ELSE IF l < 0 THEN (IF r > 0 THEN TRUE ELSE l > r)
    ELSE IF r < 0 THEN FALSE
    ELSE l < r

LessImpl(a, b) == LexLess(<<a.t, B(a.id > 0), Abs(a.id), a.v, TsA(a, b)>>,
                          <<b.t, B(b.id > 0), Abs(b.id), b.v, TsB(a, b)>>)
LessNoTsImpl(a, b) == LexLess(<<a.t, B(a.id > 0), Abs(a.id), a.v>>,
                              <<b.t, B(b.id > 0), Abs(b.id), b.v>>)
LessRevImpl(a, b) == LexLess(<<a.t, B(a.id > 0), Abs(a.id), b.v, TsB(a, b), B(b.vis)>>,
                             <<b.t, B(b.id > 0), Abs(b.id), a.v, TsA(a, b), B(a.vis)>>)

------------------------------------------------------------------------
(* Laws, stated for a comparator R over a triple. *)
Irreflexive(R(_, _), a)     == ~R(a, a)
Asymmetric(R(_, _), a, b)   == R(a, b) => ~R(b, a)
Transitive(R(_, _), a, b, c) == R(a, b) /\ R(b, c) => R(a, c)
Incomp(R(_, _), a, b)       == ~R(a, b) /\ ~R(b, a)
IncompTransitive(R(_, _), a, b, c) == Incomp(R, a, b) /\ Incomp(R, b, c) => Incomp(R, a, c)

AllTsSet(a, b, c) == a.ts # 0 /\ b.ts # 0 /\ c.ts # 0

VARIABLES tri,      \* laws mode: <<a, b, c>>; otherwise <<>>
          has,      \* CheckOrder: [1..3 -> BOOLEAN]   (m_has_node/way/relation)
          max,      \* CheckOrder: [1..3 -> Ids]       (m_max_*_id)
          verdict,  \* "ok" | "rejected"
          lastObj,  \* A-layer ghost: last object fed (or <<>>)
          asc,      \* A-layer ghost: stream so far strictly ascending by (type, documented id order)
          hist      \* export only: sequence fed so far with the verdict after each element
vars == <<tri, has, max, verdict, lastObj, asc, hist>>

PairLaws(a, b) ==
    /\ LessDoc(a, b) = LessImpl(a, b)
    /\ LessNoTsDoc(a, b) = LessNoTsImpl(a, b)
    /\ LessRevDoc(a, b) = LessRevImpl(a, b)
    /\ IdLessDoc(a.id, b.id) = IdOrderImpl(a.id, b.id)
    /\ Irreflexive(LessImpl, a) /\ Irreflexive(LessNoTsImpl, a) /\ Irreflexive(LessRevImpl, a)
    /\ Asymmetric(LessImpl, a, b) /\ Asymmetric(LessNoTsImpl, a, b) /\ Asymmetric(LessRevImpl, a, b)
    \* consistency with equality on (type, id, version)
    /\ EqTIV(a, b) = Incomp(LessNoTsImpl, a, b)
    /\ EqTIV(a, b) => (~BothTs(a, b) \/ a.ts = b.ts) = Incomp(LessImpl, a, b)
    /\ LessNoTsImpl(a, b) => LessImpl(a, b)
    /\ LessImpl(a, b) => (LessNoTsImpl(a, b) \/ EqTIV(a, b))
    \* all orderings agree on (type, id); newest-first reverses within one object
    /\ ~EqTI(a, b) => (LessImpl(a, b) = LessRevImpl(a, b))
    /\ (EqTI(a, b) /\ a.v # b.v) => (LessRevImpl(a, b) = LessImpl(b, a))
    /\ (a.t = b.t /\ a.id # b.id) => (LessImpl(a, b) = IdOrderImpl(a.id, b.id))
    /\ (a.t # b.t) => (LessImpl(a, b) = (a.t < b.t))

TripleLaws(a, b, c) ==
    /\ Transitive(LessNoTsImpl, a, b, c)
    /\ IncompTransitive(LessNoTsImpl, a, b, c)
    /\ AllTsSet(a, b, c) =>
          /\ Transitive(LessImpl, a, b, c) /\ IncompTransitive(LessImpl, a, b, c)
          /\ Transitive(LessRevImpl, a, b, c) /\ IncompTransitive(LessRevImpl, a, b, c)
    /\ Transitive(IdOrderImpl, a.id, b.id, c.id)
    /\ IncompTransitive(IdOrderImpl, a.id, b.id, c.id)

LawsInv == Len(tri) = 3 => PairLaws(tri[1], tri[2]) /\ TripleLaws(tri[1], tri[2], tri[3])

------------------------------------------------------------------------
(* CheckOrder, I-layer as written; A-layer ghosts lastObj/asc. *)
ChkIdle == /\ has = [t \in Types |-> FALSE] /\ max = [t \in Types |-> 0]
           /\ verdict = "ok" /\ lastObj = <<>> /\ asc = TRUE

InitLaws == tri \in {<<a>> : a \in LawObj} /\ ChkIdle /\ hist = <<>>
NextLaws == /\ Len(tri) = 1
            /\ \E b, c \in LawObj : tri' = <<tri[1], b, c>>
            /\ UNCHANGED <<has, max, verdict, lastObj, asc, hist>>
InitChk  == tri = <<>> /\ ChkIdle /\ hist = <<>>

(* what the handler does for an object of type t with id i; TRUE = throws *)
Throws(t, i) ==
    \/ \E u \in Types : u > t /\ has[u]                      \* "Found a node after a way" etc.
    \/ has[t] /\ max[t] = i                                  \* "ID twice in input"
    \/ has[t] /\ IdOrderImpl(i, max[t])                      \* "IDs out of order"

AscStep(o) == lastObj = <<>> \/ (lastObj.t < o.t \/ (lastObj.t = o.t /\ IdLessDoc(lastObj.id, o.id)))

Feed(o) ==
    /\ verdict = "ok"
    /\ IF Throws(o.t, o.id)
       THEN /\ verdict' = "rejected" /\ UNCHANGED <<has, max>>
       ELSE /\ has' = [has EXCEPT ![o.t] = TRUE]
            /\ max' = [max EXCEPT ![o.t] = o.id]
            /\ UNCHANGED verdict
    /\ asc' = (asc /\ AscStep(o))
    /\ lastObj' = o
    /\ UNCHANGED tri

ChkObj == [t: Types, id: Ids, v: {1}, ts: {0}, vis: {TRUE}]

NextChk == \E o \in ChkObj : Feed(o) /\ UNCHANGED hist
NoNext  == FALSE /\ UNCHANGED vars

(* accepts a stream exactly when it is strictly ascending by type, then id *)
CheckerAgrees == (verdict = "ok") = asc
(* the checker's registers are the A-layer's last object of each type *)
CheckerRegs == verdict = "ok" /\ lastObj # <<>> => has[lastObj.t] /\ max[lastObj.t] = lastObj.id

SpecLaws == InitLaws /\ [][NextLaws]_vars
SpecChk  == InitChk /\ [][NextChk]_vars

------------------------------------------------------------------------
(* Export 1: the whole comparison matrix, one row per object. *)
Code(o) == ((((o.t - 1) * (2*IdMax+1) + (o.id + IdMax)) * NVersions + o.v) * 3 + o.ts) * 2 + B(o.vis)
NObj == 3 * (2*IdMax+1) * NVersions * 3 * 2
Decode(c) == LET vis == c % 2   c1 == c \div 2
                 ts == c1 % 3   c2 == c1 \div 3
                 v == c2 % NVersions   c3 == c2 \div NVersions
                 id == (c3 % (2*IdMax+1)) - IdMax
                 t == (c3 \div (2*IdMax+1)) + 1
             IN [t |-> t, id |-> id, v |-> v, ts |-> ts, vis |-> (vis = 1)]
Bits(a, b) == B(LessDoc(a, b)) + 2*B(LessNoTsDoc(a, b)) + 4*B(LessRevDoc(a, b))
              + 8*B(EqTIV(a, b)) + 16*B(EqTI(a, b)) + 32*B(IdLessDoc(a.id, b.id))

InitRows == tri \in {<<a>> : a \in Obj} /\ ChkIdle /\ hist = <<>>
ExportRows == PrintT(<<"CASE", ToJson([a |-> Code(tri[1]), obj |-> tri[1],
                                       row |-> [c \in 1..NObj |-> Bits(tri[1], Decode(c-1))]])>>)
SpecRows == InitRows /\ [][NoNext]_vars

(* Export 2: CheckOrder verdict for every sequence of length SeqLen (with the verdict after
   every prefix). *)
SeqObj == [t: Types, id: Ids, v: SeqVersions, ts: {0}, vis: {TRUE}]
NextSeq == /\ Len(hist) < SeqLen
           /\ \E o \in SeqObj :
                /\ Feed(o)          \* enabled only while verdict = "ok": the handler threw, the run is over
                /\ hist' = Append(hist, [t |-> o.t, id |-> o.id, v |-> o.v,
                                         acc |-> (verdict' = "ok")])
ExportSeq == (Len(hist) = SeqLen \/ verdict = "rejected") => PrintT(<<"CASE", ToJson(hist)>>)
SpecSeq == InitChk /\ [][NextSeq]_vars
=============================================================================
