SPECIFICATION Spec
CONSTANTS
  N = 3
  DSNames = {"basic", "wrap", "long", "kids", "meta", "hist", "delta"}
  MaxExtra = 3
  SkipSet = {"sync", "jump", "unknown", "unknown0", "unknownL", "byte"}
  HdrSet = {"bbox", "filets"}
  RefPolicy = "any"
  MaskSet = {{"n", "w", "r"}, {"n"}, {"w"}, {"r"}, {"n", "w"}, {"n", "r"}, {"w", "r"}}
  TypeResets = TRUE
  SkipUndecoded = TRUE
  FillOnly = FALSE
  BulkN = 5
  RoleLimit = 250
  ExportHist = TRUE
INVARIANTS TableAgree RegsAgree DecodedOK Export
CHECK_DEADLOCK FALSE
