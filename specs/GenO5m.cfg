SPECIFICATION Spec
CONSTANTS
  N = 3
  DSNames = {"basic", "wrap", "long", "role250", "meta", "hist", "delta"}
  MaxExtra = 3
  RoleLimit = 250
  ExportHist = TRUE
INVARIANTS TableAgree RegsAgree DecodedOK Export
CHECK_DEADLOCK FALSE
