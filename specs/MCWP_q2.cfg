SPECIFICATION Spec
CONSTANTS
  Configs <- TheConfigs
  ScriptLen = 0
  LongScripts = TRUE
  Ops <- AllOps
  Formats = {"opl"}
  Comps = {"plain", "gzip", "bzip2"}
  Pools = {FALSE, TRUE}
  Bounds = {2}
  Caps = {1}
  MaxAt = 9
  FaultKinds <- AllKinds
  FdFix = TRUE
  EmptyFix = TRUE
  GenFormats = {"xml"}
  GenComps = {"plain"}
  GenScriptLen = 0
INVARIANTS TypeOK LogAllowed CompleteOrThrows NeverLost NoSpuriousException RefusesAfterException FutureReadOnce NoThreadLeft NoFdLeft QueueBound
