---------------------- MODULE WriterPipelineTrace ----------------------
(* Trace validation for C08: is an execution of the real osmium::io::Writer, recorded by
   harness/writer_fault.cpp, a behaviour of WriterPipeline?

   Logged events (one JSON object per line):
     Config      first line of every execution: the configuration.  The protocol between caller, queue and write
                 thread is what is validated here, so the compressor is the write-through model and a kernel
                 fault is represented by the Compressor call it made fail, as observed: "the n-th
                 Compressor::write threw" (cwrite@n) or "Compressor::close threw" (cclose); encoder faults and
                 the script are the ones of the TLC-exported configuration; maxQ is the real queue bound
     Enq/Deq/PopEmpty/Drain n   OSMIUM_VERIF hooks in thread/queue.hpp, under the mutex of the Writer's output
                 queue                                              -> UPushEnq, WWait, second half of shutdown
     W.Data      write thread: a string came out of the future        -> WGet (data)
     W.Write     Compressor::write returned                           -> WWrite (ok)
     W.Close     Compressor::close returned                           -> WCClose (ok)
     W.Catch     the write thread entered its catch block             -> the failing WGet / WWrite / WCClose
     C.Call op   the caller is about to call op                       (stutter; checks the script position)
     C.Ret res   the call returned res (the spec's log entry; a returned size only as zero / non-zero); for
                 "destroyed" with the number of leaked threads        -> the user step that appends res
   Everything else (reads of m_in_use and m_notification, the stores of flag / promise / shutdown flag, the polls
   of the future, pool workers completing a future, the join) is unlogged and interleaved as silent steps.

   Acceptance: position Len(TraceLog)+1 reachable (INVARIANT NotAccepted violated = accepted). *)
EXTENDS WriterPipeline, Json, IOUtils, TLCExt

TraceLog == ndJsonDeserialize(IOEnv.TRACE)

CfgOf(j) == [script |-> j.script, hdr |-> j.hdr, trl |-> j.trl, defer |-> j.defer, comp |-> "plain", fsync |-> FALSE,
             fault |-> j.fault, pool |-> j.pool, maxQ |-> j.maxQ, cap |-> j.cap, fdfix |-> TRUE, emptyfix |-> TRUE]

TraceConfigs == {CfgOf(TraceLog[1].cfg)}

VARIABLES l
tvars == <<vars, l>>

TraceInit == Init /\ l = 2

Ev == TraceLog[l]
IsEvent(e) == l <= Len(TraceLog) /\ Ev.e = e /\ l' = l + 1

TrEnq == IsEvent("Enq") /\ UPushEnq /\ Len(q'.items) = Ev.n
TrDeq == IsEvent("Deq") /\ q.items # <<>> /\ WWait /\ Len(q'.items) = Ev.n
TrPopEmpty == IsEvent("PopEmpty") /\ q.items = <<>> /\ WWait
TrDrain == IsEvent("Drain") /\ WShut1
TrWData == IsEvent("W.Data") /\ WGet /\ wt'.pc = "write"
TrWWrite == IsEvent("W.Write") /\ WWrite /\ wt'.pc = "loop"
TrWClose == IsEvent("W.Close") /\ WCClose /\ wt'.pc = "setval"
TrWCatch == IsEvent("W.Catch") /\ (WGet \/ WWrite \/ WCClose) /\ wt'.pc = "catch"
ScriptOp == IF us.i > Len(cfg.script) THEN "destroy" ELSE cfg.script[us.i]
TrCCall == IsEvent("C.Call") /\ us.pc = "idle" /\ Ev.op = ScriptOp /\ UNCHANGED vars
Appends == UCall \/ UGet \/ URetOk \/ URetExc \/ UJoin
TrCRet == /\ IsEvent("C.Ret") /\ Appends
          /\ Len(clog') = Len(clog) + 1
          /\ LET x == clog'[Len(clog')] IN
             IF Ev.res = "ret" THEN x = "size" \/ (x = "zero" /\ Ev.n = 0)     \* sizes are compared by the replay, not here
             ELSE x = Ev.res
          /\ Ev.res = "destroyed" => Ev.thrleak = 0                      \* NoThreadLeft on the real process

(* next execution: all parties of the previous one are done *)
TrConfig == /\ l <= Len(TraceLog) /\ Ev.e = "Config" /\ l' = l + 1 /\ AllDone
            /\ cfg' = CfgOf(Ev.cfg)
            /\ allowed' = Allowed(cfg')
            /\ q' = [items |-> <<>>, inUse |-> TRUE]
            /\ futs' = <<>>
            /\ us' = [pc |-> "idle", i |-> 1, todo |-> <<>>, status |-> "okay", fut |-> TRUE, ibuf |-> <<>>, hdr |-> FALSE,
                      nblk |-> 0, acc |-> <<>>, push |-> 0, indtor |-> FALSE, size |-> -1]
            /\ wt' = [pc |-> "loop", cur |-> 0, nxt |-> "none"]
            /\ cs' = [disk |-> <<>>, pend |-> <<>>, fds |-> {"fd"}, live |-> TRUE, started |-> FALSE, size |-> 0, nw |-> 0]
            /\ promise' = [k |-> "unset", n |-> 0]
            /\ notif' = FALSE
            /\ clog' = <<>>
            /\ obs' = [gets |-> 0, faulted |-> FALSE, syncx |-> FALSE]

Silent == \/ (UCall /\ clog' = clog)
          \/ UHdr \/ UChk \/ UBlkI \/ UBlkB \/ UBlkN \/ UAdd \/ UThrow \/ UEnd \/ UClosed \/ UEod \/ UXPush \/ UPushChk
          \/ Worker
          \/ WPopChk \/ (WGet /\ wt'.pc = "sd0") \/ WSetVal \/ WCatch1 \/ WCatch2 \/ WShut0 \/ WDtor

TraceNext == \/ TrEnq \/ TrDeq \/ TrPopEmpty \/ TrDrain \/ TrWData \/ TrWWrite \/ TrWClose \/ TrWCatch \/ TrCCall \/ TrCRet \/ TrConfig
             \/ (l <= Len(TraceLog) /\ UNCHANGED l /\ Silent)

TraceSpec == TraceInit /\ [][TraceNext]_tvars

NotAccepted == l <= Len(TraceLog)
Progress == IF l > TLCGet(1) THEN TLCSet(1, l) ELSE TRUE
ReportMax == PrintT(<<"MAXL", TLCGet(1), Len(TraceLog)>>)
ASSUME TLCSet(1, 0)
=============================================================================
