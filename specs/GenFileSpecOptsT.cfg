SPECIFICATION Spec
CONSTANTS
  Ctors <- NameCtor
  NameTokens <- TokQ
  MaxName = 4
  FixedNames <- NamesForOpts
  FmtTokens <- FTokQ
  MaxFmt <- NoFmt
  Heads <- HeadsAndEq
  OptParts <- OptsMid
  MaxOpts = 3
  AllowNoFs = TRUE
  Setters <- NoneSet
  MaxSetters = 0
  ExportHist = TRUE
INVARIANTS TypeOK Agrees CheckAgrees Bounded Consumed Export
