---------------------------- MODULE GeomFactory ----------------------------
(* C17.  osmium::geom::GeometryFactory<Impl, Projection> with the WKB implementation (wkb.hpp) and the
   two text implementations (wkt.hpp, geojson.hpp; they are isomorphic call by call: '(' ~ '[' etc.,
   so one token list `str` models both).

   A-layer: what the property talks about - the coordinate sequence of a node list under
   {unique, all} x {forward, backward}, the ring grouping of an area, the minimum point counts and the
   rejection of undefined/invalid locations (ATree, AVerdict).
   I-layer: the code as written - one action per impl call / loop iteration of factory.hpp, `data` is
   WKBFactoryImpl::m_data as a sequence of typed fields with the *_size_offset registers and the
   m_points/m_rings/m_polygons counters that are back-patched by set_size(); `str` is m_str of the text
   impls with the "overwrite the last character" idiom.  All registers persist between calls on the same
   factory object (MaxCalls calls in a row, including calls that end in an exception and leave partial
   state behind).
   TLC checks I => A: the returned WKB field list and the returned text token list decode (DecodeWKB,
   DecodeTxt - spec-level parsers that insist on every count field being equal to the number of elements
   that follow) to exactly ATree, and the call is rejected exactly when AVerdict says so.

   Points are pairs <<j, tok>>: tok is a location token (p q r s: distinct valid locations, U: undefined,
   X: defined but invalid), j = 0 for node lists and the index of the ring item inside the area for areas,
   so that a ring attached to the wrong polygon or points attached to the wrong ring are visible. *)
EXTENDS Integers, Sequences, FiniteSets, TLC, Json

CONSTANTS Toks,       \* location tokens used in node lists
          MaxLen,     \* node lists have 0..MaxLen entries
          Kinds,      \* subset of {"point", "linestring", "polygon", "multipolygon"}
          RingCat,    \* catalogue of rings (token sequences) areas are built from
          MaxOuter,   \* areas have 0..MaxOuter outer rings ...
          MaxInner,   \* ... each with 0..MaxInner inner rings
          MaxCalls,   \* number of calls made on the same factory object
          ExportHist  \* TRUE only in the behaviour-export configs

VARIABLES pc,         \* "idle" | "fill" (fill_linestring*/fill_polygon* loop) | "mp" (item loop of create_multipolygon)
                      \* | "ring" (add_points loop) | "done" (call returned or threw)
          call,       \* the arguments of the running call
          i,          \* number of node refs consumed by the running loop
          last, first,\* osmium::Location last_location of the *_unique loops; first: nothing emitted yet in this loop
          np,         \* size_t num_points (create_linestring / create_polygon)
          nPolys, nRings, ri,  \* size_t num_polygons, num_rings of create_multipolygon; ri = items consumed
          data,       \* WKBFactoryImpl::m_data
          lsOff, mpOff, polyOff, ringOff,   \* m_linestring_size_offset, m_multipolygon_size_offset, m_polygon_size_offset, m_ring_size_offset
          mPoints, mRings, mPolygons,       \* m_points, m_rings, m_polygons
          str,        \* WKTFactoryImpl::m_str / GeoJSONFactoryImpl::m_str
          res,        \* "none" | "ok" | "geometry_error" | "invalid_location"
          outW, outT, \* the returned WKB fields / text tokens
          ncalls, hist

implvars == <<data, lsOff, mpOff, polyOff, ringOff, mPoints, mRings, mPolygons, str>>
vars == <<pc, call, i, last, first, np, nPolys, nRings, ri, data, lsOff, mpOff, polyOff, ringOff, mPoints,
          mRings, mPolygons, str, res, outW, outT, ncalls, hist>>

\* ------------------------------------------------------------------ catalogues for the configs
CatTwo  == { <<"p","q","r","p">>, <<"p","p","q","q","r","s","p","p">> }
CatFull == { <<"p","q","r","p">>,              \* plain
             <<"p","p","q","r","p">>,          \* duplicate at the start
             <<"p","q","r","p","p">>,          \* duplicate at the end
             <<"p","q","q","q","r","s","p">>,  \* run in the middle
             <<"U","q","r","p">>,              \* undefined first location
             <<"p","q","U","r","p">>,          \* undefined in the middle
             <<"p","q","r","X">>,              \* invalid last location
             <<"U","U","q","r","s","p">> }     \* run of undefined locations at the start
CatSeq  == { <<"p","q","r","p">>, <<"p","p","U","p">>, <<"q","r","r","s","q">> }

\* ------------------------------------------------------------------ helpers
Bad(t) == t \in {"U", "X"}
Rev(s) == [k \in 1..Len(s) |-> s[Len(s) + 1 - k]]
RECURSIVE Dedup(_)
Dedup(s) == IF Len(s) <= 1 THEN s
            ELSE LET d == Dedup(SubSeq(s, 1, Len(s) - 1))
                 IN IF s[Len(s)] = s[Len(s) - 1] THEN d ELSE Append(d, s[Len(s)])
Tag(j, s) == [k \in 1..Len(s) |-> <<j, s[k]>>]
NoPt == <<-1, "">>
MinPoints(kind) == IF kind = "linestring" THEN 2 ELSE 4

\* ------------------------------------------------------------------ A-layer
ASeq(c) == LET d == IF c.dir = "bwd" THEN Rev(c.nodes) ELSE c.nodes
           IN IF c.un = "unique" THEN Dedup(d) ELSE d
RECURSIVE AGroup(_, _, _)
AGroup(area, k, acc) ==                 \* polygons = maximal runs "outer inner*"; add_points always drops consecutive duplicates
    IF k > Len(area) THEN acc
    ELSE LET ring == Tag(k, Dedup(area[k].pts))
         IN IF area[k].role = "outer" THEN AGroup(area, k + 1, Append(acc, <<ring>>))
            ELSE AGroup(area, k + 1, [acc EXCEPT ![Len(acc)] = Append(@, ring)])
ATree(c) == CASE c.kind = "point" -> << <<0, c.nodes[1]>> >>
              [] c.kind = "linestring" -> Tag(0, ASeq(c))
              [] c.kind = "polygon" -> << Tag(0, ASeq(c)) >>
              [] c.kind = "multipolygon" -> AGroup(c.area, 1, <<>>)
AVerdict(c) == CASE c.kind = "point" -> IF Bad(c.nodes[1]) THEN "reject" ELSE "ok"
                 [] c.kind \in {"linestring", "polygon"} ->
                      IF \E k \in 1..Len(c.nodes) : Bad(c.nodes[k]) THEN "reject"
                      ELSE IF Len(ASeq(c)) < MinPoints(c.kind) THEN "reject" ELSE "ok"
                 [] c.kind = "multipolygon" ->
                      IF Len(c.area) = 0 THEN "reject"
                      ELSE IF \E k \in 1..Len(c.area) : \E m \in 1..Len(c.area[k].pts) : Bad(c.area[k].pts[m]) THEN "reject"
                      ELSE "ok"

\* ------------------------------------------------------------------ spec-level decoders ("independent reader")
Fail == [ok |-> FALSE, pos |-> 0, val |-> <<>>]
Ok(p, v) == [ok |-> TRUE, pos |-> p, val |-> v]
IsHdr(f, k, g) == k <= Len(f) /\ f[k].t = "hdr" /\ f[k].g = g
IsU32(f, k) == k <= Len(f) /\ f[k].t = "u32"
RECURSIVE PPts(_, _, _, _)
PPts(f, k, n, acc) == IF n = 0 THEN Ok(k, acc)
                      ELSE IF k <= Len(f) /\ f[k].t = "pt" THEN PPts(f, k + 1, n - 1, Append(acc, f[k].p)) ELSE Fail
PRing(f, k) == IF IsU32(f, k) THEN PPts(f, k + 1, f[k].v, <<>>) ELSE Fail
RECURSIVE PRings(_, _, _, _)
PRings(f, k, n, acc) == IF n = 0 THEN Ok(k, acc)
                        ELSE LET r == PRing(f, k) IN IF r.ok THEN PRings(f, r.pos, n - 1, Append(acc, r.val)) ELSE Fail
PPoly(f, k) == IF IsHdr(f, k, "POLY") /\ IsU32(f, k + 1) THEN PRings(f, k + 2, f[k + 1].v, <<>>) ELSE Fail
RECURSIVE PPolys(_, _, _, _)
PPolys(f, k, n, acc) == IF n = 0 THEN Ok(k, acc)
                        ELSE LET r == PPoly(f, k) IN IF r.ok THEN PPolys(f, r.pos, n - 1, Append(acc, r.val)) ELSE Fail
Whole(f, r) == IF r.ok /\ r.pos = Len(f) + 1 THEN [ok |-> TRUE, val |-> r.val] ELSE [ok |-> FALSE, val |-> <<>>]
DecodeWKB(f) == CASE IsHdr(f, 1, "PT") -> Whole(f, PPts(f, 2, 1, <<>>))
                  [] IsHdr(f, 1, "LS") -> Whole(f, PRing(f, 2))
                  [] IsHdr(f, 1, "POLY") -> Whole(f, PPoly(f, 1))
                  [] IsHdr(f, 1, "MP") -> IF IsU32(f, 2) THEN Whole(f, PPolys(f, 3, f[2].v, <<>>)) ELSE [ok |-> FALSE, val |-> <<>>]
                  [] OTHER -> [ok |-> FALSE, val |-> <<>>]

\* nested list grammar  list ::= open elem (sep elem)* close ;  elem ::= pt | list
RECURSIVE PTxt(_, _, _, _)
PTxt(tk, k, stack, expect) ==          \* expect: "elem" | "sepclose"
    IF k > Len(tk) THEN [ok |-> FALSE, val |-> <<>>]
    ELSE LET t == tk[k] IN
      CASE t.k = "open" -> IF expect = "elem" THEN PTxt(tk, k + 1, Append(stack, <<>>), "elem") ELSE [ok |-> FALSE, val |-> <<>>]
        [] t.k = "pt" -> IF expect = "elem" /\ Len(stack) > 0
                         THEN PTxt(tk, k + 1, [stack EXCEPT ![Len(stack)] = Append(@, t.p)], "sepclose")
                         ELSE [ok |-> FALSE, val |-> <<>>]
        [] t.k = "sep" -> IF expect = "sepclose" /\ Len(stack) > 0 THEN PTxt(tk, k + 1, stack, "elem") ELSE [ok |-> FALSE, val |-> <<>>]
        [] t.k = "close" -> IF expect = "sepclose" /\ Len(stack) > 0
                            THEN LET top == stack[Len(stack)]
                                     rest == SubSeq(stack, 1, Len(stack) - 1)
                                 IN IF Len(rest) = 0 THEN (IF k = Len(tk) THEN [ok |-> TRUE, val |-> top] ELSE [ok |-> FALSE, val |-> <<>>])
                                    ELSE PTxt(tk, k + 1, [rest EXCEPT ![Len(rest)] = Append(@, top)], "sepclose")
                            ELSE [ok |-> FALSE, val |-> <<>>]
        [] OTHER -> [ok |-> FALSE, val |-> <<>>]
DecodeTxt(tk, g) == IF Len(tk) >= 1 /\ tk[1].k = "head" /\ tk[1].g = g THEN PTxt(tk, 2, <<>>, "elem") ELSE [ok |-> FALSE, val |-> <<>>]
HeadOf(kind) == CASE kind = "point" -> "PT" [] kind = "linestring" -> "LS" [] kind = "polygon" -> "POLY" [] OTHER -> "MP"

\* ------------------------------------------------------------------ I-layer: the two impls
Hd(g)  == [t |-> "hdr", g |-> g, v |-> 0, p |-> NoPt]
U32(n) == [t |-> "u32", g |-> "", v |-> n, p |-> NoPt]
Pt(p)  == [t |-> "pt", g |-> "", v |-> 0, p |-> p]
SetSize(d, off, n) == [d EXCEPT ![off].v = n]                \* WKBFactoryImpl::set_size
TH(g) == [k |-> "head", g |-> g, p |-> NoPt]
TO == [k |-> "open", g |-> "", p |-> NoPt]
TC == [k |-> "close", g |-> "", p |-> NoPt]
TS == [k |-> "sep", g |-> "", p |-> NoPt]
TP(p) == [k |-> "pt", g |-> "", p |-> p]
Back(s, t) == [s EXCEPT ![Len(s)] = t]                       \* m_str.back() = c

NodeLists == UNION {[1..n -> Toks] : n \in 0..MaxLen}
InnerSeqs == UNION {[1..m -> RingCat] : m \in 0..MaxInner}
PolySet == { <<[role |-> "outer", pts |-> o]>> \o [k \in 1..Len(is) |-> [role |-> "inner", pts |-> is[k]]] : o \in RingCat, is \in InnerSeqs }
RECURSIVE Flat(_)
Flat(ps) == IF Len(ps) = 0 THEN <<>> ELSE Flat(SubSeq(ps, 1, Len(ps) - 1)) \o ps[Len(ps)]
Areas == { Flat(ps) : ps \in UNION {[1..k -> PolySet] : k \in 0..MaxOuter} }
NoCall == [kind |-> "none", nodes |-> <<>>, un |-> "", dir |-> "", area |-> <<>>]

Init == /\ pc = "idle" /\ call = NoCall /\ i = 0 /\ last = "U" /\ first = TRUE /\ np = 0
        /\ nPolys = 0 /\ nRings = 0 /\ ri = 0
        /\ data = <<>> /\ lsOff = 0 /\ mpOff = 0 /\ polyOff = 0 /\ ringOff = 0
        /\ mPoints = 0 /\ mRings = 0 /\ mPolygons = 0 /\ str = <<>>
        /\ res = "none" /\ outW = <<>> /\ outT = <<>> /\ ncalls = 0 /\ hist = <<>>

CanCall == pc = "idle" /\ ncalls < MaxCalls
Begin(c) == /\ call' = c /\ ncalls' = ncalls + 1 /\ i' = 0 /\ last' = "U" /\ first' = TRUE /\ np' = 0
            /\ res' = "none" /\ outW' = <<>> /\ outT' = <<>> /\ UNCHANGED hist

\* create_point(): make_point() is const, the impl state is not touched
CallPoint(t) == /\ CanCall /\ "point" \in Kinds
                /\ call' = [NoCall EXCEPT !.kind = "point", !.nodes = <<t>>] /\ ncalls' = ncalls + 1
                /\ i' = 0 /\ last' = "U" /\ first' = TRUE /\ np' = 0 /\ pc' = "done"
                /\ res' = IF Bad(t) THEN "invalid_location" ELSE "ok"
                /\ outW' = IF Bad(t) THEN <<>> ELSE <<Hd("PT"), Pt(<<0, t>>)>>
                /\ outT' = IF Bad(t) THEN <<>> ELSE <<TH("PT"), TO, TP(<<0, t>>), TC>>
                /\ UNCHANGED <<implvars, nPolys, nRings, ri, hist>>

\* create_linestring(): linestring_start()
CallLS(nodes, un, dir) ==
    /\ CanCall /\ "linestring" \in Kinds
    /\ Begin([NoCall EXCEPT !.kind = "linestring", !.nodes = nodes, !.un = un, !.dir = dir])
    /\ data' = <<Hd("LS"), U32(0)>> /\ lsOff' = 2                  \* m_data.clear(); header(..., true)
    /\ str' = <<TH("LS"), TO>>
    /\ pc' = "fill"
    /\ UNCHANGED <<mpOff, polyOff, ringOff, mPoints, mRings, mPolygons, nPolys, nRings, ri>>
\* create_polygon(): polygon_start()
CallPoly(nodes, un, dir) ==
    /\ CanCall /\ "polygon" \in Kinds
    /\ Begin([NoCall EXCEPT !.kind = "polygon", !.nodes = nodes, !.un = un, !.dir = dir])
    /\ data' = <<Hd("POLY"), U32(1), U32(0)>> /\ ringOff' = 3      \* set_size(header(..), 1); ring count placeholder
    /\ str' = <<TH("POLY"), TO, TO>>
    /\ pc' = "fill"
    /\ UNCHANGED <<lsOff, mpOff, polyOff, mPoints, mRings, mPolygons, nPolys, nRings, ri>>

CurNode == IF call.dir = "bwd" THEN call.nodes[Len(call.nodes) - i] ELSE call.nodes[i + 1]
Emits(loc) == call.un = "all" \/ first \/ last # loc          \* fill_*: always; fill_*_unique: first point or different from the last one
LoopFrame == UNCHANGED <<call, nPolys, nRings, ri, lsOff, mpOff, polyOff, ringOff, mRings, mPolygons, outW, outT, ncalls, hist>>

FillAdd == /\ pc = "fill" /\ i < Len(call.nodes) /\ Emits(CurNode) /\ ~Bad(CurNode)
           /\ data' = Append(data, Pt(<<0, CurNode>>))
           /\ str' = str \o <<TP(<<0, CurNode>>), TS>>
           /\ np' = np + 1 /\ last' = CurNode /\ first' = FALSE /\ i' = i + 1
           /\ UNCHANGED <<pc, res, mPoints>> /\ LoopFrame
FillSkip == /\ pc = "fill" /\ i < Len(call.nodes) /\ ~Emits(CurNode)
            /\ i' = i + 1
            /\ UNCHANGED <<pc, res, data, str, np, last, first, mPoints>> /\ LoopFrame
FillThrow == /\ pc = "fill" /\ i < Len(call.nodes) /\ Emits(CurNode) /\ Bad(CurNode)   \* m_projection(location) throws invalid_location
             /\ pc' = "done" /\ res' = "invalid_location"
             /\ UNCHANGED <<data, str, np, last, first, i, mPoints>> /\ LoopFrame           \* partial m_data / m_str stay behind
TooFew == /\ pc = "fill" /\ i = Len(call.nodes) /\ np < MinPoints(call.kind)
          /\ pc' = "done" /\ res' = "geometry_error"
          /\ UNCHANGED <<data, str, np, last, first, i, mPoints>> /\ LoopFrame
FinishLS == /\ pc = "fill" /\ call.kind = "linestring" /\ i = Len(call.nodes) /\ np >= 2
            /\ outW' = SetSize(data, lsOff, np) /\ data' = <<>>        \* set_size(); swap(data, m_data)
            /\ outT' = Back(str, TC) /\ str' = <<>>
            /\ pc' = "done" /\ res' = "ok"
            /\ UNCHANGED <<call, i, last, first, np, nPolys, nRings, ri, lsOff, mpOff, polyOff, ringOff, mPoints, mRings, mPolygons, ncalls, hist>>
FinishPoly == /\ pc = "fill" /\ call.kind = "polygon" /\ i = Len(call.nodes) /\ np >= 4
              /\ outW' = SetSize(data, ringOff, np) /\ data' = <<>>
              /\ outT' = Append(Back(str, TC), TC) /\ str' = <<>>
              /\ pc' = "done" /\ res' = "ok"
              /\ UNCHANGED <<call, i, last, first, np, nPolys, nRings, ri, lsOff, mpOff, polyOff, ringOff, mPoints, mRings, mPolygons, ncalls, hist>>

\* create_multipolygon(): multipolygon_start()
CallMP(area) ==
    /\ CanCall /\ "multipolygon" \in Kinds
    /\ Begin([NoCall EXCEPT !.kind = "multipolygon", !.area = area])
    /\ data' = <<Hd("MP"), U32(0)>> /\ mpOff' = 2 /\ mPolygons' = 0
    /\ str' = <<TH("MP"), TO>>
    /\ nPolys' = 0 /\ nRings' = 0 /\ ri' = 0 /\ pc' = "mp"
    /\ UNCHANGED <<lsOff, polyOff, ringOff, mPoints, mRings>>
MPFrame == UNCHANGED <<call, np, lsOff, mpOff, outW, outT, ncalls, hist, res>>
\* item is an outer ring: [multipolygon_polygon_finish()] multipolygon_polygon_start() multipolygon_outer_ring_start()
MPOuter == /\ pc = "mp" /\ ri < Len(call.area) /\ call.area[ri + 1].role = "outer"
           /\ LET d1 == IF nPolys > 0 THEN SetSize(data, polyOff, mRings) ELSE data
                  s1 == IF nPolys > 0 THEN str \o <<TC, TS>> ELSE str
              IN /\ data' = d1 \o <<Hd("POLY"), U32(0), U32(0)>>
                 /\ polyOff' = Len(d1) + 2 /\ ringOff' = Len(d1) + 3
                 /\ str' = s1 \o <<TO, TO>>
           /\ mPolygons' = mPolygons + 1 /\ mRings' = 1 /\ mPoints' = 0
           /\ pc' = "ring" /\ i' = 0 /\ last' = "U" /\ first' = TRUE
           /\ UNCHANGED <<nPolys, nRings, ri>> /\ MPFrame
\* item is an inner ring: multipolygon_inner_ring_start()
MPInner == /\ pc = "mp" /\ ri < Len(call.area) /\ call.area[ri + 1].role = "inner"
           /\ data' = Append(data, U32(0)) /\ ringOff' = Len(data) + 1
           /\ str' = str \o <<TS, TO>>
           /\ mRings' = mRings + 1 /\ mPoints' = 0
           /\ pc' = "ring" /\ i' = 0 /\ last' = "U" /\ first' = TRUE
           /\ UNCHANGED <<nPolys, nRings, ri, polyOff, mPolygons>> /\ MPFrame
CurRing == call.area[ri + 1].pts
RingEmits(loc) == first \/ last # loc
RingAdd == /\ pc = "ring" /\ i < Len(CurRing) /\ RingEmits(CurRing[i + 1]) /\ ~Bad(CurRing[i + 1])
           /\ data' = Append(data, Pt(<<ri + 1, CurRing[i + 1]>>))
           /\ str' = str \o <<TP(<<ri + 1, CurRing[i + 1]>>), TS>>
           /\ mPoints' = mPoints + 1 /\ last' = CurRing[i + 1] /\ first' = FALSE /\ i' = i + 1
           /\ UNCHANGED <<pc, nPolys, nRings, ri, polyOff, ringOff, mRings, mPolygons>> /\ MPFrame
RingSkip == /\ pc = "ring" /\ i < Len(CurRing) /\ ~RingEmits(CurRing[i + 1])
            /\ i' = i + 1
            /\ UNCHANGED <<pc, data, str, mPoints, last, first, nPolys, nRings, ri, polyOff, ringOff, mRings, mPolygons>> /\ MPFrame
RingThrow == /\ pc = "ring" /\ i < Len(CurRing) /\ RingEmits(CurRing[i + 1]) /\ Bad(CurRing[i + 1])
             /\ pc' = "done" /\ res' = "invalid_location"
             /\ UNCHANGED <<call, np, lsOff, mpOff, outW, outT, ncalls, hist, data, str, mPoints, last, first, i, nPolys, nRings, ri,
                            polyOff, ringOff, mRings, mPolygons>>
\* multipolygon_{outer,inner}_ring_finish(); ++num_rings; [++num_polygons]
RingEnd == /\ pc = "ring" /\ i = Len(CurRing)
           /\ data' = SetSize(data, ringOff, mPoints)
           /\ str' = Back(str, TC)
           /\ nRings' = nRings + 1
           /\ nPolys' = IF call.area[ri + 1].role = "outer" THEN nPolys + 1 ELSE nPolys
           /\ ri' = ri + 1 /\ pc' = "mp"
           /\ UNCHANGED <<i, last, first, polyOff, ringOff, mPoints, mRings, mPolygons>> /\ MPFrame
MPNoRings == /\ pc = "mp" /\ ri = Len(call.area) /\ nRings = 0
             /\ pc' = "done" /\ res' = "geometry_error"
             /\ UNCHANGED <<call, np, lsOff, mpOff, outW, outT, ncalls, hist, data, str, mPoints, last, first, i, nPolys, nRings, ri,
                            polyOff, ringOff, mRings, mPolygons>>
\* multipolygon_polygon_finish(); multipolygon_finish()
MPFinish == /\ pc = "mp" /\ ri = Len(call.area) /\ nRings > 0
            /\ outW' = SetSize(SetSize(data, polyOff, mRings), mpOff, mPolygons) /\ data' = <<>>
            /\ outT' = Back(str \o <<TC, TS>>, TC) /\ str' = <<>>
            /\ pc' = "done" /\ res' = "ok"
            /\ UNCHANGED <<call, np, lsOff, mpOff, ncalls, hist, mPoints, last, first, i, nPolys, nRings, ri,
                           polyOff, ringOff, mRings, mPolygons>>

Verdict(r) == IF r = "ok" THEN "ok" ELSE "reject"
HistRec == [kind |-> call.kind, nodes |-> call.nodes, un |-> call.un, dir |-> call.dir, area |-> call.area,
            verdict |-> AVerdict(call), cls |-> res,
            tree |-> IF AVerdict(call) = "ok" THEN ATree(call) ELSE <<>>,
            nfields |-> Len(outW)]
\* the call has returned (or thrown) to the caller; the impl registers stay as they are
Return == /\ pc = "done"
          /\ pc' = "idle" /\ call' = NoCall /\ res' = "none" /\ outW' = <<>> /\ outT' = <<>>
          /\ i' = 0 /\ last' = "U" /\ first' = TRUE /\ np' = 0 /\ nPolys' = 0 /\ nRings' = 0 /\ ri' = 0
          /\ hist' = IF ExportHist THEN Append(hist, HistRec) ELSE hist
          /\ UNCHANGED <<implvars, ncalls>>

\* (the guard is hoisted in front of the quantifiers so that TLC does not enumerate the input domain in non-idle states)
PointCalls == CanCall /\ "point" \in Kinds /\ \E t \in Toks : CallPoint(t)
LSCalls == CanCall /\ "linestring" \in Kinds /\ \E nodes \in NodeLists, un \in {"unique", "all"}, dir \in {"fwd", "bwd"} : CallLS(nodes, un, dir)
PolyCalls == CanCall /\ "polygon" \in Kinds /\ \E nodes \in NodeLists, un \in {"unique", "all"}, dir \in {"fwd", "bwd"} : CallPoly(nodes, un, dir)
MPCalls == CanCall /\ "multipolygon" \in Kinds /\ \E area \in Areas : CallMP(area)
Next == \/ PointCalls \/ LSCalls \/ PolyCalls \/ MPCalls
        \/ FillAdd \/ FillSkip \/ FillThrow \/ TooFew \/ FinishLS \/ FinishPoly
        \/ MPOuter \/ MPInner \/ RingAdd \/ RingSkip \/ RingThrow \/ RingEnd \/ MPNoRings \/ MPFinish
        \/ Return
Spec == Init /\ [][Next]_vars

\* ------------------------------------------------------------------ what TLC checks
\* I => A at the return of every call
Refines == pc = "done" =>
    /\ Verdict(res) = AVerdict(call)
    /\ res = "ok" => /\ LET w == DecodeWKB(outW) IN w.ok /\ w.val = ATree(call)
                     /\ LET t == DecodeTxt(outT, HeadOf(call.kind)) IN t.ok /\ t.val = ATree(call)
\* the back-patch registers always address a count field of the buffer being built, and the counters
\* equal the number of elements written so far
NPts(d, from) == Cardinality({k \in from..Len(d) : d[k].t = "pt"})
RegsOK ==
    /\ (pc = "fill" /\ call.kind = "linestring") => /\ lsOff = 2 /\ IsU32(data, lsOff) /\ np = NPts(data, 1) /\ Len(data) = 2 + np
    /\ (pc = "fill" /\ call.kind = "polygon") => /\ ringOff = 3 /\ IsU32(data, ringOff) /\ data[2].v = 1 /\ np = NPts(data, 1)
    /\ pc \in {"mp", "ring"} =>
         /\ IsU32(data, mpOff) /\ mPolygons = Cardinality({k \in 1..Len(data) : IsHdr(data, k, "POLY")})
         /\ mPolygons > 0 => /\ IsHdr(data, polyOff - 1, "POLY") /\ IsU32(data, polyOff)
                             /\ \A k \in polyOff + 1..Len(data) : data[k].t # "hdr"          \* polyOff addresses the last polygon
                             /\ mRings = Cardinality({k \in polyOff + 1..Len(data) : data[k].t = "u32"})
         /\ pc = "ring" => /\ IsU32(data, ringOff) /\ mPoints = Len(data) - ringOff /\ mPoints = NPts(data, ringOff)
    /\ pc \in {"fill", "ring"} => str[Len(str)].k \in {"open", "sep"}      \* so that back() = ')' overwrites a separator unless nothing was added
TypeOK == /\ pc \in {"idle", "fill", "mp", "ring", "done"}
          /\ res \in {"none", "ok", "geometry_error", "invalid_location"}
          /\ ncalls \in 0..MaxCalls
\* an empty coordinate list is never returned (the overwrite idiom would eat the opening bracket)
NoEmptyList == (pc = "done" /\ res = "ok") => \A k \in 1..Len(outT) - 1 : ~(outT[k].k = "open" /\ outT[k + 1].k = "close")

Export == (ExportHist /\ pc = "idle" /\ ncalls = MaxCalls) => PrintT(<<"CASE", ToJson([steps |-> hist])>>)
=============================================================================
