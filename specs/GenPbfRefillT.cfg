SPECIFICATION Spec
CONSTANTS
  SizeLen = 4
  MaxFrames = 2
  HdrLens = {1, 2}
  BlobLens = {1, 2}
  Shapes <- GenShapesT
  MaxCuts = 99
  FixedSizes = {}
  ExportHist = TRUE
INVARIANTS WindowInv ResultInv Export
