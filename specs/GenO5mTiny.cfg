SPECIFICATION Spec
CONSTANTS
  N = 3
  DSNames = {"empty", "tiny", "tiny2"}
  MaxExtra = 2
  SkipSet = {"sync", "jump", "unknown", "unknown0", "unknownL", "byte"}
  HdrSet = {"bbox", "filets"}
  RefPolicy = "any"
  MaskSet = {{"n", "w", "r"}}
  TypeResets = TRUE
  SkipUndecoded = TRUE
  FillOnly = FALSE
  BulkN = 5
  RoleLimit = 250
  ExportHist = TRUE
INVARIANTS DecodedOK Export
CHECK_DEADLOCK FALSE
