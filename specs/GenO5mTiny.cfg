SPECIFICATION Spec
CONSTANTS
  N = 3
  DSNames = {"empty", "tiny", "tiny2"}
  MaxExtra = 2
  RoleLimit = 250
  ExportHist = TRUE
INVARIANTS DecodedOK Export
CHECK_DEADLOCK FALSE
