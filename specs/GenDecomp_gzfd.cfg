\* thorough tier: design check + export; 1..2 streams, every truncation and corruption
\* constants scaled down: R = libbz2's read block (5000 in reality), B = piece size (input_buffer_size / 10240)
CONSTANTS
  Kind = "gzfd"
  Algo = "fixed"
  R = 3
  B = 2
  MaxStreams = 2
  CLens = {3,4,5,6}
  ULens = {0,1,2,3,4,5}
  Faults = {"none","trunc","corrupt"}
  WChunks = {}
  MaxWrites = 0
  ExportHist = TRUE
SPECIFICATION Spec
INVARIANTS
  TypeOK
  PrefixInv
  OffsetInv
  Correct
  RoundTrip
  LenientOnly
  Bounded
  Export
CHECK_DEADLOCK TRUE
