SPECIFICATION Spec
CONSTANTS
  G = 7
  MaxRings = 4
  Drawings = 2
  Kinds = {"rect", "rectS", "rectD", "trap", "trapT", "tri"}
  MutSeq <- MutMild
  ModeSeq <- ModeIsle
  MaxSegs = 48
  Styles = {"long", "short", "mixed", "mid"}
  RolePats <- AllRolePats
  Theorems = FALSE
  Tiles = FALSE
INVARIANTS Export
CHECK_DEADLOCK FALSE
