\* thorough tier: design check + export; 1..3 streams, every truncation
\* constants scaled down: R = libbz2's read block (5000 in reality), B = piece size (input_buffer_size / 10240)
CONSTANTS
  Kind = "bz2fd"
  Algo = "fixed"
  R = 3
  B = 2
  MaxStreams = 3
  CLens = {3,4}
  ULens = {0,1,2}
  Faults = {"none","trunc"}
  WChunks = {}
  MaxWrites = 0
  ExportHist = TRUE
SPECIFICATION Spec
INVARIANTS
  TypeOK
  PrefixInv
  OffsetInv
  Correct
  RoundTrip
  LenientOnly
  Bounded
  Export
CHECK_DEADLOCK TRUE
