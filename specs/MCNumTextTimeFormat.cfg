SPECIFICATION Spec
CONSTANTS
  Mode = "format"
  Level = 0
  DoExport = TRUE
INVARIANTS FormatIimpliesA RoundTrip Export
CHECK_DEADLOCK FALSE
