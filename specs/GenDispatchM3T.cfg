\* C20, thorough.  Deadlock checking stays on: every behaviour must reach phase "done".
SPECIFICATION Spec
CONSTANTS
  Alphabet <- AlphaSmall
  MaxLen = 3
  HandlerLists <- Multi
  Containers <- ContMulti
  MaxChunks = 1
INVARIANTS TypeOK Refines NoThrow Export
