SPECIFICATION Spec
CONSTANTS
  DSNames = {"tiny2", "basic"}
  Grans = {100}
  Offs = {0}
  DGrans = {1000}
  Sizes = {"b16m", "bmax"}
  Comps = {"raw", "zlib"}
  Packs = {"packed"}
  XBlobs = {"none"}
  Full = TRUE
  ExportHist = TRUE
INVARIANTS DecodedOK Export
CHECK_DEADLOCK FALSE
