SPECIFICATION Spec
CONSTANTS
  Cand = {0, 5, 1310719, 1310720, 1310721, 2621439, 2621440, 2621441}
  Probes = {0, 1, 4, 5, 6, 1310718, 1310719, 1310720, 1310721, 1310722, 2621438, 2621439, 2621440, 2621441, 2621442, 3932160}
  MaxSets = 3
  MaxSorts = 1
  MaxDumps = 1
  ArrayLimit = 4194304
  ExportHist = TRUE
  G = 1048576
  W = 1310720
  Backings = {"mmap"}
INVARIANTS Refines Link NoGarbage FileOK Export
CHECK_DEADLOCK FALSE
