SPECIFICATION InitOnly
CONSTANTS
  Configs <- TheConfigs
  Ns = {6}
  NestSets <- NestBig
  Bounds <- BoundsBig
  Pools = {FALSE, TRUE}
  Fds = {FALSE, TRUE}
  ScriptLen = 2
  LongScripts = FALSE
  FdStop = TRUE
  SkipAll = FALSE
INVARIANT ExportCfg
CHECK_DEADLOCK FALSE
