SPECIFICATION SpecGC
CONSTANTS
  RelIds <- RelIds3
  Refs <- RefsNeg
  MaxMembers = 4
  Stream <- StreamNeg
  TypesWanted <- TNW
  ExportHist = TRUE
INVARIANTS Inv Export
CHECK_DEADLOCK FALSE
