----------------------------- MODULE MCDiffIter -----------------------------
(* Constants of the C20 diff iterator configurations.  The handler lists are exactly the combinations
   instantiated by harness/dispatch_replay.cpp (table DIFF_LISTS there). *)
EXTENDS DiffIter
K(t, id) == [t |-> t, id |-> id]
\* neighbours differ in id only (n1,n2), in type only (n2,w2 / w2,r2 / r2,a2), or in both (when a key has no version)
Keys5 == <<K("node", 1), K("node", 2), K("way", 2), K("relation", 2), K("area", 2)>>
Keys4 == <<K("node", 1), K("way", 1), K("relation", 1), K("area", 1)>>
Keys3 == <<K("node", 1), K("node", 2), K("way", 2)>>
NoiseAll == {"none", "front", "back", "all"}
Noise2 == {"none", "all"}
IterModes == {"it_obj", "it_cobj", "it_input"}
ApplyModes == {"ad_buf", "ad_cbuf", "ad_iter", "ad_src", "ad_reader"}
DiffLists == {<<"DA">>, <<"DN">>, <<"DA", "DN">>, <<"DN", "DA">>, <<"DA", "DA", "DA">>}
=============================================================================
