SPECIFICATION Spec
CONSTANTS
  G = 2
  MaxRings = 2
  Drawings = 1
  Kinds = {"rect", "tri", "dia", "rectD"}
  MutSeq <- MutThm
  Styles = {}
  Theorems = TRUE
INVARIANTS RayIndependent FillIsXor CancelSound CatalogueValid JudgeAcceptsReference JudgeRejectsSpoiled
CHECK_DEADLOCK FALSE
