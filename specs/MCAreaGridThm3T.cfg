SPECIFICATION Spec
CONSTANTS
  G = 3
  MaxRings = 2
  Drawings = 1
  Kinds = {"rect", "dia", "L"}
  MutSeq <- MutThmQ
  ModeSeq <- ModeAny
  MaxSegs = 26
  Styles = {}
  RolePats <- TwoRolePats
  Theorems = TRUE
  Tiles = FALSE
INVARIANTS RayIndependent FillIsXor CancelSound CatalogueValid JudgeAcceptsReference JudgeRejectsSpoiled
CHECK_DEADLOCK FALSE
