\* design check: every value +-(ip + f8/8), f8 in 0..7, x every precision 0..17
SPECIFICATION Spec
CONSTANTS
  IntParts = {0, 1, 2, 9, 10, 19, 99, 100, 179, 180, 1000, 20037508, 99999999, 268435455}
  MaxPrec = 17
  ExportHist = FALSE
INVARIANTS TypeOK Correct
CHECK_DEADLOCK FALSE
