SPECIFICATION Spec
CONSTANTS
  Cand = {0, 1, 2, 3, 4, 6, 7, 8, 11}
  Probes = {0, 1, 2, 3, 4, 5, 6, 7, 8, 9, 10, 11, 12, 13}
  MaxSets = 3
  MaxSorts = 1
  MaxDumps = 2
  ArrayLimit = 100
  ExportHist = FALSE
  G = 3
  Backings = {"vector", "mmap", "file"}
  ReserveSizes = {2, 5, 9}
  ForeignInit = TRUE
INVARIANTS Refines NoGarbage FileOK
CHECK_DEADLOCK FALSE
