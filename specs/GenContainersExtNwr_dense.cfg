SPECIFICATION Spec
CONSTANTS
  Ids = {0, 1, 9, 20}
  Kind = "dense"
  MaxSteps = 14
  ExportHist = TRUE
INVARIANTS Refines Export
CHECK_DEADLOCK FALSE
