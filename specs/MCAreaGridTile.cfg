SPECIFICATION Spec
CONSTANTS
  G = 4
  MaxRings = 2
  Drawings = 1
  Kinds = {"kite", "dia", "diaD"}
  MutSeq <- MutNone
  ModeSeq <- ModeTile
  MaxSegs = 14
  Styles = {}
  RolePats <- TwoRolePats
  Theorems = TRUE
  Tiles = FALSE
INVARIANTS TileTheorem
CHECK_DEADLOCK FALSE
