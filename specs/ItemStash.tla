------------------------------ MODULE ItemStash ------------------------------
(* C15 (4/4).  osmium::ItemStash (storage/item_stash.hpp).

   A-layer: a partial map handle -> item content.
   I-layer: the buffer as a sequence of items [h, size, removed] (C04's buffer with purge_removed), the
   index m_index (handle-1 -> offset or REMOVED), the counters, should_gc() and garbage_collect() with
   cleanup_helper's cursor walk over the index.  Sizes are in units (the harness uses 64 KiB per unit so
   that the initial 1 MiB buffer has 16 units and "less than 10 KiB free" means "no unit free"). *)
EXTENDS Integers, Sequences, FiniteSets, TLC, Json
CONSTANTS Cap0,      \* initial capacity in units (16)
          Sizes,     \* item sizes in units
          GCMin,     \* should_gc: at least this many removed items (10000 in the code, lowered by the OSMIUM_VERIF hook)
          MaxItems, MaxSteps, ExportHist
REMOVED == -1

VARIABLES buf,       \* sequence of [h, size, removed]
          cap,       \* buffer capacity in units
          index,     \* m_index: sequence of offsets (units) or REMOVED
          nitems, nremoved,   \* m_count_items, m_count_removed
          M,         \* A-layer: [handle -> size] of live items
          gcs,       \* number of garbage collections so far (ghost)
          steps, hist
vars == <<buf, cap, index, nitems, nremoved, M, gcs, steps, hist>>

RECURSIVE Sum(_)
Sum(s) == IF s = <<>> THEN 0 ELSE Head(s).size + Sum(Tail(s))
Committed == Sum(buf)
RECURSIVE GrowTo(_, _)
GrowTo(c, need) == IF need <= c THEN c ELSE GrowTo(c * 2, need)

ShouldGC == /\ nremoved >= GCMin
            /\ nremoved * 5 >= nitems
            /\ cap - Committed < 1                  \* less than 10 KiB free

(* purge_removed + cleanup_helper: kept items slide down; the helper searches the index from its cursor for
   the old offset of each moved item and overwrites it with the new offset *)
RECURSIVE Purge(_, _, _, _, _, _)
Purge(items, rd, wr, kept, idx, pos) ==
    IF items = <<>> THEN [buf |-> kept, index |-> idx]
    ELSE LET it == Head(items) IN
         IF it.removed THEN Purge(Tail(items), rd + it.size, wr, kept, idx, pos)
         ELSE IF rd = wr THEN Purge(Tail(items), rd + it.size, wr + it.size, Append(kept, it), idx, pos)
         ELSE LET p == CHOOSE k \in pos..Len(idx) : idx[k] = rd /\ \A j \in pos..(k - 1) : idx[j] # rd
              IN Purge(Tail(items), rd + it.size, wr + it.size, Append(kept, it), [idx EXCEPT ![p] = wr], p + 1)
GC == Purge(buf, 0, 0, <<>>, index, 1)

Init == buf = <<>> /\ cap = Cap0 /\ index = <<>> /\ nitems = 0 /\ nremoved = 0 /\ M = [h \in {} |-> 0]
        /\ gcs = 0 /\ steps = 0 /\ hist = <<>>
Live == DOMAIN M
Rec(a, x) == /\ steps' = steps + 1
             /\ hist' = IF ExportHist THEN Append(hist, [a |-> a, x |-> x, size |-> nitems', removed |-> nremoved',
                                                         live |-> [i \in 1..Len(index') |-> IF i \in DOMAIN M' THEN M'[i] ELSE 0], gcs |-> gcs']) ELSE hist
Go == steps < MaxSteps

AddItem(sz) ==
    /\ Go /\ Len(index) < MaxItems
    /\ LET g == ShouldGC
           b1 == IF g THEN GC.buf ELSE buf
           i1 == IF g THEN GC.index ELSE index
           h == Len(index) + 1
       IN /\ buf' = Append(b1, [h |-> h, size |-> sz, removed |-> FALSE])
          /\ index' = Append(i1, Sum(b1))
          /\ cap' = GrowTo(cap, Sum(b1) + sz)
          /\ nremoved' = IF g THEN 0 ELSE nremoved
          /\ gcs' = IF g THEN gcs + 1 ELSE gcs
          /\ M' = M @@ (h :> sz)
    /\ nitems' = nitems + 1
    /\ Rec("add_item", sz)

RemoveItem(h) ==
    /\ Go /\ h \in Live
    /\ buf' = [i \in 1..Len(buf) |-> IF buf[i].h = h /\ ~buf[i].removed THEN [buf[i] EXCEPT !.removed = TRUE] ELSE buf[i]]
    /\ index' = [index EXCEPT ![h] = REMOVED]
    /\ nitems' = nitems - 1 /\ nremoved' = nremoved + 1
    /\ M' = [k \in Live \ {h} |-> M[k]]
    /\ UNCHANGED <<cap, gcs>>
    /\ Rec("remove_item", h)

GarbageCollect ==
    /\ Go /\ nremoved > 0
    /\ buf' = GC.buf /\ index' = GC.index /\ nremoved' = 0 /\ gcs' = gcs + 1
    /\ UNCHANGED <<cap, nitems, M>>
    /\ Rec("garbage_collect", 0)

Clear ==
    /\ Go /\ index # <<>>
    /\ buf' = <<>> /\ index' = <<>> /\ nitems' = 0 /\ nremoved' = 0 /\ M' = [h \in {} |-> 0]
    /\ UNCHANGED <<cap, gcs>>
    /\ Rec("clear", 0)

Next == \/ \E sz \in Sizes : AddItem(sz)
        \/ \E h \in 1..MaxItems : RemoveItem(h)
        \/ GarbageCollect \/ Clear
Spec == Init /\ [][Next]_vars

(* offset of the item with handle h in the buffer *)
RECURSIVE OffsetOf(_, _, _)
OffsetOf(items, h, off) == IF items = <<>> THEN -2
                           ELSE IF Head(items).h = h /\ ~Head(items).removed THEN off
                           ELSE OffsetOf(Tail(items), h, off + Head(items).size)
Refines == /\ nitems = Cardinality(Live)
           /\ \A h \in Live : index[h] = OffsetOf(buf, h, 0)                   \* every live handle resolves to its item
           /\ \A h \in Live : \E i \in 1..Len(buf) : buf[i].h = h /\ buf[i].size = M[h] /\ ~buf[i].removed
           /\ \A h \in (1..Len(index)) \ Live : index[h] = REMOVED
           /\ nremoved = Cardinality({i \in 1..Len(buf) : buf[i].removed})       \* removed items still occupying space
           /\ Committed <= cap
Reclaimed == [][gcs' > gcs => \A i \in 1..Len(buf') : ~buf'[i].removed \/ buf'[i].h = Len(index')]_vars

ProbeAutoGC == ~ShouldGC
Export == steps = MaxSteps => PrintT(<<"CASE", ToJson([gcmin |-> GCMin, steps |-> hist])>>)
=============================================================================
