SPECIFICATION Spec
CONSTANTS
  RelIds <- RelIds3
  Refs <- Refs1
  MaxMembers = 4
  Stream <- Stream1
  TypesWanted <- TR
  ExportHist = TRUE
INVARIANTS Inv Export
CHECK_DEADLOCK FALSE
