SPECIFICATION Spec
CONSTANTS
  Options <- OptsStructEvery
  Elements <- ElemsMatrix
  FixedInputs <- InputsMatrix
  MaxLen = 0
  MaxBlob = 33554432
  GateSize = 31876710
  MaxEntities = 8000
  Sizes <- SizesMC
  Tolerance = 300000
  PostCheck = TRUE
  ExportHist = FALSE
INVARIANTS RoundTrip BlobLimits BlockShape DeltaReset Export
