SPECIFICATION Spec
CONSTANTS
  Cand = {0, 1, 2, 3, 5, 6, 7, 9}
  Probes = {0, 1, 2, 3, 4, 5, 6, 7, 8, 9, 10}
  MaxSets = 4
  MaxSorts = 2
  MaxDumps = 2
  ArrayLimit = 100
  ExportHist = FALSE
  G = 1
  W = 3
  Backings = {"vector", "mmap", "file", "stdmap"}
INVARIANTS Refines Link NoGarbage FileOK
CHECK_DEADLOCK FALSE
