---------------------------- MODULE FileSpecMd ----------------------------
(* C01 extension (2/4): osmium::metadata_options - the value of the add_metadata option.

   A-layer: a set of fields S <= {version, timestamp, changeset, uid, user}; the meaning of an attribute string is
   MdMeaning (FileSpecCommon.tla); &=, |= are intersection and union, set_<field>(flag) adds / removes one element,
   to_string() is the canonical text MdText whose meaning is S again.
   I-layer: the class as written - an unsigned bit mask m (version 1, timestamp 2, changeset 4, uid 8, user 16, default
   md_all = 31); the constructor compares the whole string with the six keywords, otherwise splits at '+' dropping
   empty items (split_string(.., true)) and ORs the bits in a loop, throwing std::invalid_argument at the first
   unknown item; one action per constructor section / loop iteration / API call:
     Begin(s) | BeginDefault    the caller constructs from a string / default-constructs
     Keyword                    the two keyword tests at the top of the constructor
     Attr                       one iteration of the loop over the items
     AttrEnd                    m_options = opts
     SetField | AndAssign | OrAssign | Reparse      API calls on the finished object (Reparse = metadata_options{to_string()})
     Finish                                                                                                         *)
EXTENDS FileSpecCommon, Json

CONSTANTS Strings,      \* attribute strings ('+'-separated token sequences)
          OpsFrom,      \* the strings after which operations are applied (the others are only constructed)
          Others,       \* right-hand sides of &= and |= (field sets)
          MaxOps, ExportHist

VARIABLES pc, src, m, acc, q, thrown, S, nops, steps, hist
vars == <<pc, src, m, acc, q, thrown, S, nops, steps, hist>>

Bit(f) == CASE f = "version" -> 1 [] f = "timestamp" -> 2 [] f = "changeset" -> 4 [] f = "uid" -> 8 [] f = "user" -> 16
Has(mask, f) == (mask \div Bit(f)) % 2 = 1
BitOr(mask, f) == IF Has(mask, f) THEN mask ELSE mask + Bit(f)
BitClear(mask, f) == IF Has(mask, f) THEN mask - Bit(f) ELSE mask
RECURSIVE MaskOf(_)
MaskOf(T) == IF T = {} THEN 0 ELSE LET f == CHOOSE x \in T : TRUE IN Bit(f) + MaskOf(T \ {f})
SetOf(mask) == {f \in MdFields : Has(mask, f)}
MaskAnd(a, b) == MaskOf({f \in MdFields : Has(a, f) /\ Has(b, f)})          \* bitwise & | over the five bit positions
MaskOr(a, b) == MaskOf({f \in MdFields : Has(a, f) \/ Has(b, f)})
DefaultSrc == <<"(default)">>

\* split_string(attributes, '+', true)
Compact(s) == SelectSeq(s, LAMBDA x : x # "")

\* to_string(): "none", "all", else the fields in declaration order, each followed by '+', the last '+' removed
IText(mask) == IF mask = 0 THEN <<"none">> ELSE IF mask = 31 THEN <<"all">> ELSE SelectSeq(MdOrder, LAMBDA f : Has(mask, f))

\* the constructor as one function (for Reparse): keyword tests, then the loop
RECURSIVE ILoop(_, _)
ILoop(items, a) == IF items = <<>> THEN a
                   ELSE IF Head(items) \in MdFields THEN ILoop(Tail(items), BitOr(a, Head(items))) ELSE -1
IParse(s) == IF IsEmptyStr(s) \/ s \in MdAllWords THEN 31 ELSE IF s \in MdNoneWords THEN 0 ELSE ILoop(Compact(s), 0)

Obs == [bits |-> SetOf(m), any |-> m # 0, all |-> m = 31, none |-> m = 0, str |-> IText(m)]
Rec(a, x, e) == /\ steps' = steps + 1
                /\ hist' = IF ExportHist THEN Append(hist, [a |-> a, x |-> x, exp |-> e]) ELSE hist
Quiet == steps' = steps + 1 /\ hist' = hist

Begin == /\ pc = "init"
         /\ \E s \in Strings : src' = s /\ S' = MdMeaning(s)
         /\ pc' = "kw" /\ UNCHANGED <<m, acc, q, thrown, nops>> /\ Quiet
BeginDefault == /\ pc = "init" /\ src' = DefaultSrc /\ S' = MdFields /\ pc' = "constructed"
                /\ UNCHANGED <<m, acc, q, thrown, nops>> /\ Quiet
Keyword == /\ pc = "kw"
           /\ IF IsEmptyStr(src) \/ src \in MdAllWords THEN pc' = "constructed" /\ UNCHANGED <<m, q>>
              ELSE IF src \in MdNoneWords THEN m' = 0 /\ pc' = "constructed" /\ UNCHANGED q
              ELSE q' = Compact(src) /\ pc' = "attrs" /\ UNCHANGED m
           /\ UNCHANGED <<src, acc, thrown, S, nops>> /\ Quiet
Attr == /\ pc = "attrs" /\ q # <<>>
        /\ IF Head(q) \in MdFields THEN acc' = BitOr(acc, Head(q)) /\ q' = Tail(q) /\ UNCHANGED <<pc, thrown>>
           ELSE thrown' = TRUE /\ pc' = "thrown" /\ UNCHANGED <<acc, q>>
        /\ UNCHANGED <<src, m, S, nops>> /\ Quiet
AttrEnd == /\ pc = "attrs" /\ q = <<>> /\ m' = acc /\ pc' = "constructed"
           /\ UNCHANGED <<src, acc, q, thrown, S, nops>> /\ Quiet
Constructed == /\ pc = "constructed" /\ pc' = "ready" /\ UNCHANGED <<src, m, acc, q, thrown, S, nops>>
               /\ Rec("construct", src, Obs)
Thrown == /\ pc = "thrown" /\ pc' = "done" /\ UNCHANGED <<src, m, acc, q, thrown, S, nops>>
          /\ Rec("construct", src, [error |-> "invalid_argument", item |-> Head(q)])

Go == pc = "ready" /\ nops < MaxOps /\ src \in OpsFrom
SetField == /\ Go /\ \E f \in MdFields, b \in BOOLEAN :
               /\ m' = IF b THEN BitOr(m, f) ELSE BitClear(m, f)
               /\ S' = IF b THEN S \cup {f} ELSE S \ {f}
               /\ nops' = nops + 1 /\ UNCHANGED <<pc, src, acc, q, thrown>>
               /\ Rec("set", [f |-> f, b |-> b], Obs')
AndAssign == /\ Go /\ \E o \in Others :
                /\ m' = MaskAnd(MaskOf(o), m) /\ S' = S \cap o
                /\ nops' = nops + 1 /\ UNCHANGED <<pc, src, acc, q, thrown>>
                /\ Rec("and", MdText(o), Obs')
OrAssign == /\ Go /\ \E o \in Others :
               /\ m' = MaskOr(MaskOf(o), m) /\ S' = S \cup o
               /\ nops' = nops + 1 /\ UNCHANGED <<pc, src, acc, q, thrown>>
               /\ Rec("or", MdText(o), Obs')
Reparse == /\ Go /\ m' = IParse(IText(m)) /\ nops' = nops + 1 /\ UNCHANGED <<pc, src, acc, q, thrown, S>>
           /\ Rec("reparse", <<>>, Obs')
Finish == /\ pc = "ready" /\ pc' = "done" /\ UNCHANGED <<src, m, acc, q, thrown, S, nops, hist>> /\ steps' = steps + 1
Done == pc = "done" /\ UNCHANGED vars

Init == /\ pc = "init" /\ src = <<>> /\ m = 31 /\ acc = 0 /\ q = <<>> /\ thrown = FALSE /\ S = {} /\ nops = 0 /\ steps = 0 /\ hist = <<>>
Next == Begin \/ BeginDefault \/ Keyword \/ Attr \/ AttrEnd \/ Constructed \/ Thrown \/ SetField \/ AndAssign \/ OrAssign
        \/ Reparse \/ Finish \/ Done
Spec == Init /\ [][Next]_vars

TypeOK == m \in 0..31 /\ acc \in 0..31
\* I => A: the mask is the set; an error exactly where the meaning is one
Refines == pc \in {"ready", "done"} => IF thrown THEN S = MdErr ELSE (S # MdErr /\ SetOf(m) = S)
\* the text is canonical and means the same set again
TextLaw == pc \in {"ready", "done"} /\ ~thrown => /\ IText(m) = MdText(SetOf(m))
                                                  /\ MdMeaning(IText(m)) = SetOf(m)
                                                  /\ IParse(IText(m)) = m
\* the whole-function form of the constructor agrees with the stepwise one
ParseFn == pc \in {"ready", "done"} /\ src # DefaultSrc => (IF thrown THEN IParse(src) = -1 ELSE nops > 0 \/ IParse(src) = m)
Bounded == steps <= 12 + MaxOps
Export == pc = "done" => PrintT(<<"CASE", ToJson([steps |-> hist])>>)

\* ---- constants
Toks == {"version", "timestamp", "changeset", "uid", "user", "", "all", "none", "foo"}
Words == {<<w>> : w \in {"all", "true", "yes", "none", "false", "no", "Version", "ALL", "version ", "foo"}}
StringsAll == UNION {[1..l -> Toks] : l \in 0..3} \cup Words \cup {<<"version", "timestamp", "changeset", "uid", "user">>,
              <<"user", "uid", "changeset", "timestamp", "version">>, <<"version", "timestamp", "uid", "user">>, <<"", "", "", "user">>}
StringsFew == {DefaultSrc, <<>>, <<"all">>, <<"none">>, <<"version", "timestamp">>, <<"user", "", "uid">>, <<"changeset">>, <<"no">>}
StringsFour == {DefaultSrc, <<>>, <<"none">>, <<"version", "timestamp">>, <<"user", "", "uid">>}
StringsEvery == StringsAll \cup {DefaultSrc}
OthersAll == SUBSET MdFields
OthersFew == {{}, MdFields, {"version", "user"}, {"timestamp", "changeset", "uid"}, {"uid"}}
=============================================================================
