SPECIFICATION Spec
CONSTANTS
  Caps = {64}
  Modes = {"yes"}
  Kinds = {"node"}
  ULens = {0}
  TagLens <- TagLens1
  RoleLens = {0}
  Pres = {0}
  Wraps = {TRUE}
  CbMaxs = {48, 96, 104}
  MaxObjects = 3
  MaxElems = 0
  MaxSubs = 0
  MaxSteps = 6
  Ops <- CbOps
  Script <- NoScript
  ExportHist = TRUE
INVARIANT Export
CHECK_DEADLOCK FALSE
