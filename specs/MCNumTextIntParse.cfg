SPECIFICATION Spec
CONSTANTS
  Mode = "parse"
  Alphabet = {"0", "1", "9", "-", "+", " ", "x"}
  MaxLen = 4
  Level = 0
  FixMin = TRUE
  DoExport = TRUE
INVARIANTS NoOverflow OplIimpliesA WrappersIimpliesA Export
CHECK_DEADLOCK FALSE
