\* C20 ext (specs/TagRules.tla), thorough: design check only; TagsFilter: the complete product rule lists <= 3 (3 templates x 2 results) x tag lists <= 3 over 6 tags; list matchers (from a vector, filled with add_string, empty list, list holding the empty string).  Deadlock checking stays on: every behaviour must reach phase "done".
SPECIFICATION Spec
CONSTANTS
  Fams <- OnlyTF
  Alpha <- AlphaList
  Shapes <- ShapeSmall33
INVARIANTS TypeOK RefinesRules RefinesIter RefinesRest
