SPECIFICATION Spec
CONSTANTS
  N = 4
  DSNames = {"bulk"}
  MaxExtra = 0
  SkipSet = {}
  HdrSet = {}
  RefPolicy = "any"
  MaskSet = {{"n", "w", "r"}}
  TypeResets = TRUE
  SkipUndecoded = TRUE
  FillOnly = FALSE
  BulkN = 9
  RoleLimit = 250
  ExportHist = FALSE
INVARIANTS TypeOK TableAgree RegsAgree DecodedOK FillAgree
CHECK_DEADLOCK FALSE
