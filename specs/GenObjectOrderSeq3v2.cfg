SPECIFICATION SpecSeq
CONSTANTS IdMax = 4
  LawIds = {0}
  LawTypes = {1}
  NVersions = 4
  SeqLen = 3
  SeqVersions = {1, 2}
INVARIANT ExportSeq
INVARIANT CheckerAgrees
CHECK_DEADLOCK FALSE
