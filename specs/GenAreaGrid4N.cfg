SPECIFICATION Spec
CONSTANTS
  G = 4
  MaxRings = 3
  Drawings = 4
  Kinds = {"rect", "tri", "L", "T", "dia", "rectD", "triD", "LD", "diaD"}
  MutSeq <- MutMild
  ModeSeq <- ModeNest
  MaxSegs = 26
  Styles = {"long", "short", "mixed", "mid"}
  RolePats <- AllRolePats
  Theorems = FALSE
  Tiles = FALSE
INVARIANTS Export
CHECK_DEADLOCK FALSE
