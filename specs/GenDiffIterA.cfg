\* C20, quick+thorough: design check and export; apply_diff (vacuity guard: -coverage).  Deadlock checking stays on: every behaviour must reach phase "done".
SPECIFICATION Spec
CONSTANTS
  Keys <- Keys4
  MaxV = 2
  NoisePatterns <- Noise2
  Modes <- ApplyModes
  HandlerLists <- DiffLists
  SmallN = 3
  MaxChunks = 2
INVARIANTS Cursors Refines AShape Export
