SPECIFICATION FairSpec
CONSTANTS
  Threads <- SThreads
  Kind <- SKind
  Script <- SScript
  Max = 2
  Throwing <- NoThrow
PROPERTY Termination
CHECK_DEADLOCK FALSE
