SPECIFICATION Spec
CONSTANTS
  Fmt = "pbf"
  MaxFaults = 1
  WithTrunc = TRUE
  TruncAfterFault = TRUE
  ExportHist = FALSE
INVARIANTS TypeOK Applicable DistinctPositions TruncOK
CHECK_DEADLOCK FALSE
