SPECIFICATION Spec
CONSTANTS
  Fmt = "pbf"
  MaxFaults = 2
  WithTrunc = TRUE
  TruncAfterFault = TRUE
  ExportHist = FALSE
INVARIANTS TypeOK Applicable DistinctPositions TruncOK
CHECK_DEADLOCK FALSE
