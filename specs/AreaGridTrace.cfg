SPECIFICATION TraceSpec
CONSTANTS
  G <- TraceG
  MaxRings = 1
  Drawings = 1
  Kinds = {}
  MutSeq <- MutNone
  Modes = {}
  MaxSegs = 0
  Styles = {}
  Theorems = FALSE
INVARIANTS Emit
CHECK_DEADLOCK FALSE
