SPECIFICATION TraceSpec
CONSTANTS
  G <- TraceG
  MaxRings = 1
  Drawings = 1
  Kinds = {}
  MutSeq <- MutNone
  ModeSeq <- ModeAny
  MaxSegs = 0
  Styles = {}
  RolePats <- TwoRolePats
  Theorems = FALSE
  Tiles = FALSE
INVARIANTS Emit
CHECK_DEADLOCK FALSE
