SPECIFICATION Spec
CONSTANTS
  PosCand = {0, 1, 2, 65535, 65536, 1073741825}
  NegCand = {1, 2, 65536, 1073741824, 1073741825}
  PosRefs = {0, 1, 2, 3, 65535, 65536, 65537, 1073741824, 1073741825}
  NegRefs = {1, 2, 3, 65535, 65536, 1073741824, 1073741825, 1073741826}
  MaxNodes = 3
  MaxWays = 2
  MaxU = 2147483647
  ExportHist = TRUE
INVARIANTS Refines SortLogic Stores Export
CHECK_DEADLOCK FALSE
