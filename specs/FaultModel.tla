---------------------------- MODULE FaultModel ----------------------------
(* C03 (1/2).  Structure-aware fault enumeration for the four input formats of libosmium.

   A file is described by its STRUCTURE: a catalogue of named structural positions per format
   (PBF: BlobHeader length, BlobHeader fields, Blob fields raw / zlib_data / raw_size, HeaderBlock fields,
   PrimitiveBlock / string table / groups / dense arrays / keys_vals / Info fields; o5m: magic, datasets
   with type byte and length varint, delta-coded fields, string pairs and table references, reference
   section lengths; OPL: lines and their fields; XML: elements and their attributes, document level),
   each of a KIND; the kind determines which FAULTS can be injected at the position (FaultsOf).
   The state machine chooses a base file, injects up to MaxFaults faults at distinct positions and
   optionally truncates the file relative to a position (before it / inside its length field /
   inside its payload / after it), at file level or - PBF - inside the blob content before it is
   framed and compressed.  tools/fault_enc.py owns the meaning of every (kind, fault) pair in bytes.

   A-layer: a description with no fault and no truncation denotes a VALID file whose content is
   known (BaseObjects); every other description denotes a file for which the property only promises
   a safe outcome: data or an exception, never a memory error / abort / hang.  The expected outcome
   class (`exp`) is exported with every description; the replay harness is the oracle for "safe".
   Invariants: every injected fault is applicable to the kind of its position and to the base
   (Applicable), truncations are expressible (TruncOK: no file-level cut inside compressed content),
   the catalogue is consistent (ASSUMEs). *)
EXTENDS Integers, Sequences, FiniteSets, TLC, Json

CONSTANTS Fmt,          \* "pbf" | "o5m" | "opl" | "xml"
          MaxFaults,    \* number of simultaneous content faults
          WithTrunc,    \* also enumerate truncations
          TruncAfterFault, \* allow a truncation on top of content faults
          ExportHist

VARIABLES base, faults, trunc, phase
vars == <<base, faults, trunc, phase>>

Pairs(names, kind) == {<<n, kind>> : n \in names}
NoTrunc == [pos |-> "-", w |-> "-", level |-> "-"]

\* ------------------------------------------------------------------------------------------- PBF
PbfInfo(p) == {p \o ".version", p \o ".timestamp", p \o ".changeset", p \o ".uid", p \o ".visible"}
PbfFrame == Pairs({"h.bh_len", "d.bh_len"}, "len4") \cup Pairs({"h.bh.type", "d.bh.type"}, "bhtype")
            \cup Pairs({"h.bh.datasize", "d.bh.datasize"}, "datasize") \cup Pairs({"h.blob.data", "d.blob.data"}, "blobdata")
            \cup Pairs({"h.blob.raw_size", "d.blob.raw_size"}, "rawsize") \cup Pairs({"file"}, "pbffile")
PbfHeaderInner == Pairs({"hb.bbox"}, "msg") \cup Pairs({"bbox.left", "bbox.right", "bbox.top", "bbox.bottom", "hb.repl_timestamp"}, "scalar")
            \cup Pairs({"hb.feature"}, "featstr") \cup Pairs({"hb.feature2", "hb.program"}, "str")
PbfDataInner ==
       Pairs({"st", "group1", "group2", "group3", "group4", "dense", "dense.info", "way", "way.info", "rel", "rel.info", "node", "node.info"}, "msg")
  \cup Pairs({"st.s0", "st.s1", "st.s2", "st.s3", "st.s4", "st.s5", "st.s6"}, "str")
  \cup Pairs({"way.id", "rel.id", "node.id", "node.lat", "node.lon", "pb.granularity", "pb.date_granularity", "pb.lat_offset", "pb.lon_offset"}
             \cup PbfInfo("wi") \cup PbfInfo("ri") \cup PbfInfo("ni"), "scalar")
  \cup Pairs({"wi.user_sid", "ri.user_sid", "ni.user_sid"}, "sidscalar")
  \cup Pairs({"way.keys", "way.vals", "rel.keys", "rel.vals", "node.keys", "node.vals", "rel.roles_sid", "di.user_sid"}, "idxarr")
  \cup Pairs({"dense.keys_vals"}, "kvarr")
  \cup Pairs({"dense.id", "dense.lat", "dense.lon", "di.version", "di.timestamp", "di.changeset", "di.uid", "di.visible",
              "way.refs", "way.lat", "way.lon", "rel.memids"}, "parr")
  \cup Pairs({"rel.types"}, "typearr")
PbfCat == PbfFrame \cup PbfHeaderInner \cup PbfDataInner

\* ------------------------------------------------------------------------------------------- o5m
O5Datasets == {"ts", "bbox", "n1", "n2", "n3", "w1", "r1"}
O5Cat ==
       Pairs({"magic"}, "magic") \cup Pairs({d \o ".type" : d \in O5Datasets}, "dstype") \cup Pairs({d \o ".len" : d \in O5Datasets}, "dslen")
  \cup Pairs(O5Datasets, "dataset")
  \cup Pairs({"ts.value", "bbox.x1", "bbox.y1", "bbox.x2", "bbox.y2", "n1.id", "n1.ts", "n1.cs", "n1.lon", "n1.lat",
              "n2.id", "n2.ts", "n2.cs", "n2.lon", "n2.lat", "n3.id", "w1.id", "w1.ts", "w1.cs", "w1.ref0", "w1.ref1", "w1.ref2",
              "r1.id", "r1.ts", "r1.cs", "r1.m0.id", "r1.m1.id", "r1.m2.id"}, "delta")
  \cup Pairs({"n1.version", "n2.version", "w1.version", "r1.version"}, "version")
  \cup Pairs({"n1.user", "n2.user", "w1.user", "r1.user"}, "userstr")
  \cup Pairs({"n1.tag0", "n1.tag1", "n2.tag0", "w1.tag0", "r1.tag0", "r1.tag1"}, "tagstr")
  \cup Pairs({"r1.m0.role", "r1.m1.role", "r1.m2.role"}, "rolestr")
  \cup Pairs({"w1.reflen", "r1.reflen"}, "reflen")
  \cup Pairs({"reset"}, "reset") \cup Pairs({"eof"}, "eof") \cup Pairs({"big.ref"}, "bigref")
  \cup Pairs({d \o ".body" : d \in O5Datasets} \cup {"w1.refs", "r1.members", "n3.noinfo"}, "span")

\* ------------------------------------------------------------------------------------------- OPL
OplCat ==
       Pairs({"n", "w", "r", "c"}, "line") \cup Pairs({"file"}, "oplfile")
  \cup Pairs({"n.id", "w.id", "r.id", "c.id"}, "idfield")
  \cup Pairs({"n.v", "n.c", "n.i", "w.v", "w.c", "w.i", "r.v", "r.c", "r.i", "c.k", "c.d", "c.i"}, "intfield")
  \cup Pairs({"n.d", "w.d", "r.d"}, "visfield")
  \cup Pairs({"n.t", "w.t", "r.t", "c.s", "c.e"}, "timefield")
  \cup Pairs({"n.u", "w.u", "r.u", "c.u"}, "strfield")
  \cup Pairs({"n.T", "w.T", "r.T", "c.T"}, "tagfield")
  \cup Pairs({"n.x", "n.y", "c.x", "c.y", "c.X", "c.Y"}, "coordfield")
  \cup Pairs({"w.N"}, "nodesfield") \cup Pairs({"r.M"}, "membersfield")

\* ------------------------------------------------------------------------------------------- XML (attributes, document level)
XmlObj(e) == Pairs({e \o ".id"}, "idattr") \cup Pairs({e \o ".version", e \o ".uid", e \o ".changeset"}, "uintattr")
             \cup Pairs({e \o ".timestamp"}, "timeattr") \cup Pairs({e \o ".user"}, "userattr") \cup Pairs({e \o ".zzz"}, "unkattr")
XmlCat ==
       XmlObj("node") \cup XmlObj("way") \cup XmlObj("relation")
  \cup Pairs({"node.lat", "node.lon", "changeset.min_lat", "changeset.min_lon", "changeset.max_lat", "changeset.max_lon",
              "bounds.minlat", "bounds.minlon", "bounds.maxlat", "bounds.maxlon"}, "coordattr")
  \cup Pairs({"node.visible", "changeset.open"}, "boolattr")
  \cup Pairs({"changeset.id"}, "idattr") \cup Pairs({"changeset.uid", "changeset.num_changes", "changeset.comments_count", "comment.uid"}, "uintattr")
  \cup Pairs({"changeset.created_at", "changeset.closed_at", "comment.date"}, "timeattr")
  \cup Pairs({"changeset.user", "comment.user"}, "userattr")
  \cup Pairs({"tag.k", "tag.v", "member.role"}, "strattr")
  \cup Pairs({"nd.ref", "member.ref"}, "idattr") \cup Pairs({"member.type"}, "typeattr")
  \cup Pairs({"osm.version", "osmChange.version"}, "versionattr") \cup Pairs({"osm.generator"}, "strattr")
  \cup Pairs({"changeset.zzz", "tag.zzz", "nd.zzz", "member.zzz", "comment.zzz", "bounds.zzz", "osm.zzz"}, "unkattr")
  \cup Pairs({"doc"}, "doc")

Cat == CASE Fmt = "pbf" -> PbfCat [] Fmt = "o5m" -> O5Cat [] Fmt = "opl" -> OplCat [] Fmt = "xml" -> XmlCat
Bases == CASE Fmt = "pbf" -> {"zlib", "raw"} [] Fmt = "o5m" -> {"m", "c", "big"} [] Fmt = "opl" -> {"l"} [] Fmt = "xml" -> {"x"}
BaseObjects(b) == CASE Fmt = "pbf" -> 6 [] Fmt = "o5m" -> (IF b = "big" THEN 15016 ELSE 5) [] Fmt = "opl" -> 4 [] Fmt = "xml" -> 0

\* ------------------------------------------------------------------------------------------- faults per kind
LenFaults == {"len_plus1", "len_minus1", "len_zero", "len_huge"}
ArrFaults == {"len_plus1", "len_minus1", "missing", "shorter", "longer", "empty", "cut_varint", "overlong_varint"}
XmlStruct == {"missing", "dup", "unknown_attr", "first", "last", "all_missing", "empty"}
OplStruct == {"missing", "dup", "empty_value", "garbage", "tab_sep", "double_sep", "no_sep", "unknown_field"}
FaultsOf(kind) ==
  CASE kind = "len4" -> {"plus1", "minus1", "zero", "over_limit", "max", "highbit"}
    [] kind = "bhtype" -> {"missing", "wrong", "empty", "prefix", "len_plus1", "len_huge"}
    [] kind = "datasize" -> {"plus1", "minus1", "zero", "neg", "over_limit", "missing", "max"}
    [] kind = "blobdata" -> LenFaults \cup {"missing", "empty", "corrupt_zlib", "trunc_zlib", "lzma", "unknown_field", "both"}
    [] kind = "rawsize" -> {"too_small", "too_big", "zero", "neg", "limit", "limit_plus1", "int_max", "missing", "max"}
    [] kind = "pbffile" -> {"second_header", "no_data_blob", "data_first", "trailing_garbage"}
    [] kind = "msg" -> LenFaults \cup {"missing", "dup", "wrongwire"}
    [] kind = "str" -> LenFaults \cup {"missing", "dup", "wrongwire", "embedded_nul", "toolong", "maxlen", "bad_utf8", "empty"}
    [] kind = "featstr" -> LenFaults \cup {"missing", "unknown_feature", "embedded_nul", "toolong", "empty"}
    [] kind = "scalar" -> {"max", "neg", "zero", "overlong_varint", "missing", "dup", "wrongwire", "int_max"}
    [] kind = "sidscalar" -> {"idx_oob", "idx_zero", "idx_huge", "neg", "max", "missing", "overlong_varint"}
    [] kind = "idxarr" -> ArrFaults \cup {"idx_oob", "idx_zero", "idx_huge", "idx_neg"}
    [] kind = "kvarr" -> ArrFaults \cup {"idx_oob", "idx_zero", "idx_huge", "idx_neg", "odd", "missing_value", "no_final_zero"}
    [] kind = "parr" -> ArrFaults \cup {"ovf_pos", "ovf_neg"}
    [] kind = "typearr" -> ArrFaults \cup {"bad_type", "idx_neg"}
    [] kind = "magic" -> {"bad_magic", "bad_type", "bad_version", "short", "no_reset", "bad_len"}
    [] kind = "dstype" -> {"unknown_lo", "unknown_hi", "sync", "jump"}
    [] kind = "dslen" -> {"plus1", "minus1", "zero", "huge", "max", "overlong_varint", "beyond"}
    [] kind = "dataset" -> {"dup", "missing"}
    [] kind = "delta" -> {"ovf_pos", "ovf_neg", "overlong_varint", "cut_varint", "missing"}
    [] kind = "version" -> {"zero", "huge", "max", "overlong_varint"}
    [] kind = "userstr" -> {"no_term", "uid_huge", "no_sep", "uid_only", "uid_cut", "ref_zero", "ref_huge", "ref_max", "ref_empty", "ref_wrongkind",
                            "toolong", "longest", "only_marker", "force_inline", "missing"}
    [] kind = "tagstr" -> {"no_term", "no_val", "ref_zero", "ref_huge", "ref_max", "ref_empty", "ref_wrongkind", "toolong", "longest", "only_marker", "force_inline"}
    [] kind = "rolestr" -> {"bad_type", "no_role", "no_term", "ref_zero", "ref_huge", "ref_max", "ref_empty", "ref_wrongkind", "toolong", "longest", "only_marker", "force_inline"}
    [] kind = "reflen" -> {"plus1", "minus1", "zero", "huge", "max", "into_tags", "to_end", "beyond_end", "overlong_varint"}
    [] kind = "reset" -> {"missing", "no_table_reset"}
    [] kind = "eof" -> {"missing", "garbage_after"}
    [] kind = "bigref" -> {"oldest", "wrapped", "newest", "ref_huge"}
    [] kind = "span" -> {}
    [] kind = "line" -> {"missing", "dup", "crlf", "none", "nul", "trailing_space", "trailing_tab", "unknown_type", "comment", "leading_space",
                         "empty_line_before", "overlong_line", "only_type", "nul_inside"}
    [] kind = "oplfile" -> {"no_final_newline", "binary_garbage"}
    [] kind = "idfield" -> {"empty_value", "garbage", "huge_int", "int64_max", "int64_min", "neg_int"}
    [] kind = "intfield" -> OplStruct \cup {"huge_int", "int64_max", "neg_int"}
    [] kind = "visfield" -> OplStruct \cup {"bad_visible"}
    [] kind = "timefield" -> OplStruct \cup {"bad_time_short", "bad_time_garbage", "bad_time_long"}
    [] kind = "strfield" -> OplStruct \cup {"bad_escape", "open_escape", "long_escape", "huge_cp", "surrogate_cp", "nul_cp",
                                            "len1024", "len1025", "len65535", "len65536", "len70000"}
    [] kind = "tagfield" -> OplStruct \cup {"bad_escape", "open_escape", "long_escape", "huge_cp", "nul_cp", "len1024", "len1025",
                                            "no_equal", "no_value", "trailing_comma", "double_comma", "double_equal"}
    [] kind = "coordfield" -> OplStruct \cup {"bad_coord_exp", "bad_coord_range", "bad_coord_minus", "bad_coord_dot", "bad_coord_long", "bad_coord_e"}
    [] kind = "nodesfield" -> OplStruct \cup {"node_no_n", "node_bad_loc", "trailing_comma", "double_comma", "huge_int"}
    [] kind = "membersfield" -> OplStruct \cup {"bad_member_type", "member_no_at", "member_no_ref", "trailing_comma", "double_comma", "bad_escape", "len1024", "len1025"}
    [] kind = "idattr" -> XmlStruct \cup {"garbage", "nonnum", "neg", "zero", "huge", "int64_max", "int64_min", "float", "trailing", "leading_space", "plus", "hex"}
    [] kind = "uintattr" -> XmlStruct \cup {"garbage", "nonnum", "neg", "zero", "huge", "uint32_max", "uint32_over", "int64_max", "float", "trailing", "plus"}
    [] kind = "timeattr" -> XmlStruct \cup {"garbage", "time_short", "time_garbage", "time_long", "zero"}
    [] kind = "userattr" -> XmlStruct \cup {"len1024", "len1025", "len65534", "len65535", "len65536", "len70000", "charref_nul_like", "charref_big",
                                            "amp_entities", "newline", "utf8"}
    [] kind = "strattr" -> XmlStruct \cup {"len1024", "len1025", "len65535", "len70000", "charref_nul_like", "charref_big", "amp_entities", "newline", "utf8"}
    [] kind = "coordattr" -> XmlStruct \cup {"garbage", "nonnum", "exp", "coord_range", "coord_long", "coord_minus", "coord_dot", "coord_e", "huge", "trailing"}
    [] kind = "boolattr" -> XmlStruct \cup {"bool_garbage", "zero"}
    [] kind = "typeattr" -> XmlStruct \cup {"type_x", "type_empty", "type_upper", "garbage"}
    [] kind = "versionattr" -> XmlStruct \cup {"garbage", "zero", "float", "trailing", "len70000"}
    [] kind = "unkattr" -> {"garbage", "len70000", "utf8", "huge"}
    [] kind = "doc" -> {"entity_decl", "billion_laughs", "external_entity", "parameter_entity", "doctype_only", "empty", "whitespace", "no_root",
                        "text_only", "unclosed_root", "unclosed_attr", "mismatched_close", "two_roots", "garbage_after_root", "no_version",
                        "bad_version", "version_last", "bad_encoding", "utf16_decl", "latin1", "bom", "nul_byte", "control_char", "invalid_utf8",
                        "cdata_in_text", "comment_and_pi", "deep_unknown", "deep_nodes", "many_attrs", "huge_text", "text_65535", "namespaced",
                        "chars_everywhere"}

Kinds == {c[2] : c \in Cat}
KindOf(p) == (CHOOSE c \in Cat : c[1] = p)[2]
Positions == {c[1] : c \in Cat}

\* catalogue sanity (evaluated once by TLC)
ASSUME \A c1, c2 \in Cat : c1[1] = c2[1] => c1 = c2                     \* a position has one kind
ASSUME \A k \in Kinds : k = "span" \/ FaultsOf(k) # {}                    \* every kind has faults

\* ------------------------------------------------------------------------------------------- applicability
FramePos == {c[1] : c \in PbfFrame}
InnerPos == {c[1] : c \in PbfHeaderInner \cup PbfDataInner}
BaseAllows(b, p) ==
    CASE Fmt = "pbf" -> (p \in {"h.blob.raw_size", "d.blob.raw_size"} => b = "zlib")
      [] Fmt = "o5m" -> (p = "big.ref" <=> b = "big")
      [] OTHER -> TRUE
TruncWhere == {"before", "inlen", "inside", "after"}
TruncAllowed(b, p, level) ==
    CASE Fmt = "pbf" -> /\ p # "file"
                        /\ level = "file" => (p \in FramePos \/ b = "raw")      \* no file-level cut inside compressed content
                        /\ level = "inner" => p \in InnerPos
                        /\ BaseAllows(b, p)
      [] Fmt = "o5m" -> level = "file" /\ p # "big.ref" /\ b # "big"
      [] Fmt = "opl" -> level = "file" /\ p # "file"
      [] Fmt = "xml" -> FALSE

\* ------------------------------------------------------------------------------------------- the enumeration machine
Init == base = "-" /\ faults = {} /\ trunc = NoTrunc /\ phase = "init"

ChooseBase(b) == /\ phase = "init" /\ base' = b /\ phase' = "inject" /\ UNCHANGED <<faults, trunc>>

Inject(p, f) == /\ phase = "inject" /\ Cardinality(faults) < MaxFaults
                /\ p \notin {r.pos : r \in faults}
                /\ (Fmt = "o5m" /\ base = "big") => p = "big.ref"          \* the big file only carries the table wrap-around faults
                /\ BaseAllows(base, p)
                /\ f \in FaultsOf(KindOf(p))
                /\ faults' = faults \cup {[pos |-> p, f |-> f]}
                /\ UNCHANGED <<base, trunc, phase>>

Truncate(p, w, level) == /\ phase = "inject" /\ WithTrunc
                         /\ (faults = {} \/ TruncAfterFault)
                         /\ TruncAllowed(base, p, level)
                         /\ trunc' = [pos |-> p, w |-> w, level |-> level]
                         /\ phase' = "done" /\ UNCHANGED <<base, faults>>

\* "every prefix of the valid base file" (expanded byte by byte when the description is materialised)
AllPrefixes == /\ phase = "inject" /\ faults = {} /\ WithTrunc /\ ~(Fmt = "o5m" /\ base = "big")
               /\ trunc' = [pos |-> "*", w |-> "every-prefix", level |-> "file"]
               /\ phase' = "done" /\ UNCHANGED <<base, faults>>

Finish == /\ phase = "inject" /\ phase' = "done" /\ UNCHANGED <<base, faults, trunc>>

Next == \/ \E b \in Bases : ChooseBase(b)
        \/ \E p \in Positions : \E f \in FaultsOf(KindOf(p)) : Inject(p, f)
        \/ \E p \in Positions, w \in TruncWhere, level \in {"file", "inner"} : Truncate(p, w, level)
        \/ AllPrefixes
        \/ Finish
Spec == Init /\ [][Next]_vars

\* ------------------------------------------------------------------------------------------- properties
TypeOK == /\ phase \in {"init", "inject", "done"}
          /\ base \in Bases \cup {"-"}
          /\ Cardinality(faults) <= MaxFaults
Applicable == \A r \in faults : /\ r.pos \in Positions
                                /\ r.f \in FaultsOf(KindOf(r.pos))
                                /\ BaseAllows(base, r.pos)
DistinctPositions == Cardinality({r.pos : r \in faults}) = Cardinality(faults)
TruncOK == trunc # NoTrunc => \/ trunc.w = "every-prefix"
                              \/ TruncAllowed(base, trunc.pos, trunc.level)

\* A-layer: only the unfaulted, untruncated description denotes a valid file with known content
Valid == faults = {} /\ trunc = NoTrunc
Expected == IF Valid THEN [outcome |-> "data", nobj |-> BaseObjects(base)] ELSE [outcome |-> "any", nobj |-> -1]

Export == (phase = "done" /\ ExportHist) => PrintT(<<"CASE", ToJson([fmt |-> Fmt, base |-> base, faults |-> faults, trunc |-> trunc, exp |-> Expected])>>)
=============================================================================
