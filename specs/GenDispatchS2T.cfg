\* C20, thorough.  Deadlock checking stays on: every behaviour must reach phase "done".
SPECIFICATION Spec
CONSTANTS
  Alphabet <- AlphaRm
  MaxLen = 2
  HandlerLists <- Singles
  Containers <- ContAll
  MaxChunks = 2
INVARIANTS TypeOK Refines NoThrow Export
