SPECIFICATION Spec
CONSTANTS
  Caps <- CapsScript
  Modes = {"internal"}
  Kinds = {"node", "area"}
  ULens = {14}
  TagLens <- TagLens2
  RoleLens = {0}
  Pres = {1}
  Wraps = {FALSE}
  CbMaxs = {0}
  MaxObjects = 4
  MaxElems = 2
  MaxSubs = 6
  MaxSteps <- S3Len
  Ops <- AllOps
  Script <- ScriptPurge
  ExportHist = TRUE
INVARIANT Export
INVARIANT Inv
CHECK_DEADLOCK FALSE
