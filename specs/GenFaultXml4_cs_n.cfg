SPECIFICATION Spec
CONSTANTS
  MaxElems = 4
  MaxDepth = 6
  Fixed = TRUE
  ReadTypes = {"n"}
  ExportHist = TRUE
  Vocab = {"osm", "changeset", "tag", "discussion", "comment", "text", "foo"}
INVARIANTS TypeOK WellFormedCommitted BuilderDiscipline NoStaleBuilders ObjectMatchesStack Export
CHECK_DEADLOCK FALSE
