#!/usr/bin/env python3
"""C03: materialise the faulty-file descriptions exported by TLC from specs/FaultModel.tla.

A description is  {fmt, base, faults: [{pos, f}...], trunc: {pos, w, level} | null}  (binary / line
formats) or {fmt: "xml", ev: [...events...]} / {fmt: "xml", attr: {...}} / {fmt: "xml", doc: token}.
Every structural position of the spec (`pos`) is a named element of the encoders below; a fault
changes how exactly that element is written while everything around it is written consistently
(structure-aware: enclosing lengths are computed from the bytes actually present unless the
fault is about that very length).  The encoders keep the byte range of every named element
(`marks`) so that truncations can be placed after / inside / in the length field of any element.

Standard library only; independent of libosmium (nothing here is derived from its writers)."""
import bz2
import gzip
import struct
import zlib

M64 = (1 << 64) - 1
I64MAX = (1 << 63) - 1
I64MIN = -(1 << 63)
OVERLONG = b"\x80" * 10 + b"\x01"      # a varint of 11 bytes
MAXSTR = 1024                           # osmium::max_osm_string_length
BLOB_LIMIT = 32 * 1024 * 1024


def varint(n):
    n &= M64
    out = bytearray()
    while True:
        b = n & 0x7F
        n >>= 7
        if n:
            out.append(b | 0x80)
        else:
            out.append(b)
            return bytes(out)


def zz(n):
    return ((n << 1) ^ (n >> 63)) & M64


def svarint(n):
    return varint(zz(n))


class Out:
    """bytes + marks {name: (start, payload_start, end)}"""

    def __init__(self, b=b"", marks=None):
        self.b = bytes(b)
        self.marks = dict(marks or {})


def cat(parts):
    b = bytearray()
    marks = {}
    for o in parts:
        if isinstance(o, (bytes, bytearray)):
            o = Out(o)
        off = len(b)
        for k, (a, p, e) in o.marks.items():
            marks.setdefault(k, (a + off, p + off, e + off))
        b += o.b
    return Out(bytes(b), marks)


def named(name, head, body):
    if isinstance(body, (bytes, bytearray)):
        body = Out(body)
    o = cat([Out(head), body])
    o.marks[name] = (0, len(head), len(o.b))
    return o


class Unknown(Exception):
    pass


# ------------------------------------------------------------------------------------------- PBF

def pb_ld(name, num, body, F):
    """length-delimited field with the generic faults of kind 'msg'"""
    if isinstance(body, (bytes, bytearray)):
        body = Out(body)
    f = F.get(name)
    if f == "missing":
        return Out()
    n = len(body.b)
    decl = {"len_plus1": n + 1, "len_minus1": max(n - 1, 0), "len_zero": 0, "len_huge": 0x7FFFFFFF}.get(f, n)
    tag = varint((num << 3) | (5 if f == "wrongwire" else 2))
    o = named(name, tag + varint(decl), body)
    if f == "dup":
        o = cat([o, Out(o.b)])
    return o


def pb_sc(name, num, val, F, alts=None):
    """varint scalar with the faults of kind 'scalar' (+ caller supplied alternatives)"""
    f = F.get(name)
    if f == "missing":
        return Out()
    enc = varint(val)
    if f in (alts or {}):
        enc = varint(alts[f])
    elif f == "max":
        enc = varint(M64)
    elif f == "neg":
        enc = varint(-1)
    elif f == "zero":
        enc = varint(0)
    elif f == "overlong_varint":
        enc = OVERLONG
    tag = varint((num << 3) | (5 if f == "wrongwire" else 0))
    o = named(name, tag, enc)
    if f == "dup":
        o = cat([o, Out(o.b)])
    return o


def pb_packed(name, num, vals, F, signed=False, nstr=0):
    """packed repeated varints with the faults of kinds idxarr / kvarr / parr / typearr"""
    f = F.get(name)
    vals = list(vals)
    if f == "shorter":
        vals = vals[:-1]
    elif f == "longer":
        vals = vals + [vals[-1] if vals else 1]
    elif f == "empty":
        vals = []
    elif f == "idx_oob" and vals:
        vals[0] = nstr
    elif f == "idx_zero" and vals:
        vals[0] = 0
    elif f == "idx_huge" and vals:
        vals[0] = 0x7FFFFFFF
    elif f == "idx_neg" and vals:
        vals[0] = -1
    elif f == "odd":
        while vals and vals[-1] == 0:
            vals.pop()
        vals = vals[:-1]                       # ... ends right after a key
    elif f == "missing_value":
        while vals and vals[-1] == 0:
            vals.pop()
        vals = vals[:-1] + [0]                 # key followed by the 0 delimiter
    elif f == "no_final_zero":
        if vals and vals[-1] == 0:
            vals = vals[:-1]
    elif f == "ovf_pos":
        vals = [I64MAX, I64MAX] + vals[2:]
    elif f == "ovf_neg":
        vals = [I64MIN, -1] + vals[2:]
    elif f == "bad_type" and vals:
        vals[0] = 3
    enc = [(svarint(v) if signed else varint(v)) for v in vals]
    if f == "overlong_varint" and enc:
        enc[0] = OVERLONG
    body = b"".join(enc)
    if f == "cut_varint" and body:
        body = body[:-1] + bytes([body[-1] | 0x80])
    return pb_ld(name, num, body, F)


def pb_str(name, num, s, F):
    f = F.get(name)
    s = {"embedded_nul": s[:1] + b"\x00" + (s[1:] or b"z"), "toolong": b"x" * (MAXSTR + 1), "maxlen": b"y" * MAXSTR,
         "bad_utf8": b"\xff\xfe\x80", "empty": b""}.get(f, s)
    return pb_ld(name, num, s, F)


PBF_STRINGS = [b"", b"k1", b"v1", b"user", b"role", b"k2", b"v2"]


def pbf_info(prefix, F):
    return cat([pb_sc(prefix + ".version", 1, 1, F), pb_sc(prefix + ".timestamp", 2, 1400000000, F),
                pb_sc(prefix + ".changeset", 3, 7, F), pb_sc(prefix + ".uid", 4, 5, F),
                pb_sc(prefix + ".user_sid", 5, 3, F, alts={"idx_oob": len(PBF_STRINGS), "idx_zero": 0, "idx_huge": 0x7FFFFFFF}),
                pb_sc(prefix + ".visible", 6, 1, F)])


def pbf_primitive_block(F):
    ns = len(PBF_STRINGS)
    st = pb_ld("st", 1, cat([pb_str("st.s%d" % i, 1, s, F) for i, s in enumerate(PBF_STRINGS)]), F)
    di = pb_ld("dense.info", 5, cat([
        pb_packed("di.version", 1, [1, 2, 1], F),
        pb_packed("di.timestamp", 2, [1400000000, 1, 1], F, signed=True),
        pb_packed("di.changeset", 3, [7, 0, 1], F, signed=True),
        pb_packed("di.uid", 4, [5, 0, 0], F, signed=True),
        pb_packed("di.user_sid", 5, [3, 0, 0], F, signed=True, nstr=ns),
        pb_packed("di.visible", 6, [1, 1, 0], F)]), F)
    dense = pb_ld("dense", 2, cat([
        pb_packed("dense.id", 1, [1, 1, 1], F, signed=True), di,
        pb_packed("dense.lat", 8, [100000000, 10, -20], F, signed=True),
        pb_packed("dense.lon", 9, [200000000, -10, 20], F, signed=True),
        pb_packed("dense.keys_vals", 10, [1, 2, 0, 0, 5, 6, 1, 2, 0], F, nstr=ns)]), F)
    g1 = pb_ld("group1", 2, dense, F)
    way = pb_ld("way", 3, cat([
        pb_sc("way.id", 1, 10, F), pb_packed("way.keys", 2, [1, 5], F, nstr=ns), pb_packed("way.vals", 3, [2, 6], F, nstr=ns),
        pb_ld("way.info", 4, pbf_info("wi", F), F),
        pb_packed("way.refs", 8, [1, 1, 1], F, signed=True),
        pb_packed("way.lat", 9, [100000000, 10, -20], F, signed=True),
        pb_packed("way.lon", 10, [200000000, -10, 20], F, signed=True)]), F)
    g2 = pb_ld("group2", 2, way, F)
    rel = pb_ld("rel", 4, cat([
        pb_sc("rel.id", 1, 20, F), pb_packed("rel.keys", 2, [1], F, nstr=ns), pb_packed("rel.vals", 3, [2], F, nstr=ns),
        pb_ld("rel.info", 4, pbf_info("ri", F), F),
        pb_packed("rel.roles_sid", 8, [4, 0], F, nstr=ns),
        pb_packed("rel.memids", 9, [1, 9], F, signed=True),
        pb_packed("rel.types", 10, [0, 1], F)]), F)
    g3 = pb_ld("group3", 2, rel, F)
    node = pb_ld("node", 1, cat([
        pb_sc("node.id", 1, zz(4), F), pb_packed("node.keys", 2, [1], F, nstr=ns), pb_packed("node.vals", 3, [2], F, nstr=ns),
        pb_ld("node.info", 4, pbf_info("ni", F), F),
        pb_sc("node.lat", 8, zz(100000000), F), pb_sc("node.lon", 9, zz(200000000), F)]), F)
    g4 = pb_ld("group4", 2, node, F)
    return cat([st, g1, g2, g3, g4,
                pb_sc("pb.granularity", 17, 100, F, alts={"int_max": 0x7FFFFFFF}),
                pb_sc("pb.date_granularity", 18, 1000, F, alts={"int_max": 0x7FFFFFFF}),
                pb_sc("pb.lat_offset", 19, 0, F, alts={"int_max": I64MAX}),
                pb_sc("pb.lon_offset", 20, 0, F, alts={"int_max": I64MAX})])


def pbf_header_block(F):
    bbox = pb_ld("hb.bbox", 1, cat([pb_sc("bbox.left", 1, zz(-1000000000), F), pb_sc("bbox.right", 2, zz(1000000000), F),
                                    pb_sc("bbox.top", 3, zz(1000000000), F), pb_sc("bbox.bottom", 4, zz(-1000000000), F)]), F)
    feat = b"OsmSchema-V0.6"
    if F.get("hb.feature") == "unknown_feature":
        feat = b"FancyNewFeature"
    return cat([bbox, pb_str("hb.feature", 4, feat, F), pb_str("hb.feature2", 4, b"DenseNodes", F),
                pb_str("hb.program", 16, b"fault_enc", F),
                pb_sc("hb.repl_timestamp", 32, 1400000000, F)])


def pbf_blob(prefix, typ, content, storage, F, extra):
    raw = content.b
    df = F.get(prefix + "blob.data")
    parts = []
    if storage == "raw" and df not in ("lzma", "unknown_field"):
        body = content if df != "empty" else Out()
        parts.append(pb_ld(prefix + "blob.data", 1, body, F))
        if df == "both":
            parts.append(pb_sc(prefix + "blob.raw_size", 2, len(raw), F))
            parts.append(pb_ld(prefix + "blob.data2", 3, zlib.compress(raw), F))
    else:
        z = zlib.compress(raw)
        extra["inflated"] = extra.get("inflated", 0) + len(raw)
        if df == "corrupt_zlib":
            k = len(z) // 2
            z = z[:k] + bytes([z[k] ^ 0x55]) + z[k + 1:]
        elif df == "trunc_zlib":
            z = z[:-5]
        elif df == "empty":
            z = b""
        n = len(raw)
        parts.append(pb_sc(prefix + "blob.raw_size", 2, n, F,
                           alts={"too_small": n - 1, "too_big": n + 1, "limit": BLOB_LIMIT, "limit_plus1": BLOB_LIMIT + 1, "int_max": 0x7FFFFFFF}))
        fieldno = {"lzma": 4, "unknown_field": 9}.get(df, 3)
        parts.append(pb_ld(prefix + "blob.data", fieldno, z, F))
        if df == "both":
            parts.append(pb_ld(prefix + "blob.data2", 1, raw, F))
    blobmsg = cat(parts)
    tf = F.get(prefix + "bh.type")
    t = {"wrong": b"OSMFoo", "empty": b"", "prefix": typ[:3]}.get(tf, typ)
    n = len(blobmsg.b)
    bh = cat([pb_ld(prefix + "bh.type", 1, t, F),
              pb_sc(prefix + "bh.datasize", 3, n, F, alts={"plus1": n + 1, "minus1": n - 1, "over_limit": BLOB_LIMIT + 1})])
    hn = len(bh.b)
    lf = F.get(prefix + "bh_len")
    l4 = {"plus1": hn + 1, "minus1": hn - 1, "zero": 0, "over_limit": 64 * 1024 + 1, "max": 0xFFFFFFFF, "highbit": hn | 0x80}.get(lf, hn)
    return cat([named(prefix + "bh_len", b"", struct.pack(">I", l4 & 0xFFFFFFFF)), named(prefix + "bh", b"", bh), named(prefix + "blob", b"", blobmsg)])


def cut_at(marks, trunc, n):
    pos = trunc["pos"]
    if pos not in marks:
        raise Unknown("truncation position %r not present" % pos)
    a, p, e = marks[pos]
    w = trunc["w"]
    if w == "before":
        return a
    if w == "inlen":
        return a + max(1, (p - a + 1) // 2) if p > a else a + 1
    if w == "inside":
        return p + (e - p) // 2 if e - p >= 2 else max(p, e - 1)
    if w == "after":
        return e
    raise Unknown("truncation mode %r" % w)


def enc_pbf(d, extra):
    F = {x["pos"]: x["f"] for x in d.get("faults", [])}
    trunc = d.get("trunc")
    storage = d.get("base", "zlib")
    hb = pbf_header_block(F)
    pb = pbf_primitive_block(F)
    if trunc and trunc.get("level") == "inner":
        for blk in (hb, pb):
            if trunc["pos"] in blk.marks:
                blk.b = blk.b[:cut_at(blk.marks, trunc, len(blk.b))]
                break
        else:
            raise Unknown("inner truncation position %r not present" % trunc["pos"])
    f = cat([pbf_blob("h.", b"OSMHeader", hb, storage, F, extra), pbf_blob("d.", b"OSMData", pb, storage, F, extra)])
    if F.get("file") == "second_header":
        f = cat([f, pbf_blob("x.", b"OSMHeader", pbf_header_block({}), storage, {}, extra)])
    elif F.get("file") == "no_data_blob":
        f = pbf_blob("h.", b"OSMHeader", hb, storage, F, extra)
    elif F.get("file") == "data_first":
        f = cat([pbf_blob("d.", b"OSMData", pb, storage, F, extra), pbf_blob("h.", b"OSMHeader", hb, storage, F, extra)])
    elif F.get("file") == "trailing_garbage":
        f = cat([f, b"\x00\x00"])
    out = f.b
    if trunc and trunc.get("level") != "inner":
        out = out[:cut_at(f.marks, trunc, len(out))]
    return out, f.marks


# ------------------------------------------------------------------------------------------- o5m

def o5_delta(name, val, F):
    f = F.get(name)
    if f == "ovf_pos":
        b = svarint(I64MAX)
    elif f == "ovf_neg":
        b = svarint(I64MIN)
    elif f == "overlong_varint":
        b = OVERLONG
    elif f == "cut_varint":
        b = svarint(val)
        b = b[:-1] + bytes([b[-1] | 0x80])
    elif f == "missing":
        b = b""
    else:
        b = svarint(val)
    return named(name, b"", b)


class O5Table:
    """what a conforming reader's string table would hold (to compute reference numbers)"""

    def __init__(self):
        self.e = []

    def add(self, s):
        if len(s) <= 252:
            self.e.append(s)

    def ref(self, s):
        for i in range(len(self.e) - 1, -1, -1):
            if self.e[i] == s:
                return len(self.e) - i
        return None


def o5_string(name, payload, T, F, other_kind=None):
    """a string (pair): inline `00 payload` the first time, a table reference afterwards.
    payload includes its terminating NULs."""
    f = F.get(name)
    r = T.ref(payload)
    if f == "ref_zero":
        # 0x00 introduces an inline string; the reference number 0 can only be written as an overlong varint
        return named(name, b"", b"\x80\x00")
    if f == "ref_huge":
        return named(name, b"", varint(15001))
    if f == "ref_max":
        return named(name, b"", varint(M64))
    if f == "ref_empty":
        return named(name, b"", varint(len(T.e) + 1))       # a slot nothing was ever written to
    if f == "ref_wrongkind":
        k = T.ref(other_kind) if other_kind is not None else None
        return named(name, b"", varint(k if k else max(1, len(T.e))))
    if f == "no_term":
        p = payload.rstrip(b"\x00")
        return named(name, b"", b"\x00" + p)
    if f == "no_val":
        p = payload.split(b"\x00")[0] + b"\x00"
        return named(name, b"", b"\x00" + p)
    if f == "toolong":
        p = b"L" * 300 + payload
        T.add(p)
        return named(name, b"", b"\x00" + p)
    if f == "longest":
        p = b"L" * (252 - len(payload)) + payload
        T.add(p)
        return named(name, b"", b"\x00" + p)
    if f == "only_marker":
        return named(name, b"", b"\x00")
    if f == "force_inline" or r is None:
        T.add(payload)
        return named(name, b"", b"\x00" + payload)
    return named(name, b"", varint(r))


def o5_user(name, uid, user, T, F, other_kind):
    f = F.get(name)
    payload = varint(uid) + b"\x00" + user + b"\x00"
    if f == "uid_huge":
        payload = varint(1 << 33) + b"\x00" + user + b"\x00"
        T.add(payload)
        return named(name, b"", b"\x00" + payload)
    if f == "no_sep":
        payload = varint(uid) + user + b"\x00"
        return named(name, b"", b"\x00" + payload)
    if f == "uid_only":
        return named(name, b"", b"\x00" + varint(uid))
    if f == "uid_cut":
        return named(name, b"", b"\x00\x80\x80")
    return o5_string(name, payload, T, F, other_kind)


def o5_info(prefix, ver, ts, cs, uid, user, T, F, other_kind):
    vf = F.get(prefix + ".version")
    v = {"zero": varint(0), "huge": varint(1 << 32), "max": varint(M64), "overlong_varint": OVERLONG}.get(vf, varint(ver))
    parts = [named(prefix + ".version", b"", v)]
    if vf != "zero":
        tf = F.get(prefix + ".ts")
        parts.append(o5_delta(prefix + ".ts", 0 if tf == "zero" else ts, F))
        if tf != "zero":
            parts.append(o5_delta(prefix + ".cs", cs, F))
            if F.get(prefix + ".user") != "missing":
                parts.append(o5_user(prefix + ".user", uid, user, T, F, other_kind))
    return cat(parts)


def o5_dataset(name, typ, body, F):
    tf = F.get(name + ".type")
    t = {"unknown_lo": 0x13, "unknown_hi": 0xF0, "sync": 0xEE, "jump": 0xEF}.get(tf, typ)
    n = len(body.b)
    lf = F.get(name + ".len")
    ln = {"plus1": varint(n + 1), "minus1": varint(max(n - 1, 0)), "zero": varint(0), "huge": varint(1 << 40), "max": varint(M64),
          "overlong_varint": OVERLONG, "beyond": varint(n + 100000)}.get(lf, varint(n))
    o = cat([named(name + ".type", b"", bytes([t])), named(name + ".len", b"", ln), named(name + ".body", b"", body)])
    o.marks[name] = (0, 1 + len(ln), len(o.b))
    if F.get(name) == "dup":
        o = cat([o, Out(o.b)])
    elif F.get(name) == "missing":
        return Out()
    return o


def o5_tags(prefix, tags, T, F, role_payload):
    return cat([o5_string("%s.tag%d" % (prefix, i), k + b"\x00" + v + b"\x00", T, F, role_payload) for i, (k, v) in enumerate(tags)])


def o5_reflen(name, n, F, total_after):
    f = F.get(name)
    v = {"plus1": n + 1, "minus1": max(n - 1, 0), "zero": 0, "huge": 1 << 40, "max": M64, "into_tags": n + 3, "to_end": n + total_after,
         "beyond_end": n + total_after + 1}.get(f, n)
    return named(name, b"", OVERLONG if f == "overlong_varint" else varint(v))


def enc_o5m(d, extra):
    F = {x["pos"]: x["f"] for x in d.get("faults", [])}
    trunc = d.get("trunc")
    base = d.get("base", "m")
    T = O5Table()
    mf = F.get("magic")
    magic = {"bad_magic": b"\xff\xe0\x04o6m2", "bad_type": b"\xff\xe0\x04o5x2", "bad_version": b"\xff\xe0\x04o5m3", "short": b"\xff\xe0\x04o5",
             "no_reset": b"\xe0\x04o5m2", "bad_len": b"\xff\xe0\x05o5m2"}.get(mf, b"\xff\xe0\x04o5" + (b"c" if base == "c" else b"m") + b"2")
    parts = [named("magic", b"", magic)]
    parts.append(o5_dataset("ts", 0xDC, o5_delta("ts.value", 1400000000, F), F))
    parts.append(o5_dataset("bbox", 0xDB, cat([o5_delta("bbox.x1", -10000000, F), o5_delta("bbox.y1", -10000000, F),
                                               o5_delta("bbox.x2", 10000000, F), o5_delta("bbox.y2", 10000000, F)]), F))
    role1 = b"1role\x00"
    user = (5, b"user")
    upay = varint(user[0]) + b"\x00" + user[1] + b"\x00"
    tagp = b"k1\x00v1\x00"
    # node 1: everything inline
    n1 = cat([o5_delta("n1.id", 1, F), o5_info("n1", 1, 1400000000, 7, user[0], user[1], T, F, tagp),
              o5_delta("n1.lon", 20000000, F), o5_delta("n1.lat", 10000000, F),
              o5_tags("n1", [(b"k1", b"v1"), (b"k2", b"v2")], T, F, upay)])
    parts.append(o5_dataset("n1", 0x10, n1, F))
    # node 2: everything by reference
    n2 = cat([o5_delta("n2.id", 1, F), o5_info("n2", 2, 1, 1, user[0], user[1], T, F, tagp),
              o5_delta("n2.lon", -10, F), o5_delta("n2.lat", 10, F),
              o5_tags("n2", [(b"k1", b"v1")], T, F, upay)])
    parts.append(o5_dataset("n2", 0x10, n2, F))
    # node 3: deleted (no location), no info
    parts.append(o5_dataset("n3", 0x10, cat([o5_delta("n3.id", 1, F), named("n3.noinfo", b"", b"\x00")]), F))
    if F.get("reset") != "missing":
        parts.append(named("reset", b"", b"\xff"))
        if F.get("reset") != "no_table_reset":
            T = O5Table()
    # way
    wtags = o5_tags("w1", [(b"k1", b"v1")], T, F, upay)
    refs = cat([o5_delta("w1.ref0", 1, F), o5_delta("w1.ref1", 1, F), o5_delta("w1.ref2", 1, F)])
    w1 = cat([o5_delta("w1.id", 10, F), o5_info("w1", 1, 1400000000, 7, user[0], user[1], T, F, tagp),
              o5_reflen("w1.reflen", len(refs.b), F, len(wtags.b)), named("w1.refs", b"", refs), wtags])
    parts.append(o5_dataset("w1", 0x11, w1, F))
    # relation
    def role(name, typ, r):
        f = F.get(name)
        pay = bytes([0x30 + typ]) + r + b"\x00"
        if f == "bad_type":
            return named(name, b"", b"\x00" + b"7" + r + b"\x00")
        if f == "no_role":
            return named(name, b"", b"\x00" + bytes([0x30 + typ]))
        return o5_string(name, pay, T, F, tagp)
    mem = cat([o5_delta("r1.m0.id", 1, F), role("r1.m0.role", 1, b"role"),
               o5_delta("r1.m1.id", 10, F), role("r1.m1.role", 0, b""),
               o5_delta("r1.m2.id", 2, F), role("r1.m2.role", 1, b"role")])
    rtags = o5_tags("r1", [(b"k1", b"v1"), (b"type", b"x")], T, F, role1)
    r1 = cat([o5_delta("r1.id", 10, F), o5_info("r1", 1, 0, 0, user[0], user[1], T, F, tagp),
              o5_reflen("r1.reflen", len(mem.b), F, len(rtags.b)), named("r1.members", b"", mem), rtags])
    parts.append(o5_dataset("r1", 0x12, r1, F))
    if base == "big":
        # more than 15000 distinct strings: the table wraps around, then a reference to the oldest slot
        T2 = O5Table()
        for i in range(15010):
            body = cat([o5_delta("bn.id", 1, {}), named("x", b"", b"\x00"), o5_delta("bn.lon", 1, {}), o5_delta("bn.lat", 1, {}),
                        named("x", b"", b"\x00" + (b"k%d" % i) + b"\x00v\x00")])
            parts.append(o5_dataset("bn%d" % i if i < 3 else "bn", 0x10, body, {}))
        rf = F.get("big.ref")
        idx = {"oldest": 15000, "wrapped": 14999, "newest": 1, "ref_huge": 15001}.get(rf, 15000)
        body = cat([o5_delta("bn.id", 1, {}), named("x", b"", b"\x00"), o5_delta("bn.lon", 1, {}), o5_delta("bn.lat", 1, {}),
                    named("big.ref", b"", varint(idx))])
        parts.append(o5_dataset("bigref", 0x10, body, {}))
    if F.get("eof") != "missing":
        parts.append(named("eof", b"", b"\xfe"))
    if F.get("eof") == "garbage_after":
        parts.append(b"\x10\x05\x02")
    f = cat(parts)
    out = f.b
    if trunc:
        out = out[:cut_at(f.marks, trunc, len(out))]
    return out, f.marks


# ------------------------------------------------------------------------------------------- OPL

OPL_LINES = {
    "n": [("id", "n1"), ("v", "v2"), ("d", "dV"), ("c", "c7"), ("t", "t2014-05-13T16:53:20Z"), ("i", "i5"), ("u", "uuser%20%name"),
          ("T", "Tk1=v1,k%20%2=v%2c%2"), ("x", "x20.5"), ("y", "y10.25")],
    "w": [("id", "w10"), ("v", "v1"), ("d", "dV"), ("c", "c7"), ("t", "t2014-05-13T16:53:20Z"), ("i", "i5"), ("u", "uuser"),
          ("T", "Tk1=v1"), ("N", "Nn1,n2x1.5y2.5,n3")],
    "r": [("id", "r20"), ("v", "v1"), ("d", "dV"), ("c", "c7"), ("t", "t2014-05-13T16:53:20Z"), ("i", "i5"), ("u", "uuser"),
          ("T", "Tk1=v1,type=x"), ("M", "Mn1@role,w10@,r20@ro%20%le")],
    "c": [("id", "c30"), ("k", "k2"), ("s", "s2014-05-13T16:53:20Z"), ("e", "e2014-05-13T17:53:20Z"), ("d", "d1"), ("i", "i5"),
          ("u", "uuser"), ("x", "x1.5"), ("y", "y2.5"), ("X", "X3.5"), ("Y", "Y4.5"), ("T", "Tcomment=hello")],
}

OPL_VALUE_FAULTS = {
    "empty_value": lambda c, v: c,
    "garbage": lambda c, v: c + "@#!",
    "huge_int": lambda c, v: c + "99999999999999999999999999",
    "int64_max": lambda c, v: c + "9223372036854775807",
    "int64_min": lambda c, v: c + "-9223372036854775808",
    "neg_int": lambda c, v: c + "-1",
    "bad_escape": lambda c, v: v + "%zz%",
    "open_escape": lambda c, v: v + "%20",
    "long_escape": lambda c, v: v + "%123456789%",
    "huge_cp": lambda c, v: v + "%ffffffff%",
    "surrogate_cp": lambda c, v: v + "%d800%",
    "nul_cp": lambda c, v: v + "%0%" + "tail",
    "len1024": lambda c, v: c + "z" * 1024 + ("=v" if c == "T" else ""),
    "len1025": lambda c, v: c + "z" * 1025 + ("=v" if c == "T" else ""),
    "len65535": lambda c, v: c + "z" * 65535 + ("=v" if c == "T" else ""),
    "len65536": lambda c, v: c + "z" * 65536 + ("=v" if c == "T" else ""),
    "len70000": lambda c, v: c + "z" * 70000 + ("=v" if c == "T" else ""),
    "no_equal": lambda c, v: c + "k1",
    "no_value": lambda c, v: c + "k1=",
    "trailing_comma": lambda c, v: v + ",",
    "double_comma": lambda c, v: v.replace(",", ",,", 1) if "," in v else v + ",,",
    "double_equal": lambda c, v: v.replace("=", "==", 1),
    "bad_member_type": lambda c, v: c + "x1@role",
    "member_no_at": lambda c, v: c + "n1",
    "member_no_ref": lambda c, v: c + "n@role",
    "node_no_n": lambda c, v: c + "1,2",
    "node_bad_loc": lambda c, v: c + "n1x999y999,n2x1e300y5,n3x.y.",
    "bad_coord_exp": lambda c, v: c + "1e999",
    "bad_coord_range": lambda c, v: c + "181.5",
    "bad_coord_minus": lambda c, v: c + "-",
    "bad_coord_dot": lambda c, v: c + "1.",
    "bad_coord_long": lambda c, v: c + "1." + "1" * 40,
    "bad_coord_e": lambda c, v: c + "1e",
    "bad_time_short": lambda c, v: c + "2014-05-13T16:53:2",
    "bad_time_garbage": lambda c, v: c + "2014-99-99T99:99:99Z",
    "bad_time_long": lambda c, v: v + "Z",
    "bad_visible": lambda c, v: c + "X",
}


def enc_opl(d, extra):
    F = {x["pos"]: x["f"] for x in d.get("faults", [])}
    trunc = d.get("trunc")
    parts = []
    order = ["n", "w", "r", "c"]
    for lt in order:
        lf = F.get(lt)
        if lf == "missing":
            continue
        fields = []
        for i, (fname, val) in enumerate(OPL_LINES[lt]):
            name = "%s.%s" % (lt, fname)
            f = F.get(name)
            c = val[0]
            sep = " " if i else ""
            if f == "missing":
                continue
            if f == "tab_sep":
                sep = "\t"
            elif f == "double_sep":
                sep = "  "
            elif f == "no_sep":
                sep = ""
            if f in OPL_VALUE_FAULTS:
                val = OPL_VALUE_FAULTS[f](c, val)
            o = named(name, sep.encode(), val.encode("latin-1"))
            fields.append(o)
            if f == "dup":
                fields.append(Out(b" " + val.encode("latin-1")))
            if f == "unknown_field":
                fields.append(Out(b" Qfoo"))
        eol = {"crlf": b"\r\n", "none": b"", "nul": b"\x00\n", "trailing_space": b" \n", "trailing_tab": b"\t\n"}.get(lf, b"\n")
        line = cat(fields + [eol])
        if lf == "unknown_type":
            line = cat([b"x", line])
        elif lf == "comment":
            line = cat([b"# ", line])
        elif lf == "leading_space":
            line = cat([b" ", line])
        elif lf == "empty_line_before":
            line = cat([b"\n\n", line])
        elif lf == "overlong_line":
            line = cat([Out(line.b[:-len(eol)] if eol else line.b), b" " * 200000, eol])
        elif lf == "only_type":
            line = Out(lt.encode() + eol)
        elif lf == "nul_inside":
            k = len(line.b) // 2
            line = Out(line.b[:k] + b"\x00" + line.b[k:], line.marks)
        line.marks[lt] = (0, 0, len(line.b))
        parts.append(line)
        if lf == "dup":
            parts.append(Out(line.b))
    if F.get("file") == "no_final_newline" and parts:
        last = parts[-1]
        parts[-1] = Out(last.b.rstrip(b"\n"), last.marks)
    elif F.get("file") == "binary_garbage":
        parts.append(Out(bytes(range(256))))
    f = cat(parts)
    out = f.b
    if trunc:
        out = out[:cut_at(f.marks, trunc, len(out))]
    return out, f.marks


# ------------------------------------------------------------------------------------------- XML

XML_ATTRS = {
    "osm": [("version", "0.6"), ("generator", "fault_enc")],
    "osmChange": [("version", "0.6"), ("generator", "fault_enc")],
    "create": [], "modify": [], "delete": [],
    "node": [("id", "1"), ("version", "2"), ("timestamp", "2014-05-13T16:53:20Z"), ("uid", "5"), ("user", "user"), ("changeset", "7"),
             ("lat", "10.25"), ("lon", "20.5"), ("visible", "true")],
    "way": [("id", "10"), ("version", "1"), ("timestamp", "2014-05-13T16:53:20Z"), ("uid", "5"), ("user", "user"), ("changeset", "7")],
    "relation": [("id", "20"), ("version", "1"), ("timestamp", "2014-05-13T16:53:20Z"), ("uid", "5"), ("user", "user"), ("changeset", "7")],
    "changeset": [("id", "30"), ("created_at", "2014-05-13T16:53:20Z"), ("closed_at", "2014-05-13T17:53:20Z"), ("open", "false"),
                  ("user", "user"), ("uid", "5"), ("min_lat", "1.5"), ("min_lon", "2.5"), ("max_lat", "3.5"), ("max_lon", "4.5"),
                  ("num_changes", "2"), ("comments_count", "1")],
    "tag": [("k", "k1"), ("v", "v1")],
    "nd": [("ref", "1")],
    "member": [("type", "way"), ("ref", "10"), ("role", "role")],
    "discussion": [],
    "comment": [("uid", "5"), ("user", "user"), ("date", "2014-05-13T16:53:20Z")],
    "text": [],
    "bounds": [("minlat", "-1"), ("minlon", "-2"), ("maxlat", "1"), ("maxlon", "2")],
    "bbox": [("minlat", "-1"), ("minlon", "-2"), ("maxlat", "1"), ("maxlon", "2")],
    "foo": [("bar", "baz")],
}

XML_ATTR_VALUES = {
    "empty": "", "garbage": "@#!", "nonnum": "abc", "neg": "-1", "zero": "0", "huge": "99999999999999999999999999",
    "int64_max": "9223372036854775807", "int64_min": "-9223372036854775808", "uint32_max": "4294967295", "uint32_over": "4294967296",
    "float": "1.5", "exp": "1e999", "trailing": "1x", "leading_space": " 1", "plus": "+1", "hex": "0x10",
    "len1024": "z" * 1024, "len1025": "z" * 1025, "len65534": "z" * 65534, "len65535": "z" * 65535, "len65536": "z" * 65536, "len70000": "z" * 70000,
    "charref_nul_like": "a&#1;b", "charref_big": "&#x10FFFF;", "amp_entities": "&lt;&gt;&amp;&quot;&apos;", "newline": "a\nb", "utf8": "ä中\U0001F600",
    "coord_range": "181.5", "coord_long": "1." + "1" * 40, "coord_minus": "-", "coord_dot": ".", "coord_e": "1e",
    "time_short": "2014-05-13T16:53:2", "time_garbage": "2014-99-99T99:99:99Z", "time_long": "2014-05-13T16:53:20ZZ",
    "type_x": "x", "type_empty": "", "type_upper": "Node", "bool_garbage": "maybe",
}


def xml_escape(v):
    return v.replace("&", "&amp;").replace("<", "&lt;").replace('"', "&quot;")


def xml_start(el, attrs, selfclose=False, raw_values=()):
    s = "<" + el
    for k, v in attrs:
        s += ' %s="%s"' % (k, v if k in raw_values else xml_escape(v))
    return s + ("/>" if selfclose else ">")


def xml_attrs_for(el, af):
    """af: None or {"a": attribute name, "f": fault}"""
    attrs = list(XML_ATTRS.get(el, []))
    raw = set()
    if not af:
        return attrs, raw
    a, f = af["a"], af["f"]
    if f == "all_missing":
        return [], raw
    if f == "missing":
        attrs = [(k, v) for k, v in attrs if k != a]
    elif f == "dup":
        attrs = attrs + [(k, v) for k, v in attrs if k == a]
    elif f == "unknown_attr":
        attrs = attrs + [("frobnicate", "1")]
    elif f == "first":
        attrs = [(k, v) for k, v in attrs if k == a] + [(k, v) for k, v in attrs if k != a]
    elif f == "last":
        attrs = [(k, v) for k, v in attrs if k != a] + [(k, v) for k, v in attrs if k == a]
    elif f in XML_ATTR_VALUES:
        val = XML_ATTR_VALUES[f]
        if f in ("charref_nul_like", "charref_big", "amp_entities"):
            raw.add(a)
        if any(k == a for k, _ in attrs):
            attrs = [(k, (val if k == a else v)) for k, v in attrs]
        else:
            attrs = attrs + [(a, val)]
    else:
        raise Unknown("xml attribute fault %r" % f)
    return attrs, raw


XML_DOCS = {
    "entity_decl": '<?xml version="1.0"?><!DOCTYPE osm [<!ENTITY lol "lol">]><osm version="0.6"><node id="1" user="&lol;"/></osm>',
    "billion_laughs": '<?xml version="1.0"?><!DOCTYPE lolz [<!ENTITY lol "lol"><!ENTITY lol1 "&lol;&lol;&lol;&lol;&lol;&lol;&lol;&lol;&lol;&lol;">'
                      '<!ENTITY lol2 "&lol1;&lol1;&lol1;&lol1;&lol1;&lol1;&lol1;&lol1;&lol1;&lol1;"><!ENTITY lol3 "&lol2;&lol2;&lol2;&lol2;&lol2;&lol2;&lol2;&lol2;&lol2;&lol2;">'
                      '<!ENTITY lol4 "&lol3;&lol3;&lol3;&lol3;&lol3;&lol3;&lol3;&lol3;&lol3;&lol3;"><!ENTITY lol5 "&lol4;&lol4;&lol4;&lol4;&lol4;&lol4;&lol4;&lol4;&lol4;&lol4;">'
                      '<!ENTITY lol6 "&lol5;&lol5;&lol5;&lol5;&lol5;&lol5;&lol5;&lol5;&lol5;&lol5;">]><osm version="0.6"><node id="1" user="&lol6;"/></osm>',
    "external_entity": '<?xml version="1.0"?><!DOCTYPE osm [<!ENTITY xxe SYSTEM "file:///etc/passwd">]><osm version="0.6"><node id="1" user="&xxe;"/></osm>',
    "parameter_entity": '<?xml version="1.0"?><!DOCTYPE osm [<!ENTITY % pe "<!ENTITY x \'y\'>">%pe;]><osm version="0.6"/>',
    "doctype_only": '<?xml version="1.0"?><!DOCTYPE osm SYSTEM "osm.dtd"><osm version="0.6"><node id="1"/></osm>',
    "empty": "",
    "whitespace": "  \n ",
    "no_root": '<?xml version="1.0"?>',
    "text_only": "hello",
    "unclosed_root": '<?xml version="1.0"?><osm version="0.6"><node id="1"/>',
    "unclosed_attr": '<?xml version="1.0"?><osm version="0.6"><node id="1',
    "mismatched_close": '<?xml version="1.0"?><osm version="0.6"><node id="1"></way></osm>',
    "two_roots": '<?xml version="1.0"?><osm version="0.6"/><osm version="0.6"/>',
    "garbage_after_root": '<?xml version="1.0"?><osm version="0.6"/>garbage',
    "no_version": '<?xml version="1.0"?><osm><node id="1"/></osm>',
    "bad_version": '<?xml version="1.0"?><osm version="0.5"><node id="1"/></osm>',
    "version_last": '<?xml version="1.0"?><osm generator="x" upload="false" version="0.6"><node id="1"/></osm>',
    "bad_encoding": '<?xml version="1.0" encoding="no-such-encoding"?><osm version="0.6"/>',
    "utf16_decl": '<?xml version="1.0" encoding="UTF-16"?><osm version="0.6"/>',
    "latin1": '<?xml version="1.0" encoding="ISO-8859-1"?><osm version="0.6"><node id="1" user="\xe4\xf6"/></osm>',
    "bom": '﻿<?xml version="1.0"?><osm version="0.6"><node id="1"/></osm>',
    "nul_byte": '<?xml version="1.0"?><osm version="0.6"><node id="1" user="a\x00b"/></osm>',
    "control_char": '<?xml version="1.0"?><osm version="0.6"><node id="1" user="a\x01b"/></osm>',
    "invalid_utf8": None,
    "cdata_in_text": '<?xml version="1.0"?><osm version="0.6"><changeset id="1"><discussion><comment uid="1" user="u" date="2015-01-01T00:00:00Z">'
                     '<text><![CDATA[<b>bold</b> ]]]]><![CDATA[>]]></text></comment></discussion></changeset></osm>',
    "comment_and_pi": '<?xml version="1.0"?><!-- c --><?pi x?><osm version="0.6"><!-- c --><node id="1"><?pi?><!-- c --></node></osm>',
    "deep_unknown": None,
    "deep_nodes": None,
    "many_attrs": None,
    "huge_text": None,
    "text_65535": None,
    "namespaced": '<?xml version="1.0"?><o:osm xmlns:o="http://x" version="0.6"><o:node id="1"/></o:osm>',
    "chars_everywhere": '<?xml version="1.0"?><osm version="0.6">x<node id="1">y<tag k="a" v="b">z</tag>y</node>x<way id="2">q<nd ref="1">r</nd></way>'
                        '<changeset id="3">a<discussion>b<comment uid="1" user="u">c<text>d</text>e</comment>f</discussion>g</changeset></osm>',
}


def xml_doc(token):
    if token == "invalid_utf8":
        return b'<?xml version="1.0"?><osm version="0.6"><node id="1" user="a\xff\xfeb"/></osm>'
    if token == "deep_unknown":
        return ('<?xml version="1.0"?><osm version="0.6">' + "<foo>" * 5000 + "</foo>" * 5000 + "</osm>").encode()
    if token == "deep_nodes":
        return ('<?xml version="1.0"?><osm version="0.6">' + '<node id="1">' * 50 + "</node>" * 50 + "</osm>").encode()
    if token == "many_attrs":
        return ('<?xml version="1.0"?><osm version="0.6"><node id="1" ' + " ".join('a%d="%d"' % (i, i) for i in range(3000)) + "/></osm>").encode()
    if token == "huge_text":
        return ('<?xml version="1.0"?><osm version="0.6"><changeset id="1"><discussion><comment uid="1" user="u" date="2015-01-01T00:00:00Z"><text>'
                + "t" * 300000 + "</text></comment></discussion></changeset></osm>").encode()
    if token == "text_65535":
        return ('<?xml version="1.0"?><osm version="0.6"><changeset id="1"><discussion><comment uid="1" user="u" date="2015-01-01T00:00:00Z"><text>'
                + "t" * 65535 + '</text></comment><comment uid="1" user="u"><text>x</text></comment></discussion></changeset></osm>').encode()
    s = XML_DOCS[token]
    if token == "latin1":
        return s.encode("latin-1")
    if token == "nul_byte" or token == "control_char":
        return s.encode("latin-1")
    return s.encode("utf-8")


def enc_xml(d, extra):
    if "doc" in d:
        return xml_doc(d["doc"]), {}
    out = ['<?xml version="1.0" encoding="UTF-8"?>\n']
    marks = {}
    if "ev" in d:
        # events of the handler model: "S:<element>", "E", "C" (character data)
        stack = []
        for i, ev in enumerate(d["ev"]):
            pos = sum(len(x.encode("utf-8")) for x in out)
            if ev.startswith("S:"):
                el = ev[2:]
                attrs, raw = xml_attrs_for(el, None)
                out.append(xml_start(el, attrs))
                stack.append(el)
            elif ev == "E":
                out.append("</%s>" % stack.pop())
            elif ev == "C":
                out.append("x")
            else:
                raise Unknown("xml event %r" % ev)
            marks["ev%d" % i] = (pos, pos, sum(len(x.encode("utf-8")) for x in out))
        if d.get("close", True):
            while stack:
                out.append("</%s>" % stack.pop())
        b = "".join(out).encode("utf-8")
        if d.get("trunc"):
            b = b[:cut_at(marks, d["trunc"], len(b))]
        return b, marks
    if "attr" in d:
        # one element in its minimal valid context with one attribute fault
        af = d["attr"]
        el = af["el"]
        ctx = {"node": ["osm"], "way": ["osm"], "relation": ["osm"], "changeset": ["osm"], "bounds": ["osm"], "osm": [], "osmChange": [],
               "tag": ["osm", "node"], "nd": ["osm", "way"], "member": ["osm", "relation"], "comment": ["osm", "changeset", "discussion"]}[el]
        for c in ctx:
            out.append(xml_start(c, XML_ATTRS[c]))
        attrs, raw = xml_attrs_for(el, af)
        if el == "comment":
            out.append(xml_start(el, attrs, raw_values=raw) + "<text>x</text></comment>")
        elif el in ("osm", "osmChange"):
            out.append(xml_start(el, attrs, raw_values=raw) + '<node id="1"/>' + "</%s>" % el)
        else:
            out.append(xml_start(el, attrs, selfclose=True, raw_values=raw))
        for c in reversed(ctx):
            out.append("</%s>" % c)
        return "".join(out).encode("utf-8"), marks
    raise Unknown("xml description without ev/attr/doc")


# ------------------------------------------------------------------------------------------- driver

ENCODERS = {"pbf": enc_pbf, "o5m": enc_o5m, "opl": enc_opl, "xml": enc_xml}


def materialise(d):
    """description -> (bytes, rawlen, marks).  rawlen = size of the uncompressed payload the reader has to
    handle (file bytes + inflated size of zlib blobs)."""
    extra = {}
    b, marks = ENCODERS[d["fmt"]](d, extra)
    return b, len(b) + extra.get("inflated", 0), marks


def compress(b, comp, trunc_frac=None):
    if comp == "gzip":
        z = gzip.compress(b, mtime=0)
    elif comp == "bzip2":
        z = bz2.compress(b)
    else:
        return b
    if trunc_frac is not None:
        z = z[:max(0, int(len(z) * trunc_frac))]
    return z


if __name__ == "__main__":
    import json
    import sys
    for line in sys.stdin:
        d = json.loads(line)
        b, rawlen, marks = materialise(d)
        sys.stdout.write(json.dumps({"len": len(b), "rawlen": rawlen, "hex": b.hex()[:200], "marks": len(marks)}) + "\n")
