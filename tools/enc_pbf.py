"""C02 - independent OSM PBF writer derived from fileformat.proto / osmformat.proto and the PBF format
description (wiki.openstreetmap.org/wiki/PBF_Format).  Python standard library only; the protobuf
wire format is written by hand (enc_pb.py).

Everything a producer may choose comes from the TLC-exported choice vector (specs/PbfChoices.tla):
how objects are spread over blocks and groups, plain or dense nodes, raw / zlib / lz4 blobs, granularity,
lat / lon offset and date granularity of each block (they also govern the node locations a way may carry in
Way.lat / Way.lon), which optional Info fields are written, the layout
of the string table, unknown extra fields at every message level, index data in the BlobHeader,
BlobHeader and Blob sizes up to the format limits, field order inside messages, packed / unpacked /
split repeated scalars, blobs of a type the reader does not know."""
import struct

from enc_pb import (PAD_LEN, f_bytes, f_repeated, f_svarint, f_varint, lz4_literal_only, lz4_with_matches, svarint,
                    unknown_fields, varint, zlib_stream)

MAX_HEADER = 64 * 1024 - 1          # "must be less than 64 KiB"
MAX_BLOB = 32 * 1024 * 1024 - 1     # "must be less than 32 MiB" (uncompressed)
HEADER_TARGET = {"h127": 127, "h128": 128, "h255": 255, "h256": 256, "h32k": 32768, "hmax": MAX_HEADER}
BLOB_TARGET = {"b16m": 16 * 1024 * 1024, "bmax": MAX_BLOB}
MT = {"n": 0, "w": 1, "r": 2}


class PlanError(Exception):
    pass


def order(fields, how):
    fields = [f for f in fields if f]
    if how == "rev":
        return b"".join(fields[::-1])
    if how == "rot":
        h = len(fields) // 2
        return b"".join(fields[h:] + fields[:h])
    return b"".join(fields)


def pad_to(build, target, what):
    """build(n) -> bytes with n filler bytes; find n such that len == target"""
    n = max(0, target - len(build(0)))
    for _ in range(8):
        d = target - len(build(n))
        if d == 0:
            return build(n)
        n += d
        if n < 0:
            break
    raise PlanError("cannot reach %s size %d" % (what, target))


def blob_message(payload, comp, rsfirst, unk):
    if comp == "raw":
        f = [f_bytes(1, payload)]
        if unk:
            f = unknown_fields("all", 100)[:2] + f          # unknown fields must come first: readers may stop at 'raw'
        return b"".join(f)
    if comp in ("zlib", "zlib0", "zlib9"):
        data = f_bytes(3, zlib_stream(payload, {"zlib": 6, "zlib0": 0, "zlib9": 9}[comp]))
    elif comp == "lz4":
        data = f_bytes(6, lz4_literal_only(payload))
    elif comp == "lz4m":
        data = f_bytes(6, lz4_with_matches(payload))
    else:
        raise PlanError("compression " + comp)
    rs = f_varint(2, len(payload))
    f = [rs, data] if rsfirst else [data, rs]
    if unk:
        f = [unknown_fields("all", 100)[0]] + f + [unknown_fields("all", 100)[1]]
    return b"".join(f)


def fileblock(typ, payload, c):
    blob = blob_message(payload, c.get("comp", "raw"), c.get("rsfirst", True), c.get("unk", False))
    idx = c.get("idx", "none")
    unk = unknown_fields("all", 200) if c.get("unk") else []

    def header(n):
        f = [f_bytes(1, typ)]
        if idx != "none":
            f.append(f_bytes(2, bytes((i * 7 + 0x80) & 0xff for i in range(n))))
        f.append(f_varint(3, len(blob)))
        return order(f + unk, c.get("order", "canon"))
    if idx in HEADER_TARGET:
        h = pad_to(header, HEADER_TARGET[idx], "BlobHeader")
    elif idx == "small":
        h = header(9)
    else:
        h = header(0)
    if len(h) > MAX_HEADER:
        raise PlanError("BlobHeader too large")
    return struct.pack(">I", len(h)) + h + blob


# --------------------------------------------------------------------------------- OSMHeader

def header_block(c, need_dense, need_hist):
    f = []
    if c.get("bbox"):
        x1, y1, x2, y2 = c["bbox"]            # 1e-7 degrees -> nanodegrees
        f.append(f_bytes(1, order([f_svarint(1, x1 * 100), f_svarint(2, x2 * 100), f_svarint(3, y2 * 100), f_svarint(4, y1 * 100)],
                                   c.get("order", "canon"))))
    f.append(f_bytes(4, "OsmSchema-V0.6"))
    if need_dense or c.get("dense"):
        f.append(f_bytes(4, "DenseNodes"))
    if need_hist or c.get("hist"):
        f.append(f_bytes(4, "HistoricalInformation"))
    if c.get("optfeat"):
        f.append(f_bytes(5, "Sort.Type_then_ID"))
        f.append(f_bytes(5, "Has_Metadata"))
    if c.get("prog"):
        f.append(f_bytes(16, "verif enc_pbf"))
        f.append(f_bytes(17, "source string"))
        f.append(f_varint(32, 1600000000))
        f.append(f_varint(33, 4242))
        f.append(f_bytes(34, "https://example.org/replication"))
    if c.get("unk"):
        f += unknown_fields("all", 300)
    return order(f, c.get("order", "canon"))


# --------------------------------------------------------------------------------- OSMData

class StringTable:
    def __init__(self, how):
        self.how = how
        self.strs = []

    def note(self, s):
        if s != "" and s not in self.strs:
            self.strs.append(s)

    def freeze(self):
        body = list(self.strs)
        if self.how == "rev":
            body.reverse()
        elif self.how == "dup":
            body = [x for s in body for x in (s, s)] + ["never referenced"]
        self.table = [""] + body
        self.index = {}
        for i, s in enumerate(self.table):
            self.index[s] = i                 # the LAST copy wins
        self.index[""] = 0

    def __getitem__(self, s):
        return self.index[s]

    def message(self):
        return b"".join(f_bytes(1, s) for s in self.table)


def divide(v, g, what):
    q, r = divmod(v, g)
    if r:
        raise PlanError("%s %d not representable with granularity %d" % (what, v, g))
    return q


class Block:
    def __init__(self, objs, c):
        self.objs = objs
        self.c = c
        self.g = c.get("gran", 100)
        self.lato = c.get("lato", 0)
        self.lono = c.get("lono", 0)
        self.dg = c.get("dgran", 1000)
        self.st = StringTable(c.get("st", "canon"))
        for grp in c["groups"]:
            for i in grp["objs"]:
                o = objs[i]
                self.st.note(o["user"])
                for k, v in o["tags"]:
                    self.st.note(k)
                    self.st.note(v)
                for m in o.get("mems", []):
                    self.st.note(m[2])
        self.st.freeze()

    def lat(self, v):
        return divide(v * 100 - self.lato, self.g, "lat")

    def lon(self, v):
        return divide(v * 100 - self.lono, self.g, "lon")

    def ts(self, v):
        return divide(v * 1000, self.dg, "timestamp")

    def info(self, o, grp, hist):
        mode = grp.get("info", "min")
        f = []
        if o["v"] != 0 or mode == "all":
            f.append(f_varint(1, o["v"]))
        elif mode == "neg":
            f.append(f_varint(1, -1))
        if o["ts"] != 0 or mode == "all":
            f.append(f_varint(2, self.ts(o["ts"])))
        if o["cs"] != 0 or mode == "all":
            f.append(f_varint(3, o["cs"]))
        if o["uid"] != 0 or mode == "all":
            f.append(f_varint(4, o["uid"]))
        if o["user"] != "" or mode == "all":
            f.append(f_varint(5, self.st[o["user"]]))
        if not o["vis"]:
            f.append(f_varint(6, 0))
        elif mode == "all" and hist:
            f.append(f_varint(6, 1))
        if not f and mode != "empty":
            return b""
        return f_bytes(4, order(f, grp.get("order", "canon")))

    def tags(self, o, pack):
        return [f_repeated(2, [self.st[k] for k, v in o["tags"]], varint, pack),
                f_repeated(3, [self.st[v] for k, v in o["tags"]], varint, pack)]

    def group(self, grp, hist):
        PAD_LEN[0] = 5 if grp.get("lenpad") else 0
        try:
            return self._group(grp, hist)
        finally:
            PAD_LEN[0] = 0

    def _group(self, grp, hist):
        kind = grp["kind"]
        pack = grp.get("pack", "packed")
        how = grp.get("order", "canon")
        objs = [self.objs[i] for i in grp["objs"]]
        unk = unknown_fields("all", 400) if grp.get("unk") else []
        out = []
        if kind == "nodes":
            for o in objs:
                f = [f_svarint(1, o["id"])] + self.tags(o, pack) + [self.info(o, grp, hist)]
                if o["vis"]:
                    f += [f_svarint(8, self.lat(o["lat"])), f_svarint(9, self.lon(o["lon"]))]
                else:
                    f += [f_svarint(8, 0), f_svarint(9, 0)]
                out.append(f_bytes(1, order(f + unk[:2], how)))
        elif kind == "ways":
            for o in objs:
                refs, last = [], 0
                for r in o["refs"]:
                    refs.append(r - last)
                    last = r
                f = [f_varint(1, o["id"])] + self.tags(o, pack) + [self.info(o, grp, hist), f_repeated(8, refs, svarint, pack)]
                locs = o.get("locs") or []
                if any(x is not None for x in locs):     # "LocationsOnWays": Way.lat = 9, Way.lon = 10, packed sint64, DELTA coded
                    if any(x is None for x in locs) or len(locs) != len(o["refs"]):
                        raise PlanError("way with locations for some of its node references only")
                    lats, lons, lla, llo = [], [], 0, 0
                    for lon, lat in locs:
                        la, lo = self.lat(lat), self.lon(lon)
                        lats.append(la - lla)
                        lons.append(lo - llo)
                        lla, llo = la, lo
                    f += [f_repeated(9, lats, svarint, pack), f_repeated(10, lons, svarint, pack)]
                out.append(f_bytes(3, order(f + unk[:2], how)))
        elif kind == "rels":
            for o in objs:
                ids, last = [], 0
                for mt, ref, role in o["mems"]:
                    ids.append(ref - last)
                    last = ref
                f = [f_varint(1, o["id"])] + self.tags(o, pack) + [self.info(o, grp, hist),
                     f_repeated(8, [self.st[m[2]] for m in o["mems"]], varint, pack),
                     f_repeated(9, ids, svarint, pack),
                     f_repeated(10, [MT[m[0]] for m in o["mems"]], varint, pack)]
                out.append(f_bytes(4, order(f + unk[:2], how)))
        elif kind == "dense":
            mode = grp.get("info", "min")
            ids, lats, lons, kv = [], [], [], []
            vers, tss, css, uids, sids, viss = [], [], [], [], [], []
            li = lla = llo = lts = lcs = luid = lsid = 0
            for o in objs:
                ids.append(o["id"] - li)
                li = o["id"]
                if o["vis"]:
                    la, lo = self.lat(o["lat"]), self.lon(o["lon"])
                else:
                    la, lo = lla, llo
                lats.append(la - lla)
                lons.append(lo - llo)
                lla, llo = la, lo
                for k, v in o["tags"]:
                    kv += [self.st[k], self.st[v]]
                kv.append(0)
                vers.append(o["v"])
                t = self.ts(o["ts"])
                tss.append(t - lts)
                lts = t
                css.append(o["cs"] - lcs)
                lcs = o["cs"]
                uids.append(o["uid"] - luid)
                luid = o["uid"]
                s = self.st[o["user"]]
                sids.append(s - lsid)
                lsid = s
                viss.append(1 if o["vis"] else 0)
            f = [f_repeated(1, ids, svarint, pack)]
            di = []
            if mode == "neg":
                vers = [-1 if v == 0 else v for v in vers]
            if mode in ("all", "neg") or any(o["v"] for o in objs):
                di.append(f_repeated(1, vers, varint, pack))
            if mode == "all" or any(o["ts"] for o in objs):
                di.append(f_repeated(2, tss, svarint, pack))
            if mode == "all" or any(o["cs"] for o in objs):
                di.append(f_repeated(3, css, svarint, pack))
            if mode == "all" or any(o["uid"] for o in objs):
                di.append(f_repeated(4, uids, svarint, pack))
            if mode == "all" or any(o["user"] for o in objs):
                di.append(f_repeated(5, sids, svarint, pack))
            if any(not o["vis"] for o in objs) or (mode == "all" and hist):
                di.append(f_repeated(6, viss, varint, pack))
            if di or mode == "empty":
                f.append(f_bytes(5, order(di, how)))
            f += [f_repeated(8, lats, svarint, pack), f_repeated(9, lons, svarint, pack)]
            if any(o["tags"] for o in objs) or grp.get("kvalways"):
                f.append(f_repeated(10, kv, varint, pack))
            out.append(f_bytes(2, order(f + unk[:2], how)))
        else:
            raise PlanError("group kind " + kind)
        if grp.get("unk"):
            out = [unk[0]] + out + [unk[3]]
        return b"".join(out)

    def message(self, hist):
        c = self.c
        groups = [f_bytes(2, self.group(g, hist)) for g in c["groups"]]
        if c.get("emptygroup"):
            groups = [f_bytes(2, b"")] + groups
        params = []
        if self.g != 100 or c.get("gran_explicit"):
            params.append(f_varint(17, self.g))
        if self.dg != 1000 or c.get("dgran_explicit"):
            params.append(f_varint(18, self.dg))
        if self.lato != 0 or c.get("off_explicit"):
            params.append(f_varint(19, self.lato))
        if self.lono != 0 or c.get("off_explicit"):
            params.append(f_varint(20, self.lono))
        unk = unknown_fields("all", 500) if c.get("unk") else []
        st = [f_bytes(1, self.st.message())]
        how = c.get("order", "canon")
        size = c.get("size", "normal")

        def build(n):
            fill = [f_bytes(2000, b"\x00" * n)] if size in BLOB_TARGET else []
            if how == "rev":                  # parameters first, groups, string table last
                return b"".join(params[::-1] + unk + fill + groups + st)
            if how == "rot":
                return b"".join(groups + params + st + unk + fill)
            return b"".join(st + groups + params + unk + fill)
        if size in BLOB_TARGET:
            return pad_to(build, BLOB_TARGET[size], "PrimitiveBlock")
        return build(0)


def encode(objs, plan):
    blocks = plan["blocks"]
    need_dense = any(g["kind"] == "dense" for b in blocks for g in b["groups"])
    need_hist = any(not objs[i]["vis"] for b in blocks for g in b["groups"] for i in g["objs"])
    hist = need_hist or plan["hdr"].get("hist", False)
    out = [fileblock("OSMHeader", header_block(plan["hdr"], need_dense, need_hist), plan["hdr"])]
    xb = plan.get("xblobs", "none")
    alien = fileblock("OSMVerifIndex", b"\x08\x01 opaque payload of a blob type the reader does not know", {"comp": "raw"})
    if xb == "first":
        out.append(alien)
    for n, b in enumerate(blocks):
        if xb == "mid" and n == len(blocks) // 2 and n > 0:
            out.append(alien)
        out.append(fileblock("OSMData", Block(objs, b).message(hist), b))
    if xb == "end":
        out.append(alien)
    return b"".join(out)
