"""C02 - independent o5m / o5c writer derived from the format description (wiki.openstreetmap.org/wiki/O5m)
and the behaviour of its reference implementation (osmconvert).  Python standard library only.

The writer keeps an EXPLICIT string reference table (most recent first, at most `table_size` entries,
only strings whose characters - terminators not counted - add up to at most 250 bytes are entered) and
explicit delta registers (id, timestamp, changeset, lon, lat, way node ref, one member ref register per
member type).  Whether a string is written inline or as a back reference, where resets / sync / jump /
unknown datasets are placed and which header variant is used is NOT decided here: it comes from the
choice vector exported by TLC (specs/O5mTable.tla).  Where the choice vector names a table index the
writer checks that ITS table holds the wanted string at that index (cross check of the spec's table
model against this one; a disagreement is a machinery failure, not a finding)."""
from enc_pb import varint, svarint

MAX_CHARS = 250          # strings (pairs) longer than this are written inline and never enter the table


class PlanError(Exception):
    pass


def wrap32(d):
    d &= 0xffffffff
    return d - (1 << 32) if d & 0x80000000 else d


class O5mWriter:
    def __init__(self, table_size=15000, variant="o5m", log=None):
        self.N = table_size
        self.table = []          # most recent first; entries are bytes exactly as written (with terminators)
        self.out = bytearray(b"\xff\xe0\x04" + (b"o5m2" if variant == "o5m" else b"o5c2"))
        self.log = log if log is not None else []
        self._zero()

    def _zero(self):
        self.id = self.ts = self.cs = self.lon = self.lat = self.wref = 0
        self.mref = {"n": 0, "w": 0, "r": 0}

    # -- datasets without object content
    def reset(self):
        self.out.append(0xff)
        self.table = []
        self._zero()

    def eof(self):
        self.out.append(0xfe)

    def raw_dataset(self, typ, content):
        self.out.append(typ)
        if typ < 0xf0:
            self.out += varint(len(content)) + content

    def skip(self, kind):
        if kind == "sync":
            self.raw_dataset(0xee, b"\x00\x00\x00\x20")
        elif kind == "jump":
            self.raw_dataset(0xef, varint(1234567) + varint(0))
        elif kind == "unknown":        # a dataset type no version of the format defines; content full of marker bytes
            self.raw_dataset(0x2a, b"\xff\x10\x00\xfe\xe0\x04o5m2" + bytes(range(200, 256)))
        elif kind == "unknown0":       # ... with empty content
            self.raw_dataset(0x99, b"")
        elif kind == "unknownL":       # ... with a length that needs a 2 byte varint
            self.raw_dataset(0xda, b"\xff" * 300)
        elif kind == "byte":           # single byte datasets 0xf0..0xfd: no length, no content
            self.out.append(0xf3)
        else:
            raise PlanError("skip kind " + kind)

    def bbox(self, box):
        x1, y1, x2, y2 = box
        self.raw_dataset(0xdb, svarint(x1) + svarint(y1) + svarint(x2) + svarint(y2))

    def file_timestamp(self, ts):
        self.raw_dataset(0xdc, svarint(ts))

    # -- strings
    def _string(self, body, how):
        """body: the string (pair) with its terminators, as bytes.  how: 'inl' or a table index >= 1"""
        if how == "inl":
            self.log.append(("inl", body))
            n_chars = self._chars(body)
            if n_chars <= MAX_CHARS:
                self.table.insert(0, body)
                del self.table[self.N:]
            return b"\x00" + body
        idx = int(how)
        if idx < 1 or idx > len(self.table):
            raise PlanError("reference %d beyond the %d table entries of the writer" % (idx, len(self.table)))
        if self.table[idx - 1] != body:
            raise PlanError("table of the writer holds %r at index %d, the choice vector expects %r"
                            % (self.table[idx - 1][:30], idx, body[:30]))
        self.log.append(("ref", idx))
        return varint(idx)

    @staticmethod
    def _chars(body):
        # a pair 'a\0b\0' has len-2 characters, a single string 'a\0' has len-1
        return len(body) - O5mWriter._nterm(body)

    @staticmethod
    def _nterm(body):
        return body.nterm

    def storable(self, body):
        return self._chars(body) <= MAX_CHARS

    # -- object parts
    def _info(self, o, ch):
        v = o["v"]
        if v == 0:
            if o["ts"] or o["cs"] or o["uid"] or o["user"]:
                raise PlanError("o5m cannot carry author information without a version")
            return b"\x00"
        b = varint(v)
        b += svarint(o["ts"] - self.ts)
        self.ts = o["ts"]
        if o["ts"] == 0:
            if o["cs"] or o["uid"] or o["user"]:
                raise PlanError("o5m cannot carry changeset/user without a timestamp")
            return b
        b += svarint(wrap32(o["cs"] - self.cs))
        self.cs = o["cs"]
        b += self._string(user_pair(o["uid"], o["user"]), ch.get("user", "inl"))
        return b

    def _tags(self, o, ch):
        how = ch.get("tags") or ["inl"] * len(o["tags"])
        b = b""
        for (k, v), h in zip(o["tags"], how):
            b += self._string(pair(k.encode(), v.encode()), h)
        return b

    def obj(self, o, ch):
        t = o["t"]
        b = svarint(o["id"] - self.id)
        self.id = o["id"]
        b += self._info(o, ch)
        if o["vis"]:
            if t == "n":
                if o["lon"] is None:
                    raise PlanError("visible o5m node needs a location")
                b += svarint(wrap32(o["lon"] - self.lon)) + svarint(wrap32(o["lat"] - self.lat))
                self.lon, self.lat = o["lon"], o["lat"]
            elif t == "w":
                r = b""
                for ref in o["refs"]:
                    r += svarint(ref - self.wref)
                    self.wref = ref
                b += varint(len(r)) + r
            else:
                r = b""
                how = ch.get("roles") or ["inl"] * len(o["mems"])
                for (mt, ref, role), h in zip(o["mems"], how):
                    r += svarint(ref - self.mref[mt])
                    self.mref[mt] = ref
                    r += self._string(single({"n": b"0", "w": b"1", "r": b"2"}[mt] + role.encode()), h)
                b += varint(len(r)) + r
            b += self._tags(o, ch)
        else:
            if o["tags"] or o.get("refs") or o.get("mems") or o.get("lon") is not None:
                raise PlanError("a deleted o5m object has no body")
        self.raw_dataset({"n": 0x10, "w": 0x11, "r": 0x12}[t], b)


class Body(bytes):
    """bytes of a string (pair) as written, remembering how many terminators belong to it"""
    nterm = 0


def pair(a, b):
    r = Body(a + b"\x00" + b + b"\x00")
    r.nterm = 2
    return r


def single(a):
    r = Body(a + b"\x00")
    r.nterm = 1
    return r


def user_pair(uid, user):
    if uid == 0 and user == "":
        return pair(b"", b"")                       # anonymous: both strings empty (osmconvert)
    if uid == 0:
        raise PlanError("o5m: uid 0 with a user name is outside the domain")
    return pair(varint(uid), user.encode())


def encode(objs, plan, table_size=15000):
    """objs: concrete object list; plan: {'variant', 'eof', 'steps': [...]}.  Returns (bytes, log)."""
    w = O5mWriter(table_size, plan.get("variant", "o5m"))
    for st in plan["steps"]:
        a = st["a"]
        if a == "reset":
            w.reset()
        elif a == "skip":
            w.skip(st["kind"])
        elif a == "bbox":
            w.bbox(st["box"])
        elif a == "filets":
            w.file_timestamp(st["ts"])
        elif a == "obj":
            w.obj(objs[st["i"]], st)
        else:
            raise PlanError("step " + a)
    if plan.get("eof", True):
        w.eof()
    return bytes(w.out), w.log
